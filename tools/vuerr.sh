#!/bin/sh
# tools/vuerr.sh <unit>: verus errors of a unit without the canary noise
/verif/tools/vu.py "$@" 2>&1 | python3 -c "
import sys,re
t=sys.stdin.read()
blocks=re.split(r'\n(?=error|warning|note|verification results)', t)
for b in blocks:
    if b.startswith('warning') or b.startswith('note'): continue
    if 'ensures false' in b and 'canary' in b: continue
    print(b[:1500]); print()
"
