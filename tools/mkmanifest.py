#!/usr/bin/env python3
"""regenerate /verif/MANIFEST.json from vx/registry.py"""
import json, os, sys
VERIF = os.path.dirname(os.path.dirname(os.path.abspath(__file__)))
sys.path.insert(0, VERIF)
from vx import registry

checks = []
for pid in sorted(registry.PROPERTIES):
    d = registry.PROPERTIES[pid]
    checks.append(dict(
        property_id=pid,
        quick_cmd=f'./check {pid} --tier quick',
        thorough_cmd=f'./check {pid} --tier thorough',
        evidence_file=f'/verif/evidence/{pid}.json',
        replay_cmd_template=f'./check {pid} --replay {{path}}',
        engine='+'.join(e for e in ('verus', 'kani', 'enum') if d.get(e)),
        level_claimed=dict(category=d['level'], text=d['claim'], design_ref=f'DESIGN.md section 5/{pid}'),
        level_note=d['note'],
        technique=d['technique'],
    ))
m = dict(
    version=1,
    setup_cmd='true',
    hooks=dict(guard='none', enable='no hooks: contracts are spliced into a per-run extraction of /repo (Verus) or a per-run scratch copy of the workspace (Kani); /repo is never built with a special flag',
               baseline_off_cmd='cd /repo && cargo test --workspace --no-fail-fast --offline', source_commits=[], add_only=True),
    engines=[
        dict(name='verus', path='/verif/vx', serves_properties=sorted(p for p, d in registry.PROPERTIES.items() if d.get('verus')),
             kind_free_text='contract-based deductive verification: functions cut mechanically from /repo on every run, contracts spliced in, Verus 0.2026.09.13 / Z3 discharges every obligation (unbounded)'),
        dict(name='enum', path='/verif/kx/enumrun.py', serves_properties=sorted(p for p, d in registry.PROPERTIES.items() if d.get('enum')),
             kind_free_text='bounded stand-in only: native exhaustive enumeration of the real function up to a stated bound against an independent oracle (for string code neither verifier reaches); never counted as proved'),
        dict(name='kani', path='/verif/kx', serves_properties=sorted(p for p, d in registry.PROPERTIES.items() if d.get('kani')),
             kind_free_text='Kani 0.68 / CBMC on a scratch copy of the real crates: loop-free full-domain harnesses (complete) and explicitly bounded stand-ins (never counted as proved)'),
    ],
    checks=checks,
    not_applicable=[dict(property_id=k, reason=v) for k, v in sorted(registry.NOT_APPLICABLE.items())],
    notes='See DESIGN.md. known_findings.jsonl lists fixed/known findings. Exit codes: 0 held, 1 VIOLATION, 2 UNDECIDED (infrastructure; never an alarm).',
)
json.dump(m, open(os.path.join(VERIF, 'MANIFEST.json'), 'w'), indent=1)
print('wrote MANIFEST.json with', len(checks), 'checks,', len(m['not_applicable']), 'not applicable')
