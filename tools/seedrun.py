#!/usr/bin/env python3
"""run the registered check(s) of a property against each seeded change (applied in a scratch worktree, never in /repo).
usage: seedrun.py <seed_dir> [PROP/x ...]    seed_dir has <PROP>/<x>/patch.diff ; results -> <seed_dir>/detect.jsonl"""
import json, os, re, subprocess, sys
sd = sys.argv[1]
sel = sys.argv[2:]
WT = '/tmp/sw2'
def sh(cmd, cwd=None, env=None, timeout=7200):
    p = subprocess.run(cmd, shell=True, cwd=cwd, capture_output=True, text=True, timeout=timeout, env=env)
    return p.returncode, p.stdout + p.stderr
sh(f'git -C /repo worktree remove --force {WT}; git -C /repo worktree prune; rm -rf {WT}')
rc, o = sh(f'git -C /repo worktree add -q --detach {WT} HEAD'); assert rc == 0, o
items = sel or sorted(f'{p}/{x}' for p in os.listdir(sd) if re.match(r'C\d+$', p) for x in os.listdir(os.path.join(sd, p)) if os.path.exists(os.path.join(sd, p, x, 'patch.diff')))
for it in items:
    pid, x = it.split('/')
    sh('git checkout -q -- . && git clean -qfd', cwd=WT)
    rc, o = sh(f'git apply {sd}/{pid}/{x}/patch.diff', cwd=WT)
    if rc != 0:
        print(json.dumps(dict(id=pid, x=x, error='patch does not apply: ' + o[-200:])), flush=True); continue
    env = dict(os.environ, VERIF_REPO=WT, VERIF_EVIDENCE_DIR='/tmp/seed_evidence', VERIF_REPLAY_DIR='/tmp/seed_replays')
    props = [pid] + ([p for p in (os.environ.get('ALSO', '').split(',')) if p])
    res = dict(id=pid, x=x, runs={})
    for p in props:
        rc, o = sh(f'/verif/check {p} --tier quick', env=env)
        res['runs'][p] = dict(rc=rc, lines=[l[:400] for l in o.splitlines() if re.match(r'VIOLATION|UNDECIDED|KNOWN|  failed obligation', l)][:8])
    res['detected'] = any(r['rc'] == 1 for r in res['runs'].values())
    print(json.dumps(res), flush=True)
    with open(os.path.join(sd, 'detect.jsonl'), 'a') as f:
        f.write(json.dumps(res) + '\n')
sh('git checkout -q -- . && git clean -qfd', cwd=WT)
sh(f'git -C /repo worktree remove --force {WT}; git -C /repo worktree prune')
