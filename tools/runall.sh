#!/bin/sh
# run every registered quick check on the current /repo tree and validate the evidence files
cd /verif || exit 2
rc=0
for p in $(python3 -c "import json;print(' '.join(c['property_id'] for c in json.load(open('MANIFEST.json'))['checks']))"); do
  ./check $p --tier ${1:-quick} > /tmp/runall.$p.log 2>&1; r=$?
  tail -1 /tmp/runall.$p.log
  [ $r -ne 0 ] && { rc=1; grep -E "VIOLATION|UNDECIDED|KNOWN" /tmp/runall.$p.log | cut -c1-300; }
done
python3-vt - <<'PY' || rc=1
import json,jsonschema,sys
s=json.load(open('/root/.vp/EVIDENCE.schema.json'))
m=json.load(open('/verif/MANIFEST.json'))
jsonschema.validate(m, json.load(open('/root/.vp/MANIFEST.schema.json')))
bad=0
for c in m['checks']:
    e=json.load(open(c['evidence_file']))
    try: jsonschema.validate(e,s)
    except Exception as x: print('EVIDENCE INVALID', c['property_id'], str(x)[:200]); bad=1
    if e['level']=='proof' and e['coverage']['obligations'] != e['coverage']['discharged']: print('EVIDENCE discharged < obligations beyond the known findings', c['property_id']); bad=1
    if e['level']!=c['level_claimed']['category']: print('LEVEL MISMATCH', c['property_id']); bad=1
print('evidence ok' if not bad else 'EVIDENCE PROBLEMS'); sys.exit(bad)
PY
exit $rc
