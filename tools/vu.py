#!/usr/bin/env python3
"""dev helper: build one unit from /repo and run verus on it with human-readable errors.  usage: tools/vu.py <unit> [verus args]"""
import importlib, os, subprocess, sys
sys.path.insert(0, os.path.dirname(os.path.dirname(os.path.abspath(__file__))))
from vx.unit import Unit
name = sys.argv[1]
mod = importlib.import_module('vx.units.' + name)
u = Unit(name, mod.PROPS, '')
mod.build(u)
text, origin = u.render()
os.makedirs('/tmp/vu', exist_ok=True)
p = f'/tmp/vu/{name}.rs'
open(p, 'w').write(text)
cmd = ['verus', p, '--triggers-mode', 'silent', '--multiple-errors', '6'] + list(getattr(mod, 'VERUS_ARGS', ())) + sys.argv[2:]
if getattr(mod, 'RLIMIT', None):
    cmd += ['--rlimit', str(mod.RLIMIT)]
print(' '.join(cmd))
sys.exit(subprocess.call(cmd))
