#!/usr/bin/env python3
"""confirm seeded changes: demo passes on clean tree, fails with patch; full suite passes with patch (demo excluded).
usage: seedconfirm.py <seed_out_dir> [ids...]   writes <seed_out_dir>/confirm.jsonl"""
import json, os, re, subprocess, sys, shutil
out = sys.argv[1]
ids = sys.argv[2:] or sorted(d for d in os.listdir(out) if re.match(r'C\d+$', d))
WT = '/tmp/sw'
TGT = '/tmp/sw_target'
def sh(cmd, cwd=None, timeout=3000):
    p = subprocess.run(cmd, shell=True, cwd=cwd, capture_output=True, text=True, timeout=timeout)
    return p.returncode, p.stdout + p.stderr
subprocess.run(f'git -C /repo worktree remove --force {WT}; git -C /repo worktree prune; rm -rf {WT}', shell=True, capture_output=True)
rc, o = sh(f'git -C /repo worktree add -q --detach {WT} HEAD')
assert rc == 0, o
res = []
for pid in ids:
    for x in ('a', 'b'):
        d = os.path.join(out, pid, x)
        if not os.path.exists(os.path.join(d, 'patch.diff')):
            continue
        isdiff = not os.path.exists(os.path.join(d, 'demo.rs')) and os.path.exists(os.path.join(d, 'demo.diff'))
        if isdiff:
            loc = re.search(r'^\+\+\+ b/(\S+)', open(os.path.join(d, 'demo.diff')).read(), re.M).group(1)
            crate = loc.split('/')[0]
            tname = None
        else:
            loc = open(os.path.join(d, 'demo_location.txt')).read().split()[0].strip()
            crate = loc.split('/')[0]
            tname = os.path.splitext(os.path.basename(loc))[0]
        def put_demo():
            if isdiff:
                return sh(f'git apply {d}/demo.diff', cwd=WT)
            os.makedirs(os.path.dirname(os.path.join(WT, loc)), exist_ok=True)
            shutil.copy(os.path.join(d, 'demo.rs'), os.path.join(WT, loc))
        def rm_demo():
            if isdiff:
                return sh(f'git apply -R {d}/demo.diff', cwd=WT)
            os.remove(os.path.join(WT, loc))
        testcmd = f'cargo test --offline -p {crate} --lib seed_demo' if isdiff else f'cargo test --offline -p {crate} --test {tname}'
        sh('git checkout -q -- . && git clean -qfd', cwd=WT)
        r = dict(id=pid, x=x, loc=loc)
        rc, o = sh(f'git apply --check {d}/patch.diff', cwd=WT)
        r['applies'] = rc == 0
        if rc != 0:
            r['apply_err'] = o[-300:]
            res.append(r); print(json.dumps(r), flush=True); continue
        put_demo()
        env = f'CARGO_TARGET_DIR={TGT}'
        rc, o = sh(f'{env} {testcmd} 2>&1 | tail -15', cwd=WT)
        r['clean_demo_pass'] = bool(re.search(r'test result: ok', o)) and 'FAILED' not in o
        sh(f'git apply {d}/patch.diff', cwd=WT)
        rc, o = sh(f'{env} timeout 600 {testcmd} 2>&1 | tail -15', cwd=WT)
        r['patched_demo_fail'] = ('FAILED' in o) or ('test result: FAILED' in o) or ('timed out' in o)
        r['patched_demo_tail'] = o[-300:]
        rm_demo()
        rc, o = sh(f'{env} cargo test --workspace --no-fail-fast --offline 2>&1 | grep -E "^test result|FAILED|panicked" | head -60', cwd=WT)
        fails = [l for l in o.splitlines() if 'FAILED' in l or 'failed' in l and not l.strip().endswith('0 failed; 0 ignored; 0 measured; 0 filtered out; finished in 0.00s')]
        nfail = sum(int(m.group(1)) for m in re.finditer(r'(\d+) failed;', o))
        r['suite_failed_tests'] = nfail
        r['suite_ok'] = nfail == 0 and 'test result' in o
        res.append(r); print(json.dumps(r), flush=True)
        with open(os.path.join(out, 'confirm.jsonl'), 'a') as f:
            f.write(json.dumps(r) + '\n')
sh('git checkout -q -- . && git clean -qfd', cwd=WT)
subprocess.run(f'git -C /repo worktree remove --force {WT}; git -C /repo worktree prune', shell=True, capture_output=True)
