#!/bin/sh
# tools/mut.sh <file-in-repo> <sed-expr> <check args...> : apply a textual mutation to /repo, run ./check, revert.
f="$1"; e="$2"; shift 2
cp "/repo/$f" /var/tmp/mut.bak || exit 3
sed -i "$e" "/repo/$f"
if cmp -s "/repo/$f" /var/tmp/mut.bak; then echo "MUTATION DID NOT APPLY"; exit 3; fi
/verif/check "$@" 2>&1 | grep -E "VIOLATION|UNDECIDED|failed obligation|rc=" | cut -c1-400
cp /var/tmp/mut.bak "/repo/$f"; rm -f /var/tmp/mut.bak
git -C /repo status --short | head -3
