#!/usr/bin/env python3
"""confirm a seeded change produced by an independent sub-agent and keep it under /verif/seeded/<ID>/.

usage: seedtake.py <ID> <agent_worktree> [--crate CRATE --dest REL_DIR]     e.g. seedtake.py C10-a /tmp/seed/C10-a

The agent leaves  <wt>/SEED/patch.diff, <wt>/SEED/demo/*.rs (+ README.txt), <wt>/SEED/meta.json.
Confirmation happens in a *fresh* scratch worktree of /repo HEAD (never in /repo, never in the agent's tree):
  1. patch applies;  2. demo passes without the patch;  3. demo fails with the patch;  4. the existing suite passes with the patch (demo removed).
The demo files are integration tests: `SEED/demo/x.rs -> <crate>/tests/x.rs` (crate taken from the README's `-p <crate>`)."""
import json, os, re, shutil, subprocess, sys

def sh(cmd, cwd=None, timeout=3600):
    p = subprocess.run(cmd, shell=True, cwd=cwd, capture_output=True, text=True, timeout=timeout, env=dict(os.environ, CARGO_NET_OFFLINE='true'))
    return p.returncode, p.stdout + p.stderr

sid, wt = sys.argv[1], sys.argv[2]
seed = os.path.join(wt, 'SEED')
readme = open(os.path.join(seed, 'demo', 'README.txt')).read()
crate = re.search(r'-p\s+([a-z_A-Z0-9-]+)', readme)
crate = sys.argv[sys.argv.index('--crate') + 1] if '--crate' in sys.argv else (crate.group(1) if crate else None)
demos = [f for f in os.listdir(os.path.join(seed, 'demo')) if f.endswith('.rs')]
dest = sys.argv[sys.argv.index('--dest') + 1] if '--dest' in sys.argv else None
if dest is None:
    m = re.search(r'->\s*(\S+/tests)/\S+\.rs', readme)
    dest = m.group(1) if m else f'{crate}/tests'
W = '/tmp/seedconfirm-' + sid
sh(f'git -C /repo worktree remove --force {W}; git -C /repo worktree prune; rm -rf {W}')
rc, o = sh(f'git -C /repo worktree add -q --detach {W} HEAD'); assert rc == 0, o
res = dict(repo_head=sh('git -C /repo rev-parse --short HEAD')[1].strip())
try:
    rc, o = sh(f'git apply --check {seed}/patch.diff', cwd=W)
    res['patch_applies'] = rc == 0
    if rc != 0:
        res['error'] = o[-300:]
    else:
        os.makedirs(os.path.join(W, dest), exist_ok=True)
        for f in demos:
            shutil.copy(os.path.join(seed, 'demo', f), os.path.join(W, dest, f))
        tests = ' '.join(f'--test {f[:-3]}' for f in demos)
        pk = f'-p {crate}' if crate and crate not in ('feather-build-rs',) else ''
        rc, o = sh(f'cargo test --offline {pk} {tests} 2>&1 | tail -30', cwd=W)
        res['demo_passes_on_clean_tree'] = ('test result: ok' in o) and ('FAILED' not in o) and ('error' not in o.split('test result')[0][-2000:] or 'test result: ok' in o)
        res['clean_tail'] = o[-400:]
        sh(f'git apply {seed}/patch.diff', cwd=W)
        rc, o = sh(f'cargo test --offline {pk} {tests} 2>&1 | tail -30', cwd=W)
        res['demo_fails_with_patch'] = 'FAILED' in o or 'panicked' in o or 'timed out' in o
        res['patched_tail'] = o[-400:]
        for f in demos:
            os.remove(os.path.join(W, dest, f))
        rc, o = sh('cargo test --workspace --no-fail-fast --offline 2>&1 | grep -E "^test result|FAILED|^error" ', cwd=W)
        res['existing_suite_passes_with_patch'] = ('FAILED' not in o) and ('error' not in o) and o.count('test result: ok') >= 20
        res['suite_summary'] = f"{o.count('test result: ok')} test binaries ok, " + ('no failure' if 'FAILED' not in o else 'FAILURES')
finally:
    sh(f'git -C /repo worktree remove --force {W}; git -C /repo worktree prune; rm -rf {W}')
ok = all(res.get(k) for k in ('patch_applies', 'demo_passes_on_clean_tree', 'demo_fails_with_patch', 'existing_suite_passes_with_patch'))
print(json.dumps(res, indent=1))
if not ok:
    print('NOT CONFIRMED', sid); sys.exit(1)
out = os.path.join('/verif/seeded', sid)
os.makedirs(os.path.join(out, 'demo'), exist_ok=True)
shutil.copy(os.path.join(seed, 'patch.diff'), os.path.join(out, 'patch.diff'))
for f in os.listdir(os.path.join(seed, 'demo')):
    shutil.copy(os.path.join(seed, 'demo', f), os.path.join(out, 'demo', f))
am = json.load(open(os.path.join(seed, 'meta.json'))) if os.path.exists(os.path.join(seed, 'meta.json')) else {}
files = sorted(set(re.findall(r'^\+\+\+ b/(\S+)', open(os.path.join(seed, 'patch.diff')).read(), re.M)))
meta = dict(property=sid.split('-')[0], variant=sid.split('-')[1], summary=am.get('summary'), needs_to_manifest=am.get('needs_to_manifest'), files_changed=files,
            demo_location=[f'{dest}/{f}' for f in demos], demo_cmd=f'cargo test --offline -p {crate} ' + ' '.join(f'--test {f[:-3]}' for f in demos),
            confirmed=dict(patch_applies=True, demo_passes_on_clean_tree=True, demo_fails_with_patch=True, existing_suite_passes_with_patch=True, repo_head=res['repo_head'],
                           suite=res.get('suite_summary'),
                           how='tools/seedtake.py in a fresh scratch worktree of /repo HEAD: git apply; cargo test (demo) clean/patched; cargo test --workspace --no-fail-fast --offline with the patch and without the demo'),
            origin='fresh sub-agent given only the property text and its own scratch worktree; its own report of what it ran: ' + json.dumps(am.get('ran'))[:1500])
json.dump(meta, open(os.path.join(out, 'meta.json'), 'w'), indent=1)
print('saved', out)
