#!/usr/bin/env python3
"""run the registered quick check of every seeded change in /verif/seeded/<PROP>-<x>/ (patch applied in a scratch worktree of /repo, never in /repo)
and record the outcome in its meta.json.   usage: seedcheck.py [PROP-x ...]"""
import json, os, re, subprocess, sys
SD = '/verif/seeded'
WT = '/tmp/sw3'
def sh(cmd, cwd=None, env=None, timeout=7200):
    p = subprocess.run(cmd, shell=True, cwd=cwd, capture_output=True, text=True, timeout=timeout, env=env)
    return p.returncode, p.stdout + p.stderr
sh(f'git -C /repo worktree remove --force {WT}; git -C /repo worktree prune; rm -rf {WT}')
rc, o = sh(f'git -C /repo worktree add -q --detach {WT} HEAD'); assert rc == 0, o
items = sys.argv[1:] or sorted(d for d in os.listdir(SD) if os.path.exists(os.path.join(SD, d, 'patch.diff')))
for it in items:
    pid = it.split('-')[0]
    sh('git checkout -q -- . && git clean -qfd', cwd=WT)
    rc, o = sh(f'git apply {SD}/{it}/patch.diff', cwd=WT)
    mp = os.path.join(SD, it, 'meta.json')
    meta = json.load(open(mp))
    if rc != 0:
        meta['detection'] = dict(detected=None, error='patch does not apply to the current HEAD of /repo any more: ' + o[-200:])
    else:
        env = dict(os.environ, VERIF_REPO=WT, VERIF_EVIDENCE_DIR='/tmp/seed_evidence', VERIF_REPLAY_DIR='/tmp/seed_replays')
        rc, o = sh(f'/verif/check {pid} --tier quick', env=env)
        lines = [l[:300] for l in o.splitlines() if re.match(r'VIOLATION|UNDECIDED|KNOWN|  failed obligation', l)][:4]
        failed = sorted({m.group(1) for m in re.finditer(r'^  failed obligation: (\S+)', o, re.M)})[:20]
        meta['detection'] = dict(detected=(rc == 1), rc=rc, lines=lines, failed_obligations=failed, repo_head=subprocess.run('git -C /repo rev-parse --short HEAD', shell=True, capture_output=True, text=True).stdout.strip(),
                                 how='tools/seedcheck.py: patch applied in a scratch worktree, ./check <property> --tier quick with VERIF_REPO pointing at it')
    json.dump(meta, open(mp, 'w'), indent=1)
    print(it, 'DETECTED' if meta['detection'].get('detected') else ('ERROR' if meta['detection'].get('error') else 'missed'), flush=True)
sh('git checkout -q -- . && git clean -qfd', cwd=WT)
sh(f'git -C /repo worktree remove --force {WT}; git -C /repo worktree prune')
