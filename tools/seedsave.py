#!/usr/bin/env python3
"""copy confirmed seeded changes into /verif/seeded/<PROP>-<x>/ (patch.diff, demo, README.md, meta.json).
usage: seedsave.py <seed_out_dir>   (needs confirm.jsonl; detect.jsonl optional)"""
import json, os, re, shutil, sys
src = sys.argv[1]
dst = '/verif/seeded'
conf = {(r['id'], r['x']): r for r in map(json.loads, open(os.path.join(src, 'confirm.jsonl')))}
det = {}
if os.path.exists(os.path.join(src, 'detect.jsonl')):
    for r in map(json.loads, open(os.path.join(src, 'detect.jsonl'))):
        det[(r['id'], r['x'])] = r
for (pid, x), c in sorted(conf.items()):
    ok = c.get('applies') and c.get('clean_demo_pass') and c.get('patched_demo_fail') and c.get('suite_ok')
    if not ok:
        print('NOT CONFIRMED', pid, x, c); continue
    d = os.path.join(src, pid, x)
    o = os.path.join(dst, f'{pid}-{x}')
    os.makedirs(o, exist_ok=True)
    for f in ('patch.diff', 'demo.rs', 'demo.diff', 'README.md'):
        if os.path.exists(os.path.join(d, f)):
            shutil.copy(os.path.join(d, f), os.path.join(o, f))
    readme = open(os.path.join(d, 'README.md')).read()
    files = sorted(set(re.findall(r'^\+\+\+ b/(\S+)', open(os.path.join(d, 'patch.diff')).read(), re.M)))
    meta = dict(property=pid, variant=x, files_changed=files, demo_location=c.get('loc'),
                needs_to_manifest='see README.md (written by the independent sub-agent that produced the change)',
                confirmed=dict(patch_applies=True, demo_passes_on_clean_tree=True, demo_fails_with_patch=True, existing_suite_passes_with_patch=True,
                               how='tools/seedconfirm.py in a scratch worktree of /repo: git apply; cargo test (demo) clean/patched; cargo test --workspace --no-fail-fast --offline with the patch and without the demo'),
                origin='fresh sub-agent given only the property text and its own scratch worktree')
    old = {}
    if os.path.exists(os.path.join(o, 'meta.json')):
        old = json.load(open(os.path.join(o, 'meta.json')))
    if (pid, x) in det:
        r = det[(pid, x)]
        meta['detection'] = dict(detected=r.get('detected'), runs={p: dict(rc=v['rc'], lines=v['lines'][:3]) for p, v in r.get('runs', {}).items()},
                                 how='tools/seedrun.py: patch applied in a scratch worktree, ./check <property> --tier quick with VERIF_REPO pointing at it')
    elif 'detection' in old:
        meta['detection'] = old['detection']
    json.dump(meta, open(os.path.join(o, 'meta.json'), 'w'), indent=1)
    print('saved', o, 'detected=' + str(meta.get('detection', {}).get('detected')))
