"""Engine E2: Kani on a scratch copy of the real workspace (DESIGN 2.2).

/repo is rsync'ed to <scratch>/ws, anyhow is replaced by the unit-struct shim, harness modules from
kx/harness/*.rs are appended to the file that owns the private items they need, and `cargo kani` runs the
harnesses. A harness is either *complete* (loop-free or loops bounded by a type-level constant; full-domain inputs;
unwinding assertions on) or *bounded* (stated bound; reported separately, never counted as proved).
"""
import os
import re
import resource
import shutil
import subprocess
import time

from vx.rustcut import Source, CutError
from kx.groups import GROUPS

VERIF = os.path.dirname(os.path.dirname(os.path.abspath(__file__)))
REPO = os.environ.get('VERIF_REPO', '/repo')

MEM_LIMIT = int(os.environ.get('VERIF_KANI_MEM_GB', '14')) << 30


def _limits():
    # every cbmc child inherits this: a runaway solver dies instead of exhausting the machine (no swap here)
    resource.setrlimit(resource.RLIMIT_AS, (MEM_LIMIT, MEM_LIMIT))


SHIM_NOTE = ('Kani results: anyhow replaced by a unit-struct shim in the scratch copy (error values lose their message; control flow identical); '
             'backtrace feature dropped')


CACHE = os.environ.get('VERIF_CACHE', '/var/tmp/verif-cache')
_locks = []


_held = set()


def cached_ws(name, scratch):
    """a scratch copy of /repo at a *stable* path (so that cargo's build cache under CACHE is reused between runs),
    refreshed from /repo's working tree on every run (rsync --checksum --delete) and guarded by a lock file that is
    held until this process exits.  VERIF_NOCACHE=1 falls back to a throw-away copy under the per-run scratch dir."""
    import fcntl
    if os.environ.get('VERIF_NOCACHE'):
        ws = os.path.join(scratch, name)
        tdir = scratch
    else:
        os.makedirs(CACHE, exist_ok=True)
        if name not in _held:   # re-entrant within one process (a second flock on a new descriptor would wait for ourselves)
            lock = open(os.path.join(CACHE, name + '.lock'), 'w')
            fcntl.flock(lock, fcntl.LOCK_EX)
            _locks.append(lock)
            _held.add(name)
        ws = os.path.join(CACHE, name)
        tdir = CACHE
    os.makedirs(ws, exist_ok=True)
    subprocess.run(['rsync', '-a', '--checksum', '--delete', '--exclude', '/target', '--exclude', '.git', REPO + '/', ws + '/'], check=True)
    return ws, tdir


_ws_cache = {}


def make_ws(scratch):
    if 'kani' in _ws_cache:
        return _ws_cache['kani']
    ws, tdir = cached_ws('ws-kani', scratch)
    shutil.copytree(os.path.join(VERIF, 'kx', 'shim', 'anyhow'), os.path.join(ws, 'verif_anyhow_shim'), dirs_exist_ok=True)
    p = os.path.join(ws, 'Cargo.toml')
    t = open(p).read()
    t2 = re.sub(r'anyhow\s*=\s*\{\s*version\s*=\s*"([^"]+)"\s*,\s*features\s*=\s*\[[^\]]*\]\s*\}', r'anyhow = { version = "\1" }', t)
    t2 += '\n[patch.crates-io]\nanyhow = { path = "verif_anyhow_shim" }\n'
    open(p, 'w').write(t2)
    _ws_cache['kani'] = (ws, tdir)
    return ws, tdir


def install_group(ws, gname):
    g = GROUPS[gname]
    text = open(os.path.join(VERIF, 'kx', 'harness', g['harness_file'])).read()
    # `// @paste fn <name> from <file> [inside <outer fn>]` : nested fns have no Rust path, paste them verbatim
    def paste(m):
        name, file, _, outer = m.group(1), m.group(2), m.group(3), m.group(4)
        s = Source(os.path.join(ws, file))
        within = None
        if outer:
            o = s.cut_fn(outer)
            within = (o['open'] + 1, o['close'])
        return s.cut_fn(name, within=within)['text']
    text = re.sub(r'^[ \t]*// @paste fn (\w+) from (\S+)( inside (\w+))?[ \t]*$', paste, text, flags=re.M)
    target = os.path.join(ws, g['file'])
    src = open(target).read()
    block = f'\n#[cfg(kani)]\nmod verif_kani_{gname} {{\n{text}\n}}\n'
    if g.get('inside_mod'):
        s = Source(target, src)
        it = s.cut_item('mod', g['inside_mod'])
        src = src[:it['close']] + block + src[it['close']:]
    else:
        src = src + block
    open(target, 'w').write(src)
    for extra in g.get('crate_attrs', []):
        pass


def parse_kani(out):
    """returns dict harness -> dict(status, time, failed, checks).  Handles sequential and `-j` (Thread k:) output."""
    res = {}
    cur = None
    by_thread = {}
    for line in out.splitlines():
        m = re.match(r'(?:Thread (\d+): )?Checking harness (\S+?)\.\.\.', line)
        if m:
            cur = m.group(2)
            by_thread[m.group(1)] = cur
            res[cur] = dict(status=None, time=None, failed=[], checks=None)
            continue
        m = re.match(r'Thread (\d+):\s*(.*)$', line)
        if m:
            cur = by_thread.get(m.group(1), cur)
            line = m.group(2)
        if cur is None:
            continue
        m = re.search(r'\*\* (\d+) of (\d+) failed', line)
        if m:
            res[cur]['checks'] = int(m.group(2))
            res[cur]['nfailed'] = int(m.group(1))
        m = re.match(r'Failed Checks: (.*)', line)
        if m:
            res[cur]['failed'].append(m.group(1))
        m = re.match(r'VERIFICATION:- (\w+)', line)
        if m:
            res[cur]['status'] = m.group(1)
        m = re.match(r'Verification Time: ([0-9.]+)s', line)
        if m:
            res[cur]['time'] = float(m.group(1))
        if 'timed out' in line.lower() or 'timeout' in line.lower():
            res[cur]['status'] = res[cur]['status'] or 'TIMEOUT'
    return res


def run_cargo_kani(ws, crate, harnesses, target_dir, timeout_s, jobs, extra=()):
    cmd = ['cargo', 'kani', '-p', crate, '--target-dir', target_dir, '--output-format', 'terse',
           '-Z', 'unstable-options', '--harness-timeout', f'{timeout_s}s', '-j', str(jobs), '--exact'] + list(extra)
    for h in harnesses:
        cmd += ['--harness', h]
    env = dict(os.environ, CARGO_NET_OFFLINE='true')
    t0 = time.time()
    try:
        p = subprocess.run(cmd, cwd=ws, env=env, capture_output=True, text=True, timeout=timeout_s * max(1, (len(harnesses) + jobs - 1) // jobs) + 600,
                           start_new_session=True, preexec_fn=_limits)
        out = p.stdout + '\n' + p.stderr
        rc = p.returncode
    except subprocess.TimeoutExpired as e:
        out = (e.stdout or b'').decode(errors='replace') if isinstance(e.stdout, bytes) else (e.stdout or '')
        out += '\nOUTER TIMEOUT'
        rc = -9
        subprocess.run(['pkill', '-9', '-f', target_dir])
    return ' '.join(cmd), rc, out, time.time() - t0


def playback(ws, g, gname, hname, target_dir, timeout_s):
    """re-run a failed harness with --concrete-playback=print, add the generated unit test to the harness module and
    execute it natively (cargo kani playback): the counterexample replayed against the real code."""
    crate = g['crate']
    modpath = g['modpath']
    cmd = ['cargo', 'kani', '-p', crate, '--target-dir', target_dir, '--output-format', 'terse', '-Z', 'concrete-playback',
           '--concrete-playback=print', '--exact', '--harness', f'{modpath}::{hname}'] + list(g.get('kani_flags', []))
    env = dict(os.environ, CARGO_NET_OFFLINE='true')
    try:
        p = subprocess.run(cmd, cwd=ws, env=env, capture_output=True, text=True, timeout=timeout_s + 300, start_new_session=True, preexec_fn=_limits)
    except subprocess.TimeoutExpired:
        subprocess.run(['pkill', '-9', '-f', target_dir])
        return None
    m = re.search(r'```\n(.*?)```', p.stdout, re.S)
    if not m:
        return None
    test_text = m.group(1)
    mm = re.search(r'fn (kani_concrete_playback_\w+)\(\)', test_text)
    if not mm:
        return None
    test_name = mm.group(1)
    vals = [v.strip() for v in re.findall(r'^\s*// (.*)$', test_text, re.M)]
    target = os.path.join(ws, g['file'])
    s = Source(target)
    it = s.cut_item('mod', f'verif_kani_{gname}')
    src = s.text[:it['close']] + '\n' + test_text + '\n' + s.text[it['close']:]
    open(target, 'w').write(src)
    env2 = dict(env, CARGO_TARGET_DIR=target_dir + '-pb')
    try:
        p2 = subprocess.run(['cargo', 'kani', 'playback', '-Z', 'concrete-playback', '-p', crate, '--', test_name],
                            cwd=ws, env=env2, capture_output=True, text=True, timeout=900, start_new_session=True)
        out2 = p2.stdout + p2.stderr
        reproduced = ('test result: FAILED' in out2) and ('1 failed' in out2)
    except subprocess.TimeoutExpired:
        out2, reproduced = 'playback timeout', False
    open(target, 'w').write(s.text)
    tail = '\n'.join(l for l in out2.splitlines() if 'panicked' in l or 'assertion' in l or 'test result' in l or l.startswith('error'))[:1500]
    return dict(test=test_text, test_name=test_name, values=vals, reproduced=reproduced, playback_output=tail)


def run_groups(prop, gnames, tier, scratch, only_harness=None):
    """returns a list of result dicts (one per group) in the driver's format"""
    results = []
    try:
        ws, tdir = make_ws(scratch)
        for gname in gnames:
            install_group(ws, gname)
    except (CutError, OSError, subprocess.CalledProcessError) as e:
        return [dict(unit='kani', engine='kani', obligations={}, failures=[], trusted=[], fns={}, canaries=[], drops={}, solver_s=0,
                     cmd='', undecided=[f'kani scratch workspace: {e}'])]
    by_crate = {}
    for gname in gnames:
        g = GROUPS[gname]
        for h in g['harnesses']:
            if prop not in h['props'] and not h.get('canary'):
                continue
            if h.get('tier', 'quick') == 'thorough' and tier != 'thorough':
                continue
            if only_harness and h['name'] not in only_harness:
                continue
            by_crate.setdefault(g['crate'], []).append((gname, h))
    for crate, hs in by_crate.items():
        target_dir = os.path.join(tdir, 'kani-target-' + crate)
        tmo = max(h.get('timeout', 300) for _, h in hs)
        extra = []
        if any(GROUPS[g].get('kani_flags') for g, _ in hs):
            for g, _ in hs:
                for f in GROUPS[g].get('kani_flags', []):
                    if f not in extra:
                        extra.append(f)
        names = [f'{GROUPS[g]["modpath"]}::{h["name"]}' for g, h in hs]
        cmd, rc, out, wall = run_cargo_kani(ws, crate, names, target_dir, tmo, jobs=min(12, max(1, len(names))), extra=extra)
        parsed = parse_kani(out)
        for gname in sorted({g for g, _ in hs}):
            g = GROUPS[gname]
            r = dict(unit='kani:' + gname, engine='kani', obligations={}, failures=[], undecided=[], fns={}, canaries=[], drops={},
                     trusted=[SHIM_NOTE] + g.get('trusted', []), solver_s=0.0, cmd=cmd, per_fn_ms={})
            for fn in g.get('functions', []):
                r['fns'][fn] = dict(file=g['file'], line=None, props=sorted({p for h in g['harnesses'] for p in h['props']}), external_body=False)
            for gg, h in hs:
                if gg != gname:
                    continue
                full = f'{g["modpath"]}::{h["name"]}'
                pr = parsed.get(full)
                ob = f'kani/{gname}/{h["name"]}'
                if h.get('canary'):
                    ok = pr is not None and pr['status'] == 'FAILED'
                    r['canaries'].append(dict(fn=ob, must_fail_failed=ok))
                    if not ok:
                        r['undecided'].append(f'vacuity guard: Kani canary {h["name"]} did not fail (status {pr and pr["status"]})')
                    continue
                r['obligations'][ob] = dict(props=h['props'], kind='kani', text=h['text'], bounded=not h.get('complete', False),
                                            bound=h.get('bound'), label=h['name'])
                if pr is None or pr['status'] is None:
                    r['undecided'].append(f'kani gave no verdict for {h["name"]} (rc={rc}; build error or crash): ' + out[-500:].replace('\n', ' | '))
                    continue
                r['solver_s'] += pr['time'] or 0
                r['per_fn_ms'][full] = (pr['time'] or 0) * 1000
                if pr['status'] == 'SUCCESSFUL':
                    if not pr['checks']:
                        r['undecided'].append(f'vacuity guard: {h["name"]} generated zero checks')
                    continue
                if pr['status'] == 'TIMEOUT' or (pr['status'] == 'FAILED' and not pr['failed']):
                    r['undecided'].append(f'kani timeout / no failed check reported for {h["name"]} (limit {tmo}s)')
                    continue
                # a real failed check: replay it natively (first two failures of a group; the rest are reported without model)
                pb = playback(ws, g, gname, h['name'], target_dir, tmo) if len([x for x in r['failures'] if x.get('replay_test')]) < 2 else None
                f = dict(obligation=ob, kind='kani', message='; '.join(pr['failed'])[:600], unit_line=None, expr=h['text'], repo=g['file'],
                         rendered='\n'.join(pr['failed']), fn=None, label=h['name'])
                if pb:
                    f['counterexample'] = pb['values']
                    f['replay_test'] = dict(group=gname, harness=h['name'], test_name=pb['test_name'], test=pb['test'], output=pb['playback_output'])
                    f['replay_result'] = 'reproduced' if pb['reproduced'] else 'not-reproduced'
                r['failures'].append(f)
            results.append(r)
    return results
