"""Engine E3: bounded exhaustive enumeration on the real crates (native `cargo test` in a scratch copy, real anyhow).

Stand-in for functions no installed deductive verifier can reach (string code: Peekable<Chars>, str::rsplit_once, ...;
measured: Kani needs >300 s and >14 GB for ONE descriptor of length 1).  Every obligation = one #[test] that enumerates
ALL inputs up to a stated bound, compares the real function with an independent oracle and catches panics/hangs.
Always reported as *bounded* (level `other`), never counted as proved.
"""
import os
import re
import subprocess
import time

from vx.rustcut import Source, CutError
from kx.groups import ENUM_GROUPS

VERIF = os.path.dirname(os.path.dirname(os.path.abspath(__file__)))
REPO = os.environ.get('VERIF_REPO', '/repo')

PRELUDE = r'''
	#[allow(unused_imports)]
	use super::*;
	use std::panic::{catch_unwind, AssertUnwindSafe};
	use std::sync::{Arc, Mutex};
	use std::sync::atomic::{AtomicBool, AtomicU64, Ordering};
	use std::time::Duration;

	/// all byte strings over `alpha` with length <= max_len, shortest first
	#[allow(dead_code)]
	fn for_all_strings(alpha: &[u8], max_len: usize, f: &mut dyn FnMut(&[u8])) {
		let mut buf: Vec<u8> = Vec::new();
		fn rec(alpha: &[u8], left: usize, buf: &mut Vec<u8>, f: &mut dyn FnMut(&[u8])) {
			f(buf);
			if left == 0 { return; }
			for &c in alpha { buf.push(c); rec(alpha, left - 1, buf, f); buf.pop(); }
		}
		rec(alpha, max_len, &mut buf, f);
	}
	/// run the real function; Ok(None) = it panicked.  (Non-termination is caught by the watchdog of `Tally`.)
	#[allow(dead_code)]
	fn guarded<T>(f: impl FnOnce() -> T) -> Result<Option<T>, ()> { Ok(catch_unwind(AssertUnwindSafe(f)).ok()) }
	#[allow(dead_code)]
	struct Tally { name: &'static str, cases: u64, nontrivial: u64, failures: Vec<String>, beat: Arc<AtomicU64>, cur: Arc<Mutex<Vec<u8>>>, done: Arc<AtomicBool> }
	#[allow(dead_code)]
	impl Tally {
		fn new(name: &'static str) -> Tally {
			let (beat, cur, done) = (Arc::new(AtomicU64::new(0)), Arc::new(Mutex::new(Vec::new())), Arc::new(AtomicBool::new(false)));
			let (b2, c2, d2) = (beat.clone(), cur.clone(), done.clone());
			// watchdog: no progress for 20 s on one input = the function under test does not terminate
			std::thread::spawn(move || {
				let (mut last, mut idle) = (0u64, 0u32);
				while !d2.load(Ordering::SeqCst) {
					std::thread::sleep(Duration::from_secs(1));
					let b = b2.load(Ordering::SeqCst);
					if b == last { idle += 1 } else { idle = 0; last = b }
					if idle >= 20 && !d2.load(Ordering::SeqCst) {
						println!("FAILING INPUT {} {:?} :: does not terminate (no progress for 20 s)", name, String::from_utf8_lossy(&c2.lock().unwrap()));
						println!("test {} ... FAILED", name);
						std::process::exit(101);
					}
				}
			});
			Tally { name, cases: 0, nontrivial: 0, failures: Vec::new(), beat, cur, done }
		}
		fn at(&mut self, input: &[u8]) { let mut c = self.cur.lock().unwrap(); c.clear(); c.extend_from_slice(input); }
		fn case(&mut self, nontrivial: bool) { self.cases += 1; if nontrivial { self.nontrivial += 1; } self.beat.fetch_add(1, Ordering::SeqCst); }
		fn fail(&mut self, input: String, why: &str) { if self.failures.len() < 5 { self.failures.push(format!("{input} :: {why}")); } }
		fn finish(self) {
			self.done.store(true, Ordering::SeqCst);
			println!("ENUM {} cases={} nontrivial={}", self.name, self.cases, self.nontrivial);
			for f in &self.failures { println!("FAILING INPUT {} {}", self.name, f); }
			assert!(self.failures.is_empty(), "{}: {} failing input(s), first: {}", self.name, self.failures.len(), self.failures[0]);
		}
	}
	#[allow(dead_code)]
	fn show(b: &[u8]) -> String { format!("{:?}", String::from_utf8_lossy(b)) }
'''


_native_ws = {}


def make_native_ws(scratch):
    from kx.kani import cached_ws
    if scratch not in _native_ws:
        _native_ws[scratch] = cached_ws('ws-native', scratch)
    return _native_ws[scratch]


def install(ws, gname):
    g = ENUM_GROUPS[gname]
    text = open(os.path.join(VERIF, 'kx', 'enum', g['harness_file'])).read()
    target = os.path.join(ws, g['file'])
    src = open(target).read()
    block = f'\n#[cfg(test)]\nmod verif_enum_{gname} {{\n{PRELUDE}\n{text}\n}}\n'
    if g.get('inside_mod'):
        s = Source(target, src)
        it = s.cut_item('mod', g['inside_mod'])
        src = src[:it['close']] + block + src[it['close']:]
    else:
        src = src + block
    open(target, 'w').write(src)


def libtest_status(stdout, stderr):
    """test name (last path segment) -> 'ok' | 'FAILED', from the output of one libtest binary run with --nocapture and several threads.

    libtest writes "test NAME ... " and the verdict with separate write calls, so a `println!` of a test that is still running on
    another thread can land between the two ("test a::canary ... ENUM x cases=3 nontrivial=3" / "FAILED" on the next line): the
    per-test lines are not reliable on their own (this made the canary of one group look as if it had not failed in 1 run out of
    some hundreds).  What is reliable is what libtest prints after the last test thread has ended: the list under the last
    "failures:" header and the "test result:" line.  When that summary is there and consistent with itself it decides every test
    (FAILED when listed, ok otherwise: a test that did not run at all is caught by the zero-cases guard of the caller);
    the per-test lines, the panic messages on stderr and nothing else are used when the process died before the summary."""
    status = {}
    last = lambda n: n.split('::')[-1]
    ms = list(re.finditer(r'^test result: \S+ (\d+) passed; (\d+) failed; (\d+) ignored;', stdout, re.M))
    if len(ms) == 1:   # every group runs exactly one test binary (--lib or --bin)
        m = ms[0]
        n_ok, n_failed = int(m.group(1)), int(m.group(2)) + 0
        n_ign = int(m.group(3))
        head = stdout[:m.start()]
        listed = []
        k = head.rfind('\nfailures:\n')
        if k >= 0:
            for line in head[k + len('\nfailures:\n'):].split('\n'):
                if line.startswith('    ') and line.strip():
                    listed.append(line.strip())
                elif listed:
                    break
        # "test NAME ... " is one write call, it is never split; ignored tests are printed with their verdict in the same call
        ran = [last(x.group(1)) for x in re.finditer(r'^test (\S+) \.\.\. (?!ignored)', head, re.M)]
        if n_ign == 0 and len(listed) == n_failed and len(set(ran)) == len(ran) == n_ok + n_failed and {last(n) for n in listed} <= set(ran):
            for n in ran:
                status[n] = 'ok'
            for n in listed:
                status[last(n)] = 'FAILED'
            return status
    # no (consistent) summary: the process was killed, left through the watchdog of `Tally`, or aborted
    for x in re.finditer(r'^test (\S+) \.\.\. (ok|FAILED)', stdout, re.M):
        status[last(x.group(1))] = x.group(2)
    for x in re.finditer(r'(\S+) \.\.\. (ok|FAILED)', stdout):
        status.setdefault(last(x.group(1)), x.group(2))
    for x in re.finditer(r"^thread '([^']+)'[^\n]*panicked at", stderr, re.M):
        status[last(x.group(1))] = 'FAILED'
    return status


def run_groups(prop, gnames, tier, scratch, only=None):
    results = []
    try:
        ws, tdir = make_native_ws(scratch)
        for g in gnames:
            install(ws, g)
    except (CutError, OSError, subprocess.CalledProcessError) as e:
        return [dict(unit='enum', engine='enum', obligations={}, failures=[], trusted=[], fns={}, canaries=[], drops={}, solver_s=0,
                     cmd='', undecided=[f'native scratch workspace: {e}'])]
    # prefer a warm shared target dir (much faster); it only contains build output of the scratch copy
    target_dir = os.path.join(tdir, 'enum-target')
    for gname in gnames:
        g = ENUM_GROUPS[gname]
        tests = [t for t in g['tests'] if (prop in t['props'] or t.get('canary')) and (t.get('tier', 'quick') == 'quick' or tier == 'thorough')
                 and (not only or t['name'] in only)]
        r = dict(unit='enum:' + gname, engine='enum', obligations={}, failures=[], undecided=[], fns={}, canaries=[], drops={},
                 trusted=['bounded exhaustive enumeration (native cargo test on a scratch copy of the real crate, real anyhow): NOT a proof; '
                          'covers exactly the stated bound; oracle = independent recogniser/specification written in the harness'] + g.get('trusted', []),
                 solver_s=0.0, cmd='', per_fn_ms={}, enum_cases=0, enum_nontrivial=0)
        for fn in g.get('functions', []):
            r['fns'][fn] = dict(file=g['file'], line=None, props=sorted({p for t in g['tests'] for p in t['props']}), external_body=False)
        if not tests:
            results.append(r)
            continue
        # only the selected tests are run (libtest filters are substring matches: a name that is a prefix of another selects both, which is harmless)
        filt = [f'verif_enum_{gname}::{t["name"]}' for t in tests]
        cmd = ['cargo', 'test', '--offline', '-p', g['crate']] + list(g.get('cargo_target', ['--lib'])) + ['--'] + filt + ['--nocapture', '--test-threads', '8']
        env = dict(os.environ, CARGO_NET_OFFLINE='true', CARGO_TARGET_DIR=target_dir, RUST_BACKTRACE='0')
        t0 = time.time()
        tmo = max(t.get('timeout', 600) for t in tests) + 900
        try:
            p = subprocess.run(cmd, cwd=ws, env=env, capture_output=True, text=True, timeout=tmo, start_new_session=True)
            stdout, stderr = p.stdout, p.stderr
            out = stdout + '\n' + stderr
        except subprocess.TimeoutExpired as e:
            stdout = (e.stdout or b'').decode(errors='replace') if isinstance(e.stdout, bytes) else (e.stdout or '')
            stderr = (e.stderr or b'').decode(errors='replace') if isinstance(e.stderr, bytes) else (e.stderr or '')
            stdout = stdout.split('\ntest result:')[0]   # a run that was killed has no verdict of its own
            out = stdout + '\nOUTER TIMEOUT'
            subprocess.run(['pkill', '-9', '-f', target_dir])
        r['cmd'] = f'(cd <scratch copy of /repo> && {" ".join(cmd)})'
        r['solver_s'] = time.time() - t0
        status = libtest_status(stdout, stderr)
        tallies = {m.group(1): (int(m.group(2)), int(m.group(3))) for m in re.finditer(r'ENUM (\S+) cases=(\d+) nontrivial=(\d+)', out)}
        fails = {}
        for m in re.finditer(r'FAILING INPUT (\S+) (.*)', out):
            fails.setdefault(m.group(1), []).append(m.group(2))
        for t in tests:
            ob = f'enum/{gname}/{t["name"]}'
            st = status.get(t['name'])
            if t.get('canary'):
                if st is None and t['name'] in fails:
                    st = 'FAILED'   # `Tally::finish` prints the failing inputs and then panics
                ok = st == 'FAILED'
                r['canaries'].append(dict(fn=ob, must_fail_failed=ok))
                if not ok:
                    r['undecided'].append(f'vacuity guard: enumeration canary {t["name"]} did not fail (status {st})')
                continue
            r['obligations'][ob] = dict(props=t['props'], kind='enum', text=t['text'], bounded=True, bound=t['bound'], label=t['name'])
            if st is None and t['name'] in fails:
                st = 'FAILED'
            if st is None:
                r['undecided'].append(f'no result for enumeration test {t["name"]} (build error, crash or outer timeout): ' + out[-600:].replace('\n', ' | '))
                continue
            c = tallies.get(t['name'], (0, 0))
            r['enum_cases'] += c[0]
            r['enum_nontrivial'] += c[1]
            r['obligations'][ob]['cases'] = c[0]
            r['obligations'][ob]['nontrivial'] = c[1]
            if st == 'ok':
                if c[0] == 0:
                    r['undecided'].append(f'vacuity guard: {t["name"]} enumerated zero cases')
                continue
            fi = fails.get(t['name'], [])
            f = dict(obligation=ob, kind='enum', message=(fi[0] if fi else 'enumeration test failed')[:600], unit_line=None, expr=t['text'], repo=g['file'],
                     rendered='\n'.join(fi), fn=None, label=t['name'])
            if fi:
                f['counterexample'] = fi
                f['replay_enum'] = dict(group=gname, test=t['name'])
                f['replay_result'] = 'reproduced'   # the failing input was produced by running the real code natively
            r['failures'].append(f)
        results.append(r)
    return results
