	// Bounded exhaustive enumeration for property C19 (maven_dependency_resolver): nearest-wins mediation, scope table, effective POMs,
	// repository fallback, coordinate / resolved-dependency printing and parsing, snapshot directory layout.
	//
	// Everything below the line "model" is written from the property statement and Maven's documentation only (Introduction to the
	// Dependency Mechanism; Introduction to the POM; Maven Model Builder "effective model" phases; repository layout; artifact handlers
	// table).  It never calls the crate.  The crate is only touched in the section "driving the real code".
	use std::collections::HashMap;
	use std::collections::VecDeque;

	// ------------------------------------------------------------------------------------------------------------------ executor
	/// the futures of the crate never wait when the Downloader answers from memory: a poll loop with a no-op waker is enough
	fn block_on<F: Future>(f: F) -> F::Output {
		let mut f = std::pin::pin!(f);
		let mut cx = std::task::Context::from_waker(std::task::Waker::noop());
		loop {
			if let std::task::Poll::Ready(x) = f.as_mut().poll(&mut cx) { return x; }
		}
	}

	// ------------------------------------------------------------------------------------------------------------------ model
	type S = &'static str;

	#[derive(Clone, Copy, Debug, PartialEq, Eq, Hash)]
	enum Sc { Compile, Runtime, Test, System, Provided }
	const ALL_SC: [Sc; 5] = [Sc::Compile, Sc::Runtime, Sc::Test, Sc::System, Sc::Provided];
	impl Sc {
		/// the scope names of the POM reference
		fn text(self) -> S {
			match self { Sc::Compile => "compile", Sc::Runtime => "runtime", Sc::Test => "test", Sc::System => "system", Sc::Provided => "provided" }
		}
	}

	#[derive(Clone, Copy, Debug, PartialEq)]
	enum Cell { Omit, Is(Sc), Undocumented }
	/// "Introduction to the Dependency Mechanism", section Dependency Scope, the table, cell by cell:
	/// left column = scope of the dependency, top row = scope of the dependency's own dependency, `-` = omitted.
	///              compile      provided   runtime     test
	///   compile    compile(*)   -          runtime     -
	///   provided   provided     -          provided    -
	///   runtime    runtime      -          runtime     -
	///   test       test         -          test        -
	/// system: "similar to provided", never transitive (top row: omitted); a left column `system` is not in the table.
	fn table(left: Sc, top: Sc) -> Cell {
		match (left, top) {
			(_, Sc::Provided) => Cell::Omit,
			(_, Sc::Test) => Cell::Omit,
			(_, Sc::System) => Cell::Omit,
			(Sc::Compile, Sc::Compile) => Cell::Is(Sc::Compile),
			(Sc::Compile, Sc::Runtime) => Cell::Is(Sc::Runtime),
			(Sc::Provided, Sc::Compile) => Cell::Is(Sc::Provided),
			(Sc::Provided, Sc::Runtime) => Cell::Is(Sc::Provided),
			(Sc::Runtime, Sc::Compile) => Cell::Is(Sc::Runtime),
			(Sc::Runtime, Sc::Runtime) => Cell::Is(Sc::Runtime),
			(Sc::Test, Sc::Compile) => Cell::Is(Sc::Test),
			(Sc::Test, Sc::Runtime) => Cell::Is(Sc::Test),
			(Sc::System, Sc::Compile) => Cell::Undocumented,
			(Sc::System, Sc::Runtime) => Cell::Undocumented,
		}
	}

	/// conflict / management key: "same group, artifact, classifier, type"
	#[derive(Clone, Debug, PartialEq, Eq, Hash)]
	struct Key { g: S, a: S, ty: S, cl: Option<S> }

	#[derive(Clone, Debug, PartialEq)]
	struct Coord { g: S, a: S, v: S, ty: S, cl: Option<S> }
	impl Coord {
		fn gav(g: S, a: S, v: S) -> Coord { Coord { g, a, v, ty: "jar", cl: None } }
		fn key(&self) -> Key { Key { g: self.g, a: self.a, ty: self.ty, cl: self.cl } }
		/// documented text form `group:artifact[:type[:classifier]]:version`, the type always listed
		fn text(&self) -> String {
			match self.cl {
				Some(c) => format!("{}:{}:{}:{}:{}", self.g, self.a, self.ty, c, self.v),
				None => format!("{}:{}:{}:{}", self.g, self.a, self.ty, self.v),
			}
		}
	}

	/// a `<dependency>` element as written in a POM (in `<dependencies>` or, with `import` possible, in `<dependencyManagement>`)
	#[derive(Clone, Debug, PartialEq)]
	struct MDep { g: S, a: S, v: Option<S>, ty: Option<S>, cl: Option<S>, scope: Option<Sc>, opt: Option<bool>, import: bool }
	fn dep(g: S, a: S) -> MDep { MDep { g, a, v: None, ty: None, cl: None, scope: None, opt: None, import: false } }
	impl MDep {
		fn v(mut self, v: S) -> MDep { self.v = Some(v); self }
		fn ty(mut self, x: S) -> MDep { self.ty = Some(x); self }
		fn cl(mut self, x: S) -> MDep { self.cl = Some(x); self }
		fn sc(mut self, x: Sc) -> MDep { self.scope = Some(x); self }
		fn osc(mut self, x: Option<Sc>) -> MDep { self.scope = x; self }
		fn opt(mut self, x: Option<bool>) -> MDep { self.opt = x; self }
		fn import(mut self) -> MDep { self.import = true; self.ty = Some("pom"); self }
		fn show(&self) -> String {
			let mut s = format!("{}:{}", self.g, self.a);
			if let Some(x) = self.ty { s += &format!(" type={x}"); }
			if let Some(x) = self.cl { s += &format!(" classifier={x}"); }
			if let Some(x) = self.v { s += &format!(" version={x}"); }
			if self.import { s += " scope=import"; }
			if let Some(x) = self.scope { s += &format!(" scope={}", x.text()); }
			if let Some(x) = self.opt { s += &format!(" optional={x}"); }
			s
		}
	}

	/// a POM as written; `at` = the coordinates under which the repository files it
	#[derive(Clone, Debug)]
	struct MPom { at: (S, S, S), parent: Option<(S, S, S)>, g: Option<S>, a: S, v: Option<S>, packaging: Option<S>, model_version: S, dm: Vec<MDep>, deps: Vec<MDep> }
	fn pom(g: S, a: S, v: S) -> MPom {
		MPom { at: (g, a, v), parent: None, g: Some(g), a, v: Some(v), packaging: None, model_version: "4.0.0", dm: vec![], deps: vec![] }
	}
	impl MPom {
		fn deps(mut self, d: Vec<MDep>) -> MPom { self.deps = d; self }
		fn dm(mut self, d: Vec<MDep>) -> MPom { self.dm = d; self }
		fn packaging(mut self, p: S) -> MPom { self.packaging = Some(p); self }
		fn parent(mut self, p: (S, S, S)) -> MPom { self.parent = Some(p); self }
		fn is_plain_leaf(&self) -> bool { self.parent.is_none() && self.dm.is_empty() && self.deps.is_empty() && self.packaging.is_none() && self.model_version == "4.0.0" }
		fn show(&self) -> String {
			let mut s = format!("POM {}:{}:{} {{", self.at.0, self.at.1, self.at.2);
			if let Some(p) = self.parent { s += &format!(" parent={}:{}:{}", p.0, p.1, p.2); }
			s += &format!(" groupId={:?} artifactId={} version={:?}", self.g, self.a, self.v);
			if let Some(p) = self.packaging { s += &format!(" packaging={p}"); }
			if self.model_version != "4.0.0" { s += &format!(" modelVersion={}", self.model_version); }
			if !self.dm.is_empty() { s += &format!(" dependencyManagement=[{}]", self.dm.iter().map(|d| d.show()).collect::<Vec<_>>().join("; ")); }
			if !self.deps.is_empty() { s += &format!(" dependencies=[{}]", self.deps.iter().map(|d| d.show()).collect::<Vec<_>>().join("; ")); }
			s + " }"
		}
	}
	#[derive(Clone, Debug)]
	struct MRepo { name: S, url: S, poms: Vec<MPom> }
	fn show_universe(u: &[MRepo]) -> String {
		let mut s = String::new();
		for r in u {
			s += &format!("repository {:?} at {:?}: ", r.name, r.url);
			let leaves: Vec<String> = r.poms.iter().filter(|p| p.is_plain_leaf()).map(|p| format!("{}:{}:{}", p.at.0, p.at.1, p.at.2)).collect();
			for p in r.poms.iter().filter(|p| !p.is_plain_leaf()) { s += &p.show(); s += " "; }
			if !leaves.is_empty() { s += &format!("POMs without parent / dependencies: {} ", leaves.join(", ")); }
			s += "| ";
		}
		s
	}

	/// default classifier of a type: column "classifier" of Maven's default artifact handlers table
	fn handler_classifier(ty: &str) -> Option<S> {
		match ty { "test-jar" => Some("tests"), "ejb-client" => Some("client"), "java-source" => Some("sources"), "javadoc" => Some("javadoc"), _ => None }
	}
	/// column "extension" of the same table
	fn handler_extension(ty: &str) -> &str {
		match ty { "test-jar" | "maven-plugin" | "ejb" | "ejb-client" | "java-source" | "javadoc" => "jar", other => other }
	}
	/// `^(.*)-(\d{8}\.\d{6})-(\d+)$` (timestamped snapshot): the directory is `$1-SNAPSHOT`; anything else is its own directory.
	/// Written as a scan from the end: the build number and the time stamp have no hyphen, so the two last hyphens are the separators.
	fn model_base_version(v: &str) -> String {
		let b = v.as_bytes();
		let mut i = b.len();
		let mut n = 0;
		while i > 0 && b[i - 1].is_ascii_digit() { i -= 1; n += 1; }
		if n == 0 || i == 0 || b[i - 1] != b'-' { return v.to_owned(); }
		i -= 1; // at the last hyphen
		if i < 6 || !b[i - 6..i].iter().all(|c| c.is_ascii_digit()) { return v.to_owned(); }
		i -= 6;
		if i == 0 || b[i - 1] != b'.' { return v.to_owned(); }
		i -= 1;
		if i < 8 || !b[i - 8..i].iter().all(|c| c.is_ascii_digit()) { return v.to_owned(); }
		i -= 8;
		if i == 0 || b[i - 1] != b'-' { return v.to_owned(); }
		i -= 1;
		format!("{}-SNAPSHOT", &v[..i])
	}
	/// Maven 2 repository layout: `<base>/<group with / for .>/<artifact>/<base version>/<artifact>-<version>[-<classifier>].<extension>`
	fn model_url(base: &str, g: &str, a: &str, v: &str, cl: Option<&str>, ext: &str) -> String {
		let mut s = String::from(base);
		if !s.ends_with('/') { s.push('/'); }
		for (i, part) in g.split('.').enumerate() { if i > 0 { s.push('/'); } s += part; }
		s.push('/'); s += a;
		s.push('/'); s += &model_base_version(v);
		s.push('/'); s += a; s.push('-'); s += v;
		if let Some(c) = cl { s.push('-'); s += c; }
		s.push('.'); s += ext;
		s
	}

	// ------------------------------------------------------------------------------------------------------------------ model: effective POM
	#[derive(Clone, Debug)]
	enum Bad {
		/// Maven refuses the universe (missing POM, missing version, ...)
		Error(String),
		/// outside the quantifier of the property or not pinned by its text: the case is skipped
		Unsupported(String),
	}
	#[derive(Clone, Copy, PartialEq, Debug)]
	enum Mode {
		/// universes in which a POM manages a dependency it inherited differently than the declaring parent did are skipped
		Strict,
		/// Maven's order: inheritance assembly first, management injection on the assembled model afterwards
		Maven,
	}
	#[derive(Clone, Debug, PartialEq)]
	struct Man { key: Key, v: S, scope: Option<Sc>, imported: bool }
	#[derive(Clone, Debug, PartialEq)]
	struct EDep { c: Coord, scope: Sc, opt: bool }
	#[derive(Clone, Debug)]
	struct Eff {
		repo: usize,
		c: Coord,
		/// effective dependency management in order of precedence (the first entry of a key is the one that counts)
		man: Vec<Man>,
		/// the `<dependencies>` of the assembled model as written: own ones, then the inherited ones
		raw: Vec<MDep>,
		/// every dependency filled in by the management of the POM that declares it
		chain: Result<Vec<EDep>, String>,
		deps: Result<Vec<EDep>, Bad>,
	}
	fn find_pom<'u>(u: &'u [MRepo], gav: (S, S, S)) -> Option<(usize, &'u MPom)> {
		// "several repositories": they are asked in the given order, the first one that has the file serves it
		for (i, r) in u.iter().enumerate() {
			for p in &r.poms { if p.at == gav { return Some((i, p)); } }
		}
		None
	}
	fn managed<'m>(man: &'m [Man], k: &Key) -> Option<&'m Man> { man.iter().find(|m| &m.key == k) }
	fn key_of(d: &MDep) -> Key {
		let ty = d.ty.unwrap_or("jar"); // POM reference: type defaults to jar
		Key { g: d.g, a: d.a, ty, cl: d.cl.or(handler_classifier(ty)) }
	}
	/// "managed versions and scopes fill in omitted ones"; defaults of the POM reference afterwards (scope compile, optional false)
	fn fill(raw: &[MDep], man: &[Man]) -> Result<Vec<EDep>, String> {
		let mut out = Vec::new();
		for d in raw {
			let k = key_of(d);
			let m = managed(man, &k);
			let v = match (d.v, m) { (Some(v), _) => v, (None, Some(m)) => m.v, (None, None) => return Err(format!("dependency {}:{} has no version and nothing manages it", d.g, d.a)) };
			let scope = d.scope.or(m.and_then(|m| m.scope)).unwrap_or(Sc::Compile);
			out.push(EDep { c: Coord { g: k.g, a: k.a, v, ty: k.ty, cl: k.cl }, scope, opt: d.opt.unwrap_or(false) });
		}
		Ok(out)
	}
	fn effective(u: &[MRepo], gav: (S, S, S), mode: Mode, depth: usize) -> Result<Eff, Bad> {
		if depth > 12 { return Err(Bad::Unsupported("cyclic parents / imports".into())); }
		let (repo, p) = find_pom(u, gav).ok_or_else(|| Bad::Error(format!("no repository has the POM of {}:{}:{}", gav.0, gav.1, gav.2)))?;
		if p.model_version != "4.0.0" { return Err(Bad::Error("modelVersion must be 4.0.0".into())); }
		let parent = match p.parent {
			None => None,
			Some(pc) => {
				let e = effective(u, pc, mode, depth + 1)?;
				if e.c.ty != "pom" { return Err(Bad::Error("a parent must have packaging pom".into())); }
				Some(e)
			}
		};
		// "effective POMs inherit group, version ... from parents"
		let g = p.g.or(parent.as_ref().map(|e| e.c.g)).ok_or_else(|| Bad::Error("no groupId".into()))?;
		let v = p.v.or(parent.as_ref().map(|e| e.c.v)).ok_or_else(|| Bad::Error("no version".into()))?;
		let c = Coord { g, a: p.a, v, ty: p.packaging.unwrap_or("jar"), cl: None };
		// "... and dependency management from parents and import-scoped BOMs": own entries, then the imports in the order of declaration
		// (Importing Dependencies: the first declared import wins, the importing POM's own declaration wins over any import), then the parent's
		let mut man: Vec<Man> = Vec::new();
		for m in &p.dm {
			let mv = m.v.ok_or_else(|| Bad::Error("managed dependency without version".into()))?;
			if m.import {
				let b = effective(u, (m.g, m.a, mv), mode, depth + 1)?;
				for e in b.man { man.push(Man { imported: true, ..e }); }
			} else {
				let key = key_of(m);
				if man.iter().any(|e| e.imported && e.key == key) {
					return Err(Bad::Unsupported("a managed entry is declared after an import that manages the same artifact (quantifier: managed entries declared before imports)".into()));
				}
				man.push(Man { key, v: mv, scope: m.scope, imported: false });
			}
		}
		if let Some(pe) = &parent {
			for e in &pe.man {
				if let Some(first) = managed(&man, &e.key) {
					if first.imported && !e.imported && (first.v, first.scope) != (e.v, e.scope) {
						return Err(Bad::Unsupported("an import of the child and an explicit entry of the parent manage the same artifact differently: their precedence is not stated by the property".into()));
					}
				}
				man.push(e.clone());
			}
		}
		// "... inherit dependencies": own ones first, the inherited ones after them
		let mut raw = p.deps.clone();
		if let Some(pe) = &parent { raw.extend(pe.raw.iter().cloned()); }
		for (i, a) in raw.iter().enumerate() {
			if raw[..i].iter().any(|b| key_of(b) == key_of(a)) {
				return Err(Bad::Unsupported("a dependency is declared twice / re-declared by a child (quantifier: children not re-declaring a parent's dependency)".into()));
			}
		}
		let chain = match (fill(&p.deps, &man), parent.as_ref().map(|pe| pe.chain.clone())) {
			(Err(e), _) => Err(e),
			(Ok(own), None) => Ok(own),
			(Ok(_), Some(Err(e))) => Err(e),
			(Ok(mut own), Some(Ok(inh))) => { own.extend(inh); Ok(own) }
		};
		let maven = fill(&raw, &man);
		let deps = match mode {
			Mode::Maven => maven.map_err(Bad::Error),
			Mode::Strict => if chain != maven {
				Err(Bad::Unsupported("the inheriting POM manages an inherited dependency differently than the declaring parent (checked apart by inherited_dependencies_use_the_management_of_the_inheriting_pom)".into()))
			} else { maven.map_err(Bad::Error) },
		};
		Ok(Eff { repo, c, man, raw, chain, deps })
	}

	// ------------------------------------------------------------------------------------------------------------------ model: resolution
	#[derive(Clone, Debug, PartialEq)]
	struct Found { repo: usize, c: Coord, scope: Sc }
	/// breadth first from the roots; of all occurrences of one artifact (group, artifact, classifier, type) only the first one met is taken --
	/// that is the one nearest to the roots, declaration order breaking ties; the others are dropped and never expanded (their subtrees are discarded);
	/// optional dependencies and omitted cells of the scope table are not followed.
	fn resolve(u: &[MRepo], roots: &[(Coord, Sc)], mode: Mode) -> Result<Vec<Found>, Bad> {
		let mut queue: VecDeque<(Coord, Sc)> = roots.iter().cloned().collect();
		let mut taken: Vec<Key> = Vec::new();
		let mut out = Vec::new();
		while let Some((c, sc)) = queue.pop_front() {
			if taken.contains(&c.key()) { continue; }
			taken.push(c.key());
			let e = effective(u, (c.g, c.a, c.v), mode, 0)?;
			let deps = e.deps.clone()?;
			out.push(Found { repo: e.repo, c, scope: sc });
			for d in deps {
				if d.opt { continue; }
				match table(sc, d.scope) {
					Cell::Omit => {}
					Cell::Undocumented => return Err(Bad::Unsupported("left column `system` of the scope table is not documented".into())),
					Cell::Is(s) => queue.push_back((d.c, s)),
				}
			}
		}
		Ok(out)
	}
	/// is every POM of the graph *without* mediation well formed?  (A broken POM below a discarded occurrence is outside the supported subset.)
	fn unpruned_ok(u: &[MRepo], c: &Coord, sc: Sc, mode: Mode, depth: usize) -> bool {
		if depth > 12 { return false; }
		let Ok(e) = effective(u, (c.g, c.a, c.v), mode, 0) else { return false; };
		let Ok(deps) = e.deps else { return false; };
		for d in deps {
			if d.opt { continue; }
			if let Cell::Is(s) = table(sc, d.scope) { if !unpruned_ok(u, &d.c, s, mode, depth + 1) { return false; } }
		}
		true
	}
	enum Expect { List(Vec<Found>), Refused(String), Skip(String) }
	fn expectation(u: &[MRepo], roots: &[(Coord, Sc)], mode: Mode) -> Expect {
		match resolve(u, roots, mode) {
			Err(Bad::Unsupported(w)) => Expect::Skip(w),
			Err(Bad::Error(w)) => Expect::Refused(w),
			Ok(l) => if roots.iter().all(|(c, s)| unpruned_ok(u, c, *s, mode, 0)) { Expect::List(l) } else { Expect::Skip("a POM below a discarded occurrence is broken".into()) },
		}
	}

	// ------------------------------------------------------------------------------------------------------------------ driving the real code
	fn real_scope(s: Sc) -> DependencyScope {
		match s { Sc::Compile => DependencyScope::Compile, Sc::Runtime => DependencyScope::Runtime, Sc::Test => DependencyScope::Test, Sc::System => DependencyScope::System, Sc::Provided => DependencyScope::Provided }
	}
	fn model_scope(s: DependencyScope) -> Sc {
		match s { DependencyScope::Compile => Sc::Compile, DependencyScope::Runtime => Sc::Runtime, DependencyScope::Test => Sc::Test, DependencyScope::System => Sc::System, DependencyScope::Provided => Sc::Provided }
	}
	fn real_coord(c: &Coord) -> MavenCoord {
		MavenCoord { group: c.g.to_owned(), artifact: c.a.to_owned(), version: c.v.to_owned(), classifier: c.cl.map(|x| x.to_owned()), type_: c.ty.to_owned() }
	}
	fn same_coord(r: &MavenCoord, c: &Coord) -> bool {
		r.group == c.g && r.artifact == c.a && r.version == c.v && r.type_ == c.ty && r.classifier.as_deref() == c.cl
	}
	fn xml_dep(d: &MDep) -> String {
		let mut s = format!("<dependency><groupId>{}</groupId><artifactId>{}</artifactId>", d.g, d.a);
		if let Some(x) = d.v { s += &format!("<version>{x}</version>"); }
		if let Some(x) = d.ty { s += &format!("<type>{x}</type>"); }
		if let Some(x) = d.cl { s += &format!("<classifier>{x}</classifier>"); }
		if d.import { s += "<scope>import</scope>"; } else if let Some(x) = d.scope { s += &format!("<scope>{}</scope>", x.text()); }
		if let Some(x) = d.opt { s += &format!("<optional>{x}</optional>"); }
		s + "</dependency>"
	}
	fn xml_pom(p: &MPom) -> String {
		let mut s = format!("<project>\n<modelVersion>{}</modelVersion>\n", p.model_version);
		if let Some((g, a, v)) = p.parent { s += &format!("<parent><groupId>{g}</groupId><artifactId>{a}</artifactId><version>{v}</version></parent>\n"); }
		if let Some(g) = p.g { s += &format!("<groupId>{g}</groupId>\n"); }
		s += &format!("<artifactId>{}</artifactId>\n", p.a);
		if let Some(v) = p.v { s += &format!("<version>{v}</version>\n"); }
		if let Some(x) = p.packaging { s += &format!("<packaging>{x}</packaging>\n"); }
		if !p.dm.is_empty() {
			s += "<dependencyManagement><dependencies>\n";
			for d in &p.dm { s += &xml_dep(d); s.push('\n'); }
			s += "</dependencies></dependencyManagement>\n";
		}
		if !p.deps.is_empty() {
			s += "<dependencies>\n";
			for d in &p.deps { s += &xml_dep(d); s.push('\n'); }
			s += "</dependencies>\n";
		}
		s + "</project>\n"
	}
	/// the in-memory Downloader: URL -> POM, the POMs read from generated XML by serde-xml-rs exactly as the crate's own test fixture does
	struct Mem { layers: Vec<Arc<HashMap<String, MavenPom>>> }
	impl Downloader for Mem {
		#[allow(clippy::manual_async_fn)]
		fn get_maven_pom(&self, url: &str) -> impl Future<Output = Result<Option<MavenPom>>> + Send {
			let r = self.layers.iter().rev().find_map(|m| m.get(url)).cloned();
			async move { Ok(r) }
		}
	}
	struct XmlCache { parsed: HashMap<String, MavenPom> }
	impl XmlCache {
		fn new() -> XmlCache { XmlCache { parsed: HashMap::new() } }
		fn read(&mut self, p: &MPom) -> std::result::Result<MavenPom, String> {
			let text = xml_pom(p);
			if let Some(x) = self.parsed.get(&text) { return Ok(x.clone()); }
			let x: MavenPom = serde_xml_rs::from_str(&text).map_err(|e| format!("generated POM not read: {e} :: {text}"))?;
			self.parsed.insert(text, x.clone());
			Ok(x)
		}
		fn layer(&mut self, u: &[MRepo]) -> std::result::Result<Arc<HashMap<String, MavenPom>>, String> {
			let mut map = HashMap::new();
			for r in u {
				for p in &r.poms {
					let url = model_url(r.url, p.at.0, p.at.1, p.at.2, None, "pom");
					if !map.contains_key(&url) { map.insert(url, self.read(p)?); }
				}
			}
			Ok(Arc::new(map))
		}
		fn mem(&mut self, u: &[MRepo]) -> std::result::Result<Mem, String> { Ok(Mem { layers: vec![self.layer(u)?] }) }
		/// the files of `base` plus the files of `u` (a universe that shares most POMs with others is served without reading them again)
		fn over(&mut self, base: &Mem, u: &[MRepo]) -> std::result::Result<Mem, String> {
			let mut layers = base.layers.clone();
			layers.push(self.layer(u)?);
			Ok(Mem { layers })
		}
	}
	#[derive(Debug, PartialEq)]
	struct Got { repo_name: String, repo_url: String, coord: MavenCoord, scope: Sc, reparse: std::result::Result<(), String> }
	/// get_maven_dependencies on the universe; every resolved dependency is also printed and parsed again
	fn run_real(u: &[MRepo], mem: &Mem, roots: &[(Coord, Sc)]) -> Option<std::result::Result<Vec<Got>, String>> {
		let resolvers: Vec<Resolver<'static>> = u.iter().map(|r| Resolver::new(r.name, r.url)).collect();
		let list: Vec<(MavenCoord, DependencyScope)> = roots.iter().map(|(c, s)| (real_coord(c), real_scope(*s))).collect();
		guarded(|| {
			match block_on(get_maven_dependencies(mem, &resolvers, &list)) {
				Err(e) => Err(format!("{e:#}")),
				Ok(v) => Ok(v.into_iter().map(|f| {
					let printed = f.to_string();
					let reparse = match FoundDependency::try_from(printed.as_str()) {
						Err(e) => Err(format!("{printed:?} is not parsed back: {e:#}")),
						Ok(back) => if back.coord == f.coord && back.scope == f.scope && back.resolver.maven == f.resolver.maven { Ok(()) } else { Err(format!("{printed:?} is parsed back as {back:?}")) },
					};
					Got { repo_name: f.resolver.name.to_string(), repo_url: f.resolver.maven.to_string(), coord: f.coord.clone(), scope: model_scope(f.scope), reparse }
				}).collect()),
			}
		}).unwrap_or(None)
	}
	fn show_roots(roots: &[(Coord, Sc)]) -> String {
		roots.iter().map(|(c, s)| format!("{} as {}", c.text(), s.text())).collect::<Vec<_>>().join(", ")
	}
	fn show_found(u: &[MRepo], l: &[Found]) -> String {
		l.iter().map(|f| format!("{}:{} @ {}", f.c.text(), f.scope.text(), u[f.repo].name)).collect::<Vec<_>>().join(", ")
	}
	fn show_got(l: &[Got]) -> String {
		l.iter().map(|g| format!("{}:{} @ {}", g.coord, g.scope.text(), g.repo_name)).collect::<Vec<_>>().join(", ")
	}
	/// one case: the resolved list of the crate against the model.  Returns None when the universe is outside the property (not counted).
	type Skips = std::collections::BTreeMap<String, u64>;
	fn check_resolution(t: &mut Tally, cache: &mut XmlCache, u: &[MRepo], mem: Option<&Mem>, roots: &[(Coord, Sc)], mode: Mode, skipped: &mut Skips) -> Option<Expect> {
		let expect = expectation(u, roots, mode);
		if let Expect::Skip(why) = &expect { *skipped.entry(why.clone()).or_insert(0) += 1; return None; }
		let input = || format!("roots [{}] in {}", show_roots(roots), show_universe(u));
		let own;
		let mem = match mem { Some(m) => m, None => match cache.mem(u) { Ok(m) => { own = m; &own } Err(e) => { t.fail(input(), &e); return Some(expect); } } };
		match (run_real(u, mem, roots), &expect) {
			(None, _) => t.fail(input(), "panicked"),
			(Some(Err(_)), Expect::Refused(_)) => {}
			(Some(Err(e)), Expect::List(l)) => t.fail(input(), &format!("refused ({e}) but Maven's rules give [{}]", show_found(u, l))),
			(Some(Ok(g)), Expect::Refused(w)) => t.fail(input(), &format!("resolved to [{}] but Maven refuses: {w}", show_got(&g))),
			(Some(Ok(g)), Expect::List(l)) => {
				let same = g.len() == l.len() && g.iter().zip(l).all(|(g, f)| same_coord(&g.coord, &f.c) && g.scope == f.scope && g.repo_name == u[f.repo].name && g.repo_url == u[f.repo].url);
				if !same { t.fail(input(), &format!("resolved to [{}] but Maven's rules give [{}]", show_got(&g), show_found(u, l))); }
				else if let Some(bad) = g.iter().find_map(|g| g.reparse.clone().err()) { t.fail(input(), &format!("resolved dependency does not survive printing and parsing: {bad}")); }
				else {
					// "breadth-first order without duplicates": no two entries are the same artifact
					for (i, a) in g.iter().enumerate() { for b in &g[..i] {
						if a.coord.group == b.coord.group && a.coord.artifact == b.coord.artifact && a.coord.classifier == b.coord.classifier && a.coord.type_ == b.coord.type_ {
							t.fail(input(), &format!("duplicate artifact in [{}]", show_got(&g)));
						}
					}}
				}
			}
			(_, Expect::Skip(_)) => unreachable!(),
		}
		Some(expect)
	}
	/// get_merged_pom against the model: coordinates, dependencies (defaults applied) and the management entry that counts for every given key
	fn check_effective(t: &mut Tally, u: &[MRepo], mem: &Mem, gav: (S, S, S), keys: &[Key], mode: Mode) {
		let want = effective(u, gav, mode, 0);
		let want = match want { Err(Bad::Unsupported(_)) => return, Err(Bad::Error(e)) => Err(e), Ok(e) => match e.deps.clone() { Err(Bad::Unsupported(_)) => return, Err(Bad::Error(x)) => Err(x), Ok(d) => Ok((e, d)) } };
		let input = || format!("effective POM of {}:{}:{} in {}", gav.0, gav.1, gav.2, show_universe(u));
		let resolvers: Vec<Resolver<'static>> = u.iter().map(|r| Resolver::new(r.name, r.url)).collect();
		let got = guarded(|| block_on(get_merged_pom(mem, &resolvers, &real_coord(&Coord::gav(gav.0, gav.1, gav.2)))).map(|(r, p)| (r.name.to_string(), p)).map_err(|e| format!("{e:#}"))).unwrap_or(None);
		match (got, want) {
			(None, _) => t.fail(input(), "panicked"),
			(Some(Err(_)), Err(_)) => {}
			(Some(Err(e)), Ok(_)) => t.fail(input(), &format!("refused: {e}")),
			(Some(Ok((_, p))), Err(w)) => t.fail(input(), &format!("accepted as {p:?} but Maven refuses: {w}")),
			(Some(Ok((rname, p))), Ok((e, deps))) => {
				if rname != u[e.repo].name { t.fail(input(), &format!("served by {rname}, expected {}", u[e.repo].name)); }
				if !same_coord(&p.coord, &e.c) { t.fail(input(), &format!("effective coordinates {} but expected {}", p.coord, e.c.text())); }
				let got_deps: Vec<(String, Sc, bool)> = p.dependencies.iter().map(|d| (d.coord.to_string(), d.scope.map(model_scope).unwrap_or(Sc::Compile), d.optional.unwrap_or(false))).collect();
				let want_deps: Vec<(String, Sc, bool)> = deps.iter().map(|d| (d.c.text(), d.scope, d.opt)).collect();
				if got_deps != want_deps { t.fail(input(), &format!("effective dependencies {got_deps:?} but expected {want_deps:?}")); }
				for k in keys {
					let g = p.dependency_management.iter().find(|d| d.coord.group == k.g && d.coord.artifact == k.a && d.coord.type_ == k.ty && d.coord.classifier.as_deref() == k.cl)
						.map(|d| (d.coord.version.clone(), d.scope.map(model_scope)));
					let w = managed(&e.man, k).map(|m| (m.v.to_owned(), m.scope));
					if g != w { t.fail(input(), &format!("management of {k:?} is {g:?} but expected {w:?}")); }
				}
			}
		}
	}
	fn note(name: &str, skipped: &Skips) {
		println!("NOTE {name}: {} cases outside the statement skipped", skipped.values().sum::<u64>());
		for (why, n) in skipped { println!("NOTE {name}:   {n} x {why}"); }
	}

	// ------------------------------------------------------------------------------------------------------------------ 1. mediation on forests
	#[derive(Clone, Debug, PartialEq)]
	struct MT { label: usize, kids: Vec<MT> }
	/// all ordered forests with exactly n nodes (Catalan(n) of them)
	fn shapes(n: usize) -> Vec<Vec<MT>> {
		if n == 0 { return vec![vec![]]; }
		let mut out = Vec::new();
		for k in 1..=n {
			for first in shapes(k - 1) { for rest in shapes(n - k) {
				let mut f = vec![MT { label: 0, kids: first.clone() }];
				f.extend(rest.iter().cloned());
				out.push(f);
			}}
		}
		out
	}
	fn relabel(f: &[MT], labels: &[usize], next: &mut usize) -> Vec<MT> {
		f.iter().map(|t| { let l = labels[*next]; *next += 1; MT { label: l, kids: relabel(&t.kids, labels, next) } }).collect()
	}
	#[derive(Clone, Copy, Debug, PartialEq)]
	struct Label { c: (S, S, S, S, Option<S>), scope: Sc, repo: (S, S) }
	impl Label {
		fn coord(&self) -> Coord { Coord { g: self.c.0, a: self.c.1, v: self.c.2, ty: self.c.3, cl: self.c.4 } }
		fn real(&self) -> FoundDependency<'static> { FoundDependency { resolver: Resolver::new(self.repo.0, self.repo.1), coord: real_coord(&self.coord()), scope: real_scope(self.scope) } }
	}
	fn real_forest(f: &[MT], labels: &[Label]) -> Vec<Tree<FoundDependency<'static>>> {
		f.iter().map(|t| Tree { data: labels[t.label].real(), children: real_forest(&t.kids, labels) }).collect()
	}
	fn model_forest(f: &[Tree<FoundDependency<'static>>], reals: &[FoundDependency<'static>]) -> Option<Vec<MT>> {
		f.iter().map(|t| Some(MT { label: reals.iter().position(|l| *l == t.data)?, kids: model_forest(&t.children, reals)? })).collect()
	}
	/// level by level: of every artifact the first occurrence met counts (nearest to the roots, declaration order on the same depth); a rival is dropped
	/// with its whole subtree, i.e. its children never reach the next level
	fn mediate(f: &[MT], labels: &[Label]) -> Vec<MT> {
		// arena in pre-order
		struct N { label: usize, kids: Vec<usize> }
		fn add(t: &MT, arena: &mut Vec<N>) -> usize {
			let me = arena.len();
			arena.push(N { label: t.label, kids: vec![] });
			for k in &t.kids { let i = add(k, arena); arena[me].kids.push(i); }
			me
		}
		let mut arena = Vec::new();
		let roots: Vec<usize> = f.iter().map(|t| add(t, &mut arena)).collect();
		let mut kept = vec![false; arena.len()];
		let mut taken: Vec<Key> = Vec::new();
		let mut level = roots.clone();
		while !level.is_empty() {
			let mut next = Vec::new();
			for &n in &level {
				let k = labels[arena[n].label].coord().key();
				if !taken.contains(&k) { taken.push(k); kept[n] = true; next.extend(arena[n].kids.iter().copied()); }
			}
			level = next;
		}
		fn build(n: usize, arena: &[N], kept: &[bool]) -> MT { MT { label: arena[n].label, kids: arena[n].kids.iter().filter(|k| kept[**k]).map(|k| build(*k, arena, kept)).collect() } }
		roots.iter().filter(|r| kept[**r]).map(|r| build(*r, &arena, &kept)).collect()
	}
	fn bfs_labels(f: &[MT]) -> Vec<usize> {
		let mut q: VecDeque<&MT> = f.iter().collect();
		let mut out = Vec::new();
		while let Some(t) = q.pop_front() { out.push(t.label); q.extend(t.kids.iter()); }
		out
	}
	fn show_forest(f: &[MT], labels: &[Label]) -> String {
		f.iter().map(|t| {
			let l = &labels[t.label];
			let mut s = format!("{}:{}@{}", l.coord().text(), l.scope.text(), l.repo.0);
			if !t.kids.is_empty() { s += &format!("[{}]", show_forest(&t.kids, labels)); }
			s
		}).collect::<Vec<_>>().join(", ")
	}
	fn forests_against_model(name: &'static str, labels: &[Label], max_nodes: usize) {
		let mut t = Tally::new(name);
		let reals: Vec<FoundDependency<'static>> = labels.iter().map(|l| l.real()).collect();
		for n in 0..=max_nodes {
			let shapes = shapes(n);
			let mut assignment = vec![0usize; n];
			'labels: loop {
				for shape in &shapes {
					let f = relabel(shape, &assignment, &mut 0);
					let want = mediate(&f, labels);
					t.at(format!("{n} nodes, labels {assignment:?}").as_bytes());
					t.case(want != f);
					let input = || format!("forest [{}]", show_forest(&f, labels));
					match guarded(|| clean_up_dependencies(real_forest(&f, labels))).unwrap_or(None) {
						None => t.fail(input(), "panicked"),
						Some(out) => match model_forest(&out, &reals) {
							None => t.fail(input(), &format!("the result contains a dependency that was not in the input: {out:?}")),
							Some(got) => {
								if got != want { t.fail(input(), &format!("cleaned to [{}] but nearest-wins gives [{}]", show_forest(&got, labels), show_forest(&want, labels))); }
								// the flat list of get_maven_dependencies is the breadth-first walk of this forest: no artifact twice
								let flat: Vec<Key> = Forest::into_breadth_first(out).map(|d| reals.iter().position(|l| *l == d).map(|l| labels[l].coord().key())).collect::<Option<Vec<_>>>().unwrap_or_default();
								let want_flat: Vec<Key> = bfs_labels(&want).into_iter().map(|l| labels[l].coord().key()).collect();
								if flat != want_flat { t.fail(input(), "the breadth-first list of the cleaned forest is not the breadth-first list of the winners"); }
								if flat.iter().enumerate().any(|(i, k)| flat[..i].contains(k)) { t.fail(input(), "an artifact occurs twice in the list"); }
							}
						},
					}
				}
				// next assignment
				let mut i = 0;
				loop {
					if i == n { break 'labels; }
					assignment[i] += 1;
					if assignment[i] < labels.len() { break; }
					assignment[i] = 0;
					i += 1;
				}
			}
		}
		t.finish();
	}
	const R0: (S, S) = ("first", "mem://one");
	const R1: (S, S) = ("second", "mem://two/");
	#[test]
	fn mediation_over_all_small_forests() {
		let l = |a: S, v: S| Label { c: ("org.ex", a, v, "jar", None), scope: Sc::Compile, repo: R0 };
		forests_against_model("mediation_over_all_small_forests", &[l("a", "1"), l("a", "2"), l("b", "1"), l("b", "2"), l("c", "1"), l("d", "1")], 5);
	}
	#[test]
	fn mediation_identity_is_group_artifact_classifier_type() {
		let labels = [
			Label { c: ("org.ex", "a", "1", "jar", None), scope: Sc::Compile, repo: R0 },
			// the same artifact: another version, scope and repository do not make it a different one
			Label { c: ("org.ex", "a", "2", "jar", None), scope: Sc::Test, repo: R1 },
			// different artifacts: other group, a classifier, another type
			Label { c: ("org.other", "a", "1", "jar", None), scope: Sc::Compile, repo: R0 },
			Label { c: ("org.ex", "a", "1", "jar", Some("sources")), scope: Sc::Compile, repo: R0 },
			Label { c: ("org.ex", "a", "1", "war", None), scope: Sc::Compile, repo: R0 },
			Label { c: ("org.ex", "b", "1", "jar", None), scope: Sc::Runtime, repo: R0 },
			Label { c: ("org.ex", "b", "2", "jar", None), scope: Sc::Compile, repo: R0 },
		];
		forests_against_model("mediation_identity_is_group_artifact_classifier_type", &labels, 4);
	}

	// ------------------------------------------------------------------------------------------------------------------ 2. scope table through POMs
	#[test]
	fn scope_table_and_optional_through_three_levels() {
		let mut t = Tally::new("scope_table_and_optional_through_three_levels");
		let mut cache = XmlCache::new();
		let mut skipped = Skips::new();
		let scopes: Vec<Option<Sc>> = std::iter::once(None).chain(ALL_SC.iter().map(|s| Some(*s))).collect();
		let opts = [None, Some(false), Some(true)];
		for s0 in ALL_SC { for &s1 in &scopes { for o1 in opts { for &s2 in &scopes { for o2 in opts {
			let u = vec![MRepo { name: R0.0, url: R0.1, poms: vec![
				pom("t", "r", "1").deps(vec![dep("t", "x").v("1").osc(s1).opt(o1)]),
				pom("t", "x", "1").deps(vec![dep("t", "y").v("1").osc(s2).opt(o2)]),
				pom("t", "y", "1").deps(vec![dep("t", "z").v("1")]),
				pom("t", "z", "1"),
			] }];
			let roots = [(Coord::gav("t", "r", "1"), s0)];
			t.at(format!("{s0:?} {s1:?} {o1:?} {s2:?} {o2:?}").as_bytes());
			if let Some(e) = check_resolution(&mut t, &mut cache, &u, None, &roots, Mode::Strict, &mut skipped) {
				t.case(matches!(e, Expect::List(ref l) if l.len() > 1));
			}
		}}}}}
		// the 16 documented cells once more, literally, through a two-level universe
		let cells: [(Sc, Sc, Option<Sc>); 16] = [
			(Sc::Compile, Sc::Compile, Some(Sc::Compile)), (Sc::Compile, Sc::Provided, None), (Sc::Compile, Sc::Runtime, Some(Sc::Runtime)), (Sc::Compile, Sc::Test, None),
			(Sc::Provided, Sc::Compile, Some(Sc::Provided)), (Sc::Provided, Sc::Provided, None), (Sc::Provided, Sc::Runtime, Some(Sc::Provided)), (Sc::Provided, Sc::Test, None),
			(Sc::Runtime, Sc::Compile, Some(Sc::Runtime)), (Sc::Runtime, Sc::Provided, None), (Sc::Runtime, Sc::Runtime, Some(Sc::Runtime)), (Sc::Runtime, Sc::Test, None),
			(Sc::Test, Sc::Compile, Some(Sc::Test)), (Sc::Test, Sc::Provided, None), (Sc::Test, Sc::Runtime, Some(Sc::Test)), (Sc::Test, Sc::Test, None),
		];
		for (left, top, cell) in cells {
			let u = vec![MRepo { name: R0.0, url: R0.1, poms: vec![pom("t", "r", "1").deps(vec![dep("t", "x").v("1").sc(top)]), pom("t", "x", "1")] }];
			let roots = [(Coord::gav("t", "r", "1"), left)];
			t.at(format!("cell {left:?} {top:?}").as_bytes());
			t.case(true);
			let mem = cache.mem(&u).expect("xml");
			let got = run_real(&u, &mem, &roots).and_then(|r| r.ok()).map(|l| l.iter().map(|g| (g.coord.artifact.clone(), g.scope)).collect::<Vec<_>>());
			let mut want = vec![("r".to_owned(), left)];
			if let Some(s) = cell { want.push(("x".to_owned(), s)); }
			if got.as_ref() != Some(&want) { t.fail(format!("dependency of scope {} declares a dependency of scope {}", left.text(), top.text()), &format!("got {got:?}, the table gives {want:?}")); }
		}
		note("scope_table_and_optional_through_three_levels", &skipped);
		t.finish();
	}

	// ------------------------------------------------------------------------------------------------------------------ 3. mediation through POM graphs
	#[test]
	fn resolution_over_all_small_pom_graphs() {
		let mut t = Tally::new("resolution_over_all_small_pom_graphs");
		let mut cache = XmlCache::new();
		let mut skipped = Skips::new();
		let vs: [S; 2] = ["1", "2"];
		// what a version of `a` may declare: at most one `b` and one `c`, in either order (13 lists); a version of `b`: nothing or one `c` (3 lists)
		let mut a_lists: Vec<Vec<MDep>> = vec![vec![]];
		for v in vs { a_lists.push(vec![dep("gb", "b").v(v)]); a_lists.push(vec![dep("g.c", "c").v(v)]); }
		for vb in vs { for vc in vs {
			a_lists.push(vec![dep("gb", "b").v(vb), dep("g.c", "c").v(vc)]);
			a_lists.push(vec![dep("g.c", "c").v(vc), dep("gb", "b").v(vb)]);
		}}
		let b_lists: Vec<Vec<MDep>> = vec![vec![], vec![dep("g.c", "c").v("1")], vec![dep("g.c", "c").v("2")]];
		let all: Vec<Coord> = vec![Coord::gav("ga", "a", "1"), Coord::gav("ga", "a", "2"), Coord::gav("gb", "b", "1"), Coord::gav("gb", "b", "2"), Coord::gav("g.c", "c", "1"), Coord::gav("g.c", "c", "2")];
		// root lists: every list of at most two coordinates; single roots in two scopes, pairs as compile+compile and compile+test
		let mut root_lists: Vec<Vec<(Coord, Sc)>> = vec![vec![]];
		for c in &all { for s in [Sc::Compile, Sc::Test] { root_lists.push(vec![(c.clone(), s)]); } }
		for c in &all { for d in &all { for s in [Sc::Compile, Sc::Test] { root_lists.push(vec![(c.clone(), Sc::Compile), (d.clone(), s)]); } } }
		for a1 in &a_lists { for a2 in &a_lists { for b1 in &b_lists { for b2 in &b_lists {
			// `a` only in the first repository, `b` only in the second, `c` in both
			let u = vec![
				MRepo { name: R0.0, url: R0.1, poms: vec![pom("ga", "a", "1").deps(a1.clone()), pom("ga", "a", "2").deps(a2.clone()), pom("g.c", "c", "1"), pom("g.c", "c", "2")] },
				MRepo { name: R1.0, url: R1.1, poms: vec![pom("gb", "b", "1").deps(b1.clone()), pom("gb", "b", "2").deps(b2.clone()), pom("g.c", "c", "1"), pom("g.c", "c", "2")] },
			];
			let mem = match cache.mem(&u) { Ok(m) => m, Err(e) => { t.fail(show_universe(&u), &e); continue; } };
			let utext = show_universe(&u);
			for roots in &root_lists {
				t.at(format!("{} / {utext}", show_roots(roots)).as_bytes());
				if let Some(e) = check_resolution(&mut t, &mut cache, &u, Some(&mem), roots, Mode::Strict, &mut skipped) {
					// nontrivial: some occurrence lost against a nearer / earlier one
					let Expect::List(l) = e else { t.case(false); continue; };
					let mut all_occurrences = 0;
					fn count(u: &[MRepo], c: &Coord, n: &mut usize) { *n += 1; if let Ok(e) = effective(u, (c.g, c.a, c.v), Mode::Strict, 0) { if let Ok(d) = e.deps { for x in d { count(u, &x.c, n); } } } }
					for (c, _) in roots { count(&u, c, &mut all_occurrences); }
					t.case(all_occurrences > l.len());
				}
			}
		}}}}
		note("resolution_over_all_small_pom_graphs", &skipped);
		t.finish();
	}

	// ------------------------------------------------------------------------------------------------------------------ 4. effective POM: inheritance
	#[test]
	fn effective_pom_inherits_through_the_parent_chain() {
		let mut t = Tally::new("effective_pom_inherits_through_the_parent_chain");
		let mut cache = XmlCache::new();
		let mut skipped = Skips::new();
		let leaves = || -> Vec<MPom> {
			let mut l = Vec::new();
			for a in ["cx", "cy", "px", "py", "gy", "gz", "m"] { for v in ["1", "2", "7"] { l.push(pom("leaf", a, v)); } }
			l
		};
		let c_deps: Vec<Vec<MDep>> = vec![vec![], vec![dep("leaf", "cx").v("1")], vec![dep("leaf", "cx").v("1"), dep("leaf", "cy").v("2").sc(Sc::Provided)]];
		let p_deps: Vec<Vec<MDep>> = vec![vec![], vec![dep("leaf", "py").v("1")], vec![dep("leaf", "py").v("1").sc(Sc::Test), dep("leaf", "px").v("2")]];
		let g_deps: Vec<Vec<MDep>> = vec![vec![], vec![dep("leaf", "gz").v("1").sc(Sc::Runtime)], vec![dep("leaf", "gz").v("1").sc(Sc::Runtime), dep("leaf", "gy").v("1").opt(Some(true))]];
		let base = cache.mem(&[MRepo { name: R0.0, url: R0.1, poms: leaves() }]).expect("xml");
		let og: [Option<S>; 2] = [None, Some("own.group")];
		let ov: [Option<S>; 2] = [None, Some("5")];
		// what the top-most POM lacks (Maven refuses a POM without parent that has no groupId / version)
		#[derive(Clone, Copy, PartialEq, Debug)] enum Lack { Nothing, Group, Version }
		for depth in 1..=3usize {
		for lack in [Lack::Nothing, Lack::Group, Lack::Version] {
		for cg in og { for cv in ov { for pg in og { for pv in ov {
			if depth == 1 && (pg.is_some() || pv.is_some() || cg.is_none() || cv.is_none()) { continue; }
			if depth == 2 && (pg.is_none() || pv.is_none()) { continue; }
		for cd in &c_deps { for pd in &p_deps { for gd in &g_deps {
			if depth < 2 && !pd.is_empty() { continue; }
			if depth < 3 && !gd.is_empty() { continue; }
		for p_manages in [false, true] { for g_manages in [false, true] { for c_uses_managed in [false, true] {
			if depth < 2 && p_manages { continue; }
			if depth < 3 && g_manages { continue; }
		for packaging in [None, Some("jar"), Some("war")] {
			// the chain from the top
			let mut poms = Vec::new();
			let top_fix = |mut p: MPom| -> MPom { match lack { Lack::Nothing => {}, Lack::Group => p.g = None, Lack::Version => p.v = None }; p };
			// grandparent
			let g_at = ("top.group", "g", "9");
			let mut gp = pom(g_at.0, g_at.1, g_at.2).packaging("pom").deps(gd.clone());
			if g_manages { gp.dm = vec![dep("leaf", "m").v("1").sc(Sc::Runtime)]; }
			// parent
			let p_at: (S, S, S) = if depth == 3 { (pg.unwrap_or(g_at.0), "p", pv.unwrap_or(g_at.2)) } else { ("par.group", "p", "8") };
			let mut pp = pom(p_at.0, p_at.1, p_at.2).packaging("pom").deps(pd.clone());
			if depth == 3 { pp.g = pg; pp.v = pv; pp.parent = Some(g_at); }
			if p_manages { pp.dm = vec![dep("leaf", "m").v("2")]; }
			// child
			let c_at: (S, S, S) = if depth >= 2 { (cg.unwrap_or(p_at.0), "c", cv.unwrap_or(p_at.2)) } else { ("own.group", "c", "5") };
			let mut cp = pom(c_at.0, c_at.1, c_at.2);
			cp.packaging = packaging;
			cp.deps = cd.clone();
			if c_uses_managed { cp.deps.push(dep("leaf", "m")); }
			if depth >= 2 { cp.g = cg; cp.v = cv; cp.parent = Some(p_at); }
			match depth { 1 => { cp = top_fix(cp); } 2 => { pp = top_fix(pp); } _ => { gp = top_fix(gp); } }
			poms.push(cp);
			if depth >= 2 { poms.push(pp); }
			if depth >= 3 { poms.push(gp); }
			let mem = match cache.over(&base, &[MRepo { name: R0.0, url: R0.1, poms: poms.clone() }]) { Ok(m) => m, Err(e) => { t.fail(format!("{poms:?}"), &e); continue; } };
			poms.extend(leaves());
			let u = vec![MRepo { name: R0.0, url: R0.1, poms }];
			t.at(format!("depth {depth} {lack:?} {cg:?} {cv:?} {pg:?} {pv:?}").as_bytes());
			check_effective(&mut t, &u, &mem, c_at, &[Key { g: "leaf", a: "m", ty: "jar", cl: None }], Mode::Strict);
			for s in [Sc::Compile, Sc::Test] {
				let roots = [(Coord::gav(c_at.0, c_at.1, c_at.2), s)];
				if let Some(e) = check_resolution(&mut t, &mut cache, &u, Some(&mem), &roots, Mode::Strict, &mut skipped) {
					t.case(depth >= 2 && matches!(e, Expect::List(_)));
				}
			}
		}}}}}}}}}}}}}
		note("effective_pom_inherits_through_the_parent_chain", &skipped);
		t.finish();
	}

	// ------------------------------------------------------------------------------------------------------------------ 5. effective POM: management and imports
	fn bom_universe_fixed() -> Vec<MPom> {
		let mut l = Vec::new();
		for a in ["x", "y", "z", "w"] { for v in ["1", "2", "3", "4", "b1", "b2", "pv", "cv", "cw", "dv"] { l.push(pom("lib", a, v)); } }
		l.push(pom("lib", "q", "1"));
		l.push(pom("lib", "q", "pq"));
		// BOMs: b1 and b2 overlap on x; b3 has a parent that manages w and itself imports b1 after an own entry
		l.push(pom("bom", "b1", "1").packaging("pom").dm(vec![dep("lib", "x").v("b1"), dep("lib", "y").v("1").sc(Sc::Test)]));
		l.push(pom("bom", "b2", "1").packaging("pom").dm(vec![dep("lib", "x").v("b2").sc(Sc::Runtime), dep("lib", "z").v("2")]));
		l.push(pom("bom", "bp", "1").packaging("pom").dm(vec![dep("lib", "w").v("4").sc(Sc::Provided)]));
		let mut b3 = pom("bom", "b3", "1").packaging("pom").parent(("bom", "bp", "1")).dm(vec![dep("lib", "z").v("3"), dep("bom", "b1").v("1").import()]);
		b3.g = None; b3.v = None; b3.at = ("bom", "b3", "1");
		l.push(b3);
		l
	}
	#[test]
	fn effective_pom_management_and_imports() {
		let mut t = Tally::new("effective_pom_management_and_imports");
		let mut cache = XmlCache::new();
		let mut skipped = Skips::new();
		let fixed = bom_universe_fixed();
		let base = cache.mem(&[MRepo { name: R0.0, url: R0.1, poms: fixed.clone() }]).expect("xml");
		let imp = |a: S| dep("bom", a).v("1").import();
		let parents: Vec<Option<(Vec<MDep>, Vec<MDep>)>> = {
			let mut l = vec![None];
			let dms: Vec<Vec<MDep>> = vec![vec![], vec![dep("lib", "x").v("pv")], vec![dep("lib", "w").v("pv")], vec![dep("lib", "z").v("pv").sc(Sc::Test)]];
			// the parent's own dependency: none / q with a version / q managed by the parent itself (nobody else manages q)
			for dm in &dms { for with_import in [false, true] { for deps in 0..3 {
				let mut dm = dm.clone();
				if deps == 2 { dm.insert(0, dep("lib", "q").v("pq").sc(Sc::Runtime)); }
				if with_import { dm.push(imp("b2")); }
				l.push(Some((dm, match deps { 0 => vec![], 1 => vec![dep("lib", "q").v("1")], _ => vec![dep("lib", "q")] })));
			}}}
			l
		};
		let own_dm: Vec<Vec<MDep>> = vec![
			vec![], vec![dep("lib", "x").v("cv")], vec![dep("lib", "x").v("cv").sc(Sc::Provided)], vec![dep("lib", "x").cl("s").v("cv")],
			vec![dep("lib", "x").v("cv"), dep("lib", "x").ty("war").v("cw").sc(Sc::Runtime)],
		];
		let imports: Vec<Vec<MDep>> = vec![vec![], vec![imp("b1")], vec![imp("b2")], vec![imp("b1"), imp("b2")], vec![imp("b2"), imp("b1")], vec![imp("b3")], vec![imp("b3"), imp("b2")]];
		let menu: Vec<MDep> = vec![
			dep("lib", "x"), dep("lib", "x").v("dv"), dep("lib", "x").sc(Sc::Compile), dep("lib", "x").cl("s"), dep("lib", "x").ty("war"),
			dep("lib", "y"), dep("lib", "z"), dep("lib", "w"), dep("lib", "x").v("dv").sc(Sc::Test).opt(Some(true)), dep("lib", "y").ty("test-jar").v("2"),
		];
		let mut dep_lists: Vec<Vec<MDep>> = vec![vec![]];
		for a in &menu { dep_lists.push(vec![a.clone()]); }
		for a in &menu { for b in &menu { if key_of(a) != key_of(b) { dep_lists.push(vec![a.clone(), b.clone()]); } } }
		let keys = [
			Key { g: "lib", a: "x", ty: "jar", cl: None }, Key { g: "lib", a: "x", ty: "jar", cl: Some("s") }, Key { g: "lib", a: "x", ty: "war", cl: None },
			Key { g: "lib", a: "y", ty: "jar", cl: None }, Key { g: "lib", a: "z", ty: "jar", cl: None }, Key { g: "lib", a: "w", ty: "jar", cl: None },
			Key { g: "lib", a: "y", ty: "test-jar", cl: Some("tests") },
		];
		for parent in &parents { for own in &own_dm { for imps in &imports {
			// the effective management does not depend on the dependency list: checked once per management configuration
			let mut first = true;
			for deps in &dep_lists {
				let mut poms = Vec::new();
				let mut c = pom("app", "c", "1").deps(deps.clone());
				c.dm = own.iter().cloned().chain(imps.iter().cloned()).collect();
				if let Some((pdm, pdeps)) = parent {
					poms.push(pom("app", "p", "1").packaging("pom").dm(pdm.clone()).deps(pdeps.clone()));
					c.parent = Some(("app", "p", "1"));
					c.g = None;
				}
				poms.push(c);
				let mem = match cache.over(&base, &[MRepo { name: R0.0, url: R0.1, poms: poms.clone() }]) { Ok(m) => m, Err(e) => { t.fail(format!("{poms:?}"), &e); continue; } };
				poms.extend(fixed.iter().cloned());
				let u = vec![MRepo { name: R0.0, url: R0.1, poms }];
				t.at(format!("parent {:?} own {:?} imports {:?} deps {:?}", parent.as_ref().map(|p| p.0.len()), own.len(), imps.len(), deps.iter().map(|d| d.show()).collect::<Vec<_>>()).as_bytes());
				if first { check_effective(&mut t, &u, &mem, ("app", "c", "1"), &keys, Mode::Strict); first = false; }
				else if deps.len() == 1 { check_effective(&mut t, &u, &mem, ("app", "c", "1"), &[], Mode::Strict); }
				let roots = [(Coord::gav("app", "c", "1"), Sc::Compile)];
				if let Some(e) = check_resolution(&mut t, &mut cache, &u, Some(&mem), &roots, Mode::Strict, &mut skipped) {
					// nontrivial: a version or scope was filled in by the management
					t.case(matches!(e, Expect::List(_)) && deps.iter().any(|d| d.v.is_none()));
				}
			}
		}}}
		note("effective_pom_management_and_imports", &skipped);
		t.finish();
	}
	/// Maven Model Builder, "effective model": inheritance assembly comes before dependency management import and injection, so a dependency
	/// inherited from a parent is filled in by the management of the POM being built (where the child's entries win over the parent's).
	#[test]
	fn inherited_dependencies_use_the_management_of_the_inheriting_pom() {
		let mut t = Tally::new("inherited_dependencies_use_the_management_of_the_inheriting_pom");
		let mut cache = XmlCache::new();
		let mut skipped = Skips::new();
		let mut fixed: Vec<MPom> = ["1", "2", "3", "b2"].iter().map(|v| pom("lib", "x", v)).collect();
		fixed.push(pom("bom", "b2", "1").packaging("pom").dm(vec![dep("lib", "x").v("b2").sc(Sc::Runtime)]));
		let p_dms: Vec<Vec<MDep>> = vec![vec![dep("lib", "x").v("1")], vec![dep("lib", "x").v("1").sc(Sc::Test)], vec![]];
		let p_deps: Vec<MDep> = vec![dep("lib", "x"), dep("lib", "x").v("3"), dep("lib", "x").sc(Sc::Runtime), dep("lib", "x").v("3").sc(Sc::Runtime)];
		let c_dms: Vec<Vec<MDep>> = vec![vec![], vec![dep("lib", "x").v("2")], vec![dep("lib", "x").v("2").sc(Sc::Provided)], vec![dep("bom", "b2").v("1").import()]];
		for pdm in &p_dms { for pd in &p_deps { for cdm in &c_dms { for s in [Sc::Compile, Sc::Runtime] {
			let mut poms = fixed.clone();
			poms.push(pom("app", "p", "1").packaging("pom").dm(pdm.clone()).deps(vec![pd.clone()]));
			poms.push(pom("app", "c", "1").parent(("app", "p", "1")).dm(cdm.clone()));
			let u = vec![MRepo { name: R0.0, url: R0.1, poms }];
			let roots = [(Coord::gav("app", "c", "1"), s)];
			t.at(format!("{pdm:?} {pd:?} {cdm:?}").as_bytes());
			let differs = matches!(expectation(&u, &roots, Mode::Strict), Expect::Skip(_));
			if check_resolution(&mut t, &mut cache, &u, None, &roots, Mode::Maven, &mut skipped).is_some() { t.case(differs); }
		}}}}
		note("inherited_dependencies_use_the_management_of_the_inheriting_pom", &skipped);
		t.finish();
	}

	// ------------------------------------------------------------------------------------------------------------------ 6. repositories
	#[test]
	fn repositories_are_asked_in_order() {
		let mut t = Tally::new("repositories_are_asked_in_order");
		let mut cache = XmlCache::new();
		let mut skipped = Skips::new();
		let repos: [(S, S); 3] = [("zero", "mem://r0"), ("one", "mem://r1/"), ("two", "mem://host/sub/dir")];
		// the POM of the root differs between the repositories: it asks for another version of the leaf
		let leaf_versions: [S; 3] = ["1.0-20230713.025619-1", "1.0-SNAPSHOT", "2"];
		let orders: [[usize; 3]; 6] = [[0, 1, 2], [0, 2, 1], [1, 0, 2], [1, 2, 0], [2, 0, 1], [2, 1, 0]];
		for order in orders { for sr in 0..8u8 { for sp in 0..8u8 { for sx in 0..8u8 {
			let mut u: Vec<MRepo> = Vec::new();
			for &k in &order {
				let mut poms = Vec::new();
				if sr & (1 << k) != 0 { poms.push(pom("t.app", "r", "1").parent(("t.app", "p", "1")).deps(vec![dep("t.x.y", "leaf").v(leaf_versions[k])])); }
				if sp & (1 << k) != 0 { poms.push(pom("t.app", "p", "1").packaging("pom").deps(vec![dep("t", "pd").v("1")])); }
				if sx & (1 << k) != 0 { for v in leaf_versions { poms.push(pom("t.x.y", "leaf", v)); } }
				if k == 2 { poms.push(pom("t", "pd", "1")); }
				u.push(MRepo { name: repos[k].0, url: repos[k].1, poms });
			}
			let roots = [(Coord::gav("t.app", "r", "1"), Sc::Compile)];
			t.at(format!("{order:?} {sr} {sp} {sx}").as_bytes());
			if let Some(e) = check_resolution(&mut t, &mut cache, &u, None, &roots, Mode::Strict, &mut skipped) {
				t.case(matches!(e, Expect::List(_)) && (sr.count_ones() > 1 || sx.count_ones() > 1));
			}
		}}}}
		note("repositories_are_asked_in_order", &skipped);
		t.finish();
	}
	#[test]
	fn refused_universes() {
		let mut t = Tally::new("refused_universes");
		let mut cache = XmlCache::new();
		let mut skipped = Skips::new();
		let base = || vec![pom("t", "x", "1"), pom("t", "p", "1").packaging("pom"), pom("t", "q", "1")];
		let mut universes: Vec<(S, Vec<MPom>, bool)> = Vec::new();
		universes.push(("well formed", { let mut l = base(); l.push(pom("t", "r", "1").parent(("t", "p", "1")).deps(vec![dep("t", "x").v("1")])); l }, true));
		universes.push(("dependency without POM", { let mut l = base(); l.push(pom("t", "r", "1").deps(vec![dep("t", "nowhere").v("1")])); l }, false));
		universes.push(("parent without POM", { let mut l = base(); l.push(pom("t", "r", "1").parent(("t", "nowhere", "1"))); l }, false));
		universes.push(("imported BOM without POM", { let mut l = base(); l.push(pom("t", "r", "1").dm(vec![dep("t", "nowhere").v("1").import()])); l }, false));
		universes.push(("parent with packaging jar", { let mut l = base(); l.push(pom("t", "r", "1").parent(("t", "q", "1"))); l }, false));
		universes.push(("dependency without version, nothing manages it", { let mut l = base(); l.push(pom("t", "r", "1").deps(vec![dep("t", "x")])); l }, false));
		universes.push(("dependency without version, managed for another classifier only", { let mut l = base(); l.push(pom("t", "r", "1").dm(vec![dep("t", "x").cl("s").v("1")]).deps(vec![dep("t", "x")])); l }, false));
		universes.push(("managed entry without version", { let mut l = base(); l.push(pom("t", "r", "1").dm(vec![dep("t", "x")]).deps(vec![dep("t", "x").v("1")])); l }, false));
		universes.push(("modelVersion 4.0.1", { let mut l = base(); let mut r = pom("t", "r", "1"); r.model_version = "4.0.1"; l.push(r); l }, false));
		universes.push(("modelVersion 4.0.1 in a dependency", { let mut l = base(); l[0].model_version = "3"; l.push(pom("t", "r", "1").deps(vec![dep("t", "x").v("1")])); l }, false));
		universes.push(("no groupId anywhere", { let mut l = base(); let mut r = pom("t", "r", "1"); r.g = None; l.push(r); l }, false));
		universes.push(("no version anywhere", { let mut l = base(); let mut r = pom("t", "r", "1"); r.v = None; l.push(r); l }, false));
		universes.push(("broken POM only below an optional dependency", { let mut l = base(); l.push(pom("t", "r", "1").deps(vec![dep("t", "nowhere").v("1").opt(Some(true)), dep("t", "x").v("1")])); l }, true));
		universes.push(("broken POM only below a test dependency", { let mut l = base(); l.push(pom("t", "r", "1").deps(vec![dep("t", "nowhere").v("1").sc(Sc::Test), dep("t", "x").v("1")])); l }, true));
		for (what, poms, fine) in universes { for s in [Sc::Compile, Sc::Runtime, Sc::Test, Sc::Provided] {
			let u = vec![MRepo { name: R0.0, url: R0.1, poms: poms.clone() }];
			for roots in [vec![(Coord::gav("t", "r", "1"), s)], vec![(Coord::gav("t", "x", "1"), Sc::Compile), (Coord::gav("t", "r", "1"), s)]] {
				t.at(what.as_bytes());
				match check_resolution(&mut t, &mut cache, &u, None, &roots, Mode::Strict, &mut skipped) {
					Some(Expect::List(_)) => { t.case(true); if !fine { t.fail(what.to_owned(), "harness: the model accepts a universe that was meant to be refused"); } }
					Some(Expect::Refused(_)) => { t.case(true); if fine { t.fail(what.to_owned(), "harness: the model refuses a universe that was meant to be fine"); } }
					_ => {}
				}
			}
		}}
		// a root nobody serves; no repository at all
		let u = vec![MRepo { name: R0.0, url: R0.1, poms: base() }];
		t.case(true);
		check_resolution(&mut t, &mut cache, &u, None, &[(Coord::gav("t", "nowhere", "1"), Sc::Compile)], Mode::Strict, &mut skipped);
		t.case(true);
		check_resolution(&mut t, &mut cache, &[], None, &[(Coord::gav("t", "x", "1"), Sc::Compile)], Mode::Strict, &mut skipped);
		t.case(true);
		check_resolution(&mut t, &mut cache, &[], None, &[], Mode::Strict, &mut skipped);
		t.finish();
	}

	// ------------------------------------------------------------------------------------------------------------------ 7. printing and parsing
	/// `group:artifact[:type[:classifier]]:version`: three to five parts between colons
	fn model_parse(s: &str) -> Option<(String, String, String, Option<String>, String)> {
		let mut parts: Vec<String> = vec![String::new()];
		for ch in s.chars() { if ch == ':' { parts.push(String::new()); } else if let Some(l) = parts.last_mut() { l.push(ch); } }
		match parts.len() {
			3 => Some((parts[0].clone(), parts[1].clone(), "jar".to_owned(), None, parts[2].clone())),
			4 => Some((parts[0].clone(), parts[1].clone(), parts[2].clone(), None, parts[3].clone())),
			5 => Some((parts[0].clone(), parts[1].clone(), parts[2].clone(), Some(parts[3].clone()), parts[4].clone())),
			_ => None,
		}
	}
	fn tuple(c: &MavenCoord) -> (String, String, String, Option<String>, String) { (c.group.clone(), c.artifact.clone(), c.type_.clone(), c.classifier.clone(), c.version.clone()) }
	#[test]
	fn coordinates_parse_and_print() {
		let mut t = Tally::new("coordinates_parse_and_print");
		// (a) every string
		for_all_strings(b"a.:", 9, &mut |s| {
			let s = std::str::from_utf8(s).expect("ascii");
			t.at(s.as_bytes());
			let want = model_parse(s);
			t.case(want.is_some());
			match (guarded(|| MavenCoord::from_str(s).ok()).unwrap_or(None), want) {
				(None, _) => t.fail(format!("{s:?}"), "panicked"),
				(Some(None), None) => {}
				(Some(None), Some(w)) => t.fail(format!("{s:?}"), &format!("refused, the format gives {w:?}")),
				(Some(Some(c)), None) => t.fail(format!("{s:?}"), &format!("accepted as {c:?} although it has not three to five parts")),
				(Some(Some(c)), Some(w)) => {
					if tuple(&c) != w { t.fail(format!("{s:?}"), &format!("parsed as {c:?}, the format gives {w:?}")); }
					let printed = c.to_string();
					// the type is always listed; a string that lists it is printed back verbatim
					let colons = s.matches(':').count();
					let want_printed = if colons == 2 { format!("{}:{}:jar:{}", w.0, w.1, w.4) } else { s.to_owned() };
					if printed != want_printed { t.fail(format!("{s:?}"), &format!("printed as {printed:?}, expected {want_printed:?}")); }
					match MavenCoord::from_str(&printed) { Ok(back) if back == c => {}, other => t.fail(format!("{s:?}"), &format!("{printed:?} parsed back as {other:?}")) }
				}
			}
		});
		// (b) every coordinate of a small set of field values
		let gs = ["g", "org.ex", ""];
		let as_ = ["a", "a-b"];
		let vs = ["1", "1.0-SNAPSHOT", "1.0-20230713.025619-1", ""];
		let tys = ["jar", "war", "test-jar", ""];
		let cls = [None, Some("s"), Some("")];
		let urls = ["u", "https://repo.example/m2/", "a @ b", ""];
		for g in gs { for a in as_ { for v in vs { for ty in tys { for cl in cls {
			let m = Coord { g, a, v, ty, cl };
			let c = real_coord(&m);
			t.at(m.text().as_bytes());
			t.case(true);
			let printed = c.to_string();
			if printed != m.text() { t.fail(format!("{c:?}"), &format!("printed as {printed:?}, the format gives {:?}", m.text())); }
			match MavenCoord::from_str(&printed) { Ok(back) if back == c => {}, other => t.fail(format!("{c:?}"), &format!("{printed:?} parsed back as {other:?}")) }
			// resolved dependencies: `<coordinate>:<scope> @ <url>`
			for sc in ALL_SC { for url in urls {
				t.case(true);
				let f = FoundDependency { resolver: Resolver::new("some name", url), coord: c.clone(), scope: real_scope(sc) };
				let printed = f.to_string();
				let want = format!("{}:{} @ {}", m.text(), sc.text(), url);
				if printed != want { t.fail(format!("{f:?}"), &format!("printed as {printed:?}, expected {want:?}")); }
				match FoundDependency::try_from(printed.as_str()) {
					Ok(back) if back.coord == f.coord && back.scope == f.scope && back.resolver.maven == url => {}
					other => t.fail(format!("{f:?}"), &format!("{printed:?} parsed back as {other:?}")),
				}
			}}
		}}}}}
		// (c) scopes: the five documented names and nothing else
		for sc in ALL_SC {
			t.case(true);
			let r = real_scope(sc);
			if r.to_string() != sc.text() { t.fail(format!("{sc:?}"), "printed differently from the documented name"); }
			if DependencyScope::from_str(sc.text()).ok() != Some(r) { t.fail(format!("{sc:?}"), "documented name not parsed back"); }
		}
		for_all_strings(b"tesT", 5, &mut |s| {
			let s = std::str::from_utf8(s).expect("ascii");
			t.case(s == "test");
			let got = DependencyScope::from_str(s).ok();
			if got.is_some() != (s == "test") { t.fail(format!("{s:?}"), &format!("parsed as {got:?}")); }
		});
		for s in ["Compile", "compile ", " compile", "", "import", "COMPILE", "tests", "runtime\n", "provide", "systemic"] {
			t.case(true);
			if DependencyScope::from_str(s).is_ok() { t.fail(format!("{s:?}"), "accepted as a scope"); }
		}
		t.finish();
	}
	#[test]
	fn snapshot_versions_and_repository_layout() {
		let mut t = Tally::new("snapshot_versions_and_repository_layout");
		let prefixes = ["", "1", "1.0", "a-b", "1-2", "-"];
		let sep1 = ["-", "", "."];
		let dates = ["20230713", "2023071", "202307130", "2023071x", "", "20230-13"];
		let dots = [".", "", "-", "x", ".."];
		let times = ["025619", "02561", "0256190", "02561x", "", "0256.9"];
		let sep2 = ["-", "", "."];
		let builds = ["1", "28", "", "2x", "x", "1-2", "0123456789"];
		let bases = ["mem://r", "mem://r/", "mem://h/sub", ""];
		let mut n = 0usize;
		for p in prefixes { for s1 in sep1 { for d in dates { for dot in dots { for ti in times { for s2 in sep2 { for b in builds {
			let v = format!("{p}{s1}{d}{dot}{ti}{s2}{b}");
			let want = model_base_version(&v);
			t.at(v.as_bytes());
			t.case(want != v);
			let c = MavenCoord { group: "org.ex.lib".to_owned(), artifact: "art".to_owned(), version: v.clone(), classifier: None, type_: "jar".to_owned() };
			match guarded(|| c.base_version().into_owned()).unwrap_or(None) {
				None => t.fail(format!("{v:?}"), "panicked"),
				Some(got) => if got != want { t.fail(format!("{v:?}"), &format!("directory {got:?}, expected {want:?}")); },
			}
			let base = bases[n % bases.len()];
			n += 1;
			let r = Resolver::new("n", base);
			let want_url = model_url(base, "org.ex.lib", "art", &v, None, "pom");
			let got_url = c.make_pom_url(&r);
			if got_url != want_url { t.fail(format!("{v:?} in {base:?}"), &format!("POM url {got_url:?}, expected {want_url:?}")); }
		}}}}}}}
		// every short string is its own directory
		for_all_strings(b"1-.", 8, &mut |s| {
			let s = std::str::from_utf8(s).expect("ascii");
			t.case(false);
			let c = MavenCoord::from_group_artifact_version("g", "a", s);
			if c.base_version() != s { t.fail(format!("{s:?}"), "short version changed"); }
		});
		// artifact urls: type -> extension by the artifact handlers table, the classifier after the version
		let types = ["jar", "pom", "war", "ear", "rar", "test-jar", "maven-plugin", "ejb", "ejb-client", "java-source", "javadoc"];
		for g in ["g", "org.ex", "a.b.c.d"] { for a in ["a", "a-b"] { for v in ["1", "1.0-SNAPSHOT", "1.0-20230713.025619-12"] { for ty in types { for cl in [None, Some("sources"), Some("tests")] { for base in bases {
			t.case(true);
			let m = Coord { g, a, v, ty, cl };
			let f = FoundDependency { resolver: Resolver::new("n", base), coord: real_coord(&m), scope: DependencyScope::Compile };
			let want = model_url(base, g, a, v, cl, handler_extension(ty));
			let got = f.make_url();
			if got != want { t.fail(format!("{} in {base:?}", m.text()), &format!("url {got:?}, expected {want:?}")); }
		}}}}}}
		t.finish();
	}

	#[test]
	fn canary_must_fail() {
		// deliberately false: "the farthest occurrence wins"
		let mut t = Tally::new("canary_must_fail");
		let mut cache = XmlCache::new();
		let u = vec![MRepo { name: R0.0, url: R0.1, poms: vec![
			pom("t", "r", "1").deps(vec![dep("t", "x").v("1"), dep("t", "y").v("1")]),
			pom("t", "x", "1").deps(vec![dep("t", "y").v("2")]),
			pom("t", "y", "1"), pom("t", "y", "2"),
		] }];
		let mem = cache.mem(&u).expect("xml");
		let roots = [(Coord::gav("t", "r", "1"), Sc::Compile)];
		t.case(true);
		let got = run_real(&u, &mem, &roots).and_then(|r| r.ok()).map(|l| l.iter().map(|g| g.coord.to_string()).collect::<Vec<_>>());
		let want = vec!["t:r:jar:1".to_owned(), "t:x:jar:1".to_owned(), "t:y:jar:2".to_owned()];
		if got.as_ref() != Some(&want) { t.fail(show_universe(&u), &format!("canary: got {got:?}")); }
		t.finish();
	}
