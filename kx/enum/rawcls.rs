	// =====================================================================================================================
	// bounded exhaustive enumeration for C20 "raw_class_file reads and writes class files byte-exactly"
	//     raw_class_file::ClassFile::{read, write, to_bytes, length}            (raw_class_file/src/lib.rs, macros.rs)
	// Own model of a class file (pool entries, members, every attribute kind of JVMS 4.7), own byte builder written from
	// JVMS chapter 4 (`*_bytes`), own conversion of the model into the crate's public representation (`*_value`, through the
	// public fields), own skeleton walker (`o_walk`).  For every class of a universe:
	//   file side   (1) read(bytes) succeeds and consumes the file   (5) the value read is the model's value
	//               (2) write(read(bytes)) == bytes                   (3) length() == number of bytes written
	//               (4) read(write(v)) == v
	//   value side  (6) write(value built through the public fields) == bytes of the own builder (every count and
	//                   attribute_length as JVMS prescribes)          (7) length() == bytes written   (8) read(write(v)) == v
	// =====================================================================================================================
	use std::collections::HashMap;

	// ---------------------------------------------------------------------------------------------------------------------
	// own byte builder (JVMS 4: u1, u2, u4 big-endian)
	// ---------------------------------------------------------------------------------------------------------------------
	struct W { b: Vec<u8> }
	impl W {
		fn new() -> W { W { b: Vec::new() } }
		fn u1(&mut self, v: u8) { self.b.push(v); }
		fn u2(&mut self, v: u16) { self.b.push((v >> 8) as u8); self.b.push((v & 0xff) as u8); }
		fn u4(&mut self, v: u32) { for s in [24u32, 16, 8, 0] { self.b.push(((v >> s) & 0xff) as u8); } }
		fn raw(&mut self, v: &[u8]) { self.b.extend_from_slice(v); }
		// counts: the harness never builds a table longer than its count item can say
		fn n1(&mut self, n: usize) { assert!(n <= 0xff, "harness: table too long for a u1 count"); self.u1(n as u8); }
		fn n2(&mut self, n: usize) { assert!(n <= 0xffff, "harness: table too long for a u2 count"); self.u2(n as u16); }
		fn n4(&mut self, n: usize) { assert!(n <= 0xffff_ffff, "harness: table too long for a u4 count"); self.u4(n as u32); }
		fn rows<const N: usize>(&mut self, v: &[[u16; N]]) { for r in v { for f in r { self.u2(*f); } } }
		fn list2(&mut self, v: &[u16]) { self.n2(v.len()); for i in v { self.u2(*i); } }
	}
	fn hex(b: &[u8]) -> String {
		let mut s = String::new();
		for x in b.iter().take(400) { s += &format!("{x:02x}"); }
		if b.len() > 400 { s += &format!("...(+{} bytes)", b.len() - 400); }
		s
	}

	// ---------------------------------------------------------------------------------------------------------------------
	// the model: constant pool entries (JVMS 4.4)
	// ---------------------------------------------------------------------------------------------------------------------
	#[derive(Clone, Debug, PartialEq)]
	enum K {
		Utf8(Vec<u8>), Int(u32), Float(u32), Long(u32, u32), Double(u32, u32), Class(u16), Str(u16), Field(u16, u16), Method(u16, u16), IMethod(u16, u16),
		NaT(u16, u16), MHandle(u8, u16), MType(u16), Dynamic(u16, u16), Indy(u16, u16), Module(u16), Package(u16),
	}
	fn k_bytes(k: &K, w: &mut W) {
		match k {
			K::Utf8(b) => { w.u1(1); w.n2(b.len()); w.raw(b); },
			K::Int(v) => { w.u1(3); w.u4(*v); },
			K::Float(v) => { w.u1(4); w.u4(*v); },
			K::Long(h, l) => { w.u1(5); w.u4(*h); w.u4(*l); },
			K::Double(h, l) => { w.u1(6); w.u4(*h); w.u4(*l); },
			K::Class(n) => { w.u1(7); w.u2(*n); },
			K::Str(n) => { w.u1(8); w.u2(*n); },
			K::Field(c, n) => { w.u1(9); w.u2(*c); w.u2(*n); },
			K::Method(c, n) => { w.u1(10); w.u2(*c); w.u2(*n); },
			K::IMethod(c, n) => { w.u1(11); w.u2(*c); w.u2(*n); },
			K::NaT(n, d) => { w.u1(12); w.u2(*n); w.u2(*d); },
			K::MHandle(kind, i) => { w.u1(15); w.u1(*kind); w.u2(*i); },
			K::MType(d) => { w.u1(16); w.u2(*d); },
			K::Dynamic(b, n) => { w.u1(17); w.u2(*b); w.u2(*n); },
			K::Indy(b, n) => { w.u1(18); w.u2(*b); w.u2(*n); },
			K::Module(n) => { w.u1(19); w.u2(*n); },
			K::Package(n) => { w.u1(20); w.u2(*n); },
		}
	}
	/// JVMS 4.4.5: "All 8-byte constants take up two entries in the constant_pool table"
	fn k_slots(k: &K) -> usize { match k { K::Long(..) | K::Double(..) => 2, _ => 1 } }
	fn k_value(k: &K) -> CpInfo {
		match k.clone() {
			K::Utf8(bytes) => CpInfo::Utf8 { bytes },
			K::Int(bytes) => CpInfo::Integer { bytes },
			K::Float(bytes) => CpInfo::Float { bytes },
			K::Long(high_bytes, low_bytes) => CpInfo::Long { high_bytes, low_bytes },
			K::Double(high_bytes, low_bytes) => CpInfo::Double { high_bytes, low_bytes },
			K::Class(name_index) => CpInfo::Class { name_index },
			K::Str(string_index) => CpInfo::String { string_index },
			K::Field(class_index, name_and_type_index) => CpInfo::Fieldref { class_index, name_and_type_index },
			K::Method(class_index, name_and_type_index) => CpInfo::Methodref { class_index, name_and_type_index },
			K::IMethod(class_index, name_and_type_index) => CpInfo::InterfaceMethodref { class_index, name_and_type_index },
			K::NaT(name_index, descriptor_index) => CpInfo::NameAndType { name_index, descriptor_index },
			K::MHandle(reference_kind, reference_index) => CpInfo::MethodHandle { reference_kind, reference_index },
			K::MType(descriptor_index) => CpInfo::MethodType { descriptor_index },
			K::Dynamic(bootstrap_method_attr_index, name_and_type_index) => CpInfo::Dynamic { bootstrap_method_attr_index, name_and_type_index },
			K::Indy(bootstrap_method_attr_index, name_and_type_index) => CpInfo::InvokeDynamic { bootstrap_method_attr_index, name_and_type_index },
			K::Module(name_index) => CpInfo::Module { name_index },
			K::Package(name_index) => CpInfo::Package { name_index },
		}
	}

	// ---------------------------------------------------------------------------------------------------------------------
	// the model: annotations (4.7.16), type annotations (4.7.20), stack map frames (4.7.4), attributes (4.7), members, class
	// ---------------------------------------------------------------------------------------------------------------------
	#[derive(Clone, Debug)] struct Ann { ty: u16, pairs: Vec<(u16, Ev)> }
	#[derive(Clone, Debug)] enum Ev { Const(u8, u16), Enum(u16, u16), Class(u16), Ann(Box<Ann>), Array(Vec<Ev>) }
	#[derive(Clone, Debug)] enum Target { TypeParameter(u8), Supertype(u16), Bound(u8, u8), Empty, Formal(u8), Throws(u16), Localvar(Vec<[u16; 3]>), Catch(u16), Offset(u16), TypeArgument(u16, u8) }
	#[derive(Clone, Debug)] struct TAnn { target_type: u8, target: Target, path: Vec<(u8, u8)>, ty: u16, pairs: Vec<(u16, Ev)> }
	#[derive(Clone, Debug)] enum Vt { Top, Integer, Float, Double, Long, Null, UninitThis, Object(u16), Uninit(u16) }
	/// Same(delta 0..=63), SameLocals1(delta 0..=63, _), Chop(k 1..=3, delta), Append(delta, 1..=3 locals)
	#[derive(Clone, Debug)] enum Fr { Same(u8), SameLocals1(u8, Vt), SameLocals1Ext(u16, Vt), Chop(u8, u16), SameExt(u16), Append(u16, Vec<Vt>), Full(u16, Vec<Vt>, Vec<Vt>) }
	#[derive(Clone, Debug, Default)]
	struct Mod { name: u16, flags: u16, version: u16, requires: Vec<[u16; 3]>, exports: Vec<(u16, u16, Vec<u16>)>, opens: Vec<(u16, u16, Vec<u16>)>, uses: Vec<u16>, provides: Vec<(u16, Vec<u16>)> }
	#[derive(Clone, Debug)]
	enum Body {
		ConstantValue(u16),
		Code { max_stack: u16, max_locals: u16, code: Vec<u8>, table: Vec<[u16; 4]>, attrs: Vec<At> },
		StackMapTable(Vec<Fr>),
		Exceptions(Vec<u16>),
		InnerClasses(Vec<[u16; 4]>),
		EnclosingMethod(u16, u16),
		Synthetic,
		Signature(u16),
		SourceFile(u16),
		SourceDebugExtension(Vec<u8>),
		LineNumberTable(Vec<[u16; 2]>),
		LocalVariableTable(Vec<[u16; 5]>),
		LocalVariableTypeTable(Vec<[u16; 5]>),
		Deprecated,
		Annotations(bool, Vec<Ann>),
		ParameterAnnotations(bool, Vec<Vec<Ann>>),
		TypeAnnotations(bool, Vec<TAnn>),
		AnnotationDefault(Ev),
		BootstrapMethods(Vec<(u16, Vec<u16>)>),
		MethodParameters(Vec<[u16; 2]>),
		Module(Mod),
		ModulePackages(Vec<u16>),
		ModuleMainClass(u16),
		NestHost(u16),
		NestMembers(Vec<u16>),
		Record(Vec<(u16, u16, Vec<At>)>),
		PermittedSubclasses(Vec<u16>),
		/// an attribute JVMS does not define (4.7.1); the name is whatever `At::name` says
		Unknown(Vec<u8>),
	}
	/// the attribute name JVMS 4.7 gives to the structure
	fn jvms_name(b: &Body) -> &'static str {
		match b {
			Body::ConstantValue(_) => "ConstantValue", Body::Code { .. } => "Code", Body::StackMapTable(_) => "StackMapTable", Body::Exceptions(_) => "Exceptions",
			Body::InnerClasses(_) => "InnerClasses", Body::EnclosingMethod(..) => "EnclosingMethod", Body::Synthetic => "Synthetic", Body::Signature(_) => "Signature",
			Body::SourceFile(_) => "SourceFile", Body::SourceDebugExtension(_) => "SourceDebugExtension", Body::LineNumberTable(_) => "LineNumberTable",
			Body::LocalVariableTable(_) => "LocalVariableTable", Body::LocalVariableTypeTable(_) => "LocalVariableTypeTable", Body::Deprecated => "Deprecated",
			Body::Annotations(true, _) => "RuntimeVisibleAnnotations", Body::Annotations(false, _) => "RuntimeInvisibleAnnotations",
			Body::ParameterAnnotations(true, _) => "RuntimeVisibleParameterAnnotations", Body::ParameterAnnotations(false, _) => "RuntimeInvisibleParameterAnnotations",
			Body::TypeAnnotations(true, _) => "RuntimeVisibleTypeAnnotations", Body::TypeAnnotations(false, _) => "RuntimeInvisibleTypeAnnotations",
			Body::AnnotationDefault(_) => "AnnotationDefault", Body::BootstrapMethods(_) => "BootstrapMethods", Body::MethodParameters(_) => "MethodParameters",
			Body::Module(_) => "Module", Body::ModulePackages(_) => "ModulePackages", Body::ModuleMainClass(_) => "ModuleMainClass", Body::NestHost(_) => "NestHost",
			Body::NestMembers(_) => "NestMembers", Body::Record(_) => "Record", Body::PermittedSubclasses(_) => "PermittedSubclasses",
			Body::Unknown(_) => panic!("harness: an unknown attribute has no JVMS name"),
		}
	}
	#[derive(Clone, Debug)] struct At { name: String, body: Body }
	fn at(body: Body) -> At { At { name: jvms_name(&body).to_string(), body } }
	fn unknown(name: &str, bytes: &[u8]) -> At { At { name: name.to_string(), body: Body::Unknown(bytes.to_vec()) } }
	#[derive(Clone, Debug)] struct Mem { access: u16, name: u16, desc: u16, attrs: Vec<At> }
	/// where the entries that are not part of the base go: before the base, between base and attribute names, after the
	/// first attribute name, after all names
	#[derive(Clone, Debug, Default)] struct Layout { front: Vec<K>, mid: Vec<K>, after_first_name: Vec<K>, back: Vec<K> }
	#[derive(Clone, Debug)]
	struct Cls { minor: u16, major: u16, layout: Layout, access: u16, this: u16, sup: u16, ifaces: Vec<u16>, fields: Vec<Mem>, methods: Vec<Mem>, attrs: Vec<At> }

	// ---------------------------------------------------------------------------------------------------------------------
	// the base pool (20 one-slot entries every class of the universes has) and the final pool of a class
	// ---------------------------------------------------------------------------------------------------------------------
	const B_A: u16 = 1; const B_I: u16 = 2; const B_V: u16 = 3; const B_X: u16 = 4; const B_CLS: u16 = 5; const B_NTF: u16 = 6; const B_NTM: u16 = 7;
	const B_FLD: u16 = 8; const B_MTH: u16 = 9; const B_INT: u16 = 10; const B_FLT: u16 = 11; const B_STR: u16 = 12; const B_MH: u16 = 13; const B_MT: u16 = 14;
	const B_MOD: u16 = 15; const B_PKG: u16 = 16; const B_SIG: u16 = 17; #[allow(dead_code)] const B_INDY: u16 = 18; const B_DYN: u16 = 19; const B_IM: u16 = 20;
	const BASE_SLOTS: u16 = 20;
	/// index arithmetic for the menus: `off` = slots in front of the base; `fixed` = every index item gets this value instead
	/// (only used for raw values that are no well-formed files)
	#[derive(Clone, Copy)] struct Bx { off: u16, fixed: Option<u16> }
	impl Bx { fn i(&self, k: u16) -> u16 { match self.fixed { Some(f) => f, None => self.off + k } } }
	const X0: Bx = Bx { off: 0, fixed: None };
	fn base(off: u16) -> Vec<K> {
		let x = Bx { off, fixed: None };
		vec![K::Utf8(b"A".to_vec()), K::Utf8(b"I".to_vec()), K::Utf8(b"()V".to_vec()), K::Utf8(b"x".to_vec()), K::Class(x.i(B_A)), K::NaT(x.i(B_X), x.i(B_I)), K::NaT(x.i(B_X), x.i(B_V)),
			K::Field(x.i(B_CLS), x.i(B_NTF)), K::Method(x.i(B_CLS), x.i(B_NTM)), K::Int(0x01020304), K::Float(0x7fc00001), K::Str(x.i(B_X)), K::MHandle(6, x.i(B_MTH)), K::MType(x.i(B_V)),
			K::Module(x.i(B_A)), K::Package(x.i(B_A)), K::Utf8(b"LA;".to_vec()), K::Indy(0, x.i(B_NTM)), K::Dynamic(0, x.i(B_NTF)), K::IMethod(x.i(B_CLS), x.i(B_NTM))]
	}
	fn slots(v: &[K]) -> usize { v.iter().map(k_slots).sum() }
	fn names_of(attrs: &[At], out: &mut Vec<String>) {
		for a in attrs {
			if !out.contains(&a.name) { out.push(a.name.clone()); }
			match &a.body {
				Body::Code { attrs, .. } => names_of(attrs, out),
				Body::Record(cs) => for c in cs { names_of(&c.2, out); },
				_ => {},
			}
		}
	}
	/// `At::name` is the content of the Utf8 entry; a suffix after U+0001 asks for a further Utf8 entry with the same content (4.4 does not
	/// forbid two equal entries, and an attribute may name either)
	fn utf8_of(name: &str) -> Vec<u8> { name.split('\u{1}').next().unwrap_or("").as_bytes().to_vec() }
	fn again(a: &At, n: u8) -> At { At { name: format!("{}\u{1}{n}", a.name), body: a.body.clone() } }
	struct Resolved { pool: Vec<K>, names: HashMap<String, u16> }
	/// pool = front ++ base ++ mid ++ first attribute name ++ after_first_name ++ other attribute names (order of first use) ++ back;
	/// the index of an entry is 1 + the slots in front of it
	fn resolve(c: &Cls) -> Resolved {
		let mut used = Vec::new();
		names_of(&c.attrs, &mut used);
		for m in c.fields.iter().chain(c.methods.iter()) { names_of(&m.attrs, &mut used); }
		let mut pool = c.layout.front.clone();
		pool.extend(base(slots(&c.layout.front) as u16));
		pool.extend(c.layout.mid.iter().cloned());
		let mut names = HashMap::new();
		for (n, name) in used.iter().enumerate() {
			if n == 1 { pool.extend(c.layout.after_first_name.iter().cloned()); }
			let index = 1 + slots(&pool);
			assert!(index <= 0xffff, "harness: pool too large");
			names.insert(name.clone(), index as u16);
			pool.push(K::Utf8(utf8_of(name)));
		}
		if used.len() <= 1 { pool.extend(c.layout.after_first_name.iter().cloned()); }
		pool.extend(c.layout.back.iter().cloned());
		assert!(slots(&pool) + 1 <= 0xffff, "harness: pool too large");
		Resolved { pool, names }
	}

	// ---------------------------------------------------------------------------------------------------------------------
	// model -> bytes, item by item from JVMS 4.1, 4.5, 4.6, 4.7.x
	// ---------------------------------------------------------------------------------------------------------------------
	fn ev_bytes(e: &Ev, w: &mut W) {
		match e {
			Ev::Const(tag, i) => { w.u1(*tag); w.u2(*i); },
			Ev::Enum(t, c) => { w.u1(b'e'); w.u2(*t); w.u2(*c); },
			Ev::Class(i) => { w.u1(b'c'); w.u2(*i); },
			Ev::Ann(a) => { w.u1(b'@'); ann_bytes(a, w); },
			Ev::Array(v) => { w.u1(b'['); w.n2(v.len()); for x in v { ev_bytes(x, w); } },
		}
	}
	fn pairs_bytes(p: &[(u16, Ev)], w: &mut W) { w.n2(p.len()); for (n, v) in p { w.u2(*n); ev_bytes(v, w); } }
	fn ann_bytes(a: &Ann, w: &mut W) { w.u2(a.ty); pairs_bytes(&a.pairs, w); }
	fn tann_bytes(a: &TAnn, w: &mut W) {
		w.u1(a.target_type);
		match &a.target {
			Target::TypeParameter(i) | Target::Formal(i) => w.u1(*i),
			Target::Supertype(i) | Target::Throws(i) | Target::Catch(i) | Target::Offset(i) => w.u2(*i),
			Target::Bound(p, b) => { w.u1(*p); w.u1(*b); },
			Target::Empty => {},
			Target::Localvar(t) => { w.n2(t.len()); w.rows(t); },
			Target::TypeArgument(o, i) => { w.u2(*o); w.u1(*i); },
		}
		w.n1(a.path.len());
		for (kind, arg) in &a.path { w.u1(*kind); w.u1(*arg); }
		w.u2(a.ty);
		pairs_bytes(&a.pairs, w);
	}
	fn vt_bytes(v: &Vt, w: &mut W) {
		match v {
			Vt::Top => w.u1(0), Vt::Integer => w.u1(1), Vt::Float => w.u1(2), Vt::Double => w.u1(3), Vt::Long => w.u1(4), Vt::Null => w.u1(5), Vt::UninitThis => w.u1(6),
			Vt::Object(i) => { w.u1(7); w.u2(*i); },
			Vt::Uninit(o) => { w.u1(8); w.u2(*o); },
		}
	}
	fn fr_bytes(f: &Fr, w: &mut W) {
		match f {
			Fr::Same(d) => { assert!(*d <= 63); w.u1(*d); },
			Fr::SameLocals1(d, v) => { assert!(*d <= 63); w.u1(64 + *d); vt_bytes(v, w); },
			Fr::SameLocals1Ext(d, v) => { w.u1(247); w.u2(*d); vt_bytes(v, w); },
			Fr::Chop(k, d) => { assert!((1..=3).contains(k)); w.u1(251 - *k); w.u2(*d); },
			Fr::SameExt(d) => { w.u1(251); w.u2(*d); },
			Fr::Append(d, l) => { assert!((1..=3).contains(&l.len())); w.u1(251 + l.len() as u8); w.u2(*d); for v in l { vt_bytes(v, w); } },
			Fr::Full(d, l, s) => { w.u1(255); w.u2(*d); w.n2(l.len()); for v in l { vt_bytes(v, w); } w.n2(s.len()); for v in s { vt_bytes(v, w); } },
		}
	}
	fn body_bytes(b: &Body, nm: &HashMap<String, u16>, w: &mut W) {
		match b {
			Body::ConstantValue(i) | Body::Signature(i) | Body::SourceFile(i) | Body::ModuleMainClass(i) | Body::NestHost(i) => w.u2(*i),
			Body::Code { max_stack, max_locals, code, table, attrs } => {
				w.u2(*max_stack); w.u2(*max_locals);
				w.n4(code.len()); w.raw(code);
				w.n2(table.len()); w.rows(table);
				w.n2(attrs.len()); for a in attrs { at_bytes(a, nm, w); }
			},
			Body::StackMapTable(f) => { w.n2(f.len()); for x in f { fr_bytes(x, w); } },
			Body::Exceptions(v) | Body::ModulePackages(v) | Body::NestMembers(v) | Body::PermittedSubclasses(v) => w.list2(v),
			Body::InnerClasses(v) => { w.n2(v.len()); w.rows(v); },
			Body::EnclosingMethod(c, m) => { w.u2(*c); w.u2(*m); },
			Body::Synthetic | Body::Deprecated => {},
			Body::SourceDebugExtension(v) | Body::Unknown(v) => w.raw(v),
			Body::LineNumberTable(v) => { w.n2(v.len()); w.rows(v); },
			Body::LocalVariableTable(v) | Body::LocalVariableTypeTable(v) => { w.n2(v.len()); w.rows(v); },
			Body::Annotations(_, v) => { w.n2(v.len()); for a in v { ann_bytes(a, w); } },
			Body::ParameterAnnotations(_, ps) => { w.n1(ps.len()); for p in ps { w.n2(p.len()); for a in p { ann_bytes(a, w); } } },
			Body::TypeAnnotations(_, v) => { w.n2(v.len()); for a in v { tann_bytes(a, w); } },
			Body::AnnotationDefault(e) => ev_bytes(e, w),
			Body::BootstrapMethods(v) => { w.n2(v.len()); for (r, args) in v { w.u2(*r); w.list2(args); } },
			Body::MethodParameters(v) => { w.n1(v.len()); w.rows(v); },
			Body::Module(m) => {
				w.u2(m.name); w.u2(m.flags); w.u2(m.version);
				w.n2(m.requires.len()); w.rows(&m.requires);
				w.n2(m.exports.len()); for (i, f, to) in &m.exports { w.u2(*i); w.u2(*f); w.list2(to); }
				w.n2(m.opens.len()); for (i, f, to) in &m.opens { w.u2(*i); w.u2(*f); w.list2(to); }
				w.list2(&m.uses);
				w.n2(m.provides.len()); for (i, with) in &m.provides { w.u2(*i); w.list2(with); }
			},
			Body::Record(cs) => { w.n2(cs.len()); for (n, d, attrs) in cs { w.u2(*n); w.u2(*d); w.n2(attrs.len()); for a in attrs { at_bytes(a, nm, w); } } },
		}
	}
	/// 4.7: attribute_name_index, attribute_length = "the length of the subsequent information in bytes", info
	fn at_bytes(a: &At, nm: &HashMap<String, u16>, w: &mut W) {
		let mut info = W::new();
		body_bytes(&a.body, nm, &mut info);
		w.u2(nm[&a.name]);
		w.n4(info.b.len());
		w.raw(&info.b);
	}
	fn mem_bytes(m: &Mem, nm: &HashMap<String, u16>, w: &mut W) {
		w.u2(m.access); w.u2(m.name); w.u2(m.desc);
		w.n2(m.attrs.len()); for a in &m.attrs { at_bytes(a, nm, w); }
	}
	fn cls_bytes(c: &Cls, r: &Resolved) -> Vec<u8> {
		let mut w = W::new();
		w.u4(0xCAFEBABE); w.u2(c.minor); w.u2(c.major);
		// 4.1: "The value of the constant_pool_count item is equal to the number of entries in the constant_pool table plus one",
		// where a long or double counts as two entries (4.4.5)
		w.n2(slots(&r.pool) + 1);
		for k in &r.pool { k_bytes(k, &mut w); }
		w.u2(c.access); w.u2(c.this); w.u2(c.sup);
		w.list2(&c.ifaces);
		w.n2(c.fields.len()); for m in &c.fields { mem_bytes(m, &r.names, &mut w); }
		w.n2(c.methods.len()); for m in &c.methods { mem_bytes(m, &r.names, &mut w); }
		w.n2(c.attrs.len()); for a in &c.attrs { at_bytes(a, &r.names, &mut w); }
		w.b
	}

	// ---------------------------------------------------------------------------------------------------------------------
	// model -> the crate's representation, through its public fields (field by field, by the JVMS item name)
	// ---------------------------------------------------------------------------------------------------------------------
	fn ev_value(e: &Ev) -> ElementValue {
		match e {
			Ev::Const(tag, i) => { let const_value_index = *i; match *tag {
				b'B' => ElementValue::Byte { const_value_index }, b'C' => ElementValue::Char { const_value_index }, b'D' => ElementValue::Double { const_value_index },
				b'F' => ElementValue::Float { const_value_index }, b'I' => ElementValue::Integer { const_value_index }, b'J' => ElementValue::Long { const_value_index },
				b'S' => ElementValue::Short { const_value_index }, b'Z' => ElementValue::Boolean { const_value_index }, b's' => ElementValue::String { const_value_index },
				t => panic!("harness: no const element value has tag {t}"),
			}},
			Ev::Enum(t, c) => ElementValue::Enum { type_name_index: *t, const_name_index: *c },
			Ev::Class(i) => ElementValue::Class { class_info_index: *i },
			Ev::Ann(a) => ElementValue::Annotation { annotation_value: ann_value(a) },
			Ev::Array(v) => ElementValue::Array { values: v.iter().map(ev_value).collect() },
		}
	}
	fn ann_value(a: &Ann) -> Annotation {
		Annotation { type_index: a.ty, element_value_pairs: a.pairs.iter().map(|(n, v)| ElementValuePairsEntry { element_name_index: *n, value: ev_value(v) }).collect() }
	}
	fn vt_value(v: &Vt) -> VerificationTypeInfo {
		match v {
			Vt::Top => VerificationTypeInfo::Top {}, Vt::Integer => VerificationTypeInfo::Integer {}, Vt::Float => VerificationTypeInfo::Float {}, Vt::Double => VerificationTypeInfo::Double {},
			Vt::Long => VerificationTypeInfo::Long {}, Vt::Null => VerificationTypeInfo::Null {}, Vt::UninitThis => VerificationTypeInfo::UnintializedThis {},
			Vt::Object(i) => VerificationTypeInfo::Object { cpool_index: *i }, Vt::Uninit(o) => VerificationTypeInfo::Unintialized { offset: *o },
		}
	}
	fn fr_value(f: &Fr) -> StackMapFrame {
		let vts = |v: &Vec<Vt>| v.iter().map(vt_value).collect::<Vec<_>>();
		match f {
			Fr::Same(d) => StackMapFrame::SameFrame { offset_delta: *d },
			Fr::SameLocals1(d, v) => StackMapFrame::SameLocals1StackItemFrame { offset_delta: *d, stack: vt_value(v) },
			Fr::SameLocals1Ext(d, v) => StackMapFrame::SameLocals1StackItemFrameExtended { offset_delta: *d, stack: vt_value(v) },
			Fr::Chop(k, d) => StackMapFrame::ChopFrame { k: *k, offset_delta: *d },
			Fr::SameExt(d) => StackMapFrame::SameFrameExtended { offset_delta: *d },
			Fr::Append(d, l) => StackMapFrame::AppendFrame { offset_delta: *d, locals: vts(l) },
			Fr::Full(d, l, s) => StackMapFrame::FullFrame { offset_delta: *d, locals: vts(l), stack: vts(s) },
		}
	}
	fn at_value(a: &At, nm: &HashMap<String, u16>) -> AttributeInfo {
		let attribute_name_index = nm[&a.name];
		let anns = |v: &Vec<Ann>| v.iter().map(ann_value).collect::<Vec<_>>();
		let pas = |v: &Vec<Vec<Ann>>| v.iter().map(|p| ParameterAnnotationEntry { annotations: p.iter().map(ann_value).collect() }).collect::<Vec<_>>();
		match &a.body {
			Body::ConstantValue(i) => AttributeInfo::ConstantValue { attribute_name_index, constantvalue_index: *i },
			Body::Code { max_stack, max_locals, code, table, attrs } => AttributeInfo::Code { attribute_name_index, max_stack: *max_stack, max_locals: *max_locals, code: code.clone(),
				exception_table: table.iter().map(|e| ExceptionTableEntry { start_pc: e[0], end_pc: e[1], handler_pc: e[2], catch_type: e[3] }).collect(),
				attributes: attrs.iter().map(|x| at_value(x, nm)).collect() },
			Body::StackMapTable(f) => AttributeInfo::StackMapTable { attribute_name_index, entries: f.iter().map(fr_value).collect() },
			Body::Exceptions(v) => AttributeInfo::Exceptions { attribute_name_index, exception_index_table: v.clone() },
			Body::InnerClasses(v) => AttributeInfo::InnerClasses { attribute_name_index, classes: v.iter().map(|e| InnerClassesEntry { inner_class_info_index: e[0], outer_class_info_index: e[1],
				inner_name_index: e[2], inner_class_access_flags: e[3] }).collect() },
			Body::EnclosingMethod(c, m) => AttributeInfo::EnclosingMethod { attribute_name_index, class_index: *c, method_index: *m },
			Body::Synthetic => AttributeInfo::Synthetic { attribute_name_index },
			Body::Signature(i) => AttributeInfo::Signature { attribute_name_index, signature_index: *i },
			Body::SourceFile(i) => AttributeInfo::SourceFile { attribute_name_index, sourcefile_index: *i },
			Body::SourceDebugExtension(v) => AttributeInfo::SourceDebugExtension { attribute_name_index, debug_extension: v.clone() },
			Body::LineNumberTable(v) => AttributeInfo::LineNumberTable { attribute_name_index, line_number_table: v.iter().map(|e| LineNumberTableEntry { start_pc: e[0], line_number: e[1] }).collect() },
			Body::LocalVariableTable(v) => AttributeInfo::LocalVariableTable { attribute_name_index, local_variable_table: v.iter().map(|e| LocalVariableTableEntry { start_pc: e[0], length: e[1],
				name_index: e[2], descriptor_index: e[3], index: e[4] }).collect() },
			Body::LocalVariableTypeTable(v) => AttributeInfo::LocalVariableTypeTable { attribute_name_index, local_variable_type_table: v.iter().map(|e| LocalVariableTypeTableEntry { start_pc: e[0],
				length: e[1], name_index: e[2], signature_index: e[3], index: e[4] }).collect() },
			Body::Deprecated => AttributeInfo::Deprecated { attribute_name_index },
			Body::Annotations(true, v) => AttributeInfo::RuntimeVisibleAnnotations { attribute_name_index, annotations: anns(v) },
			Body::Annotations(false, v) => AttributeInfo::RuntimeInvisibleAnnotations { attribute_name_index, annotations: anns(v) },
			Body::ParameterAnnotations(true, v) => AttributeInfo::RuntimeVisibleParameterAnnotations { attribute_name_index, parameter_annotations: pas(v) },
			Body::ParameterAnnotations(false, v) => AttributeInfo::RuntimeInvisibleParameterAnnotations { attribute_name_index, parameter_annotations: pas(v) },
			// the crate has no variant for the two type annotation attributes (enum AttributeInfo: "TODO"): its representation of them
			// is the one of an attribute it does not know, the info bytes
			Body::TypeAnnotations(..) | Body::Unknown(_) => { let mut w = W::new(); body_bytes(&a.body, nm, &mut w); AttributeInfo::Other { attribute_name_index, info: w.b } },
			Body::AnnotationDefault(e) => AttributeInfo::AnnotationDefault { attribute_name_index, default_value: ev_value(e) },
			Body::BootstrapMethods(v) => AttributeInfo::BootstrapMethods { attribute_name_index, bootstrap_methods: v.iter().map(|(r, args)| BootstrapMethodsEntry { bootstrap_method_ref: *r,
				boostrap_arguments: args.clone() }).collect() },
			Body::MethodParameters(v) => AttributeInfo::MethodParameters { attribute_name_index, parameters: v.iter().map(|e| MethodParametersEntry { name_index: e[0], access_flags: e[1] }).collect() },
			Body::Module(m) => AttributeInfo::Module { attribute_name_index, module_name_index: m.name, module_flags: m.flags, module_version_index: m.version,
				requires: m.requires.iter().map(|e| ModuleRequiresEntry { requires_index: e[0], requires_flags: e[1], requires_version_index: e[2] }).collect(),
				exports: m.exports.iter().map(|(i, f, to)| ModuleExportsEntry { exports_index: *i, exports_flags: *f, exports_to_index: to.clone() }).collect(),
				opens: m.opens.iter().map(|(i, f, to)| ModuleOpensEntry { opens_index: *i, opens_flags: *f, opens_to_index: to.clone() }).collect(),
				uses_index: m.uses.clone(),
				provides: m.provides.iter().map(|(i, with)| ModuleProvidesEntry { provides_index: *i, provides_with_index: with.clone() }).collect() },
			Body::ModulePackages(v) => AttributeInfo::ModulePackages { attribute_name_index, package_index: v.clone() },
			Body::ModuleMainClass(i) => AttributeInfo::ModuleMainClass { attribute_name_index, main_class_index: *i },
			Body::NestHost(i) => AttributeInfo::NestHost { attribute_name_index, host_class_index: *i },
			Body::NestMembers(v) => AttributeInfo::NestMembers { attribute_name_index, classes: v.clone() },
			Body::Record(cs) => AttributeInfo::Record { attribute_name_index, components: cs.iter().map(|(n, d, attrs)| RecordComponentInfo { name_index: *n, descriptor_index: *d,
				attributes: attrs.iter().map(|x| at_value(x, nm)).collect() }).collect() },
			Body::PermittedSubclasses(v) => AttributeInfo::PermittedSubclasses { attribute_name_index, classes: v.clone() },
		}
	}
	fn cls_value(c: &Cls, r: &Resolved) -> ClassFile {
		let ats = |v: &Vec<At>| v.iter().map(|a| at_value(a, &r.names)).collect::<Vec<_>>();
		ClassFile { minor_version: c.minor, major_version: c.major, constant_pool: r.pool.iter().map(k_value).collect(), access_flags: c.access, this_class: c.this, super_class: c.sup,
			interfaces: c.ifaces.clone(),
			fields: c.fields.iter().map(|m| FieldInfo { access_flags: m.access, name_index: m.name, descriptor_index: m.desc, attributes: ats(&m.attrs) }).collect(),
			methods: c.methods.iter().map(|m| MethodInfo { access_flags: m.access, name_index: m.name, descriptor_index: m.desc, attributes: ats(&m.attrs) }).collect(),
			attributes: ats(&c.attrs) }
	}

	// ---------------------------------------------------------------------------------------------------------------------
	// own skeleton walker (what every reader must agree on, JVMS 4.1 / 4.4 / 4.5 / 4.6 / 4.7): pool with the two-slot rule,
	// members, attributes framed by attribute_length, attribute names are Utf8 entries, the file ends where the class ends
	// ---------------------------------------------------------------------------------------------------------------------
	struct Walk { pool_entries: usize, fields: usize, methods: usize, attrs: usize }
	fn o_walk(b: &[u8]) -> Result<Walk, String> {
		struct R<'a> { b: &'a [u8], p: usize }
		impl R<'_> {
			fn take(&mut self, n: usize) -> Result<&[u8], String> { if self.b.len() - self.p < n { return Err(format!("file ends inside an item at offset {}", self.p)); } let s = &self.b[self.p..self.p + n]; self.p += n; Ok(s) }
			fn u1(&mut self) -> Result<usize, String> { Ok(self.take(1)?[0] as usize) }
			fn u2(&mut self) -> Result<usize, String> { let s = self.take(2)?; Ok((s[0] as usize) << 8 | s[1] as usize) }
			fn u4(&mut self) -> Result<usize, String> { let s = self.take(4)?; Ok((s[0] as usize) << 24 | (s[1] as usize) << 16 | (s[2] as usize) << 8 | s[3] as usize) }
		}
		fn attrs(r: &mut R, utf8: &[bool]) -> Result<usize, String> {
			let n = r.u2()?;
			for _ in 0..n {
				let name = r.u2()?;
				if name == 0 || name >= utf8.len() || !utf8[name] { return Err(format!("attribute_name_index {name} is no Utf8 entry")); }
				let len = r.u4()?;
				r.take(len)?;
			}
			Ok(n)
		}
		let mut r = R { b, p: 0 };
		if r.u4()? != 0xCAFEBABE { return Err("magic".into()); }
		r.take(4)?;
		let count = r.u2()?;
		if count == 0 { return Err("constant_pool_count 0".into()); }
		let (mut utf8, mut entries, mut index) = (vec![false; count], 0usize, 1usize);
		while index < count {
			let tag = r.u1()?;
			let size = match tag { 1 => { let n = r.u2()?; utf8[index] = true; n }, 3 | 4 => 4, 5 | 6 => 8, 7 | 8 | 16 | 19 | 20 => 2, 9 | 10 | 11 | 12 | 17 | 18 => 4, 15 => 3, t => return Err(format!("pool tag {t}")) };
			r.take(size)?;
			entries += 1;
			index += if tag == 5 || tag == 6 { 2 } else { 1 };
		}
		if index != count { return Err("a long or double in the last slot of the pool".into()); }
		r.take(6)?;
		let n = r.u2()?; r.take(2 * n)?;
		let fields = r.u2()?; for _ in 0..fields { r.take(6)?; attrs(&mut r, &utf8)?; }
		let methods = r.u2()?; for _ in 0..methods { r.take(6)?; attrs(&mut r, &utf8)?; }
		let a = attrs(&mut r, &utf8)?;
		if r.p != b.len() { return Err(format!("{} bytes after the end of the class", b.len() - r.p)); }
		Ok(Walk { pool_entries: entries, fields, methods, attrs: a })
	}

	// ---------------------------------------------------------------------------------------------------------------------
	// the checks
	// ---------------------------------------------------------------------------------------------------------------------
	fn rd(b: &[u8]) -> Result<(ClassFile, usize), String> {
		match guarded(|| { let mut rest: &[u8] = b; let r = ClassFile::read(&mut rest); (r.map_err(|e| e.to_string()), rest.len()) }) {
			Ok(Some((Ok(v), left))) => Ok((v, left)),
			Ok(Some((Err(e), _))) => Err(format!("Err({e})")),
			_ => Err("a panic".into()),
		}
	}
	/// (bytes given to `write`, bytes from `to_bytes`, `length()`)
	fn wr(v: &ClassFile) -> Result<(Vec<u8>, Vec<u8>, usize), String> {
		match guarded(|| { let mut out = Vec::new(); let r = v.write(&mut out); (r.map_err(|e| e.to_string()), out, v.to_bytes(), v.length()) }) {
			Ok(Some((Ok(()), out, tb, len))) => Ok((out, tb, len)),
			Ok(Some((Err(e), ..))) => Err(format!("Err({e})")),
			_ => Err("a panic".into()),
		}
	}
	fn diff_bytes(want: &[u8], got: &[u8]) -> String {
		let p = want.iter().zip(got).take_while(|(a, b)| a == b).count();
		let win = |b: &[u8]| hex(&b[p.saturating_sub(8).min(b.len())..(p + 12).min(b.len())]);
		format!("expected {} bytes, got {} bytes, first difference at offset {p}: expected ..{}.. got ..{}.. (windows start at offset {})", want.len(), got.len(), win(want), win(got), p.saturating_sub(8))
	}
	fn diff_dbg<T: std::fmt::Debug>(want: &T, got: &T) -> String {
		let (a, b) = (format!("{want:?}"), format!("{got:?}"));
		let (a, b) = (a.as_bytes(), b.as_bytes());
		let p = a.iter().zip(b).take_while(|(x, y)| x == y).count();
		let win = |s: &[u8]| String::from_utf8_lossy(&s[p.saturating_sub(90).min(s.len())..(p + 110).min(s.len())]).into_owned();
		format!("first difference at char {p} of the Debug forms: expected ..{}.. got ..{}..", win(a), win(b))
	}
	/// clauses on one value `v`: what it writes (against `want` if given), the announced length, reading it back
	fn value_clauses(who: &str, v: &ClassFile, want: Option<&[u8]>, nums: [&str; 3], bad: &mut Vec<String>) {
		match wr(v) {
			Err(e) => bad.push(format!("{} writing {who} gives {e}", nums[0])),
			Ok((out, tb, len)) => {
				if let Some(w) = want { if out != w { bad.push(format!("{} write of {who} is not the JVMS layout of it: {}", nums[0], diff_bytes(w, &out))); } }
				if tb != out { bad.push(format!("{} to_bytes and write of {who} differ: {}", nums[0], diff_bytes(&out, &tb))); }
				if len != out.len() { bad.push(format!("{} length() of {who} announces {len}, write wrote {} bytes", nums[1], out.len())); }
				match rd(&out) {
					Err(e) => bad.push(format!("{} reading what was written for {who} gives {e}", nums[2])),
					Ok((back, left)) => {
						if &back != v { bad.push(format!("{} read(write(v)) != v for {who}: {}", nums[2], diff_dbg(v, &back))); }
						else if left != 0 { bad.push(format!("{} read(write(v)) leaves {left} written bytes unread for {who}", nums[2])); }
					},
				}
			},
		}
	}
	/// all failing clauses of one class; `file_side` = the bytes are a well-formed class file (else only the value side is asked)
	fn clauses(bytes: &[u8], model: &ClassFile, file_side: bool) -> Vec<String> {
		let mut bad = Vec::new();
		if file_side {
			match rd(bytes) {
				Err(e) => bad.push(format!("(1) read of the well-formed file gives {e}")),
				Ok((v, left)) => {
					if left != 0 { bad.push(format!("(1) read stops {left} bytes before the end of the file")); }
					if &v != model {
						bad.push(format!("(5) read returns another value than the file says: {}", diff_dbg(model, &v)));
						value_clauses("the value read", &v, Some(bytes), ["(2)", "(3)", "(4)"], &mut bad);
					}
					// v == model: write, to_bytes, length, read are functions of the compared fields, the clauses (2) (3) (4) are the clauses (6) (7) (8) below
				},
			}
		}
		value_clauses("the value built through the public fields", model, Some(bytes), ["(6)", "(7)", "(8)"], &mut bad);
		bad
	}
	fn check_as(t: &mut Tally, desc: &str, c: &Cls, file_side: bool, nontrivial: bool) {
		t.at(desc.as_bytes());
		t.case(nontrivial);
		let r = resolve(c);
		let (bytes, model) = (cls_bytes(c, &r), cls_value(c, &r));
		if file_side {
			match o_walk(&bytes) {
				Err(e) => { t.fail(desc.to_string(), &format!("harness: the own walker refuses the generated file: {e} || file={}", hex(&bytes))); return; },
				Ok(w) => if w.pool_entries != r.pool.len() || w.fields != c.fields.len() || w.methods != c.methods.len() || w.attrs != c.attrs.len() {
					t.fail(desc.to_string(), "harness: the own walker counts other tables than the model has"); return; },
			}
		}
		let bad = clauses(&bytes, &model, file_side);
		if !bad.is_empty() { t.fail(desc.to_string(), &format!("{} || the file ({} bytes) = {}", bad.join(" || "), bytes.len(), hex(&bytes))); }
	}
	fn check(t: &mut Tally, desc: &str, c: &Cls) { let nontrivial = !c.attrs.is_empty() || c.fields.iter().chain(c.methods.iter()).any(|m| !m.attrs.is_empty()); check_as(t, desc, c, true, nontrivial); }

	// ---------------------------------------------------------------------------------------------------------------------
	// menus (every index item points to a base entry through `x.i(..)`; 0 only where JVMS allows 0)
	// ---------------------------------------------------------------------------------------------------------------------
	fn plain() -> Cls { Cls { minor: 0, major: 52, layout: Layout::default(), access: 0x0021, this: B_CLS, sup: 0, ifaces: vec![], fields: vec![], methods: vec![], attrs: vec![] } }
	fn plain_x(x: &Bx) -> Cls { let mut c = plain(); c.this = x.i(B_CLS); c }
	fn field(x: &Bx, attrs: Vec<At>) -> Mem { Mem { access: 0x0002, name: x.i(B_X), desc: x.i(B_I), attrs } }
	fn method(x: &Bx, attrs: Vec<At>) -> Mem { Mem { access: 0x0001, name: x.i(B_X), desc: x.i(B_V), attrs } }
	fn code(nested: Vec<At>) -> At { at(Body::Code { max_stack: 1, max_locals: 1, code: vec![0xb1], table: vec![], attrs: nested }) }
	fn short(a: &At) -> String {
		let mut s = format!("{}{:?}", if matches!(a.body, Body::Unknown(_)) { format!("{:?}=", a.name) } else { String::new() }, a.body);
		if s.len() > 260 { s.truncate(260); s += ".."; }
		s
	}
	fn shorts(v: &[At]) -> String { v.iter().map(short).collect::<Vec<_>>().join(" + ") }
	fn kind(a: &At) -> &str { &a.name }
	/// every ordered selection of up to `max` attributes of the menu, shortest first, no attribute name twice (JVMS allows most attributes once per table)
	fn selections(menu: &[At], max: usize, f: &mut dyn FnMut(&[At])) {
		fn rec(menu: &[At], len: usize, cur: &mut Vec<At>, f: &mut dyn FnMut(&[At])) {
			if cur.len() == len { f(cur); return; }
			for a in menu { if cur.iter().all(|c| kind(c) != kind(a)) { cur.push(a.clone()); rec(menu, len, cur, f); cur.pop(); } }
		}
		for len in 0..=max { rec(menu, len, &mut Vec::new(), f); }
	}

	fn vt_menu(x: &Bx) -> Vec<Vt> { vec![Vt::Top, Vt::Integer, Vt::Float, Vt::Double, Vt::Long, Vt::Null, Vt::UninitThis, Vt::Object(x.i(B_CLS)), Vt::Uninit(0), Vt::Uninit(65535)] }
	fn vt_reps(x: &Bx) -> Vec<Vt> { vec![Vt::Integer, Vt::Object(x.i(B_CLS)), Vt::Long] }
	fn frame_menu(x: &Bx) -> Vec<Fr> {
		let (m, r) = (vt_menu(x), vt_reps(x));
		let mut v = vec![Fr::Same(0), Fr::Same(1), Fr::Same(63)];
		for t in &m { v.push(Fr::SameLocals1(0, t.clone())); }
		v.extend([Fr::SameLocals1(63, Vt::Integer), Fr::SameLocals1(63, Vt::Object(x.i(B_CLS))), Fr::SameLocals1(1, Vt::Uninit(7))]);
		for t in &m { v.push(Fr::SameLocals1Ext(300, t.clone())); }
		v.extend([Fr::SameLocals1Ext(0, Vt::Integer), Fr::SameLocals1Ext(65535, Vt::Object(x.i(B_CLS)))]);
		for k in 1..=3 { v.push(Fr::Chop(k, 0)); v.push(Fr::Chop(k, 65535)); }
		v.extend([Fr::SameExt(0), Fr::SameExt(64), Fr::SameExt(65535)]);
		for t in &m { v.push(Fr::Append(5, vec![t.clone()])); }
		for a in &r { for b in &r { v.push(Fr::Append(0, vec![a.clone(), b.clone()])); } }
		for a in &r[..2] { for b in &r[..2] { for c in &r[..2] { v.push(Fr::Append(65535, vec![a.clone(), b.clone(), c.clone()])); } } }
		for nl in 0..=3usize { for ns in 0..=2usize { v.push(Fr::Full(nl as u16, m.iter().skip(6).take(nl).cloned().collect(), m.iter().skip(3).take(ns).cloned().collect())); } }
		v.push(Fr::Full(65535, m.clone(), m.clone()));
		v
	}
	fn frame_reps(x: &Bx) -> Vec<Fr> {
		let m = frame_menu(x);
		let pick = |p: &dyn Fn(&Fr) -> bool, n: usize| m.iter().filter(|f| p(f)).take(n).cloned().collect::<Vec<_>>();
		let mut v = pick(&|f| matches!(f, Fr::Same(_)), 3);
		v.extend(m.iter().filter(|f| matches!(f, Fr::SameLocals1(..))).step_by(4).cloned());
		v.extend(m.iter().filter(|f| matches!(f, Fr::SameLocals1Ext(..))).step_by(5).cloned());
		v.extend(pick(&|f| matches!(f, Fr::Chop(..)), 6).into_iter().step_by(2));
		v.extend(pick(&|f| matches!(f, Fr::SameExt(_)), 1));
		v.extend(m.iter().filter(|f| matches!(f, Fr::Append(..))).step_by(5).cloned());
		v.extend(m.iter().filter(|f| matches!(f, Fr::Full(..))).step_by(3).cloned());
		v
	}

	fn ev_leaves(x: &Bx) -> Vec<Ev> {
		let mut v: Vec<Ev> = b"BCDFIJSZs".iter().map(|t| Ev::Const(*t, x.i(B_INT))).collect();
		v.push(Ev::Enum(x.i(B_SIG), x.i(B_X)));
		v.push(Ev::Class(x.i(B_V)));
		v
	}
	fn ev_reps(x: &Bx) -> Vec<Ev> { vec![Ev::Const(b'I', x.i(B_INT)), Ev::Enum(x.i(B_SIG), x.i(B_X)), Ev::Class(x.i(B_V))] }
	fn ann(x: &Bx, values: Vec<Ev>) -> Ann { Ann { ty: x.i(B_SIG), pairs: values.into_iter().map(|v| (x.i(B_X), v)).collect() } }
	fn ev_menu(x: &Bx) -> Vec<Ev> {
		let (l, r) = (ev_leaves(x), ev_reps(x));
		let mut v = l.clone();
		v.push(Ev::Ann(Box::new(ann(x, vec![]))));
		for e in &r { v.push(Ev::Ann(Box::new(ann(x, vec![e.clone()])))); }
		v.push(Ev::Ann(Box::new(ann(x, vec![r[0].clone(), r[1].clone()]))));
		v.push(Ev::Array(vec![]));
		for e in &l { v.push(Ev::Array(vec![e.clone()])); }
		for a in &r { for b in &r { v.push(Ev::Array(vec![a.clone(), b.clone()])); } }
		v.push(Ev::Array(vec![r[0].clone(), r[1].clone(), r[2].clone()]));
		// depth 2 and 3
		let inner_ann = Ev::Ann(Box::new(ann(x, vec![r[0].clone()])));
		v.push(Ev::Array(vec![Ev::Array(vec![])]));
		v.push(Ev::Array(vec![Ev::Array(vec![r[0].clone()]), Ev::Ann(Box::new(ann(x, vec![])))]));
		v.push(Ev::Ann(Box::new(ann(x, vec![Ev::Array(vec![r[0].clone(), r[0].clone()])]))));
		v.push(Ev::Ann(Box::new(ann(x, vec![inner_ann.clone()]))));
		v.push(Ev::Array(vec![inner_ann.clone(), Ev::Ann(Box::new(ann(x, vec![])))]));
		v.push(Ev::Array(vec![Ev::Array(vec![Ev::Array(vec![])])]));
		v.push(Ev::Array(vec![Ev::Ann(Box::new(ann(x, vec![Ev::Array(vec![inner_ann.clone(), r[1].clone()])]))), r[2].clone()]));
		v.push(Ev::Ann(Box::new(ann(x, vec![Ev::Ann(Box::new(ann(x, vec![Ev::Array(vec![r[2].clone()]), r[0].clone()]))), Ev::Array(vec![])]))));
		v
	}
	fn ann_reps(x: &Bx) -> Vec<Ann> { let r = ev_reps(x); vec![ann(x, vec![]), ann(x, vec![r[0].clone()]), ann(x, vec![r[1].clone(), Ev::Array(vec![r[2].clone()])])] }

	/// the target types of JVMS table 4.7.20-A/B by the place the attribute may stand in (table 4.7.20-C): 0 class, 1 method, 2 field or record component, 3 Code
	fn target_menu(place: u8) -> Vec<(u8, Target)> {
		let lv = |n: usize| Target::Localvar((0..n).map(|i| [i as u16, 65535 - i as u16, i as u16 + 1]).collect());
		match place {
			0 => vec![(0x00, Target::TypeParameter(0)), (0x00, Target::TypeParameter(255)), (0x10, Target::Supertype(65535)), (0x10, Target::Supertype(0)), (0x11, Target::Bound(0, 1)), (0x11, Target::Bound(255, 0))],
			1 => vec![(0x01, Target::TypeParameter(0)), (0x12, Target::Bound(1, 0)), (0x14, Target::Empty), (0x15, Target::Empty), (0x16, Target::Formal(0)), (0x16, Target::Formal(254)), (0x17, Target::Throws(0)), (0x17, Target::Throws(2))],
			2 => vec![(0x13, Target::Empty)],
			_ => {
				let mut v = vec![(0x40, lv(0)), (0x40, lv(1)), (0x40, lv(2)), (0x41, lv(0)), (0x41, lv(1)), (0x41, lv(3)), (0x42, Target::Catch(0)), (0x42, Target::Catch(65535))];
				for t in 0x43..=0x46 { v.push((t, Target::Offset(5))); }
				for t in 0x47..=0x4B { v.push((t, Target::TypeArgument(65535, (t - 0x47) * 60))); }
				v
			},
		}
	}
	fn tann_menu(x: &Bx, place: u8) -> Vec<TAnn> {
		let mut v = vec![];
		for (target_type, target) in target_menu(place) {
			for path in [vec![], vec![(0u8, 0u8)], vec![(3, 1), (1, 0), (2, 0)]] {
				for pairs in [vec![], vec![(x.i(B_X), Ev::Const(b'I', x.i(B_INT)))], vec![(x.i(B_X), Ev::Array(vec![Ev::Class(x.i(B_V))])), (x.i(B_X), Ev::Enum(x.i(B_SIG), x.i(B_X)))]] {
					v.push(TAnn { target_type, target: target.clone(), path: path.clone(), ty: x.i(B_SIG), pairs });
				}
			}
		}
		v
	}
	fn tann_attrs(x: &Bx, place: u8) -> Vec<At> {
		let m = tann_menu(x, place);
		let mut v = vec![at(Body::TypeAnnotations(true, vec![])), at(Body::TypeAnnotations(false, vec![]))];
		v.push(at(Body::TypeAnnotations(true, vec![m[0].clone()])));
		v.push(at(Body::TypeAnnotations(false, vec![m[m.len() - 1].clone(), m[m.len() / 2].clone()])));
		v
	}
	fn unknown_names() -> Vec<&'static str> { vec!["Foo", "", "code", "CodeX", "Cod", "SourceFil", "NestMember", "Synthetic ", "RuntimeVisibleTypeAnnotationsX", "org.example.Custom"] }
	fn unknown_menu() -> Vec<At> { let mut v = vec![]; for n in unknown_names() { for b in [&[][..], &[0][..], &[1, 2, 3, 4, 5][..]] { v.push(unknown(n, b)); } } v }
	fn anno_attrs(x: &Bx) -> Vec<At> {
		let r = ann_reps(x);
		let mut v = vec![];
		for vis in [true, false] { for anns in [vec![], vec![r[0].clone()], vec![r[1].clone(), r[0].clone()], vec![r[2].clone()]] { v.push(at(Body::Annotations(vis, anns))); } }
		v
	}
	fn simple_module(x: &Bx) -> Mod { Mod { name: x.i(B_MOD), flags: 0x8020, version: 0, requires: vec![[x.i(B_MOD), 0x0040, x.i(B_X)]], exports: vec![(x.i(B_PKG), 0, vec![x.i(B_MOD)])], opens: vec![], uses: vec![x.i(B_CLS)], provides: vec![(x.i(B_CLS), vec![x.i(B_CLS)])] } }
	fn class_attr_menu(x: &Bx) -> Vec<At> {
		let (c, u16s) = (x.i(B_CLS), |n: usize, i: u16| vec![i; n]);
		let mut v = vec![at(Body::SourceFile(x.i(B_X)))];
		for b in [vec![], vec![0x41], b"SMAP\nA.java\nJava\n*E\n".to_vec(), (0..300u32).map(|i| if i % 2 == 0 { 0xC0 } else { 0x80 }).collect()] { v.push(at(Body::SourceDebugExtension(b))); }
		for t in [vec![], vec![[c, 0, 0, 0]], vec![[c, c, x.i(B_X), 0x0001], [c, 0, 0, 0xFFFF]], vec![[c, c, x.i(B_X), 0x0608]; 3]] { v.push(at(Body::InnerClasses(t))); }
		v.extend([at(Body::EnclosingMethod(c, 0)), at(Body::EnclosingMethod(c, x.i(B_NTM))), at(Body::Synthetic), at(Body::Deprecated), at(Body::Signature(x.i(B_SIG)))]);
		v.extend(anno_attrs(x));
		v.extend(tann_attrs(x, 0));
		for b in [vec![], vec![(x.i(B_MH), vec![])], vec![(x.i(B_MH), vec![x.i(B_INT)])], vec![(x.i(B_MH), vec![x.i(B_INT), x.i(B_STR)]), (x.i(B_MH), vec![])], vec![(x.i(B_MH), vec![x.i(B_MT), x.i(B_MH), c, x.i(B_DYN), x.i(B_FLT)]); 3]] { v.push(at(Body::BootstrapMethods(b))); }
		v.push(at(Body::NestHost(c)));
		for n in 0..=3 { v.push(at(Body::NestMembers(u16s(n, c)))); v.push(at(Body::PermittedSubclasses(u16s(n, c)))); }
		for n in 0..=2 { v.push(at(Body::ModulePackages(u16s(n, x.i(B_PKG))))); }
		v.extend([at(Body::ModuleMainClass(c)), at(Body::Module(simple_module(x))), at(Body::Module(Mod { name: x.i(B_MOD), ..Mod::default() }))]);
		let sig = at(Body::Signature(x.i(B_SIG)));
		for r in [vec![], vec![(x.i(B_X), x.i(B_I), vec![])], vec![(x.i(B_X), x.i(B_I), vec![sig.clone()]), (x.i(B_X), x.i(B_SIG), vec![])], vec![(x.i(B_X), x.i(B_I), vec![sig.clone(), at(Body::Annotations(true, vec![ann(x, vec![])]))])]] { v.push(at(Body::Record(r))); }
		v.extend(unknown_menu());
		v
	}
	fn field_attr_menu(x: &Bx) -> Vec<At> {
		let mut v = vec![at(Body::ConstantValue(x.i(B_INT))), at(Body::ConstantValue(x.i(B_STR))), at(Body::ConstantValue(x.i(B_FLT))), at(Body::Synthetic), at(Body::Deprecated), at(Body::Signature(x.i(B_SIG)))];
		v.extend(anno_attrs(x).into_iter().step_by(3));
		v.extend(tann_attrs(x, 2));
		v.extend([unknown("Foo", &[9]), unknown("ConstantValu", &[0, 1]), unknown("", &[])]);
		v
	}
	fn method_attr_menu(x: &Bx) -> Vec<At> {
		let (c, r) = (x.i(B_CLS), ann_reps(x));
		let mut v = vec![];
		for n in 0..=3 { v.push(at(Body::Exceptions(vec![c; n]))); }
		for p in [vec![], vec![[x.i(B_X), 0]], vec![[0, 0x8010], [x.i(B_X), 0x1000]], vec![[x.i(B_X), 0x0010]; 255]] { v.push(at(Body::MethodParameters(p))); }
		for vis in [true, false] {
			for p in [vec![], vec![vec![]], vec![vec![r[0].clone()]], vec![vec![r[0].clone(), r[1].clone()], vec![]], vec![vec![], vec![r[2].clone()], vec![r[1].clone(), r[0].clone()]], vec![vec![]; 255], vec![vec![r[0].clone()]; 255]] {
				v.push(at(Body::ParameterAnnotations(vis, p)));
			}
		}
		for e in ev_menu(x).into_iter().step_by(7) { v.push(at(Body::AnnotationDefault(e))); }
		v.extend([at(Body::Signature(x.i(B_SIG))), at(Body::Synthetic), at(Body::Deprecated)]);
		v.extend(anno_attrs(x).into_iter().step_by(3));
		v.extend(tann_attrs(x, 1));
		v.push(code(vec![]));
		v.push(at(Body::Code { max_stack: 2, max_locals: 3, code: vec![0x2a, 0xb7, (x.i(B_MTH) >> 8) as u8, (x.i(B_MTH) & 0xff) as u8, 0xb1], table: vec![[0, 4, 4, 0]], attrs: vec![at(Body::LineNumberTable(vec![[0, 3]]))] }));
		v.extend([unknown("Foo", &[]), unknown("MethodParameter", &[1, 0, 0, 0, 0]), unknown("Exceptions.", &[0, 0])]);
		v
	}
	fn code_attr_menu(x: &Bx) -> Vec<At> {
		let f = frame_reps(x);
		let mut v = vec![at(Body::StackMapTable(vec![]))];
		v.push(at(Body::StackMapTable(vec![f[0].clone()])));
		v.push(at(Body::StackMapTable(f.iter().skip(1).take(4).cloned().collect())));
		v.push(at(Body::StackMapTable(f.iter().rev().take(5).cloned().collect())));
		v.push(at(Body::StackMapTable(f.clone())));
		for t in [vec![], vec![[0, 1]], vec![[0, 1], [65535, 65535]], vec![[1, 2]; 3]] { v.push(at(Body::LineNumberTable(t))); }
		for t in [vec![], vec![[0, 1, x.i(B_X), x.i(B_I), 0]], vec![[0, 65535, x.i(B_X), x.i(B_I), 65535], [1, 0, x.i(B_X), x.i(B_SIG), 1]]] { v.push(at(Body::LocalVariableTable(t.clone()))); v.push(at(Body::LocalVariableTypeTable(t))); }
		v.extend(tann_attrs(x, 3));
		v.extend([unknown("Foo", &[7]), unknown("LineNumberTabl", &[0, 0]), unknown("StackMapTable2", &[])]);
		v
	}

	// ---------------------------------------------------------------------------------------------------------------------
	// the tests
	// ---------------------------------------------------------------------------------------------------------------------
	/// the entries enumerated in the pool tests; `wide` adds the two 8-byte constants
	fn pool_menu(x: &Bx, wide: bool) -> Vec<K> {
		let mut v = vec![K::Utf8(vec![]), K::Utf8(b"a".to_vec()),
			K::Utf8(vec![0xC0, 0x80, 0xE2, 0x82, 0xAC, 0xED, 0xA0, 0x80, 0xED, 0xB0, 0x80]),   // modified UTF-8: U+0000, U+20AC, a surrogate pair
			K::Utf8(b"Code".to_vec()),                                                         // a second Utf8 with the content of an attribute name
			K::Int(0xFFFF_FFFF), K::Float(0), K::Class(x.i(B_A)), K::Str(x.i(B_X)), K::Field(x.i(B_CLS), x.i(B_NTF)), K::Method(x.i(B_CLS), x.i(B_NTM)), K::IMethod(x.i(B_CLS), x.i(B_NTM)),
			K::NaT(x.i(B_X), x.i(B_SIG)), K::MHandle(1, x.i(B_FLD)), K::MHandle(9, x.i(B_IM)), K::MType(x.i(B_V)), K::Dynamic(1, x.i(B_NTF)), K::Indy(65535, x.i(B_NTM)), K::Module(x.i(B_A)), K::Package(x.i(B_A))];
		if wide { v.push(K::Long(0x0102_0304, 0x0506_0708)); v.push(K::Double(0x7ff8_0000, 1)); }
		v
	}
	/// a class that looks attribute names up on three levels: field/ConstantValue, method/Code/LineNumberTable, class/SourceFile
	fn pool_case(x: &Bx, layout: Layout) -> Cls {
		let mut c = plain_x(x);
		c.layout = layout;
		c.fields = vec![field(x, vec![at(Body::ConstantValue(x.i(B_INT)))])];
		c.methods = vec![method(x, vec![code(vec![at(Body::LineNumberTable(vec![[0, 1]]))])])];
		c.attrs = vec![at(Body::SourceFile(x.i(B_X)))];
		c
	}
	/// every sequence of up to `max` menu entries, shortest first (only those with an 8-byte constant if `need_wide`); sequences of up to
	/// 3 entries at each of the 4 places of the pool, longer ones between the base and the attribute names
	fn pools(t: &mut Tally, max: usize, wide: bool, need_wide: bool) {
		let n = pool_menu(&X0, wide).len();
		for len in 0..=max {
			let mut seq = vec![0usize; len];
			loop {
				if seq.iter().any(|i| *i >= 19) || !need_wide {
					for place in 0..4 {
						if place != 1 && (len > 3 || len == 0) { continue; }
						let front_slots: usize = if place == 0 { seq.iter().map(|i| if *i >= 19 { 2 } else { 1 }).sum() } else { 0 };
						let x = Bx { off: front_slots as u16, fixed: None };
						let menu = pool_menu(&x, wide);
						let extra: Vec<K> = seq.iter().map(|i| menu[*i].clone()).collect();
						let desc = format!("pool = {} where <these> = {:?}", ["<these> ++ base ++ names", "base ++ <these> ++ names", "base ++ first name ++ <these> ++ other names", "base ++ names ++ <these>"][place], extra);
						let mut l = Layout::default();
						match place { 0 => l.front = extra, 1 => l.mid = extra, 2 => l.after_first_name = extra, _ => l.back = extra }
						check_as(t, &desc, &pool_case(&x, l), true, len > 0);
					}
				}
				// next sequence of this length
				let mut k = len;
				while k > 0 && seq[k - 1] == n - 1 { seq[k - 1] = 0; k -= 1; }
				if k == 0 { break; }
				seq[k - 1] += 1;
			}
		}
	}

	/// Bound: see `pools_without_long_double` in rawcls_group.py
	#[test]
	fn pools_without_long_double() {
		let mut t = Tally::new("pools_without_long_double");
		assert_eq!(pool_menu(&X0, false).len(), 19, "harness: the index of the first 8-byte constant in the menu is 19");
		pools(&mut t, 4, false, false);
		// the items of ClassFile in front of and behind the pool
		for minor in [0u16, 3, 65535] { for major in [45u16, 52, 65, 65535] { for access in [0u16, 0x0021, 0xFFFF] { for sup in [0, B_CLS] { for ifaces in [vec![], vec![B_CLS], vec![B_CLS, B_CLS]] {
			let mut c = pool_case(&X0, Layout::default());
			(c.minor, c.major, c.access, c.sup, c.ifaces) = (minor, major, access, sup, ifaces.clone());
			check(&mut t, &format!("minor {minor} major {major} access {access:#06x} super {sup} interfaces {ifaces:?}"), &c);
			c.fields.clear(); c.methods.clear(); c.attrs.clear();
			check_as(&mut t, &format!("no members, no attributes, minor {minor} major {major} access {access:#06x} super {sup} interfaces {ifaces:?}"), &c, true, true);
		}}}}}
		t.finish();
	}

	/// Bound: see `pools_with_long_double` in rawcls_group.py
	#[test]
	fn pools_with_long_double() {
		let mut t = Tally::new("pools_with_long_double");
		pools(&mut t, 4, true, true);
		t.finish();
	}

	fn with_class_attrs(attrs: &[At]) -> Cls { let mut c = plain(); c.attrs = attrs.to_vec(); c }
	fn class_reps(x: &Bx) -> Vec<At> {
		let m = class_attr_menu(x);
		let mut seen: Vec<String> = vec![];
		let mut v = vec![];
		// the last shape of every kind (the fullest one), and three unknown attributes
		for a in m.iter().rev() { if !matches!(a.body, Body::Unknown(_)) && !seen.contains(&a.name) { seen.push(a.name.clone()); v.push(a.clone()); } }
		v.reverse();
		v.extend([unknown("Foo", &[1, 2, 3, 4, 5]), unknown("CodeX", &[0]), unknown("", &[])]);
		v
	}

	/// Bound: see rawcls_group.py
	#[test]
	fn class_level_attributes() {
		let mut t = Tally::new("class_level_attributes");
		let menu = class_attr_menu(&X0);
		selections(&menu, 2, &mut |sel| check(&mut t, &format!("class attributes: {}", shorts(sel)), &with_class_attrs(sel)));
		let reps = class_reps(&X0);
		selections(&reps, 3, &mut |sel| if sel.len() == 3 { check(&mut t, &format!("class attributes: {}", shorts(sel)), &with_class_attrs(sel)) });
		let half: Vec<At> = menu.iter().skip(1).step_by(2).cloned().collect();
		println!("INFO class_level_attributes menu {} shapes, {} representatives (fullest shape of every kind + 3 unknown), {} in the half menu", menu.len(), reps.len(), half.len());
		selections(&half, 3, &mut |sel| if sel.len() == 3 { check(&mut t, &format!("class attributes: {}", shorts(sel)), &with_class_attrs(sel)) });
		t.finish();
	}

	/// Bound: see rawcls_group.py
	#[test]
	fn field_and_method_attributes() {
		let mut t = Tally::new("field_and_method_attributes");
		let (fm, mm) = (field_attr_menu(&X0), method_attr_menu(&X0));
		println!("INFO field_and_method_attributes field menu {} shapes, method menu {} shapes", fm.len(), mm.len());
		// one field / one method with up to two attributes
		selections(&fm, 2, &mut |sel| { let mut c = plain(); c.fields = vec![field(&X0, sel.to_vec())]; check(&mut t, &format!("field attributes: {}", shorts(sel)), &c); });
		selections(&mm, 2, &mut |sel| { let mut c = plain(); c.methods = vec![method(&X0, sel.to_vec())]; check(&mut t, &format!("method attributes: {}", shorts(sel)), &c); });
		// three attributes
		let (fr, mr): (Vec<At>, Vec<At>) = (fm.clone(), mm.clone());
		selections(&fr, 3, &mut |sel| if sel.len() == 3 { let mut c = plain(); c.fields = vec![field(&X0, sel.to_vec())]; check(&mut t, &format!("field attributes: {}", shorts(sel)), &c); });
		selections(&mr, 3, &mut |sel| if sel.len() == 3 { let mut c = plain(); c.methods = vec![method(&X0, sel.to_vec())]; check(&mut t, &format!("method attributes: {}", shorts(sel)), &c); });
		// 0..3 fields x 0..3 methods, each member with no or one attribute, member items at their bounds
		let fopt: Vec<Vec<At>> = std::iter::once(vec![]).chain(fm.iter().step_by(3).map(|a| vec![a.clone()])).collect();
		let mopt: Vec<Vec<At>> = std::iter::once(vec![]).chain(mm.iter().step_by(6).map(|a| vec![a.clone()])).collect();
		let mut members: Vec<(Vec<Mem>, Vec<Mem>)> = vec![];
		for nf in 0..=3usize { for nm in 0..=3usize {
			for (fa, ma) in fopt.iter().flat_map(|f| mopt.iter().map(move |m| (f, m))) {
				if (nf == 0 && !fa.is_empty()) || (nm == 0 && !ma.is_empty()) { continue; }
				let fs: Vec<Mem> = (0..nf).map(|i| Mem { access: [0x0002, 0xFFFF, 0][i], name: B_X, desc: B_I, attrs: if i == nf - 1 { fa.clone() } else { vec![] } }).collect();
				let ms: Vec<Mem> = (0..nm).map(|i| Mem { access: [0x0001, 0, 0xFFFF][i], name: B_X, desc: B_V, attrs: if i == 0 { ma.clone() } else { vec![] } }).collect();
				members.push((fs, ms));
			}
		}}
		for (fs, ms) in members {
			let mut c = plain();
			let desc = format!("{} fields [{}] {} methods [{}]", fs.len(), fs.iter().map(|m| shorts(&m.attrs)).collect::<Vec<_>>().join(" | "), ms.len(), ms.iter().map(|m| shorts(&m.attrs)).collect::<Vec<_>>().join(" | "));
			(c.fields, c.methods) = (fs, ms);
			check_as(&mut t, &desc, &c, true, true);
		}
		t.finish();
	}

	fn with_method_attrs(attrs: Vec<At>) -> Cls { let mut c = plain(); c.methods = vec![method(&X0, attrs)]; c }

	/// Bound: see rawcls_group.py
	#[test]
	fn code_attributes() {
		let mut t = Tally::new("code_attributes");
		let menu = code_attr_menu(&X0);
		println!("INFO code_attributes menu {} shapes", menu.len());
		let codes: Vec<Vec<u8>> = vec![vec![0xb1], vec![0x2a, 0xb7, 0, B_MTH as u8, 0xb1], vec![0x03, 0xaa, 0, 0, 0, 0, 0, 12, 0, 0, 0, 0, 0, 0, 0, 0, 0xb1]];
		let tables: Vec<Vec<[u16; 4]>> = vec![vec![], vec![[0, 1, 1, 0]], vec![[0, 1, 1, B_CLS], [0, 65535, 65535, 0]], vec![[1, 2, 3, B_CLS]; 3]];
		let maxes = [(0u16, 0u16), (1, 1), (65535, 65535), (2, 65535)];
		// every code x exception table x max pair, nested: up to two attributes of different names
		let mut combo = 0usize;
		selections(&menu, 2, &mut |sel| {
			for cb in &codes { for tb in &tables {
				let (ms, ml) = maxes[combo % 4]; combo += 1;
				let a = at(Body::Code { max_stack: ms, max_locals: ml, code: cb.clone(), table: tb.clone(), attrs: sel.to_vec() });
				check(&mut t, &format!("method with Code max_stack {ms} max_locals {ml} code {cb:?} exception_table {tb:?} nested: {}", shorts(sel)), &with_method_attrs(vec![a]));
			}}
		});
		// three nested attributes of different names; several LineNumberTable / LocalVariableTable attributes in one Code (4.7.12, 4.7.13 allow it)
		selections(&menu, 3, &mut |sel| if sel.len() == 3 { check(&mut t, &format!("method with Code nested: {}", shorts(sel)), &with_method_attrs(vec![code(sel.to_vec())])) });
		let multi: Vec<At> = menu.iter().filter(|a| matches!(a.body, Body::LineNumberTable(_) | Body::LocalVariableTable(_) | Body::LocalVariableTypeTable(_))).cloned().collect();
		for a in &multi { for b in &multi { for c in multi.iter().step_by(2) {
			let nested = vec![a.clone(), b.clone(), c.clone()];
			check(&mut t, &format!("method with Code nested: {}", shorts(&nested)), &with_method_attrs(vec![code(nested)]));
		}}}
		// Code next to other method attributes, two methods with Code
		for a in menu.iter().step_by(3) { for other in method_attr_menu(&X0).iter().filter(|m| !matches!(m.body, Body::Code { .. })).step_by(2) {
			for first in [true, false] {
				let attrs = if first { vec![code(vec![a.clone()]), other.clone()] } else { vec![other.clone(), code(vec![a.clone()])] };
				let mut c = with_method_attrs(attrs.clone());
				c.methods.push(method(&X0, vec![code(vec![])]));
				check(&mut t, &format!("two methods, first with: {}", shorts(&attrs)), &c);
			}
		}}
		// code_length at its bounds: 1, 65535 (4.7.3: less than 65536), and beyond what a method may have but the u4 can say
		for n in [1usize, 255, 256, 65535, 65536, 70000] {
			let a = at(Body::Code { max_stack: 1, max_locals: 1, code: vec![0x00; n], table: vec![], attrs: vec![at(Body::LineNumberTable(vec![[0, 1]]))] });
			check_as(&mut t, &format!("method with Code of {n} nop bytes and a LineNumberTable"), &with_method_attrs(vec![a]), n < 65536, true);
		}
		t.finish();
	}

	/// Bound: see rawcls_group.py
	#[test]
	fn stack_map_frames() {
		let mut t = Tally::new("stack_map_frames");
		let (menu, reps) = (frame_menu(&X0), frame_reps(&X0));
		println!("INFO stack_map_frames menu {} frames, {} representatives", menu.len(), reps.len());
		let run = |t: &mut Tally, frames: Vec<Fr>| {
			let desc = format!("method with Code with StackMapTable {frames:?}");
			check(t, &desc, &with_method_attrs(vec![code(vec![at(Body::StackMapTable(frames))])]));
		};
		run(&mut t, vec![]);
		for a in &menu { run(&mut t, vec![a.clone()]); }
		for a in &menu { for b in &menu { run(&mut t, vec![a.clone(), b.clone()]); } }
		for a in &reps { for b in &reps { for c in &reps { run(&mut t, vec![a.clone(), b.clone(), c.clone()]); } } }
		// every frame_type 0..=127 with every verification type where one follows, every frame_type 247..=255
		for ft in 0u8..64 { run(&mut t, vec![Fr::Same(ft)]); }
		for d in 0u8..64 { for v in vt_menu(&X0) { run(&mut t, vec![Fr::SameLocals1(d, v)]); } }
		t.finish();
	}

	/// Bound: see rawcls_group.py
	#[test]
	fn annotations_and_element_values() {
		let mut t = Tally::new("annotations_and_element_values");
		let x = &X0;
		let (evs, reps) = (ev_menu(x), ev_reps(x));
		println!("INFO annotations_and_element_values {} element values, type annotation menus {} / {} / {} / {}", evs.len(), tann_menu(x, 0).len(), tann_menu(x, 1).len(), tann_menu(x, 2).len(), tann_menu(x, 3).len());
		let sig = at(Body::Signature(B_SIG));
		// hosts of one attribute: class, field, method, record component
		let host = |t: &mut Tally, a: At, what: &str| {
			for place in 0..4 {
				let mut c = plain();
				match place { 0 => c.attrs = vec![a.clone()], 1 => c.fields = vec![field(x, vec![a.clone()])], 2 => c.methods = vec![method(x, vec![sig.clone(), a.clone()])],
					_ => c.attrs = vec![at(Body::Record(vec![(B_X, B_I, vec![a.clone(), sig.clone()])]))] }
				check(t, &format!("{what} on {}: {}", ["the class", "a field", "a method", "a record component"][place], short(&a)), &c);
			}
		};
		for vis in [true, false] {
			// one annotation with one element value of the menu; with two of them
			for e in &evs { host(&mut t, at(Body::Annotations(vis, vec![ann(x, vec![e.clone()])])), "annotation"); }
			for a in evs.iter().step_by(3) { for b in evs.iter().step_by(4) { host(&mut t, at(Body::Annotations(vis, vec![ann(x, vec![a.clone(), b.clone()])])), "annotation"); } }
			// 0..3 annotations with 0..2 pairs each
			let shapes: Vec<Ann> = vec![ann(x, vec![]), ann(x, vec![reps[0].clone()]), ann(x, vec![reps[1].clone(), reps[2].clone()]), ann(x, vec![evs[evs.len() - 1].clone()])];
			host(&mut t, at(Body::Annotations(vis, vec![])), "annotations");
			for a in &shapes { host(&mut t, at(Body::Annotations(vis, vec![a.clone()])), "annotations");
				for b in &shapes { host(&mut t, at(Body::Annotations(vis, vec![a.clone(), b.clone()])), "annotations");
					for c in &shapes { host(&mut t, at(Body::Annotations(vis, vec![a.clone(), b.clone(), c.clone()])), "annotations"); } } }
			// parameter annotations: 0..3 parameters with 0..2 annotations each
			let per_param: Vec<Vec<Ann>> = vec![vec![], vec![shapes[0].clone()], vec![shapes[1].clone(), shapes[2].clone()], vec![shapes[3].clone()]];
			let pa = |t: &mut Tally, ps: Vec<Vec<Ann>>| { let a = at(Body::ParameterAnnotations(vis, ps)); check(t, &format!("method with {}", short(&a)), &with_method_attrs(vec![a])); };
			pa(&mut t, vec![]);
			for a in &per_param { pa(&mut t, vec![a.clone()]); for b in &per_param { pa(&mut t, vec![a.clone(), b.clone()]); for c in &per_param { pa(&mut t, vec![a.clone(), b.clone(), c.clone()]); } } }
			// type annotations: every target type of its place x 3 type paths x 3 pair lists, alone and in twos
			for place in 0u8..4 {
				let menu = tann_menu(x, place);
				let ta = |t: &mut Tally, v: Vec<TAnn>| {
					let a = at(Body::TypeAnnotations(vis, v));
					let mut c = plain();
					match place { 0 => c.attrs = vec![a.clone()], 1 => c.methods = vec![method(x, vec![a.clone()])], 2 => { c.fields = vec![field(x, vec![a.clone()])]; c.attrs = vec![at(Body::Record(vec![(B_X, B_I, vec![a.clone()])]))]; },
						_ => c.methods = vec![method(x, vec![code(vec![a.clone()])])] }
					check(t, &format!("type annotations at place {place} (0 class, 1 method, 2 field and record component, 3 Code): {}", short(&a)), &c);
				};
				ta(&mut t, vec![]);
				for a in &menu { ta(&mut t, vec![a.clone()]); }
				for a in menu.iter().step_by(2) { for b in menu.iter().step_by(5) { ta(&mut t, vec![a.clone(), b.clone()]); } }
			}
		}
		// AnnotationDefault: every element value of the menu
		for e in &evs { let a = at(Body::AnnotationDefault(e.clone())); check(&mut t, &format!("method with {}", short(&a)), &with_method_attrs(vec![a])); }
		for a in &evs { for b in &evs { let d = at(Body::AnnotationDefault(Ev::Array(vec![a.clone(), b.clone()]))); check(&mut t, &format!("method with {}", short(&d)), &with_method_attrs(vec![d])); } }
		t.finish();
	}

	/// Bound: see rawcls_group.py
	#[test]
	fn modules_and_records() {
		let mut t = Tally::new("modules_and_records");
		let x = &X0;
		let (m, p, c) = (B_MOD, B_PKG, B_CLS);
		let requires: Vec<Vec<[u16; 3]>> = vec![vec![], vec![[m, 0x8000, 0]], vec![[m, 0x0020, B_X], [m, 0x1040, 0]]];
		let to: Vec<Vec<(u16, u16, Vec<u16>)>> = vec![vec![], vec![(p, 0, vec![])], vec![(p, 0x1000, vec![m])], vec![(p, 0x8000, vec![m, m])], vec![(p, 0, vec![m]), (p, 0xFFFF, vec![])]];
		let uses: Vec<Vec<u16>> = vec![vec![], vec![c], vec![c, c]];
		let provides: Vec<Vec<(u16, Vec<u16>)>> = vec![vec![], vec![(c, vec![c])], vec![(c, vec![c, c])], vec![(c, vec![c]), (c, vec![c, c, c])]];
		let company: Vec<Vec<At>> = vec![vec![], vec![at(Body::ModulePackages(vec![]))], vec![at(Body::ModulePackages(vec![p, p])), at(Body::ModuleMainClass(c))], vec![at(Body::ModuleMainClass(c))], vec![unknown("ModuleTarget", &[0, 4])]];
		let mut n = 0usize;
		for r in &requires { for e in &to { for o in &to { for u in &uses { for pr in &provides { for (flags, version) in [(0u16, 0u16), (0x9020, B_X)] {
			let module = at(Body::Module(Mod { name: m, flags, version, requires: r.clone(), exports: e.clone(), opens: o.clone(), uses: u.clone(), provides: pr.clone() }));
			let others = &company[n % company.len()];
			let before = n % 2 == 1;
			n += 1;
			let mut attrs = if before { others.clone() } else { vec![] };
			attrs.push(module);
			if !before { attrs.extend(others.iter().cloned()); }
			let mut cl = with_class_attrs(&attrs);
			cl.access = 0x8000;
			check(&mut t, &format!("module-info: {}", shorts(&attrs)), &cl);
		}}}}}}
		// records: 0..3 components, each with one of 8 attribute lists
		let sig = at(Body::Signature(B_SIG));
		let lists: Vec<Vec<At>> = vec![vec![], vec![sig.clone()], vec![at(Body::Annotations(true, vec![ann(x, vec![])]))], vec![at(Body::Annotations(false, ann_reps(x)))], vec![tann_attrs(x, 2)[2].clone()],
			vec![unknown("Foo", &[1, 2])], vec![sig.clone(), at(Body::Annotations(true, vec![ann(x, ev_reps(x))])), tann_attrs(x, 2)[3].clone()], vec![at(Body::Deprecated), unknown("", &[])]];
		let rec = |t: &mut Tally, comps: Vec<(u16, u16, Vec<At>)>, extra: bool| {
			let mut attrs = vec![at(Body::Record(comps))];
			if extra { attrs.insert(0, sig.clone()); attrs.push(at(Body::PermittedSubclasses(vec![c]))); }
			check(t, &format!("record: {}", shorts(&attrs)), &with_class_attrs(&attrs));
		};
		rec(&mut t, vec![], false); rec(&mut t, vec![], true);
		for a in &lists { rec(&mut t, vec![(B_X, B_I, a.clone())], false);
			for b in &lists { rec(&mut t, vec![(B_X, B_I, a.clone()), (B_A, B_SIG, b.clone())], true);
				for d in &lists { rec(&mut t, vec![(B_X, B_I, a.clone()), (B_A, B_SIG, b.clone()), (B_X, B_SIG, d.clone())], false); } } }
		t.finish();
	}

	/// Bound: see rawcls_group.py
	#[test]
	fn several_attributes_together() {
		let mut t = Tally::new("several_attributes_together");
		let x = &X0;
		let creps = class_reps(x);
		let cl: Vec<Vec<At>> = vec![vec![], vec![creps[0].clone()], creps.iter().take(6).cloned().collect(), creps.iter().skip(6).step_by(2).cloned().collect(), creps.iter().rev().step_by(3).cloned().collect(), creps.clone()];
		let fm = field_attr_menu(x);
		let fl: Vec<Vec<At>> = vec![vec![], vec![fm[0].clone()], vec![fm[4].clone(), fm[2].clone(), fm[0].clone()], fm.iter().skip(5).step_by(4).cloned().collect(), vec![fm[fm.len() - 1].clone(), fm[1].clone()]];
		let mm = method_attr_menu(x);
		let others: Vec<Vec<At>> = vec![vec![], vec![mm[3].clone()], vec![mm[6].clone(), mm[10].clone(), mm[3].clone()], mm.iter().filter(|a| !matches!(a.body, Body::Code { .. })).skip(1).step_by(9).cloned().collect()];
		let cm = code_attr_menu(x);
		let nested: Vec<Vec<At>> = vec![vec![], vec![cm[4].clone()], vec![cm[6].clone(), cm[10].clone(), cm[11].clone()], cm.iter().step_by(5).cloned().collect(), vec![cm[7].clone(), cm[2].clone(), cm[cm.len() - 1].clone(), cm[12].clone()],
			vec![cm[5].clone(), cm[5].clone(), cm[9].clone(), cm[9].clone()]];
		for (ci, ca) in cl.iter().enumerate() { for (fi, fa) in fl.iter().enumerate() { for (oi, oa) in others.iter().enumerate() { for (ni, na) in nested.iter().enumerate() { for shape in 0..6 {
			let mut c = with_class_attrs(ca);
			let mut with_code = oa.clone();
			with_code.insert(oi.min(with_code.len()), at(Body::Code { max_stack: 3, max_locals: 2, code: vec![0x2a, 0xb1], table: if ni % 2 == 0 { vec![] } else { vec![[0, 1, 1, 0]] }, attrs: na.clone() }));
			match shape {
				0 => { c.fields = vec![field(x, fa.clone())]; c.methods = vec![method(x, with_code)]; },
				1 => { c.fields = vec![field(x, vec![]), field(x, fa.clone())]; c.methods = vec![method(x, with_code), method(x, oa.clone())]; },
				2 => { let mut second = with_code.clone(); for a in second.iter_mut() { *a = again(a, 2); } c.methods = vec![method(x, oa.clone()), method(x, second), method(x, with_code)]; c.fields = vec![field(x, fa.clone()), field(x, fa.clone())]; },
				3 => { c.methods = vec![method(x, with_code)]; c.ifaces = vec![B_CLS]; c.sup = B_CLS; },
				4 => { c.fields = vec![field(x, fa.clone()), field(x, vec![]), field(x, fa.clone())]; },
				_ => {
					if !c.attrs.iter().any(|a| a.name == "Record") { c.attrs.push(at(Body::Record(vec![(B_X, B_I, fa.iter().filter(|a| !matches!(a.body, Body::ConstantValue(_))).cloned().collect())]))); }
					c.methods = vec![method(x, with_code)];
				},
			}
			check_as(&mut t, &format!("class attribute list {ci} x field attribute list {fi} x method attribute list {oi} x nested attribute list {ni}, shape {shape}: class [{}] field [{}] method [{}] nested [{}]",
				shorts(ca), shorts(fa), shorts(oa), shorts(na)), &c, true, true);
		}}}}}
		// one attribute on the class, on a field and on a method, each named through its own Utf8 entry with the same content
		let mut shared = anno_attrs(x);
		shared.extend([at(Body::Signature(B_SIG)), at(Body::Deprecated), at(Body::Synthetic), tann_attrs(x, 2)[2].clone(), unknown("Foo", &[1])]);
		for a in &shared { for b in &shared {
			let mut c = with_class_attrs(&[a.clone(), again(b, 4)]);
			if a.name == b.name { c.attrs.pop(); }
			c.fields = vec![field(x, vec![again(a, 2)]), field(x, vec![a.clone(), again(b, 2)])];
			if a.name == b.name { c.fields[1].attrs.pop(); }
			c.methods = vec![method(x, vec![again(a, 3), code(vec![])]), method(x, vec![again(&code(vec![again(&unknown("Foo", &[]), 9)]), 2), again(b, 3)])];
			check_as(&mut t, &format!("class, two fields and two methods with {} and {}, the names given by different Utf8 entries of equal content", short(a), short(b)), &c, true, true);
		}}
		t.finish();
	}

	fn wide_layouts() -> Vec<(&'static str, Layout)> {
		let (l, d) = (K::Long(0x8000_0000, 1), K::Double(0x3ff0_0000, 0));
		vec![("Long first", Layout { front: vec![l.clone()], ..Layout::default() }),
			("Double first", Layout { front: vec![d.clone()], ..Layout::default() }),
			("Long between base and names", Layout { mid: vec![l.clone()], ..Layout::default() }),
			("Double after the first attribute name", Layout { after_first_name: vec![d.clone()], ..Layout::default() }),
			("Long last", Layout { back: vec![l.clone()], ..Layout::default() }),
			("Long first, Double last", Layout { front: vec![l.clone()], back: vec![d.clone()], ..Layout::default() }),
			("Double Long Integer between base and names", Layout { mid: vec![d.clone(), l.clone(), K::Int(7)], ..Layout::default() }),
			("Utf8 Long Utf8 Double first", Layout { front: vec![K::Utf8(b"Code".to_vec()), l, K::Utf8(b"b".to_vec()), d], ..Layout::default() })]
	}

	/// Bound: see rawcls_group.py
	#[test]
	fn attributes_with_long_double_pool() {
		let mut t = Tally::new("attributes_with_long_double_pool");
		for (what, layout) in wide_layouts() {
			let x = &Bx { off: slots(&layout.front) as u16, fixed: None };
			let run = |t: &mut Tally, place: &str, c: &mut Cls, attrs: &[At]| { c.layout = layout.clone(); check_as(t, &format!("pool with {what}; {place}: {}", shorts(attrs)), c, true, true); };
			for a in class_attr_menu(x) { let mut c = plain_x(x); c.attrs = vec![a.clone()]; run(&mut t, "class attribute", &mut c, &[a]); }
			for a in field_attr_menu(x) { let mut c = plain_x(x); c.fields = vec![field(x, vec![a.clone()])]; run(&mut t, "field attribute", &mut c, &[a]); }
			for a in method_attr_menu(x) { let mut c = plain_x(x); c.methods = vec![method(x, vec![a.clone()])]; run(&mut t, "method attribute", &mut c, &[a]); }
			for a in code_attr_menu(x) { let mut c = plain_x(x); c.methods = vec![method(x, vec![code(vec![a.clone()])])]; run(&mut t, "attribute in Code", &mut c, &[a]); }
			let reps = class_reps(x);
			for a in &reps { for b in &reps { if a.name != b.name {
				let mut c = plain_x(x); c.attrs = vec![a.clone(), b.clone()]; c.fields = vec![field(x, vec![at(Body::ConstantValue(x.i(B_INT)))])];
				run(&mut t, "field with ConstantValue, class attributes", &mut c, &[a.clone(), b.clone()]);
			}}}
			// a field whose ConstantValue is the 8-byte constant itself (front: index 1; Utf8 Long ..: index 2)
			if !layout.front.is_empty() {
				let at_index = 1 + layout.front.iter().position(|k| k_slots(k) == 2).expect("harness") as u16;
				let mut c = plain_x(x); c.fields = vec![field(x, vec![at(Body::ConstantValue(at_index))])];
				run(&mut t, "field with ConstantValue of the 8-byte constant", &mut c, &[]);
			}
		}
		t.finish();
	}

	/// Bound: see rawcls_group.py
	#[test]
	fn counts_at_their_bounds() {
		let mut t = Tally::new("counts_at_their_bounds");
		let x = &X0;
		const N: usize = 65535;
		let c16 = vec![B_CLS; N];
		let mut cases: Vec<(String, Cls)> = vec![];
		let mut class_attr = |what: &str, a: At| cases.push((format!("class attribute {what}"), with_class_attrs(&[a])));
		class_attr("InnerClasses with 65535 classes", at(Body::InnerClasses(vec![[B_CLS, 0, 0, 1]; N])));
		class_attr("BootstrapMethods with 65535 methods", at(Body::BootstrapMethods(vec![(B_MH, vec![]); N])));
		class_attr("BootstrapMethods, one method with 65535 arguments", at(Body::BootstrapMethods(vec![(B_MH, vec![B_INT; N])])));
		class_attr("NestMembers with 65535 classes", at(Body::NestMembers(c16.clone())));
		class_attr("PermittedSubclasses with 65535 classes", at(Body::PermittedSubclasses(c16.clone())));
		class_attr("ModulePackages with 65535 packages", at(Body::ModulePackages(vec![B_PKG; N])));
		class_attr("Record with 65535 components", at(Body::Record(vec![(B_X, B_I, vec![]); N])));
		class_attr("Record, one component with 65535 attributes", at(Body::Record(vec![(B_X, B_I, vec![at(Body::Deprecated); N])])));
		class_attr("SourceDebugExtension of 100000 bytes", at(Body::SourceDebugExtension(vec![0x41; 100_000])));
		class_attr("unknown attribute of 70000 bytes", unknown("Foo", &vec![0xAB; 70_000]));
		class_attr("RuntimeVisibleAnnotations with 65535 annotations", at(Body::Annotations(true, vec![ann(x, vec![]); N])));
		class_attr("RuntimeInvisibleAnnotations, one annotation with 65535 pairs", at(Body::Annotations(false, vec![ann(x, vec![Ev::Const(b'I', B_INT); N])])));
		class_attr("RuntimeVisibleAnnotations, array element value with 65535 values", at(Body::Annotations(true, vec![ann(x, vec![Ev::Array(vec![Ev::Class(B_V); N])])])));
		class_attr("RuntimeVisibleTypeAnnotations with 65535 annotations, type_path of 255", at(Body::TypeAnnotations(true, { let mut v = vec![TAnn { target_type: 0x10, target: Target::Supertype(0), path: vec![], ty: B_SIG, pairs: vec![] }; N]; v[1].path = vec![(1, 0); 255]; v })));
		class_attr("Module with 65535 requires, exports (one with 65535 exports_to), opens, uses, provides (one with 65535 provides_with)", at(Body::Module(Mod { name: B_MOD, flags: 0, version: 0, requires: vec![[B_MOD, 0, 0]; N],
			exports: { let mut v = vec![(B_PKG, 0, vec![]); N]; v[N - 1].2 = vec![B_MOD; N]; v }, opens: { let mut v = vec![(B_PKG, 0, vec![]); N]; v[0].2 = vec![B_MOD; N]; v }, uses: c16.clone(),
			provides: { let mut v = vec![(B_CLS, vec![B_CLS]); N]; v[7].1 = c16.clone(); v } })));
		let mut method_attr = |what: &str, a: At| cases.push((format!("method attribute {what}"), with_method_attrs(vec![a])));
		method_attr("Exceptions with 65535 classes", at(Body::Exceptions(c16.clone())));
		method_attr("MethodParameters with 255 parameters", at(Body::MethodParameters(vec![[B_X, 0x8000]; 255])));
		for vis in [true, false] { method_attr("parameter annotations with 255 parameters, one with 65535 annotations", at(Body::ParameterAnnotations(vis, { let mut v = vec![vec![ann(x, vec![])]; 255]; v[254] = vec![ann(x, vec![]); N]; v }))); }
		method_attr("Code with 65535 exception table rows", at(Body::Code { max_stack: 0, max_locals: 0, code: vec![0xb1], table: vec![[0, 1, 0, 0]; N], attrs: vec![] }));
		method_attr("Code with 65535 attributes", at(Body::Code { max_stack: 0, max_locals: 0, code: vec![0xb1], table: vec![], attrs: vec![at(Body::LineNumberTable(vec![[0, 1]])); N] }));
		method_attr("Code with LineNumberTable of 65535 rows", code(vec![at(Body::LineNumberTable(vec![[0, 1]; N]))]));
		method_attr("Code with LocalVariableTable of 65535 rows", code(vec![at(Body::LocalVariableTable(vec![[0, 1, B_X, B_I, 0]; N]))]));
		method_attr("Code with LocalVariableTypeTable of 65535 rows", code(vec![at(Body::LocalVariableTypeTable(vec![[0, 1, B_X, B_SIG, 0]; N]))]));
		method_attr("Code with StackMapTable of 65535 frames", code(vec![at(Body::StackMapTable(vec![Fr::Append(1, vec![Vt::Integer, Vt::Object(B_CLS)]); N]))]));
		method_attr("Code with StackMapTable, full frame with 65535 locals and 65535 stack items", code(vec![at(Body::StackMapTable(vec![Fr::Full(0, vec![Vt::Object(B_CLS); N], vec![Vt::Uninit(3); N])]))]));
		method_attr("Code with RuntimeInvisibleTypeAnnotations, localvar_target with 65535 rows", code(vec![at(Body::TypeAnnotations(false, vec![TAnn { target_type: 0x40, target: Target::Localvar(vec![[0, 1, 2]; N]), path: vec![], ty: B_SIG, pairs: vec![] }]))]));
		let mut c = plain(); c.ifaces = c16.clone(); cases.push(("65535 interfaces".into(), c));
		let mut c = plain(); c.fields = vec![field(x, vec![]); N]; cases.push(("65535 fields".into(), c));
		let mut c = plain(); c.methods = vec![method(x, vec![]); N]; cases.push(("65535 methods".into(), c));
		let mut c = plain(); c.attrs = vec![at(Body::Deprecated); N]; cases.push(("65535 class attributes".into(), c));
		let mut c = plain(); c.fields = vec![field(x, vec![at(Body::Synthetic); N])]; cases.push(("a field with 65535 attributes".into(), c));
		let mut c = plain(); c.layout.mid = vec![K::Utf8(vec![b'u'; N])]; c.attrs = vec![at(Body::SourceFile(B_X))]; cases.push(("Utf8 entry of 65535 bytes".into(), c));
		// constant_pool_count 65535: base (20) + 65513 + one name = 65534 entries
		let mut c = plain(); c.layout.mid = vec![K::Int(5); 65534 - BASE_SLOTS as usize - 1]; c.attrs = vec![at(Body::SourceFile(B_X))]; cases.push(("constant_pool_count 65535, no 8-byte constant".into(), c));
		for (desc, c) in &cases { check_as(&mut t, desc, c, true, true); }
		t.finish();
	}

	/// Bound: see rawcls_group.py
	#[test]
	fn counts_at_their_bounds_with_long_double_pool() {
		let mut t = Tally::new("counts_at_their_bounds_with_long_double_pool");
		let mut c = plain(); c.layout.back = vec![K::Long(0, 0)];
		check_as(&mut t, "no attribute at all, a Long as last entry (constant_pool_count 23)", &c, true, true);
		// constant_pool_count 65535 reached with 8-byte constants: 20 base + 1 name + 32756 Long (65512 slots) + 1 Integer = 65534 slots
		let mut c = plain(); c.layout.mid = vec![K::Long(1, 2); 32756]; c.layout.back = vec![K::Int(5)]; c.attrs = vec![at(Body::SourceFile(B_X))];
		check_as(&mut t, "constant_pool_count 65535 with 32756 Long entries between base and names", &c, true, true);
		let mut c = plain(); c.layout.back = vec![K::Double(1, 2); 32756]; c.layout.mid = vec![K::Int(5)]; c.attrs = vec![at(Body::SourceFile(B_X))];
		check_as(&mut t, "constant_pool_count 65535 with 32756 Double entries at the end (the last one in slots 65533, 65534)", &c, true, true);
		t.finish();
	}

	/// Bound: see rawcls_group.py.  Values that no well-formed class file contains but the public fields can say: only the value side is asked
	/// (write is the JVMS layout of the fields, length() is the number of bytes written, read(write(v)) == v).
	#[test]
	fn raw_values_that_are_no_well_formed_files() {
		let mut t = Tally::new("raw_values_that_are_no_well_formed_files");
		// every index item of every attribute shape is 0 / 65535 / 1 (an Utf8 where another kind is required); attribute names stay resolvable
		for fixed in [0u16, 65535, 1] {
			let x = &Bx { off: 0, fixed: Some(fixed) };
			for a in class_attr_menu(x) { let mut c = plain_x(x); c.attrs = vec![a.clone()]; check_as(&mut t, &format!("every index item {fixed}; class attribute {}", short(&a)), &c, false, true); }
			for a in field_attr_menu(x) { let mut c = plain_x(x); c.fields = vec![field(x, vec![a.clone()])]; check_as(&mut t, &format!("every index item {fixed}; field attribute {}", short(&a)), &c, false, true); }
			for a in method_attr_menu(x) { let mut c = plain_x(x); c.methods = vec![method(x, vec![a.clone()])]; c.sup = fixed; c.ifaces = vec![fixed, fixed]; check_as(&mut t, &format!("every index item {fixed}; method attribute {}", short(&a)), &c, false, true); }
			for a in code_attr_menu(x) { let mut c = plain_x(x); c.methods = vec![method(x, vec![code(vec![a.clone()])])]; check_as(&mut t, &format!("every index item {fixed}; attribute in Code {}", short(&a)), &c, false, true); }
			for f in frame_menu(x) { let mut c = plain_x(x); c.methods = vec![method(x, vec![code(vec![at(Body::StackMapTable(vec![f.clone()]))])])]; check_as(&mut t, &format!("every index item {fixed}; frame {f:?}"), &c, false, true); }
		}
		// pool entries no well-formed file has (4.4.7: no byte 0 and no byte 0xf0..0xff in a Utf8; 4.4.8: reference_kind 1..9; dangling and self references), one, two or three of them
		let odd = vec![K::Utf8(vec![0]), K::Utf8(vec![0xff, 0xfe, 0xf0]), K::Utf8(vec![0xC0]), K::Utf8(vec![0xED, 0xA0]), K::MHandle(0, 0), K::MHandle(255, 65535), K::Class(0), K::Class(65535), K::Class(B_INT), K::Str(21),
			K::NaT(0, 0), K::Field(65535, 65535), K::Method(B_A, B_A), K::IMethod(0, 1), K::MType(B_CLS), K::Dynamic(65535, 0), K::Indy(0, 0), K::Module(0), K::Package(65535), K::Int(0), K::Float(0xFFFF_FFFF)];
		let pool_of = |t: &mut Tally, extra: Vec<K>| {
			let mut c = pool_case(&X0, Layout { mid: extra.clone(), ..Layout::default() });
			check_as(t, &format!("pool = base ++ {extra:?} ++ names"), &c, false, true);
			c.layout = Layout { back: extra.clone(), ..Layout::default() };
			check_as(t, &format!("pool = base ++ names ++ {extra:?}"), &c, false, true);
		};
		for a in &odd { pool_of(&mut t, vec![a.clone()]); for b in &odd { pool_of(&mut t, vec![a.clone(), b.clone()]); for c in odd.iter().step_by(4) { pool_of(&mut t, vec![a.clone(), b.clone(), c.clone()]); } } }
		// an empty Code array (4.7.3: code_length > 0), a class without this_class, members without name
		let mut c = with_method_attrs(vec![at(Body::Code { max_stack: 0, max_locals: 0, code: vec![], table: vec![], attrs: vec![] })]);
		check_as(&mut t, "method with Code of 0 bytes", &c, false, true);
		(c.this, c.sup) = (0, 65535); c.methods[0].name = 0; c.methods[0].desc = 65535; c.fields = vec![Mem { access: 0xFFFF, name: 0, desc: 0, attrs: vec![] }];
		check_as(&mut t, "this_class 0, super_class 65535, members named by index 0", &c, false, true);
		t.finish();
	}

	/// Bound: see rawcls_group.py
	#[test]
	fn corpus_class_files() {
		let mut t = Tally::new("corpus_class_files");
		let root = std::path::Path::new(env!("CARGO_MANIFEST_DIR"));
		let mut files = vec![];
		for d in [root.join("tests"), root.join("../src/specialized_methods/test")] {
			if let Ok(list) = std::fs::read_dir(&d) { for e in list.flatten() { let p = e.path(); if p.extension().map_or(false, |x| x == "class") { files.push(p); } } }
		}
		files.sort();
		if files.is_empty() { t.fail("the corpus".into(), "harness: no .class file under raw_class_file/tests and src/specialized_methods/test"); }
		for p in files {
			let desc = format!("corpus file {}", p.strip_prefix(root).unwrap_or(&p).display());
			t.at(desc.as_bytes());
			let bytes = match std::fs::read(&p) { Ok(b) => b, Err(e) => { t.fail(desc, &format!("harness: cannot read the file: {e}")); continue; } };
			let walk = match o_walk(&bytes) { Ok(w) => w, Err(e) => { println!("INFO corpus_class_files {desc} is not a well-formed class file for the own walker ({e}): skipped"); continue; } };
			t.case(true);
			let mut bad = vec![];
			match rd(&bytes) {
				Err(e) => bad.push(format!("(1) read of the file gives {e}")),
				Ok((v, left)) => {
					if left != 0 { bad.push(format!("(1) read stops {left} bytes before the end of the file")); }
					if v.constant_pool.len() != walk.pool_entries || v.fields.len() != walk.fields || v.methods.len() != walk.methods || v.attributes.len() != walk.attrs {
						bad.push(format!("(5) read sees {} pool entries, {} fields, {} methods, {} class attributes; the file has {}, {}, {}, {}", v.constant_pool.len(), v.fields.len(), v.methods.len(), v.attributes.len(),
							walk.pool_entries, walk.fields, walk.methods, walk.attrs));
					}
					value_clauses("the value read", &v, Some(&bytes), ["(2)", "(3)", "(4)"], &mut bad);
				},
			}
			if !bad.is_empty() { t.fail(desc, &format!("{} || the file ({} bytes) = {}", bad.join(" || "), bytes.len(), hex(&bytes))); }
		}
		t.finish();
	}

	/// deliberately false: "length() announces one byte more than write writes" (it must fail for every class)
	#[test]
	fn canary_must_fail() {
		let mut t = Tally::new("canary_must_fail");
		for a in class_attr_menu(&X0) {
			let c = with_class_attrs(&[a.clone()]);
			let r = resolve(&c);
			let (bytes, model) = (cls_bytes(&c, &r), cls_value(&c, &r));
			t.case(true);
			if model.length() != bytes.len() + 1 { t.fail(short(&a), "canary"); }
		}
		t.finish();
	}
