	// bounded exhaustive enumeration for the inner-class split/join helpers in duke/src/tree/class.rs
	use java_string::JavaStr;
	fn js(b: &[u8]) -> &JavaStr { JavaStr::from_str(std::str::from_utf8(b).unwrap()) }
	fn o_unqualified(s: &[u8]) -> bool { !s.is_empty() && !s.iter().any(|&c| c == b'.' || c == b';' || c == b'[' || c == b'/') }
	fn o_obj_class(s: &[u8]) -> bool { s.first() != Some(&b'[') && s.split(|&c| c == b'/').all(o_unqualified) }
	/// last-`$` split that refuses empty sides and package crossings
	fn o_split(s: &[u8]) -> Option<(&[u8], &[u8])> {
		let i = s.iter().rposition(|&c| c == b'$')?;
		let (p, n) = (&s[..i], &s[i + 1..]);
		if p.is_empty() || n.is_empty() || p.last() == Some(&b'/') || n.contains(&b'/') { None } else { Some((p, n)) }
	}
	const ALPHA: &[u8] = b"ab$/";

	#[test]
	fn split_matches_spec_and_join_is_inverse() {
		let mut t = Tally::new("split_matches_spec_and_join_is_inverse");
		for_all_strings(ALPHA, 7, &mut |b| { t.at(b);
			if !o_obj_class(b) { return; }
			let name = ObjClassName::try_from(js(b).to_owned());
			let Ok(name) = name else { t.case(false); t.fail(show(b), "valid object class name rejected by ObjClassName::try_from"); return; };
			let got = name.split_inner_class_parent_and_name().map(|(p, n)| (p.as_inner().as_bytes().to_vec(), n.as_inner().as_bytes().to_vec()));
			let want = o_split(b).map(|(p, n)| (p.to_vec(), n.to_vec()));
			t.case(want.is_some());
			if got != want { t.fail(show(b), "split differs from the last-$ rule"); return; }
			if name.get_inner_class_name().map(|x| x.as_inner().as_bytes().to_vec()) != want.as_ref().map(|x| x.1.clone()) { t.fail(show(b), "get_inner_class_name"); }
			if name.get_inner_class_parent().map(|x| x.as_inner().as_bytes().to_vec()) != want.as_ref().map(|x| x.0.clone()) { t.fail(show(b), "get_inner_class_parent"); }
			if let Some((p, n)) = want {
				// both sides are object class names and joining them gives back the original
				if !o_obj_class(&p) || !o_obj_class(&n) { t.fail(show(b), "split produced an invalid class name"); return; }
				let joined = ObjClassName::from_inner_class(ObjClassName::try_from(js(&p).to_owned()).unwrap(), ObjClassName::try_from(js(&n).to_owned()).unwrap().as_slice());
				if joined.as_inner().as_bytes() != b { t.fail(show(b), "join(split(s)) != s"); }
			}
		});
		t.finish();
	}
	#[test]
	fn join_then_split() {
		let mut t = Tally::new("join_then_split");
		let mut names: Vec<Vec<u8>> = Vec::new();
		for_all_strings(ALPHA, 3, &mut |b| if o_obj_class(b) { names.push(b.to_vec()) });
		for p in &names {
			for n in &names {
				let simple = !n.contains(&b'$') && !n.contains(&b'/');
				t.case(simple);
				let joined = ObjClassName::from_inner_class(ObjClassName::try_from(js(p).to_owned()).unwrap(), ObjClassName::try_from(js(n).to_owned()).unwrap().as_slice());
				if !o_obj_class(joined.as_inner().as_bytes()) { t.fail(format!("{}+{}", show(p), show(n)), "join produced an invalid class name"); }
				if simple {
					let got = joined.split_inner_class_parent_and_name().map(|(a, b)| (a.as_inner().as_bytes().to_vec(), b.as_inner().as_bytes().to_vec()));
					if got != Some((p.clone(), n.clone())) { t.fail(format!("{}+{}", show(p), show(n)), "split(join(p, n)) != (p, n)"); }
				}
			}
		}
		t.finish();
	}
	#[test]
	fn canary_must_fail() {
		let mut t = Tally::new("canary_must_fail");
		for_all_strings(ALPHA, 3, &mut |b| { t.at(b); if !o_obj_class(b) { return; } t.case(true);
			if ObjClassName::try_from(js(b).to_owned()).unwrap().split_inner_class_parent_and_name().is_none() { t.fail(show(b), "canary"); } });
		t.finish();
	}
