	// =====================================================================================================================
	// group `indy`: bounded enumeration around BootstrapMethods (appended to duke/src/lib.rs in the scratch copy).
	//
	// invokedynamic, ldc / ldc_w / ldc2_w of CONSTANT_Dynamic, method handles of all nine reference kinds as bootstrap
	// methods and as bootstrap arguments, bootstrap arguments of every loadable kind (nested Dynamic included), several
	// bootstrap methods in one class, pool indices on both sides of 255.
	//
	// Everything the checks compare against is written here from JVMS chapter 4 (4.4.8 - 4.4.10, 4.7.23, 6.5 ldc / ldc_w /
	// ldc2_w / invokedynamic) and shares nothing with duke's reader / writer:
	// (1) a BY-VALUE model of a class (a call site states its bootstrap method as (handle, arguments), as the statement of
	//     C01 / C02 does), (2) a byte-level generator model -> class file with encoding choices (pool layout, layout of the
	//     bootstrap_methods table incl. duplicate and unused entries, padding of the pool, ldc form, attribute order),
	// (3) a strict parser class file -> model + raw bootstrap_methods table, (4) converters duke tree <-> model.
	// =====================================================================================================================
	use std::collections::HashMap;
	use std::io::Cursor;
	use java_string::{JavaStr, JavaString};
	use crate::tree::class::{ClassAccess, ClassName, ObjClassName};
	use crate::tree::field::{FieldDescriptor, FieldName, FieldRef};
	use crate::tree::method::{Method, MethodAccess, MethodDescriptor, MethodName, MethodRef};
	use crate::tree::method::code::{Code, ConstantDynamic, Handle, Instruction, InstructionListEntry, InvokeDynamic, Loadable};
	use crate::tree::version::Version;

	// ---------------------------------------------------------------------------------------------------------------------
	// (1) the model
	// ---------------------------------------------------------------------------------------------------------------------
	/// a method handle (JVMS 4.4.8): kind = reference_kind 1..9; `itf` = the reference is an InterfaceMethodref
	/// (free for kinds 6 and 7, always true for kind 9, always false otherwise)
	#[derive(Debug, Clone, PartialEq, Eq, Hash)]
	struct MH { kind: u8, itf: bool, owner: String, name: String, desc: String }
	/// a loadable constant (JVMS table 4.4-C); floats by their bits
	#[derive(Debug, Clone, PartialEq, Eq, Hash)]
	enum ML { Int(i32), Float(u32), Long(i64), Double(u64), Str(String), Class(String), Handle(MH), MType(String), Dyn(Box<MDyn>) }
	/// a bootstrap method: what one entry of the bootstrap_methods table denotes
	#[derive(Debug, Clone, PartialEq, Eq, Hash)]
	struct MBsm { handle: MH, args: Vec<ML> }
	#[derive(Debug, Clone, PartialEq, Eq, Hash)]
	struct MDyn { name: String, desc: String, bsm: MBsm }
	#[derive(Debug, Clone, PartialEq, Eq, Hash)]
	enum MInsn {
		/// operand-less opcode: nop 0, aconst_null 1, pop 87, pop2 88, return 177
		Op(u8),
		/// ldc / ldc_w / ldc2_w (the form is an encoding choice resp. forced by the category of the constant)
		Ldc(ML),
		Indy { name: String, desc: String, bsm: MBsm },
	}
	#[derive(Debug, Clone, PartialEq)]
	struct MMethod { access: u16, name: String, desc: String, max_stack: u16, max_locals: u16, insns: Vec<MInsn> }
	#[derive(Debug, Clone, PartialEq)]
	struct MClass { minor: u16, major: u16, access: u16, this: String, sup: Option<String>, source_file: Option<String>, unknown: Vec<(String, Vec<u8>)>, methods: Vec<MMethod> }

	fn wide_const(l: &ML) -> bool { match l { ML::Long(_) | ML::Double(_) => true, ML::Dyn(d) => d.desc == "J" || d.desc == "D", _ => false } }
	fn has_nan(l: &ML) -> bool {
		match l {
			ML::Float(b) => f32::from_bits(*b).is_nan(), ML::Double(b) => f64::from_bits(*b).is_nan(),
			ML::Dyn(d) => d.bsm.args.iter().any(has_nan), _ => false,
		}
	}
	fn class_has_nan(m: &MClass) -> bool {
		m.methods.iter().any(|x| x.insns.iter().any(|i| match i { MInsn::Ldc(l) => has_nan(l), MInsn::Indy { bsm, .. } => bsm.args.iter().any(has_nan), _ => false }))
	}
	/// the distinct bootstrap methods of a class, nested ones first, in order of first use
	fn collect_bsm(b: &MBsm, out: &mut Vec<MBsm>) {
		for a in &b.args { if let ML::Dyn(d) = a { collect_bsm(&d.bsm, out); } }
		if !out.contains(b) { out.push(b.clone()); }
	}
	fn collect(m: &MClass) -> Vec<MBsm> {
		let mut out = Vec::new();
		for x in &m.methods { for i in &x.insns { match i {
			MInsn::Ldc(ML::Dyn(d)) => collect_bsm(&d.bsm, &mut out),
			MInsn::Indy { bsm, .. } => collect_bsm(bsm, &mut out),
			_ => {},
		} } }
		out
	}
	fn show_h(h: &MH) -> String { format!("H{}{}({}.{}:{})", h.kind, if h.itf { "i" } else { "" }, h.owner, h.name, if h.desc == BSM_DESC { "<BSM_DESC>" } else { &h.desc }) }
	fn show_l(l: &ML) -> String {
		match l {
			ML::Int(v) => format!("Int {v}"), ML::Float(v) => format!("Float {:#010x}", v), ML::Long(v) => format!("Long {v}"), ML::Double(v) => format!("Double {:#018x}", v),
			ML::Str(s) => format!("Str {s:?}"), ML::Class(c) => format!("Class {c}"), ML::Handle(h) => show_h(h), ML::MType(d) => format!("MType {d}"),
			ML::Dyn(d) => format!("Dyn {}:{} {}", d.name, d.desc, show_b(&d.bsm)),
		}
	}
	fn show_b(b: &MBsm) -> String { format!("bsm<{} [{}]>", show_h(&b.handle), b.args.iter().map(show_l).collect::<Vec<_>>().join(", ")) }
	fn show_class(m: &MClass) -> String {
		let mut s = format!("class {} v{}.{}", m.this, m.major, m.minor);
		for x in &m.methods {
			s += &format!(" | {}{} {{", x.name, x.desc);
			let mut ints = 0usize;
			for i in &x.insns {
				match i {
					MInsn::Op(_) => {},
					MInsn::Ldc(ML::Int(v)) if *v >= 5_000_000 => ints += 1,
					MInsn::Ldc(l) => s += &format!(" ldc {};", show_l(l)),
					MInsn::Indy { name, desc, bsm } => s += &format!(" indy {name}:{desc} {};", show_b(bsm)),
				}
			}
			if ints > 0 { s += &format!(" (+{ints} filler ldc Int)"); }
			s += " }";
		}
		s
	}
	fn diff<T: std::fmt::Debug>(got: &T, want: &T) -> String {
		let (g, w) = (format!("{got:?}"), format!("{want:?}"));
		let p = g.bytes().zip(w.bytes()).take_while(|(a, b)| a == b).count();
		let from = p.saturating_sub(60);
		let cut = |s: &str| -> String { let b = s.as_bytes(); String::from_utf8_lossy(&b[from.min(b.len())..(p + 160).min(b.len())]).into_owned() };
		format!("first difference at char {p}: got ..{}.. expected ..{}..", cut(&g), cut(&w))
	}
	fn hex(b: &[u8]) -> String { b.iter().map(|x| format!("{x:02x}")).collect() }

	// ---------------------------------------------------------------------------------------------------------------------
	// (2) the generator: model -> class file bytes (JVMS 4.1, 4.4, 4.6, 4.7.3, 4.7.10, 4.7.23, 6.5)
	// ---------------------------------------------------------------------------------------------------------------------
	#[derive(Debug, Clone, Copy, PartialEq)]
	struct Enc {
		/// constant pool layout: 0 = order of first use, 1 = reversed, 2 = scattered, with an unused Long at the very front (indices 1-2),
		/// an unused Double in the middle, a duplicate Utf8 and an unused Integer at the end
		pool: u8,
		/// bootstrap_methods table: 0 = one entry per distinct bootstrap method in order of first use (nested first); 1 = the same reversed
		/// (an attribute with zero entries when the class has no bootstrap method); 2 = an unused entry first, then every bootstrap method
		/// TWICE (second copies in reverse order); the uses alternate between the two copies
		tab: u8,
		/// number of unused Integer constants placed in front of the used constants (pushes every index beyond `pad`)
		pad: u16,
		/// true = ldc_w also where ldc would do
		wide: bool,
		/// BootstrapMethods is the first class attribute (else the last)
		first: bool,
	}
	#[derive(Debug, Clone, PartialEq, Eq, Hash)]
	enum K {
		Utf8(String), Int(i32), Float(u32), Long(i64), Double(u64), Class(String), Str(String), Nat(String, String),
		Field(String, String, String), Method(String, String, String), IMethod(String, String, String),
		Handle(u8, Box<K>), MType(String), Dynamic(u16, String, String), Indy(u16, String, String),
	}
	fn two_slots(k: &K) -> bool { matches!(k, K::Long(_) | K::Double(_)) }
	fn deps(k: &K) -> Vec<K> {
		match k {
			K::Class(s) | K::Str(s) | K::MType(s) => vec![K::Utf8(s.clone())],
			K::Nat(n, d) => vec![K::Utf8(n.clone()), K::Utf8(d.clone())],
			K::Field(c, n, d) | K::Method(c, n, d) | K::IMethod(c, n, d) => vec![K::Class(c.clone()), K::Nat(n.clone(), d.clone())],
			K::Handle(_, r) => vec![(**r).clone()],
			K::Dynamic(_, n, d) | K::Indy(_, n, d) => vec![K::Nat(n.clone(), d.clone())],
			_ => vec![],
		}
	}
	fn put_unit(u: u32, o: &mut Vec<u8>) {
		if u != 0 && u < 0x80 { o.push(u as u8); }
		else if u < 0x800 { o.push(0xC0 | (u >> 6) as u8); o.push(0x80 | (u & 0x3f) as u8); }
		else { o.push(0xE0 | (u >> 12) as u8); o.push(0x80 | ((u >> 6) & 0x3f) as u8); o.push(0x80 | (u & 0x3f) as u8); }
	}
	/// JVMS 4.4.7 modified UTF-8
	fn mutf8(s: &str) -> Vec<u8> {
		let mut o = Vec::new();
		for c in s.chars() {
			let c = c as u32;
			if c < 0x10000 { put_unit(c, &mut o); } else { let v = c - 0x10000; put_unit(0xD800 + (v >> 10), &mut o); put_unit(0xDC00 + (v & 0x3ff), &mut o); }
		}
		o
	}
	struct W(Vec<u8>);
	impl W {
		fn u1(&mut self, v: u8) { self.0.push(v); }
		fn u2(&mut self, v: usize) { assert!(v <= 0xffff, "harness: u2 overflow"); self.0.extend_from_slice(&(v as u16).to_be_bytes()); }
		fn u4(&mut self, v: usize) { self.0.extend_from_slice(&(v as u32).to_be_bytes()); }
		fn bytes(&mut self, b: &[u8]) { self.0.extend_from_slice(b); }
	}
	struct Pool { keys: Vec<K>, idx: HashMap<K, u16>, collecting: bool, slots: Vec<K> }
	impl Pool {
		fn new() -> Pool { Pool { keys: Vec::new(), idx: HashMap::new(), collecting: true, slots: Vec::new() } }
		fn get(&mut self, k: K) -> u16 {
			if let Some(&i) = self.idx.get(&k) { return i; }
			assert!(self.collecting, "harness: constant {k:?} was not collected in the first pass");
			let i = self.keys.len() as u16 + 1;
			self.idx.insert(k.clone(), i);
			self.keys.push(k.clone());
			for d in deps(&k) { self.get(d); }
			i
		}
		fn utf8(&mut self, s: &str) -> u16 { self.get(K::Utf8(s.to_owned())) }
		fn class(&mut self, s: &str) -> u16 { self.get(K::Class(s.to_owned())) }
		/// the final pool: `pad` unused Integers, then the collected constants placed according to `layout`
		fn laid_out(&self, layout: u8, pad: u16) -> Pool {
			let mut slots: Vec<K> = self.keys.clone();
			let mut fillers: Vec<(usize, K)> = Vec::new();
			let mut trailing: Vec<K> = Vec::new();
			match layout {
				0 => {},
				1 => slots.reverse(),
				_ => {
					let mut tagged: Vec<(u64, K)> = slots.into_iter().enumerate().map(|(i, k)| ((i as u64 + 1) * 2654435761 % 1000003, k)).collect();
					tagged.sort_by_key(|x| x.0);
					slots = tagged.into_iter().map(|x| x.1).collect();
					let n = slots.len();
					fillers = vec![(0, K::Long(0x1122334455667788)), (n / 2, K::Double(0x400921FB54442D18)), (n / 2, K::Utf8("Code".into()))];
					trailing = vec![K::Int(-1)];
				},
			}
			let mut idx = HashMap::new();
			let mut all = Vec::new();
			let mut next = 1usize;
			for (at, f) in &fillers { if *at == 0 { next += if two_slots(f) { 2 } else { 1 }; all.push(f.clone()); } }
			for i in 0..pad { all.push(K::Int(1_000_000 + i as i32)); next += 1; }
			for (pos, k) in slots.into_iter().enumerate() {
				if pos > 0 { for (at, f) in &fillers { if *at == pos { next += if two_slots(f) { 2 } else { 1 }; all.push(f.clone()); } } }
				idx.insert(k.clone(), next as u16);
				next += if two_slots(&k) { 2 } else { 1 };
				all.push(k);
			}
			for f in trailing { next += 1; all.push(f); }
			assert!(next <= 0xffff);
			Pool { keys: self.keys.clone(), idx, collecting: false, slots: all }
		}
		fn emit(&self, w: &mut W) {
			let count = 1 + self.slots.iter().map(|k| if two_slots(k) { 2 } else { 1 }).sum::<usize>();
			w.u2(count);
			let ix = |k: K| self.idx[&k] as usize;
			for k in &self.slots {
				match k {
					K::Utf8(s) => { let b = mutf8(s); w.u1(1); w.u2(b.len()); w.bytes(&b); },
					K::Int(v) => { w.u1(3); w.bytes(&v.to_be_bytes()); },
					K::Float(v) => { w.u1(4); w.bytes(&v.to_be_bytes()); },
					K::Long(v) => { w.u1(5); w.bytes(&v.to_be_bytes()); },
					K::Double(v) => { w.u1(6); w.bytes(&v.to_be_bytes()); },
					K::Class(s) => { w.u1(7); w.u2(ix(K::Utf8(s.clone()))); },
					K::Str(s) => { w.u1(8); w.u2(ix(K::Utf8(s.clone()))); },
					K::Field(c, n, d) => { w.u1(9); w.u2(ix(K::Class(c.clone()))); w.u2(ix(K::Nat(n.clone(), d.clone()))); },
					K::Method(c, n, d) => { w.u1(10); w.u2(ix(K::Class(c.clone()))); w.u2(ix(K::Nat(n.clone(), d.clone()))); },
					K::IMethod(c, n, d) => { w.u1(11); w.u2(ix(K::Class(c.clone()))); w.u2(ix(K::Nat(n.clone(), d.clone()))); },
					K::Nat(n, d) => { w.u1(12); w.u2(ix(K::Utf8(n.clone()))); w.u2(ix(K::Utf8(d.clone()))); },
					K::Handle(kind, r) => { w.u1(15); w.u1(*kind); w.u2(ix((**r).clone())); },
					K::MType(d) => { w.u1(16); w.u2(ix(K::Utf8(d.clone()))); },
					K::Dynamic(b, n, d) => { w.u1(17); w.u2(*b as usize); w.u2(ix(K::Nat(n.clone(), d.clone()))); },
					K::Indy(b, n, d) => { w.u1(18); w.u2(*b as usize); w.u2(ix(K::Nat(n.clone(), d.clone()))); },
				}
			}
		}
	}
	/// JVMS 4.4.8: kinds 1-4 Fieldref; 5, 8 Methodref; 6, 7 Methodref or InterfaceMethodref; 9 InterfaceMethodref
	fn handle_key(h: &MH) -> K {
		let (c, n, d) = (h.owner.clone(), h.name.clone(), h.desc.clone());
		let r = match h.kind {
			1..=4 => { assert!(!h.itf); K::Field(c, n, d) },
			5 | 8 => { assert!(!h.itf); K::Method(c, n, d) },
			6 | 7 => if h.itf { K::IMethod(c, n, d) } else { K::Method(c, n, d) },
			9 => { assert!(h.itf); K::IMethod(c, n, d) },
			k => panic!("harness: handle kind {k}"),
		};
		K::Handle(h.kind, Box::new(r))
	}
	/// the unused entry of table layout 2
	fn unused_bsm() -> MBsm { MBsm { handle: MH { kind: 5, itf: false, owner: "p/U".into(), name: "u".into(), desc: "()V".into() }, args: vec![ML::Long(99), ML::Class("p/U".into())] } }
	/// state of one generation pass: the distinct bootstrap methods and how often each was referred to so far
	struct Gen { enc: Enc, logical: Vec<MBsm>, uses: Vec<usize> }
	impl Gen {
		fn new(m: &MClass, enc: Enc) -> Gen { let logical = collect(m); let n = logical.len(); Gen { enc, logical, uses: vec![0; n] } }
		/// the index in the bootstrap_methods table a reference to `b` uses
		fn bsm_index(&mut self, b: &MBsm) -> u16 {
			let n = self.logical.len();
			let l = self.logical.iter().position(|x| x == b).expect("harness: bootstrap method not collected");
			let u = self.uses[l]; self.uses[l] += 1;
			(match self.enc.tab { 0 => l, 1 => n - 1 - l, _ => if u % 2 == 0 { 1 + l } else { 1 + n + (n - 1 - l) } }) as u16
		}
		fn key(&mut self, l: &ML) -> K {
			match l {
				ML::Int(v) => K::Int(*v), ML::Float(v) => K::Float(*v), ML::Long(v) => K::Long(*v), ML::Double(v) => K::Double(*v),
				ML::Str(s) => K::Str(s.clone()), ML::Class(c) => K::Class(c.clone()), ML::Handle(h) => handle_key(h), ML::MType(d) => K::MType(d.clone()),
				ML::Dyn(d) => { let i = self.bsm_index(&d.bsm); K::Dynamic(i, d.name.clone(), d.desc.clone()) },
			}
		}
		/// the entries of the table in file order
		fn table(&self) -> Vec<MBsm> {
			let l = &self.logical;
			match self.enc.tab {
				0 => l.clone(),
				1 => l.iter().rev().cloned().collect(),
				_ => { let mut v = vec![unused_bsm()]; v.extend(l.iter().cloned()); v.extend(l.iter().rev().cloned()); v },
			}
		}
		fn has_attribute(&self) -> bool { !self.logical.is_empty() || self.enc.tab != 0 }
	}
	fn gen_code(g: &mut Gen, p: &mut Pool, x: &MMethod) -> Vec<u8> {
		let mut code = W(Vec::new());
		for i in &x.insns {
			match i {
				MInsn::Op(op) => code.u1(*op),
				MInsn::Ldc(l) => {
					let k = g.key(l);
					let i = p.get(k) as usize;
					if wide_const(l) { code.u1(20); code.u2(i); }
					else if g.enc.wide || i > 255 { code.u1(19); code.u2(i); }
					else { code.u1(18); code.u1(i as u8); }
				},
				MInsn::Indy { name, desc, bsm } => { let b = g.bsm_index(bsm); let i = p.get(K::Indy(b, name.clone(), desc.clone())) as usize; code.u1(186); code.u2(i); code.u1(0); code.u1(0); },
			}
		}
		assert!(!code.0.is_empty() && code.0.len() < 65536, "harness: code length");
		let mut w = W(Vec::new());
		w.u2(x.max_stack as usize); w.u2(x.max_locals as usize); w.u4(code.0.len()); w.bytes(&code.0);
		w.u2(0); // exception_table_length
		w.u2(0); // attributes_count
		w.0
	}
	fn gen_body(m: &MClass, e: Enc, p: &mut Pool) -> Vec<u8> {
		let mut g = Gen::new(m, e);
		let mut w = W(Vec::new());
		w.u2(m.access as usize); w.u2(p.class(&m.this) as usize); w.u2(match &m.sup { Some(s) => p.class(s) as usize, None => 0 });
		w.u2(0); // interfaces
		w.u2(0); // fields
		w.u2(m.methods.len());
		for x in &m.methods {
			w.u2(x.access as usize); w.u2(p.utf8(&x.name) as usize); w.u2(p.utf8(&x.desc) as usize);
			w.u2(1);
			let b = gen_code(&mut g, p, x);
			w.u2(p.utf8("Code") as usize); w.u4(b.len()); w.bytes(&b);
		}
		let mut attrs: Vec<(String, Vec<u8>)> = Vec::new();
		if let Some(s) = &m.source_file { attrs.push(("SourceFile".into(), p.utf8(s).to_be_bytes().to_vec())); }
		for (n, b) in &m.unknown { attrs.push((n.clone(), b.clone())); }
		if g.has_attribute() {
			// JVMS 4.7.23
			let table = g.table();
			let mut b = W(Vec::new());
			b.u2(table.len());
			for entry in &table {
				b.u2(p.get(handle_key(&entry.handle)) as usize);
				b.u2(entry.args.len());
				for a in &entry.args { let k = g.key(a); b.u2(p.get(k) as usize); }
			}
			if e.first { attrs.insert(0, ("BootstrapMethods".into(), b.0)); } else { attrs.push(("BootstrapMethods".into(), b.0)); }
		}
		w.u2(attrs.len());
		for (n, b) in attrs { w.u2(p.utf8(&n) as usize); w.u4(b.len()); w.bytes(&b); }
		w.0
	}
	fn gen_class(m: &MClass, e: Enc) -> Vec<u8> {
		let mut p = Pool::new();
		let _ = gen_body(m, e, &mut p);
		let mut p2 = p.laid_out(e.pool, e.pad);
		let body = gen_body(m, e, &mut p2);
		let mut w = W(Vec::new());
		w.u4(0xCAFEBABE); w.u2(m.minor as usize); w.u2(m.major as usize);
		p2.emit(&mut w);
		w.bytes(&body);
		w.0
	}

	// ---------------------------------------------------------------------------------------------------------------------
	// (3) the independent strict parser: class file bytes -> model + the raw bootstrap_methods table
	// ---------------------------------------------------------------------------------------------------------------------
	struct R<'a> { b: &'a [u8], p: usize }
	impl<'a> R<'a> {
		fn new(b: &'a [u8]) -> R<'a> { R { b, p: 0 } }
		fn take(&mut self, n: usize) -> Result<&'a [u8], String> {
			if self.b.len() - self.p < n { return Err(format!("truncated: need {n} bytes at {}", self.p)); }
			let s = &self.b[self.p..self.p + n]; self.p += n; Ok(s)
		}
		fn u1(&mut self) -> Result<u8, String> { Ok(self.take(1)?[0]) }
		fn u2(&mut self) -> Result<u16, String> { let s = self.take(2)?; Ok(u16::from_be_bytes([s[0], s[1]])) }
		fn u4(&mut self) -> Result<u32, String> { let s = self.take(4)?; Ok(u32::from_be_bytes([s[0], s[1], s[2], s[3]])) }
		fn end(&self, what: &str) -> Result<(), String> { if self.p == self.b.len() { Ok(()) } else { Err(format!("{what}: {} surplus bytes (length field not exact)", self.b.len() - self.p)) } }
	}
	fn un_mutf8(b: &[u8]) -> Result<String, String> {
		let mut units: Vec<u16> = Vec::new();
		let mut i = 0;
		let cont = |i: usize| -> Result<u16, String> { match b.get(i) { Some(x) if x & 0xC0 == 0x80 => Ok((x & 0x3f) as u16), _ => Err("bad continuation byte in Utf8 constant".to_owned()) } };
		while i < b.len() {
			let x = b[i];
			if x == 0 || x >= 0xf0 { return Err(format!("byte {x:#x} not allowed in a Utf8 constant (JVMS 4.4.7)")); }
			if x < 0x80 { units.push(x as u16); i += 1; }
			else if x & 0xE0 == 0xC0 { units.push(((x & 0x1f) as u16) << 6 | cont(i + 1)?); i += 2; }
			else if x & 0xF0 == 0xE0 { units.push(((x & 0x0f) as u16) << 12 | cont(i + 1)? << 6 | cont(i + 2)?); i += 3; }
			else { return Err("bad lead byte in Utf8 constant".to_owned()); }
		}
		String::from_utf16(&units).map_err(|_| "unpaired surrogate in Utf8 constant".to_owned())
	}
	#[derive(Debug, Clone)]
	enum PE { Utf8(String), Int(i32), Float(u32), Long(i64), Double(u64), Class(u16), Str(u16), Field(u16, u16), Method(u16, u16), IMethod(u16, u16), Nat(u16, u16),
		Handle(u8, u16), MType(u16), Dynamic(u16, u16), Indy(u16, u16) }
	struct PPool(Vec<Option<PE>>);
	impl PPool {
		fn read(r: &mut R, major: u16) -> Result<PPool, String> {
			let count = r.u2()? as usize;
			if count == 0 { return Err("constant_pool_count is 0".into()); }
			let mut v: Vec<Option<PE>> = vec![None];
			while v.len() < count {
				let tag = r.u1()?;
				let e = match tag {
					1 => { let n = r.u2()? as usize; PE::Utf8(un_mutf8(r.take(n)?)?) },
					3 => PE::Int(r.u4()? as i32),
					4 => PE::Float(r.u4()?),
					5 => { let s = r.take(8)?; PE::Long(i64::from_be_bytes(s.try_into().unwrap())) },
					6 => { let s = r.take(8)?; PE::Double(u64::from_be_bytes(s.try_into().unwrap())) },
					7 => PE::Class(r.u2()?),
					8 => PE::Str(r.u2()?),
					9 => PE::Field(r.u2()?, r.u2()?),
					10 => PE::Method(r.u2()?, r.u2()?),
					11 => PE::IMethod(r.u2()?, r.u2()?),
					12 => PE::Nat(r.u2()?, r.u2()?),
					15 => PE::Handle(r.u1()?, r.u2()?),
					16 => PE::MType(r.u2()?),
					17 => PE::Dynamic(r.u2()?, r.u2()?),
					18 => PE::Indy(r.u2()?, r.u2()?),
					t => return Err(format!("constant pool tag {t} at index {} is invalid or outside this model", v.len())),
				};
				let two = matches!(e, PE::Long(_) | PE::Double(_));
				v.push(Some(e));
				if two { v.push(None); }
			}
			if v.len() != count { return Err("a Long/Double constant occupies the last index and one beyond constant_pool_count".into()); }
			let p = PPool(v);
			// every entry must be valid on its own, used or not (the bootstrap index of Dynamic / InvokeDynamic is checked once the table is known)
			for i in 1..p.0.len() {
				let i16_ = i as u16;
				match &p.0[i] {
					Some(PE::Class(n)) | Some(PE::Str(n)) => { p.utf8(*n)?; },
					Some(PE::Nat(a, b)) => { p.utf8(*a)?; p.utf8(*b)?; },
					Some(PE::Field(c, n)) => { p.class(*c)?; let (_, d) = p.nat(*n)?; if d.starts_with('(') { return Err(format!("Fieldref {i}: descriptor {d} is a method descriptor")); } },
					Some(PE::Method(c, n)) | Some(PE::IMethod(c, n)) => { p.class(*c)?; let (_, d) = p.nat(*n)?; if !d.starts_with('(') { return Err(format!("(Interface)Methodref {i}: descriptor {d} is no method descriptor")); } },
					Some(PE::Handle(..)) => { p.handle(i16_, major)?; },
					Some(PE::MType(d)) => { let d = p.utf8(*d)?; if !d.starts_with('(') { return Err(format!("MethodType {i}: {d} is no method descriptor")); } },
					Some(PE::Dynamic(_, n)) => { let (_, d) = p.nat(*n)?; if d.starts_with('(') || d.is_empty() { return Err(format!("Dynamic {i}: {d} is no field descriptor")); } if major < 55 { return Err("Dynamic constant in a class file older than 55.0".into()); } },
					Some(PE::Indy(_, n)) => { let (_, d) = p.nat(*n)?; if !d.starts_with('(') { return Err(format!("InvokeDynamic {i}: {d} is no method descriptor")); } if major < 51 { return Err("InvokeDynamic constant in a class file older than 51.0".into()); } },
					_ => {},
				}
			}
			Ok(p)
		}
		fn get(&self, i: u16) -> Result<&PE, String> { match self.0.get(i as usize) { Some(Some(e)) => Ok(e), _ => Err(format!("constant pool index {i} out of range or second half of a Long/Double")) } }
		fn utf8(&self, i: u16) -> Result<String, String> { match self.get(i)? { PE::Utf8(s) => Ok(s.clone()), e => Err(format!("constant {i} should be Utf8, is {e:?}")) } }
		fn class(&self, i: u16) -> Result<String, String> { match self.get(i)? { PE::Class(n) => self.utf8(*n), e => Err(format!("constant {i} should be Class, is {e:?}")) } }
		fn nat(&self, i: u16) -> Result<(String, String), String> { match self.get(i)? { PE::Nat(a, b) => Ok((self.utf8(*a)?, self.utf8(*b)?)), e => Err(format!("constant {i} should be NameAndType, is {e:?}")) } }
		/// JVMS 4.4.8
		fn handle(&self, i: u16, major: u16) -> Result<MH, String> {
			let PE::Handle(kind, r) = self.get(i)? else { return Err(format!("constant {i} should be MethodHandle, is {:?}", self.get(i)?)); };
			let (kind, r) = (*kind, *r);
			let (tag, c, n) = match self.get(r)? { PE::Field(c, n) => (9, *c, *n), PE::Method(c, n) => (10, *c, *n), PE::IMethod(c, n) => (11, *c, *n), e => return Err(format!("MethodHandle {i}: reference_index {r} is {e:?}")) };
			let ok = match kind { 1..=4 => tag == 9, 5 | 8 => tag == 10, 6 | 7 => tag == 10 || (tag == 11 && major >= 52), 9 => tag == 11, _ => return Err(format!("MethodHandle {i}: reference_kind {kind} is not in 1..9")) };
			if !ok { return Err(format!("MethodHandle {i}: reference_kind {kind} must not refer to a constant with tag {tag} (JVMS 4.4.8)")); }
			if major < 51 { return Err("MethodHandle constant in a class file older than 51.0".into()); }
			let (owner, (name, desc)) = (self.class(c)?, self.nat(n)?);
			match kind {
				5 | 6 | 7 | 9 => if name == "<init>" || name == "<clinit>" { return Err(format!("MethodHandle {i}: kind {kind} must not name {name}")); },
				8 => if name != "<init>" { return Err(format!("MethodHandle {i}: kind 8 must name <init>, names {name}")); },
				_ => {},
			}
			Ok(MH { kind, itf: tag == 11, owner, name, desc })
		}
	}
	/// the bootstrap_methods table as stored: (bootstrap_method_ref, bootstrap_arguments)
	type RawTable = Vec<(u16, Vec<u16>)>;
	struct Resolver<'a> { pool: &'a PPool, table: &'a Option<RawTable>, major: u16 }
	impl Resolver<'_> {
		fn bsm(&self, idx: u16, depth: usize) -> Result<MBsm, String> {
			let Some(t) = self.table else { return Err("a Dynamic / InvokeDynamic constant but no BootstrapMethods attribute (JVMS 4.7.23)".into()); };
			let Some((h, args)) = t.get(idx as usize) else { return Err(format!("bootstrap_method_attr_index {idx} is not below num_bootstrap_methods {}", t.len())); };
			Ok(MBsm { handle: self.pool.handle(*h, self.major)?, args: args.iter().map(|a| self.loadable(*a, depth + 1)).collect::<Result<_, _>>()? })
		}
		/// JVMS table 4.4-C
		fn loadable(&self, i: u16, depth: usize) -> Result<ML, String> {
			if depth > 16 { return Err("Dynamic constants nested deeper than 16 (cycle?)".into()); }
			Ok(match self.pool.get(i)? {
				PE::Int(v) => ML::Int(*v), PE::Float(v) => ML::Float(*v), PE::Long(v) => ML::Long(*v), PE::Double(v) => ML::Double(*v),
				PE::Str(s) => ML::Str(self.pool.utf8(*s)?), PE::Class(c) => ML::Class(self.pool.utf8(*c)?),
				PE::Handle(..) => ML::Handle(self.pool.handle(i, self.major)?), PE::MType(d) => ML::MType(self.pool.utf8(*d)?),
				PE::Dynamic(b, n) => { let (name, desc) = self.pool.nat(*n)?; ML::Dyn(Box::new(MDyn { name, desc, bsm: self.bsm(*b, depth)? })) },
				e => return Err(format!("constant {i} is not loadable: {e:?}")),
			})
		}
	}
	/// attribute names duke knows but this model does not contain
	const NOT_IN_MODEL: &[&str] = &["Code", "ConstantValue", "Exceptions", "InnerClasses", "EnclosingMethod", "Synthetic", "Signature", "Deprecated", "NestHost", "NestMembers", "PermittedSubclasses", "Record",
		"Module", "ModulePackages", "ModuleMainClass", "SourceDebugExtension", "RuntimeVisibleAnnotations", "RuntimeInvisibleAnnotations", "RuntimeVisibleTypeAnnotations", "RuntimeInvisibleTypeAnnotations",
		"RuntimeVisibleParameterAnnotations", "RuntimeInvisibleParameterAnnotations", "AnnotationDefault", "StackMap", "StackMapTable", "LineNumberTable", "LocalVariableTable", "LocalVariableTypeTable", "MethodParameters"];
	/// `forms` = the opcodes of the ldc / ldc_w / ldc2_w instructions in file order
	struct Parsed { class: MClass, raw: Option<RawTable>, table: Vec<MBsm>, handles: Vec<MH>, forms: Vec<u8> }
	fn parse_class(bytes: &[u8]) -> Result<Parsed, String> {
		let mut r = R::new(bytes);
		if r.u4()? != 0xCAFEBABE { return Err("bad magic".into()); }
		let (minor, major) = (r.u2()?, r.u2()?);
		let pool = PPool::read(&mut r, major)?;
		let access = r.u2()?;
		let this = pool.class(r.u2()?)?;
		let sup = match r.u2()? { 0 => None, i => Some(pool.class(i)?) };
		if r.u2()? != 0 { return Err("interfaces (not in the model)".into()); }
		if r.u2()? != 0 { return Err("fields (not in the model)".into()); }
		// methods: raw code first, constants are resolved once the table is known
		let mut raw_methods: Vec<(u16, String, String, u16, u16, &[u8])> = Vec::new();
		for _ in 0..r.u2()? {
			let (acc, name, desc) = (r.u2()?, pool.utf8(r.u2()?)?, pool.utf8(r.u2()?)?);
			if !desc.starts_with('(') { return Err(format!("method {name}: {desc} is no method descriptor")); }
			if r.u2()? != 1 { return Err(format!("method {name}: exactly one attribute (Code) expected in this model")); }
			let an = pool.utf8(r.u2()?)?;
			if an != "Code" { return Err(format!("method {name}: attribute {an} is not in the model")); }
			let len = r.u4()? as usize;
			let mut c = R::new(r.take(len)?);
			let (max_stack, max_locals) = (c.u2()?, c.u2()?);
			let cl = c.u4()? as usize;
			if cl == 0 || cl >= 65536 { return Err(format!("method {name}: code_length {cl} (JVMS 4.7.3: 1..65535)")); }
			let code = c.take(cl)?;
			if c.u2()? != 0 { return Err(format!("method {name}: exception table (not in the model)")); }
			if c.u2()? != 0 { return Err(format!("method {name}: attributes of Code (not in the model)")); }
			c.end("Code attribute")?;
			raw_methods.push((acc, name, desc, max_stack, max_locals, code));
		}
		let mut raw: Option<RawTable> = None;
		let mut source_file = None;
		let mut unknown = Vec::new();
		for _ in 0..r.u2()? {
			let name = pool.utf8(r.u2()?)?;
			let len = r.u4()? as usize;
			let body = r.take(len)?;
			match name.as_str() {
				"BootstrapMethods" => {
					if raw.is_some() { return Err("two BootstrapMethods attributes (JVMS 4.7.23: at most one)".into()); }
					let mut b = R::new(body);
					let mut t = Vec::new();
					for k in 0..b.u2()? {
						let h = b.u2()?;
						if !matches!(pool.get(h)?, PE::Handle(..)) { return Err(format!("bootstrap_methods[{k}].bootstrap_method_ref {h} is {:?}, not a MethodHandle", pool.get(h)?)); }
						let mut args = Vec::new();
						for j in 0..b.u2()? {
							let a = b.u2()?;
							if !matches!(pool.get(a)?, PE::Int(_) | PE::Float(_) | PE::Long(_) | PE::Double(_) | PE::Class(_) | PE::Str(_) | PE::Handle(..) | PE::MType(_) | PE::Dynamic(..)) {
								return Err(format!("bootstrap_methods[{k}].bootstrap_arguments[{j}] = {a} is {:?}, not loadable", pool.get(a)?));
							}
							args.push(a);
						}
						t.push((h, args));
					}
					b.end("BootstrapMethods attribute")?;
					raw = Some(t);
				},
				"SourceFile" => {
					if source_file.is_some() { return Err("two SourceFile attributes".into()); }
					let mut b = R::new(body); source_file = Some(pool.utf8(b.u2()?)?); b.end("SourceFile attribute")?;
				},
				n if NOT_IN_MODEL.contains(&n) => return Err(format!("class attribute {n} is not in the model (invented?)")),
				_ => unknown.push((name, body.to_vec())),
			}
		}
		r.end("class file")?;
		let res = Resolver { pool: &pool, table: &raw, major };
		// every Dynamic / InvokeDynamic constant, used or not: index below the count, nothing nested without end
		let mut any_dynamic = false;
		for i in 1..pool.0.len() {
			match &pool.0[i] {
				Some(PE::Dynamic(..)) => { any_dynamic = true; res.loadable(i as u16, 0).map_err(|e| format!("Dynamic constant {i}: {e}"))?; },
				Some(PE::Indy(b, _)) => { any_dynamic = true; res.bsm(*b, 0).map_err(|e| format!("InvokeDynamic constant {i}: {e}"))?; },
				_ => {},
			}
		}
		if any_dynamic && raw.is_none() { return Err("Dynamic / InvokeDynamic constants but no BootstrapMethods attribute".into()); }
		let mut table = Vec::new();
		let mut handles = Vec::new();
		if let Some(t) = &raw { for k in 0..t.len() { let b = res.bsm(k as u16, 0).map_err(|e| format!("bootstrap_methods[{k}]: {e}"))?; handles.push(b.handle.clone()); table.push(b); } }
		let mut forms = Vec::new();
		let mut methods = Vec::new();
		for (access, name, desc, max_stack, max_locals, code) in raw_methods {
			let mut c = R::new(code);
			let mut insns = Vec::new();
			while c.p < code.len() {
				let at = c.p;
				let op = c.u1()?;
				insns.push(match op {
					0 | 1 | 87 | 88 | 177 => MInsn::Op(op),
					18 | 19 | 20 => {
						let i = if op == 18 { c.u1()? as u16 } else { c.u2()? };
						let l = res.loadable(i, 0).map_err(|e| format!("method {name} offset {at}: {e}"))?;
						// JVMS 6.5: ldc / ldc_w take category 1 constants, ldc2_w takes Long, Double and Dynamic constants of type J / D
						if (op == 20) != wide_const(&l) { return Err(format!("method {name} offset {at}: opcode {op} with the constant {} (wrong category, JVMS 6.5)", show_l(&l))); }
						forms.push(op);
						MInsn::Ldc(l)
					},
					186 => {
						let i = c.u2()?;
						let PE::Indy(b, n) = pool.get(i)? else { return Err(format!("method {name} offset {at}: invokedynamic refers to constant {i} = {:?}", pool.get(i)?)); };
						if c.u1()? != 0 || c.u1()? != 0 { return Err(format!("method {name} offset {at}: invokedynamic without two zero bytes")); }
						let (n2, d2) = pool.nat(*n)?;
						MInsn::Indy { name: n2, desc: d2, bsm: res.bsm(*b, 0)? }
					},
					_ => return Err(format!("method {name} offset {at}: opcode {op} is not in the model")),
				});
			}
			methods.push(MMethod { access, name, desc, max_stack, max_locals, insns });
		}
		Ok(Parsed { class: MClass { minor, major, access, this, sup, source_file, unknown, methods }, raw, table, handles, forms })
	}

	// ---------------------------------------------------------------------------------------------------------------------
	// (4) duke tree <-> model
	// ---------------------------------------------------------------------------------------------------------------------
	fn js(s: &JavaStr) -> Result<String, String> { s.as_str().map(|x| x.to_owned()).map_err(|_| format!("string {s:?} is not UTF-8")) }
	fn bits(v: &[(bool, u16)]) -> u16 { v.iter().map(|&(b, m)| if b { m } else { 0 }).fold(0, |a, b| a | b) }
	fn class_access_bits(a: &ClassAccess) -> u16 {
		bits(&[(a.is_public, 0x0001), (a.is_final, 0x0010), (a.is_super, 0x0020), (a.is_interface, 0x0200), (a.is_abstract, 0x0400), (a.is_synthetic, 0x1000), (a.is_annotation, 0x2000), (a.is_enum, 0x4000), (a.is_module, 0x8000)])
	}
	fn method_access_bits(a: &MethodAccess) -> u16 {
		bits(&[(a.is_public, 0x0001), (a.is_private, 0x0002), (a.is_protected, 0x0004), (a.is_static, 0x0008), (a.is_final, 0x0010), (a.is_synchronized, 0x0020), (a.is_bridge, 0x0040), (a.is_varargs, 0x0080),
			(a.is_native, 0x0100), (a.is_abstract, 0x0400), (a.is_strict, 0x0800), (a.is_synthetic, 0x1000)])
	}
	fn c_field_ref(kind: u8, f: &FieldRef) -> Result<MH, String> { Ok(MH { kind, itf: false, owner: js(f.class.as_inner())?, name: js(f.name.as_inner())?, desc: js(f.desc.as_inner())? }) }
	fn c_method_ref(kind: u8, itf: bool, m: &MethodRef) -> Result<MH, String> { Ok(MH { kind, itf, owner: js(m.class.as_inner())?, name: js(m.name.as_inner())?, desc: js(m.desc.as_inner())? }) }
	/// duke names its handle variants after the JVMS names REF_getField (1) .. REF_invokeInterface (9)
	fn c_handle(h: &Handle) -> Result<MH, String> {
		match h {
			Handle::GetField(f) => c_field_ref(1, f), Handle::GetStatic(f) => c_field_ref(2, f), Handle::PutField(f) => c_field_ref(3, f), Handle::PutStatic(f) => c_field_ref(4, f),
			Handle::InvokeVirtual(m) => c_method_ref(5, false, m), Handle::InvokeStatic(m, itf) => c_method_ref(6, *itf, m), Handle::InvokeSpecial(m, itf) => c_method_ref(7, *itf, m),
			Handle::NewInvokeSpecial(m) => c_method_ref(8, false, m), Handle::InvokeInterface(m) => c_method_ref(9, true, m),
		}
	}
	fn c_loadable(l: &Loadable) -> Result<ML, String> {
		Ok(match l {
			Loadable::Integer(v) => ML::Int(*v), Loadable::Float(v) => ML::Float(v.to_bits()), Loadable::Long(v) => ML::Long(*v), Loadable::Double(v) => ML::Double(v.to_bits()),
			Loadable::Class(c) => ML::Class(js(c.as_inner())?), Loadable::String(s) => ML::Str(js(s)?), Loadable::MethodHandle(h) => ML::Handle(c_handle(h)?), Loadable::MethodType(d) => ML::MType(js(d.as_inner())?),
			Loadable::Dynamic(d) => ML::Dyn(Box::new(MDyn { name: js(d.name.as_inner())?, desc: js(d.descriptor.as_inner())?, bsm: c_bsm(&d.handle, &d.arguments)? })),
		})
	}
	fn c_bsm(h: &Handle, args: &[Loadable]) -> Result<MBsm, String> { Ok(MBsm { handle: c_handle(h)?, args: args.iter().map(c_loadable).collect::<Result<_, _>>()? }) }
	fn c_class(c: &ClassFile) -> Result<MClass, String> {
		if !c.interfaces.is_empty() || !c.fields.is_empty() || c.has_deprecated_attribute || c.has_synthetic_attribute || c.inner_classes.is_some() || c.enclosing_method.is_some() || c.signature.is_some()
			|| c.source_debug_extension.is_some() || !c.runtime_visible_annotations.is_empty() || !c.runtime_invisible_annotations.is_empty() || !c.runtime_visible_type_annotations.is_empty()
			|| !c.runtime_invisible_type_annotations.is_empty() || c.module.is_some() || c.module_packages.is_some() || c.module_main_class.is_some() || c.nest_host_class.is_some() || c.nest_members.is_some()
			|| c.permitted_subclasses.is_some() || !c.record_components.is_empty() {
			return Err("the tree holds class-level data no file of this model states".into());
		}
		let mut methods = Vec::new();
		for m in &c.methods {
			let name = js(m.name.as_inner())?;
			if m.has_deprecated_attribute || m.has_synthetic_attribute || m.exceptions.is_some() || m.signature.is_some() || !m.runtime_visible_annotations.is_empty() || !m.runtime_invisible_annotations.is_empty()
				|| !m.runtime_visible_type_annotations.is_empty() || !m.runtime_invisible_type_annotations.is_empty() || m.annotation_default.is_some() || m.method_parameters.is_some() || !m.attributes.is_empty() {
				return Err(format!("method {name} holds data no file of this model states"));
			}
			let Some(code) = &m.code else { return Err(format!("method {name} has no code")); };
			let (Some(max_stack), Some(max_locals)) = (code.max_stack, code.max_locals) else { return Err(format!("method {name}: max_stack / max_locals missing")); };
			if !code.exception_table.is_empty() || code.line_numbers.as_ref().is_some_and(|v| !v.is_empty()) || code.local_variables.as_ref().is_some_and(|v| !v.is_empty())
				|| !code.runtime_visible_type_annotations.is_empty() || !code.runtime_invisible_type_annotations.is_empty() || !code.attributes.is_empty() {
				return Err(format!("method {name}: the code holds data no file of this model states"));
			}
			let mut insns = Vec::new();
			for (k, e) in code.instructions.iter().enumerate() {
				if e.frame.is_some() { return Err(format!("method {name} instruction {k}: a stack map frame")); }
				insns.push(match &e.instruction {
					Instruction::Nop => MInsn::Op(0), Instruction::AConstNull => MInsn::Op(1), Instruction::Pop => MInsn::Op(87), Instruction::Pop2 => MInsn::Op(88), Instruction::Return => MInsn::Op(177),
					Instruction::Ldc(l) => MInsn::Ldc(c_loadable(l)?),
					Instruction::InvokeDynamic(d) => MInsn::Indy { name: js(d.name.as_inner())?, desc: js(d.descriptor.as_inner())?, bsm: c_bsm(&d.handle, &d.arguments)? },
					other => return Err(format!("method {name} instruction {k}: {other:?} is outside the model")),
				});
			}
			methods.push(MMethod { access: method_access_bits(&m.access), name, desc: js(m.descriptor.as_inner())?, max_stack, max_locals, insns });
		}
		Ok(MClass {
			minor: c.version.minor, major: c.version.major, access: class_access_bits(&c.access), this: js(c.name.as_inner())?,
			sup: match &c.super_class { Some(s) => Some(js(s.as_inner())?), None => None },
			source_file: match &c.source_file { Some(s) => Some(js(s)?), None => None },
			unknown: c.attributes.iter().map(|a| Ok((js(&a.name)?, a.bytes.clone()))).collect::<Result<_, String>>()?,
			methods,
		})
	}
	/// a name type of duke from a string, through its public TryFrom<JavaString>
	fn nm<T: TryFrom<JavaString>>(s: &str) -> T where T::Error: std::fmt::Debug { T::try_from(JavaString::from(s)).expect("harness: duke refuses a name of the model") }
	fn t_field_ref(h: &MH) -> FieldRef { FieldRef { class: nm::<ObjClassName>(&h.owner), name: nm::<FieldName>(&h.name), desc: nm::<FieldDescriptor>(&h.desc) } }
	fn t_method_ref(h: &MH) -> MethodRef { MethodRef { class: nm::<ClassName>(&h.owner), name: nm::<MethodName>(&h.name), desc: nm::<MethodDescriptor>(&h.desc) } }
	fn t_handle(h: &MH) -> Handle {
		match h.kind {
			1 => Handle::GetField(t_field_ref(h)), 2 => Handle::GetStatic(t_field_ref(h)), 3 => Handle::PutField(t_field_ref(h)), 4 => Handle::PutStatic(t_field_ref(h)),
			5 => Handle::InvokeVirtual(t_method_ref(h)), 6 => Handle::InvokeStatic(t_method_ref(h), h.itf), 7 => Handle::InvokeSpecial(t_method_ref(h), h.itf),
			8 => Handle::NewInvokeSpecial(t_method_ref(h)), 9 => Handle::InvokeInterface(t_method_ref(h)), k => panic!("harness: handle kind {k}"),
		}
	}
	fn t_loadable(l: &ML) -> Loadable {
		match l {
			ML::Int(v) => Loadable::Integer(*v), ML::Float(v) => Loadable::Float(f32::from_bits(*v)), ML::Long(v) => Loadable::Long(*v), ML::Double(v) => Loadable::Double(f64::from_bits(*v)),
			ML::Str(s) => Loadable::String(JavaString::from(s.as_str())), ML::Class(c) => Loadable::Class(nm::<ClassName>(c)), ML::Handle(h) => Loadable::MethodHandle(t_handle(h)), ML::MType(d) => Loadable::MethodType(nm::<MethodDescriptor>(d)),
			ML::Dyn(d) => Loadable::Dynamic(ConstantDynamic { name: nm::<FieldName>(&d.name), descriptor: nm::<FieldDescriptor>(&d.desc), handle: t_handle(&d.bsm.handle), arguments: d.bsm.args.iter().map(t_loadable).collect() }),
		}
	}
	/// the tree of a model, built through the public tree types only (no reader involved)
	fn t_class(m: &MClass) -> ClassFile {
		let mut c = ClassFile::new(Version::new(m.major, m.minor), ClassAccess::from(m.access), nm::<ObjClassName>(&m.this), m.sup.as_ref().map(|s| nm::<ObjClassName>(s)), Vec::new());
		c.source_file = m.source_file.as_ref().map(|s| JavaString::from(s.as_str()));
		for (n, b) in &m.unknown { c.attributes.push(crate::tree::attribute::Attribute { name: JavaString::from(n.as_str()), bytes: b.clone() }); }
		for x in &m.methods {
			let mut me = Method::new(MethodAccess::from(x.access), nm::<MethodName>(&x.name), nm::<MethodDescriptor>(&x.desc));
			let mut code = Code { max_stack: Some(x.max_stack), max_locals: Some(x.max_locals), ..Code::default() };
			for i in &x.insns {
				let instruction = match i {
					MInsn::Op(0) => Instruction::Nop, MInsn::Op(1) => Instruction::AConstNull, MInsn::Op(87) => Instruction::Pop, MInsn::Op(88) => Instruction::Pop2, MInsn::Op(177) => Instruction::Return,
					MInsn::Op(o) => panic!("harness: opcode {o}"),
					MInsn::Ldc(l) => Instruction::Ldc(t_loadable(l)),
					MInsn::Indy { name, desc, bsm } => Instruction::InvokeDynamic(InvokeDynamic { name: nm::<MethodName>(name), descriptor: nm::<MethodDescriptor>(desc), handle: t_handle(&bsm.handle), arguments: bsm.args.iter().map(t_loadable).collect() }),
				};
				code.instructions.push(InstructionListEntry { label: None, frame: None, instruction });
			}
			me.code = Some(code);
			c.methods.push(me);
		}
		c
	}
	fn read_bytes(b: &[u8]) -> Result<Option<Result<ClassFile>>, ()> { let owned = b.to_vec(); guarded(move || read_class(&mut Cursor::new(owned))) }
	fn write_tree(c: &ClassFile) -> Result<Option<Result<Vec<u8>>>, ()> { guarded(|| { let mut out = Vec::new(); write_class(&mut out, c).map(|()| out) }) }
	fn describe(m: &MClass, e: Option<Enc>, bytes: &[u8]) -> String {
		format!("{} :: {} bytes[{}]={}", show_class(m), match e { Some(e) => format!("{e:?}"), None => "tree built directly".into() }, bytes.len(), if bytes.len() <= 40 { hex(bytes) } else { format!("{}..", hex(&bytes[..40])) })
	}

	// ---------------------------------------------------------------------------------------------------------------------
	// the checks
	// ---------------------------------------------------------------------------------------------------------------------
	/// C01: the tree read from the generated file states exactly the model
	fn check_read(t: &mut Tally, label: &str, m: &MClass, e: Enc) {
		let bytes = gen_class(m, e);
		t.at(label.as_bytes());
		let expected = collect(m);
		t.case(!expected.is_empty());
		// harness self-check: the independent parser reads the generator's output back to the model, the table is the one the layout asks for
		match parse_class(&bytes) {
			Ok(p) => {
				if p.class != *m { t.fail(describe(m, Some(e), &bytes), &format!("HARNESS self-check: own parser and own generator disagree: {}", diff(&p.class, m))); return; }
				let want: Vec<MBsm> = match e.tab { 0 => expected.clone(), 1 => expected.iter().rev().cloned().collect(), _ => { let mut v = vec![unused_bsm()]; v.extend(expected.iter().cloned()); v.extend(expected.iter().rev().cloned()); v } };
				if p.table != want { t.fail(describe(m, Some(e), &bytes), &format!("HARNESS self-check: bootstrap_methods table: {}", diff(&p.table, &want))); return; }
			},
			Err(x) => { t.fail(describe(m, Some(e), &bytes), &format!("HARNESS self-check: own parser refuses own generator's output: {x}")); return; },
		}
		match read_bytes(&bytes) {
			Err(()) | Ok(None) => t.fail(describe(m, Some(e), &bytes), "read_class panicked on a well-formed class file"),
			Ok(Some(Err(x))) => t.fail(describe(m, Some(e), &bytes), &format!("read_class refused a well-formed class file: {x:#}")),
			Ok(Some(Ok(tree))) => match c_class(&tree) {
				Err(x) => t.fail(describe(m, Some(e), &bytes), &format!("the tree does not state the facts of the file: {x}")),
				Ok(got) => if got != *m { t.fail(describe(m, Some(e), &bytes), &format!("the tree does not state the facts of the file: {}", diff(&got, m))); },
			},
		}
	}
	/// C02: write_class of a tree of the model (built directly when `src` is None, else read from the file generated with that encoding):
	/// the output is structurally valid, denotes the model, its bootstrap_methods table is exact and free of duplicates, and reads back.
	/// Returns the opcodes of the ldc instructions of the output.
	fn check_write(t: &mut Tally, label: &str, m: &MClass, src: Option<Enc>) -> Option<Vec<u8>> {
		t.at(label.as_bytes());
		let expected = collect(m);
		t.case(!expected.is_empty());
		let (tree, bytes) = match src {
			None => (t_class(m), Vec::new()),
			Some(e) => {
				let bytes = gen_class(m, e);
				match read_bytes(&bytes) { Ok(Some(Ok(tree))) => (tree, bytes), _ => { t.fail(describe(m, src, &bytes), "precondition: read_class did not accept the generated class file (see the read tests)"); return None; } }
			},
		};
		if src.is_none() {
			// harness self-check: the directly built tree is the tree of the model
			match c_class(&tree) { Ok(x) if x == *m => {}, other => { t.fail(describe(m, src, &bytes), &format!("HARNESS self-check: tree built from the model converts back to {other:?}")); return None; } }
		}
		let out = match write_tree(&tree) {
			Err(()) | Ok(None) => { t.fail(describe(m, src, &bytes), "write_class panicked"); return None; },
			Ok(Some(Err(x))) => { t.fail(describe(m, src, &bytes), &format!("write_class refused the tree: {x:#}")); return None; },
			Ok(Some(Ok(out))) => out,
		};
		let shown = || hex(&out[..out.len().min(160)]);
		let p = match parse_class(&out) {
			Err(x) => { t.fail(describe(m, src, &bytes), &format!("output of write_class is not a structurally valid class file: {x}; output[{}]={}", out.len(), shown())); return None; },
			Ok(p) => p,
		};
		if p.class != *m { t.fail(describe(m, src, &bytes), &format!("an independent parser reads different facts from the output of write_class: {}", diff(&p.class, m))); return None; }
		// the table: every entry is a bootstrap method of the class, each once
		let raw = p.raw.clone().unwrap_or_default();
		for i in 0..raw.len() { for j in i + 1..raw.len() {
			if p.handles[i] == p.handles[j] && raw[i].1 == raw[j].1 {
				t.fail(describe(m, src, &bytes), &format!("bootstrap_methods[{i}] and [{j}] of the output are the same (handle, argument indices) pair {} {:?}: not de-duplicated", show_h(&p.handles[i]), raw[i].1));
				return None;
			}
		} }
		for (k, b) in p.table.iter().enumerate() { if !expected.contains(b) { t.fail(describe(m, src, &bytes), &format!("bootstrap_methods[{k}] of the output = {} is no bootstrap method of the class", show_b(b))); return None; } }
		for b in &expected { if !p.table.contains(b) { t.fail(describe(m, src, &bytes), &format!("the bootstrap method {} is missing from the output's table", show_b(b))); return None; } }
		if p.table.len() != expected.len() {
			t.fail(describe(m, src, &bytes), &format!("num_bootstrap_methods of the output is {}, the class has {} distinct bootstrap methods", p.table.len(), expected.len())); return None;
		}
		// read the output again
		match read_bytes(&out) {
			Ok(Some(Ok(tree2))) => match c_class(&tree2) {
				Ok(got) => {
					if got != *m { t.fail(describe(m, src, &bytes), &format!("read(write(tree)) states different facts: {}", diff(&got, m))); }
					else if !class_has_nan(m) && tree2 != tree { t.fail(describe(m, src, &bytes), &format!("read(write(tree)) != tree (duke's own PartialEq): {}", diff(&tree2, &tree))); }
				},
				Err(x) => t.fail(describe(m, src, &bytes), &format!("read(write(tree)) is not expressible: {x}")),
			},
			Ok(Some(Err(x))) => t.fail(describe(m, src, &bytes), &format!("read_class refuses the output of write_class: {x:#}; output[{}]={}", out.len(), shown())),
			_ => t.fail(describe(m, src, &bytes), "read_class panicked on the output of write_class"),
		}
		Some(p.forms)
	}

	// ---------------------------------------------------------------------------------------------------------------------
	// the universes
	// ---------------------------------------------------------------------------------------------------------------------
	fn s(x: &str) -> String { x.to_owned() }
	const BSM_DESC: &str = "(Ljava/lang/invoke/MethodHandles$Lookup;Ljava/lang/String;Ljava/lang/invoke/MethodType;)Ljava/lang/invoke/CallSite;";
	fn mh(kind: u8, itf: bool, owner: &str, name: &str, desc: &str) -> MH { MH { kind, itf, owner: s(owner), name: s(name), desc: s(desc) } }
	/// the nine reference kinds, kinds 6 and 7 once on a Methodref and once on an InterfaceMethodref (11 handles).  Handles 0/2 and 1/3 differ in the kind only,
	/// 4/7 too (one Methodref), 8/10 too (one InterfaceMethodref), 5/6 and 7/8 differ in the tag of the reference only.
	fn handles() -> Vec<MH> {
		vec![mh(1, false, "p/A", "f", "I"), mh(2, false, "p/A", "g", "J"), mh(3, false, "p/A", "f", "I"), mh(4, false, "p/A", "g", "J"), mh(5, false, "p/B", "m", "()V"),
			mh(6, false, "p/B", "bsm", BSM_DESC), mh(6, true, "p/B", "bsm", BSM_DESC), mh(7, false, "p/B", "m", "()V"), mh(7, true, "p/B", "m", "()V"),
			mh(8, false, "p/B", "<init>", "()V"), mh(9, true, "p/B", "m", "()V")]
	}
	fn bsm(h: &MH, args: Vec<ML>) -> MBsm { MBsm { handle: h.clone(), args } }
	fn dynamic(name: &str, desc: &str, b: &MBsm) -> ML { ML::Dyn(Box::new(MDyn { name: s(name), desc: s(desc), bsm: b.clone() })) }
	fn indy(name: &str, desc: &str, b: &MBsm) -> MInsn { MInsn::Indy { name: s(name), desc: s(desc), bsm: b.clone() } }
	fn ldc_pop(l: ML) -> Vec<MInsn> { let p = if wide_const(&l) { 88 } else { 87 }; vec![MInsn::Ldc(l), MInsn::Op(p)] }
	fn method(name: &str, mut insns: Vec<MInsn>) -> MMethod { insns.push(MInsn::Op(177)); MMethod { access: 0x0009, name: s(name), desc: s("()V"), max_stack: 4, max_locals: 1, insns } }
	fn shell(major: u16, methods: Vec<MMethod>) -> MClass {
		MClass { minor: 0, major, access: 0x0021, this: s("p/T"), sup: Some(s("java/lang/Object")), source_file: Some(s("T.java")), unknown: vec![(s("X"), vec![1, 2, 3])], methods }
	}
	fn enc(pool: u8, tab: u8, pad: u16, wide: bool, first: bool) -> Enc { Enc { pool, tab, pad, wide, first } }
	/// the nine pool x table layouts; padding, ldc form and attribute position rotate with them and with the case number
	fn encodings9(case: usize) -> Vec<Enc> {
		let mut v = Vec::new();
		for pool in 0..3u8 { for tab in 0..3u8 { v.push(enc(pool, tab, if (case + pool as usize) % 2 == 0 { 0 } else { 260 }, pool == 1, tab == 1)); } }
		v
	}

	// universe S: sequences of 0..3 call sites, each one of 4 forms x 6 bootstrap methods
	fn bsm_menu_s() -> Vec<MBsm> {
		let h = handles();
		vec![bsm(&h[5], vec![]), bsm(&h[5], vec![ML::Int(7)]), bsm(&h[9], vec![ML::Int(7)]), bsm(&h[5], vec![ML::Int(7), ML::Str(s("s"))]), bsm(&h[5], vec![ML::Str(s("s")), ML::Int(7)]), bsm(&h[6], vec![ML::Int(7)])]
	}
	fn site(form: usize, b: &MBsm) -> Vec<MInsn> {
		match form { 0 => vec![indy("run", "()V", b)], 1 => vec![indy("get", "()I", b), MInsn::Op(87)], 2 => ldc_pop(dynamic("k", "I", b)), _ => ldc_pop(dynamic("w", "J", b)) }
	}
	fn universe_s() -> Vec<MClass> {
		let menu = bsm_menu_s();
		let choices = 4 * menu.len();
		let mut out = Vec::new();
		for len in 0..=3usize {
			for code in 0..choices.pow(len as u32) {
				let mut c = code;
				let mut sites: Vec<Vec<MInsn>> = Vec::new();
				for _ in 0..len { let ch = c % choices; c /= choices; sites.push(site(ch % 4, &menu[ch / 4])); }
				// every second class has each call site in a method of its own
				let methods = if out.len() % 2 == 1 && len > 0 { sites.into_iter().enumerate().map(|(k, i)| method(&format!("m{k}"), i)).collect() } else { vec![method("m", sites.concat())] };
				out.push(shell(55 + (out.len() % 3) as u16 * 5, methods));
			}
		}
		out
	}

	// universe A: one bootstrap method with every argument list of length 0..3 over 12 loadables; plus pairs of argument values
	fn arg_menu() -> Vec<ML> {
		let h = handles();
		let d0 = dynamic("k", "I", &bsm(&h[5], vec![]));
		let d1 = dynamic("n", "Ljava/lang/Object;", &bsm(&h[9], vec![ML::Int(7), d0.clone()]));
		let d2 = dynamic("w", "D", &bsm(&h[5], vec![d1.clone(), ML::Double(0x4004000000000000)]));
		vec![ML::Int(7), ML::Float(0x3fc00000), ML::Long(1 << 40), ML::Double(0x4004000000000000), ML::Str(s("s")), ML::Class(s("p/A")), ML::Handle(h[0].clone()), ML::Handle(h[5].clone()), ML::MType(s("(I)V")), d0, d1, d2]
	}
	fn sites_a(kind: usize, b: &MBsm) -> Vec<MInsn> {
		match kind {
			0 => vec![indy("run", "()V", b)], 1 => ldc_pop(dynamic("k", "I", b)), 2 => ldc_pop(dynamic("w", "D", b)),
			_ => { let mut v = vec![indy("run", "()V", b)]; v.extend(ldc_pop(dynamic("k", "I", b))); v },
		}
	}
	fn universe_a_lists() -> Vec<MClass> {
		let (menu, h) = (arg_menu(), handles());
		let mut out = Vec::new();
		for len in 0..=3usize {
			for code in 0..menu.len().pow(len as u32) {
				let mut c = code;
				let mut args = Vec::new();
				for _ in 0..len { args.push(menu[c % menu.len()].clone()); c /= menu.len(); }
				let b = bsm(&h[5], args);
				for kind in 0..4 { out.push(shell(61, vec![method("m", sites_a(kind, &b))])); }
			}
		}
		out
	}
	fn value_menu() -> Vec<ML> {
		vec![ML::Int(0), ML::Int(i32::MIN), ML::Int(i32::MAX), ML::Float(0), ML::Float(0x80000000), ML::Float(0x7fc00000), ML::Float(0x7fc00001), ML::Float(0xff800000),
			ML::Long(0), ML::Long(i64::MIN), ML::Double(0), ML::Double(0x8000000000000000), ML::Double(0x7ff8000000000000), ML::Double(0x7ff8000000000001),
			ML::Str(s("")), ML::Str(s("a\0b")), ML::Str(s("\u{e9}\u{20ac}\u{10400}")), ML::Class(s("[[Lp/A;")), ML::MType(s("()V")), ML::Handle(mh(5, false, "[I", "clone", "()Ljava/lang/Object;"))]
	}
	/// two call sites whose bootstrap methods differ in one argument value at most (equal values: one table entry), and the first value loaded directly
	fn universe_a_values() -> Vec<MClass> {
		let (v, h) = (value_menu(), handles());
		let mut out = Vec::new();
		for a in &v { for b in &v {
			let mut i = vec![indy("run", "()V", &bsm(&h[5], vec![a.clone()])), indy("run", "()V", &bsm(&h[5], vec![b.clone()]))];
			i.extend(ldc_pop(a.clone()));
			out.push(shell(61, vec![method("m", i)]));
		} }
		out
	}
	fn encodings_a() -> Vec<Enc> { vec![enc(0, 0, 0, false, false), enc(1, 1, 0, true, true), enc(2, 2, 0, false, false), enc(2, 0, 300, false, true)] }

	// universe H: every handle as bootstrap method x every handle (or none) as argument x the 7 non-empty subsets of three uses; every pair of handles in one class
	fn universe_h() -> Vec<MClass> {
		let h = handles();
		let mut out = Vec::new();
		for h1 in &h {
			for h2 in std::iter::once(None).chain(h.iter().map(Some)) {
				for subset in 1..8u8 {
					let mut i = Vec::new();
					if subset & 1 != 0 { i.push(indy("run", "()V", &bsm(h1, h2.map(|x| vec![ML::Handle(x.clone())]).unwrap_or_default()))); }
					if subset & 2 != 0 { i.extend(ldc_pop(ML::Handle(h1.clone()))); }
					if subset & 4 != 0 { i.extend(ldc_pop(dynamic("k", "I", &bsm(h2.unwrap_or(&h[5]), vec![ML::Handle(h1.clone())])))); }
					out.push(shell(if out.len() % 2 == 0 { 55 } else { 65 }, vec![method("m", i)]));
				}
			}
		}
		for h1 in &h { for h2 in &h { out.push(shell(61, vec![method("a", vec![indy("run", "()V", &bsm(h1, vec![]))]), method("b", vec![indy("run", "()V", &bsm(h2, vec![]))])])); } }
		out
	}

	// universe P: pool indices on both sides of 255, tables with up to 300 bootstrap methods
	fn boundary_menu() -> Vec<ML> {
		let h = handles();
		vec![ML::Int(7), ML::Float(0x3fc00000), ML::Str(s("s")), ML::Class(s("p/A")), ML::Handle(h[9].clone()), ML::MType(s("(I)V")), dynamic("k", "I", &bsm(&h[5], vec![ML::Int(7)])),
			dynamic("a", "[D", &bsm(&h[5], vec![])), ML::Long(1 << 40), ML::Double(0x4004000000000000), dynamic("w", "J", &bsm(&h[5], vec![ML::Long(1 << 40)]))]
	}
	fn pads() -> Vec<u16> { let mut v: Vec<u16> = vec![0, 1, 100, 400, 1000]; v.extend(225..=262); v }
	const MANY: &[usize] = &[1, 2, 3, 254, 255, 256, 257, 300];
	fn many_bsm(n: usize) -> MClass { let h = handles(); shell(61, vec![method("m", (0..n).map(|i| indy("run", "()V", &bsm(&h[5], vec![ML::Int(i as i32)]))).collect())]) }
	/// one bootstrap method with n arguments (n distinct Integers, then the first again), used by an invokedynamic and by a Dynamic constant
	fn many_args(n: usize) -> MClass {
		let h = handles();
		let mut args: Vec<ML> = (0..n).map(|i| ML::Int(i as i32)).collect(); args.push(ML::Int(0));
		let b = bsm(&h[9], args);
		let mut i = vec![indy("run", "()V", &b)]; i.extend(ldc_pop(dynamic("k", "I", &b)));
		shell(61, vec![method("m", i)])
	}
	/// k filler `ldc Int; pop` in front of `ldc x`: every filler takes one more pool index
	fn filled(k: usize, x: &ML) -> MClass {
		let mut i = Vec::new();
		for j in 0..k { i.extend(ldc_pop(ML::Int(5_000_000 + j as i32))); }
		i.extend(ldc_pop(x.clone()));
		shell(61, vec![method("m", i)])
	}

	// ---------------------------------------------------------------------------------------------------------------------
	// the tests
	// ---------------------------------------------------------------------------------------------------------------------
	#[test]
	fn read_call_sites_and_bootstrap_methods() {
		let mut t = Tally::new("read_call_sites_and_bootstrap_methods");
		for (n, m) in universe_s().iter().enumerate() { for (k, e) in encodings9(n).into_iter().enumerate() { check_read(&mut t, &format!("S{n}/{k}"), m, e); } }
		t.finish();
	}
	#[test]
	fn read_argument_lists() {
		let mut t = Tally::new("read_argument_lists");
		let encs = encodings_a();
		for (n, m) in universe_a_lists().iter().enumerate() { for (k, e) in encs.iter().enumerate() { check_read(&mut t, &format!("A{n}/{k}"), m, *e); } }
		for (n, m) in universe_a_values().iter().enumerate() { for (k, e) in encs.iter().enumerate() { check_read(&mut t, &format!("V{n}/{k}"), m, *e); } }
		t.finish();
	}
	#[test]
	fn read_handle_kinds() {
		let mut t = Tally::new("read_handle_kinds");
		for (n, m) in universe_h().iter().enumerate() { for (k, e) in encodings9(n).into_iter().enumerate() { check_read(&mut t, &format!("H{n}/{k}"), m, e); } }
		t.finish();
	}
	#[test]
	fn read_pool_index_boundaries() {
		let mut t = Tally::new("read_pool_index_boundaries");
		let (mut short, mut long) = (0, 0);
		for (n, x) in boundary_menu().iter().enumerate() {
			let m = shell(61, vec![method("m", ldc_pop(x.clone()))]);
			for pad in pads() { for wide in [false, true] { for pool in 0..3u8 {
				let e = enc(pool, (pad % 3) as u8, pad, wide, pad % 2 == 0);
				if let Ok(p) = parse_class(&gen_class(&m, e)) { match p.forms.last() { Some(18) => short += 1, Some(19) => long += 1, _ => {} } }
				check_read(&mut t, &format!("P{n}/{pad}/{wide}/{pool}"), &m, e);
			} } }
		}
		for &n in MANY { for (w, m) in [many_bsm(n), many_args(n)].iter().enumerate() { for (k, e) in encodings9(n).into_iter().enumerate() { check_read(&mut t, &format!("M{w}/{n}/{k}"), m, e); } } }
		println!("INFO read_pool_index_boundaries: the generated files load the constant with ldc in {short} and with ldc_w in {long} cases");
		if short == 0 || long == 0 { t.fail("the whole universe".into(), "HARNESS vacuity: the generator never produced both ldc and ldc_w"); }
		t.finish();
	}
	const WRITE_SOURCES_S: &[Option<Enc>] = &[None, Some(Enc { pool: 2, tab: 2, pad: 0, wide: false, first: false }), Some(Enc { pool: 0, tab: 1, pad: 260, wide: true, first: true })];
	#[test]
	fn write_call_sites_and_bootstrap_methods() {
		let mut t = Tally::new("write_call_sites_and_bootstrap_methods");
		for (n, m) in universe_s().iter().enumerate() { for (k, src) in WRITE_SOURCES_S.iter().enumerate() { check_write(&mut t, &format!("S{n}/{k}"), m, *src); } }
		t.finish();
	}
	#[test]
	fn write_argument_lists() {
		let mut t = Tally::new("write_argument_lists");
		let srcs = [None, Some(enc(2, 2, 0, false, false))];
		for (n, m) in universe_a_lists().iter().enumerate() { for (k, src) in srcs.iter().enumerate() { check_write(&mut t, &format!("A{n}/{k}"), m, *src); } }
		for (n, m) in universe_a_values().iter().enumerate() { for (k, src) in srcs.iter().enumerate() { check_write(&mut t, &format!("V{n}/{k}"), m, *src); } }
		t.finish();
	}
	#[test]
	fn write_handle_kinds() {
		let mut t = Tally::new("write_handle_kinds");
		for (n, m) in universe_h().iter().enumerate() { for (k, src) in WRITE_SOURCES_S.iter().enumerate() { check_write(&mut t, &format!("H{n}/{k}"), m, *src); } }
		t.finish();
	}
	#[test]
	fn write_pool_index_boundaries() {
		let mut t = Tally::new("write_pool_index_boundaries");
		for (n, x) in boundary_menu().iter().enumerate() {
			// trees built directly: 0..300 filler constants in front, so that the index duke gives the constant passes 255 somewhere
			let (mut short, mut long) = (0, 0);
			for k in 0..=300usize {
				if let Some(forms) = check_write(&mut t, &format!("P{n}/fill{k}"), &filled(k, x), None) { match forms.last() { Some(18) => short += 1, Some(19) => long += 1, _ => {} } }
			}
			println!("INFO write_pool_index_boundaries: {} written with ldc {short} times, with ldc_w {long} times, with ldc2_w {} times", show_l(x), 301 - short - long);
			if !wide_const(x) && (short == 0 || long == 0) { t.fail(show_l(x), "HARNESS vacuity: the 301 outputs never use both ldc and ldc_w, the boundary was not crossed"); }
			// trees read from files whose indices lie on both sides of 255
			let m = shell(61, vec![method("m", ldc_pop(x.clone()))]);
			for pad in pads() { for wide in [false, true] { check_write(&mut t, &format!("P{n}/{pad}/{wide}"), &m, Some(enc(0, (pad % 3) as u8, pad, wide, false))); } }
		}
		for &n in MANY { for (w, m) in [many_bsm(n), many_args(n)].iter().enumerate() { for (k, src) in WRITE_SOURCES_S.iter().enumerate() { check_write(&mut t, &format!("M{w}/{n}/{k}"), m, *src); } } }
		t.finish();
	}
	#[test]
	fn canary_must_fail() {
		let mut t = Tally::new("canary_must_fail");
		let e = enc(0, 0, 0, false, false);
		let (menu, h) = (arg_menu(), handles());
		for a in 0..5 { for b in 5..10 {
			let m = shell(61, vec![method("m", vec![indy("run", "()V", &bsm(&h[5], vec![menu[a].clone(), menu[b].clone()]))])]);
			t.at(format!("canary {a} {b}").as_bytes());
			t.case(true);
			// deliberately wrong claim: the reader delivers the bootstrap arguments in reverse order
			let wrong = shell(61, vec![method("m", vec![indy("run", "()V", &bsm(&h[5], vec![menu[b].clone(), menu[a].clone()]))])]);
			match read_bytes(&gen_class(&m, e)) { Ok(Some(Ok(tree))) if c_class(&tree).as_ref() == Ok(&wrong) => {}, _ => t.fail(show_class(&m), "canary") }
		} }
		t.finish();
	}
