	// =====================================================================================================================
	// bounded exhaustive enumeration for the version graph (src/version_graph.rs): property C05
	//
	// Every case writes a fresh mappings directory (one `<version>.tiny`, `parent#child.tinydiff` files) as text, runs the
	// real `VersionGraph::resolve`, `versions`, `children`, `get` and `apply_diffs`, and compares with a model-level answer:
	// the root model with exactly the model-level diffs along the path root -> version applied in order, shown with the names
	// of nested classes extended by the names of their outer classes.
	// =====================================================================================================================
	use std::collections::{BTreeMap, BTreeSet};
	type Res<T> = std::result::Result<T, String>;

	// ---------------------------------------------------------------------------------------------------------------------
	// the model of a mapping set (namespaces official, named).  A nested class (key `outer$x`) carries its OWN simple name;
	// the name that mapping files and the reported mappings show for it is shown(outer) + "$" + own name.
	// ---------------------------------------------------------------------------------------------------------------------
	/// (descriptor, name in the first namespace)
	type Key = (String, String);
	#[derive(Clone, Debug, PartialEq, Eq)]
	struct Ent { name: String, comment: Option<String> }
	#[derive(Clone, Debug, PartialEq, Eq)]
	struct MMeth { e: Ent, params: BTreeMap<usize, Ent> }
	#[derive(Clone, Debug, PartialEq, Eq)]
	struct MCls { e: Ent, fields: BTreeMap<Key, Ent>, methods: BTreeMap<Key, MMeth> }
	#[derive(Clone, Debug, PartialEq, Eq, Default)]
	struct Model { classes: BTreeMap<String, MCls> }

	fn ent(name: &str, comment: Option<&str>) -> Ent { Ent { name: name.to_owned(), comment: comment.map(|c| c.to_owned()) } }
	fn key(desc: &str, name: &str) -> Key { (desc.to_owned(), name.to_owned()) }
	fn cls(name: &str, comment: Option<&str>) -> MCls { MCls { e: ent(name, comment), fields: BTreeMap::new(), methods: BTreeMap::new() } }
	impl MCls {
		fn f(mut self, desc: &str, src: &str, name: &str, comment: Option<&str>) -> MCls { self.fields.insert(key(desc, src), ent(name, comment)); self }
		fn m(mut self, desc: &str, src: &str, name: &str, comment: Option<&str>, params: &[(usize, &str, Option<&str>)]) -> MCls {
			self.methods.insert(key(desc, src), MMeth { e: ent(name, comment), params: params.iter().map(|(i, n, c)| (*i, ent(n, *c))).collect() });
			self
		}
	}
	fn model(classes: Vec<(&str, MCls)>) -> Model { Model { classes: classes.into_iter().map(|(k, c)| (k.to_owned(), c)).collect() } }

	/// the key of the outer class of a nested class: the part before the last `$`
	fn outer_of(k: &str) -> Option<&str> { k.rsplit_once('$').map(|(o, _)| o) }
	/// the name shown for a class: own name, for a nested class prefixed by the shown name of its outer class
	fn shown_name(m: &Model, k: &str) -> Res<String> {
		let own = &m.classes.get(k).ok_or_else(|| format!("outer class {k:?} missing"))?.e.name;
		Ok(match outer_of(k) { Some(o) => format!("{}${}", shown_name(m, o)?, own), None => own.clone() })
	}
	/// inner-class-name extension of a whole model
	fn shown(m: &Model) -> Res<Model> {
		let mut out = m.clone();
		for (k, c) in out.classes.iter_mut() { c.e.name = shown_name(m, k)?; }
		Ok(out)
	}

	/// the mapping states a version can have.  Between them: class added / removed (b, a$n, a$n$k), class renamed (a, a$n),
	/// field added / removed / renamed, method renamed, parameter added / removed, comment added / removed / edited on a class,
	/// a field, a method and a parameter, a nested class (and a class nested in it) added later.
	const N_STATES: usize = 8;
	fn state(i: usize) -> Model {
		match i {
			0 => model(vec![("a", cls("p/A", None).m("(I)V", "m", "mA", None, &[]))]),
			1 => model(vec![("a", cls("p/A", None).m("(I)V", "m", "mA", None, &[])),
				("b", cls("q/B", Some("cb")).f("I", "g", "gB", Some("cg")))]),
			2 => model(vec![("a", cls("p/A2", None).m("(I)V", "m", "mA", None, &[]))]),
			3 => model(vec![("a", cls("p/A", None).f("I", "f", "fA", None).m("(I)V", "m", "mA", None, &[]))]),
			4 => model(vec![("a", cls("p/A", Some("ca")).f("I", "f", "fA2", Some("cf")).m("(I)V", "m", "mA", None, &[]))]),
			5 => model(vec![("a", cls("p/A", None).m("(I)V", "m", "mA", None, &[])),
				("a$n", cls("N", None).f("I", "x", "xN", None))]),
			6 => model(vec![("a", cls("p/A2", None).m("(I)V", "m", "mA", Some("cm"), &[(1, "p1", None)])),
				("a$n", cls("N2", None).f("I", "x", "xN", None)),
				("a$n$k", cls("K", None).m("()V", "r", "rK", None, &[]))]),
			7 => model(vec![("a", cls("p/A", Some("ca2")).m("(I)V", "m", "mA2", None, &[(1, "p1", Some("cp"))])),
				("a$n", cls("N", None).f("I", "x", "xN2", Some("cx"))),
				("b", cls("q/B", None).f("I", "g", "gB", None))]),
			_ => unreachable!(),
		}
	}

	// ---------------------------------------------------------------------------------------------------------------------
	// model-level diffs
	// ---------------------------------------------------------------------------------------------------------------------
	#[derive(Clone, Debug, PartialEq, Eq)]
	enum Act { Keep(Option<String>), Add(String), Del(String), Edit(String, String) }
	fn act(a: Option<&String>, b: Option<&String>) -> Act {
		match (a, b) {
			(None, None) => Act::Keep(None),
			(None, Some(b)) => Act::Add(b.clone()),
			(Some(a), None) => Act::Del(a.clone()),
			(Some(a), Some(b)) if a == b => Act::Keep(Some(a.clone())),
			(Some(a), Some(b)) => Act::Edit(a.clone(), b.clone()),
		}
	}
	impl Act {
		fn is_keep(&self) -> bool { matches!(self, Act::Keep(_)) }
		/// apply to an optional value (a comment)
		fn on(&self, cur: Option<String>) -> Res<Option<String>> {
			match (self, cur) {
				(Act::Keep(_), c) => Ok(c),
				(Act::Add(b), None) => Ok(Some(b.clone())),
				(Act::Del(a), Some(c)) if *a == c => Ok(None),
				(Act::Edit(a, b), Some(c)) if *a == c => Ok(Some(b.clone())),
				(x, c) => Err(format!("cannot apply {x:?} to {c:?}")),
			}
		}
	}
	#[derive(Clone, Debug)] struct DEnt { name: Act, comment: Act }
	#[derive(Clone, Debug)] struct DMeth { e: DEnt, params: BTreeMap<usize, DEnt> }
	#[derive(Clone, Debug)] struct DCls { e: DEnt, fields: BTreeMap<Key, DEnt>, methods: BTreeMap<Key, DMeth> }
	#[derive(Clone, Debug)] struct MDiff { classes: BTreeMap<String, DCls> }
	impl DEnt {
		fn quiet(&self) -> bool { self.name.is_keep() && self.comment.is_keep() }
	}
	impl DMeth { fn quiet(&self) -> bool { self.e.quiet() && self.params.values().all(|p| p.quiet()) } }
	impl DCls { fn quiet(&self) -> bool { self.e.quiet() && self.fields.values().all(|f| f.quiet()) && self.methods.values().all(|m| m.quiet()) } }

	fn union<'a, K: Ord + Clone, V>(a: Option<&'a BTreeMap<K, V>>, b: Option<&'a BTreeMap<K, V>>) -> Vec<(K, Option<&'a V>, Option<&'a V>)> {
		let keys: BTreeSet<K> = a.iter().flat_map(|m| m.keys()).chain(b.iter().flat_map(|m| m.keys())).cloned().collect();
		keys.into_iter().map(|k| { let (x, y) = (a.and_then(|m| m.get(&k)), b.and_then(|m| m.get(&k))); (k, x, y) }).collect()
	}
	fn dent(a: Option<&Ent>, b: Option<&Ent>) -> DEnt {
		DEnt { name: act(a.map(|e| &e.name), b.map(|e| &e.name)), comment: act(a.and_then(|e| e.comment.as_ref()), b.and_then(|e| e.comment.as_ref())) }
	}
	/// the complete description of the change from `from` to `to` (every entry of either side is listed)
	fn mdiff(from: &Model, to: &Model) -> MDiff {
		let mut d = MDiff { classes: BTreeMap::new() };
		for (k, a, b) in union(Some(&from.classes), Some(&to.classes)) {
			let mut dc = DCls { e: dent(a.map(|c| &c.e), b.map(|c| &c.e)), fields: BTreeMap::new(), methods: BTreeMap::new() };
			for (fk, x, y) in union(a.map(|c| &c.fields), b.map(|c| &c.fields)) { dc.fields.insert(fk, dent(x, y)); }
			for (mk, x, y) in union(a.map(|c| &c.methods), b.map(|c| &c.methods)) {
				let mut dm = DMeth { e: dent(x.map(|m| &m.e), y.map(|m| &m.e)), params: BTreeMap::new() };
				for (pk, p, q) in union(x.map(|m| &m.params), y.map(|m| &m.params)) { dm.params.insert(pk, dent(p, q)); }
				dc.methods.insert(mk, dm);
			}
			d.classes.insert(k, dc);
		}
		d
	}

	enum Step { Gone, Is(Ent) }
	/// one entry: Ok(None) = untouched and absent, Gone = removed (children are not looked at), Is = present afterwards
	fn apply_ent(d: &DEnt, cur: Option<&Ent>) -> Res<Option<Step>> {
		match (&d.name, cur) {
			(Act::Keep(None), None) => Ok(None),
			(Act::Keep(Some(n)), Some(c)) if *n == c.name => Ok(Some(Step::Is(Ent { name: c.name.clone(), comment: d.comment.on(c.comment.clone())? }))),
			(Act::Add(b), None) => Ok(Some(Step::Is(Ent { name: b.clone(), comment: d.comment.on(None)? }))),
			(Act::Del(a), Some(c)) if *a == c.name => Ok(Some(Step::Gone)),
			(Act::Edit(a, b), Some(c)) if *a == c.name => Ok(Some(Step::Is(Ent { name: b.clone(), comment: d.comment.on(c.comment.clone())? }))),
			(x, c) => Err(format!("cannot apply {x:?} to {c:?}")),
		}
	}
	/// the model-level application of a diff: additions appear, removals disappear with everything below them, edits replace
	fn mapply(m: &Model, d: &MDiff) -> Res<Model> {
		let mut out = m.clone();
		for (k, dc) in &d.classes {
			let cur = m.classes.get(k);
			match apply_ent(&dc.e, cur.map(|c| &c.e))? {
				None => {},
				Some(Step::Gone) => { out.classes.remove(k); },
				Some(Step::Is(e)) => {
					let mut c = cur.cloned().unwrap_or_else(|| cls("", None));
					c.e = e;
					for (fk, df) in &dc.fields {
						match apply_ent(df, c.fields.get(fk))? { None => {}, Some(Step::Gone) => { c.fields.remove(fk); }, Some(Step::Is(e)) => { c.fields.insert(fk.clone(), e); } }
					}
					for (mk, dm) in &dc.methods {
						match apply_ent(&dm.e, c.methods.get(mk).map(|x| &x.e))? {
							None => {},
							Some(Step::Gone) => { c.methods.remove(mk); },
							Some(Step::Is(e)) => {
								let mut me = c.methods.get(mk).cloned().unwrap_or(MMeth { e: ent("", None), params: BTreeMap::new() });
								me.e = e;
								for (pk, dp) in &dm.params {
									match apply_ent(dp, me.params.get(pk))? { None => {}, Some(Step::Gone) => { me.params.remove(pk); }, Some(Step::Is(e)) => { me.params.insert(*pk, e); } }
								}
								c.methods.insert(mk.clone(), me);
							},
						}
					}
					out.classes.insert(k.clone(), c);
				},
			}
		}
		Ok(out)
	}

	// ---------------------------------------------------------------------------------------------------------------------
	// file contents (Tiny v2 / tinydiff text written by the harness)
	// ---------------------------------------------------------------------------------------------------------------------
	/// how the files are spelled.  `full_root_names`: the root file shows nested classes with their full name (`p/A$N`), else with
	/// their own name (`N`).  `verbose`: the diff files also list unchanged entries (`c a p/A p/A`), the members of a removed class
	/// (as removals) and an explicit empty column for removals; else only what changed, with its ancestors as bare lines (`c a`).
	#[derive(Clone, Copy, Debug)]
	struct Style { full_root_names: bool, verbose: bool }
	const PLAIN: Style = Style { full_root_names: true, verbose: false };
	const OTHER: Style = Style { full_root_names: false, verbose: true };

	fn root_text(m: &Model, st: Style) -> String {
		let mut o = String::from("tiny\t2\t0\tofficial\tnamed\n");
		for (k, c) in &m.classes {
			let name = if st.full_root_names { shown_name(m, k).expect("harness: state with a nested class without its outer class") } else { c.e.name.clone() };
			o += &format!("c\t{k}\t{name}\n");
			if let Some(x) = &c.e.comment { o += &format!("\tc\t{x}\n"); }
			for ((desc, src), f) in &c.fields {
				o += &format!("\tf\t{desc}\t{src}\t{}\n", f.name);
				if let Some(x) = &f.comment { o += &format!("\t\tc\t{x}\n"); }
			}
			for ((desc, src), me) in &c.methods {
				o += &format!("\tm\t{desc}\t{src}\t{}\n", me.e.name);
				if let Some(x) = &me.e.comment { o += &format!("\t\tc\t{x}\n"); }
				for (idx, p) in &me.params {
					o += &format!("\t\tp\t{idx}\t\t{}\n", p.name);
					if let Some(x) = &p.comment { o += &format!("\t\t\tc\t{x}\n"); }
				}
			}
		}
		o
	}
	/// the two change columns of a tinydiff line
	fn cols(a: &Act, verbose: bool) -> String {
		match a {
			Act::Keep(Some(x)) if verbose => format!("\t{x}\t{x}"),
			Act::Keep(_) => String::new(),
			Act::Add(b) => format!("\t\t{b}"),
			Act::Del(a) if verbose => format!("\t{a}\t"),
			Act::Del(a) => format!("\t{a}"),
			Act::Edit(a, b) => format!("\t{a}\t{b}"),
		}
	}
	fn diff_text(d: &MDiff, st: Style) -> String {
		let v = st.verbose;
		let mut o = String::from("tiny\t2\t0\n");
		let comment = |o: &mut String, indent: &str, a: &Act, removed: bool| {
			if removed && !v { return; }
			if !a.is_keep() || (v && *a != Act::Keep(None)) { *o += &format!("{indent}c{}\n", cols(a, v)); }
		};
		for (k, c) in &d.classes {
			if c.quiet() && !v { continue; }
			let gone = matches!(c.e.name, Act::Del(_));
			o += &format!("c\t{k}{}\n", cols(&c.e.name, v));
			comment(&mut o, "\t", &c.e.comment, gone);
			if gone && !v { continue; }
			for ((desc, src), f) in &c.fields {
				if f.quiet() && !v { continue; }
				o += &format!("\tf\t{desc}\t{src}{}\n", cols(&f.name, v));
				comment(&mut o, "\t\t", &f.comment, matches!(f.name, Act::Del(_)));
			}
			for ((desc, src), me) in &c.methods {
				if me.quiet() && !v { continue; }
				let mgone = matches!(me.e.name, Act::Del(_));
				o += &format!("\tm\t{desc}\t{src}{}\n", cols(&me.e.name, v));
				comment(&mut o, "\t\t", &me.e.comment, mgone);
				if mgone && !v { continue; }
				for (idx, p) in &me.params {
					if p.quiet() && !v { continue; }
					// the column after the index is the (always empty) source name of the parameter
					o += &format!("\t\tp\t{idx}\t{}\n", cols(&p.name, v));
					comment(&mut o, "\t\t\t", &p.comment, matches!(p.name, Act::Del(_)));
				}
			}
		}
		o
	}

	// ---------------------------------------------------------------------------------------------------------------------
	// the real code: resolve a directory and ask for versions
	// ---------------------------------------------------------------------------------------------------------------------
	fn jd(j: &Option<quill::tree::mappings::JavadocMapping>) -> Option<String> { j.as_ref().map(|j| j.0.clone()) }
	fn two<T: std::fmt::Display>(n: &quill::tree::names::Names<2, T>) -> [Option<String>; 2] {
		let a: &[Option<T>; 2] = n.into();
		[a[0].as_ref().map(|x| x.to_string()), a[1].as_ref().map(|x| x.to_string())]
	}
	/// reported mappings -> model (walks the pub fields; every map key must agree with the entry stored under it, every entry must be named)
	fn extract<Ns>(m: &Mappings<2, Ns>) -> Res<Model> {
		let ns: &[String; 2] = (&m.info.namespaces).into();
		if ns[0] != "official" || ns[1] != "named" { return Err(format!("namespaces {ns:?}")); }
		if m.javadoc.is_some() { return Err("a comment on the mapping set itself appeared".into()); }
		fn named(k: &str, n: [Option<String>; 2]) -> Res<String> {
			let [a, b] = n;
			if a.as_deref() != Some(k) { return Err(format!("entry stored under {k:?} has first name {a:?}")); }
			b.ok_or_else(|| format!("entry {k:?} without a name in `named`"))
		}
		let mut out = Model::default();
		for (k, c) in &m.classes {
			let k = k.to_string();
			let mut mc = cls(&named(&k, two(&c.info.names))?, jd(&c.javadoc).as_deref());
			for (fk, f) in &c.fields {
				let kk = key(&fk.desc.as_inner().to_string(), &fk.name.to_string());
				if f.info.desc.as_inner().to_string() != kk.0 { return Err(format!("field {kk:?} of {k:?} has descriptor {:?}", f.info.desc.as_inner())); }
				let e = Ent { name: named(&kk.1, two(&f.info.names))?, comment: jd(&f.javadoc) };
				if mc.fields.insert(kk.clone(), e).is_some() { return Err(format!("two fields {kk:?}")); }
			}
			for (mk, me) in &c.methods {
				let kk = key(&mk.desc.as_inner().to_string(), &mk.name.to_string());
				if me.info.desc.as_inner().to_string() != kk.0 { return Err(format!("method {kk:?} of {k:?} has descriptor {:?}", me.info.desc.as_inner())); }
				let mut mm = MMeth { e: Ent { name: named(&kk.1, two(&me.info.names))?, comment: jd(&me.javadoc) }, params: BTreeMap::new() };
				for (pk, p) in &me.parameters {
					if pk.index != p.info.index { return Err(format!("parameter stored under {} has index {}", pk.index, p.info.index)); }
					let [src, name] = two(&p.info.names);
					if src.is_some() { return Err(format!("parameter {} got a source name {src:?}", pk.index)); }
					let e = Ent { name: name.ok_or_else(|| format!("parameter {} without a name", pk.index))?, comment: jd(&p.javadoc) };
					if mm.params.insert(pk.index, e).is_some() { return Err("two parameters with one index".into()); }
				}
				if mc.methods.insert(kk.clone(), mm).is_some() { return Err(format!("two methods {kk:?}")); }
			}
			if out.classes.insert(k.clone(), mc).is_some() { return Err(format!("two classes {k:?}")); }
		}
		Ok(out)
	}

	struct Answer { split: Split, full: String, mappings: Res<Model> }
	struct Real { versions: Vec<String>, edges: BTreeSet<(String, String)>, answers: Vec<Res<Answer>> }
	/// Err = `resolve` refused the directory
	fn ask(dir: &Path, queries: &[String]) -> Res<Real> {
		let g = VersionGraph::resolve(dir).map_err(|e| format!("{e:#}"))?;
		let mut versions: Vec<String> = g.versions().map(|v| v.as_str().to_owned()).collect();
		versions.sort();
		let mut edges = BTreeSet::new();
		for v in g.versions() {
			for c in g.children(v) { edges.insert((v.as_str().to_owned(), c.as_str().to_owned())); }
		}
		let answers = queries.iter().map(|q| {
			let (split, v) = g.get(q).map_err(|e| format!("{e:#}"))?;
			let mappings = g.apply_diffs(v).map_err(|e| format!("{e:#}")).and_then(|m| extract(&m));
			Ok(Answer { split, full: v.as_str().to_owned(), mappings })
		}).collect();
		Ok(Real { versions, edges, answers })
	}

	static SEQ: AtomicU64 = AtomicU64::new(0);
	/// a fresh directory with the given files, created in the given order; removed after `f`.
	/// Also hands `f` the order in which the directory lists the files (indices into `files`).
	fn with_dir<T>(tag: &str, files: &[(String, String)], order: &[usize], f: impl FnOnce(&Path, Vec<usize>) -> T) -> T {
		let d = std::env::temp_dir().join(format!("verif-vgraph-{}-{}-{}", std::process::id(), tag, SEQ.fetch_add(1, Ordering::SeqCst)));
		let _ = std::fs::remove_dir_all(&d);
		std::fs::create_dir_all(&d).expect("harness: cannot create the temporary directory");
		assert_eq!({ let mut o = order.to_vec(); o.sort(); o }, (0..files.len()).collect::<Vec<_>>(), "harness: creation order is not a permutation");
		for &i in order { std::fs::write(d.join(&files[i].0), &files[i].1).expect("harness: cannot write a file"); }
		let listed: Vec<usize> = std::fs::read_dir(&d).expect("harness: cannot list").map(|e| {
			let n = e.expect("harness: cannot list").file_name().into_string().expect("harness: file name");
			files.iter().position(|(x, _)| *x == n).expect("harness: foreign file")
		}).collect();
		let r = f(&d, listed);
		std::fs::remove_dir_all(&d).expect("harness: cannot remove the temporary directory");
		r
	}

	// ---------------------------------------------------------------------------------------------------------------------
	// graphs, version names, orders
	// ---------------------------------------------------------------------------------------------------------------------
	/// node 0 is the root
	#[derive(Clone, Debug)]
	struct G { n: usize, edges: Vec<(usize, usize)> }
	fn tree(parents: &[usize]) -> G { G { n: parents.len() + 1, edges: parents.iter().enumerate().map(|(i, p)| (*p, i + 1)).collect() } }
	/// the 8 rooted trees with at most 4 nodes (up to isomorphism)
	fn trees() -> Vec<G> { vec![tree(&[]), tree(&[0]), tree(&[0, 0]), tree(&[0, 1]), tree(&[0, 0, 0]), tree(&[0, 0, 1]), tree(&[0, 1, 1]), tree(&[0, 1, 2])] }
	/// all graphs on 3 or 4 nodes with edges i -> j only for i < j, every node but 0 with at least one parent, that are not trees
	/// (1 + 15: triangle; diamond, chains with shortcuts, ... up to the complete one): every version is reachable, some on several paths
	fn dags() -> Vec<G> {
		let mut out = Vec::new();
		for n in 3..=4usize {
			let pairs: Vec<(usize, usize)> = (0..n).flat_map(|i| (i + 1..n).map(move |j| (i, j))).collect();
			for bits in 0u32..(1 << pairs.len()) {
				let edges: Vec<(usize, usize)> = pairs.iter().enumerate().filter(|(b, _)| bits >> b & 1 == 1).map(|(_, e)| *e).collect();
				if (1..n).all(|j| edges.iter().any(|e| e.1 == j)) && edges.len() > n - 1 { out.push(G { n, edges }); }
			}
		}
		out
	}
	/// all simple paths root -> target
	fn paths(g: &G, target: usize) -> Vec<Vec<usize>> {
		fn go(g: &G, cur: &mut Vec<usize>, target: usize, out: &mut Vec<Vec<usize>>) {
			let last = *cur.last().unwrap();
			if last == target { out.push(cur.clone()); return; }
			for &(p, c) in &g.edges { if p == last && !cur.contains(&c) { cur.push(c); go(g, cur, target, out); cur.pop(); } }
		}
		let mut out = Vec::new();
		go(g, &mut vec![0], target, &mut out);
		out
	}
	fn perms(k: usize) -> Vec<Vec<usize>> {
		fn go(k: usize, cur: &mut Vec<usize>, out: &mut Vec<Vec<usize>>) {
			if cur.len() == k { out.push(cur.clone()); return; }
			for i in 0..k { if !cur.contains(&i) { cur.push(i); go(k, cur, out); cur.pop(); } }
		}
		let mut out = Vec::new();
		go(k, &mut Vec::new(), &mut out);
		out
	}
	/// all assignments of `k` values to `n` places
	fn tuples(n: usize, k: usize) -> Vec<Vec<usize>> {
		let mut out = vec![vec![]];
		for _ in 0..n { out = out.into_iter().flat_map(|t| (0..k).map(move |x| { let mut t = t.clone(); t.push(x); t })).collect(); }
		out
	}
	/// version name number `i`, plain or as a client~server pair
	fn vname(i: usize, split: bool) -> String { if split { format!("1.{i}~server-0.{i}") } else { format!("1.{i}") } }
	/// the strings a version must be reachable under, with the Split the lookup must report
	fn lookup_keys(name: &str) -> Vec<(String, Split)> {
		match name.split_once('~') {
			Some((c, s)) => vec![(c.to_owned(), Split::First), (s.to_owned(), Split::Second)],
			None => vec![(name.to_owned(), Split::None)],
		}
	}
	/// file 0 is the root file, file 1 + i belongs to edge i
	fn files_of(g: &G, names: &[String], root: &Model, diffs: &[MDiff], st: Style) -> Vec<(String, String)> {
		let mut files = vec![(format!("{}.tiny", names[0]), root_text(root, st))];
		for (i, &(p, c)) in g.edges.iter().enumerate() { files.push((format!("{}#{}.tinydiff", names[p], names[c]), diff_text(&diffs[i], st))); }
		files
	}
	fn describe(files: &[(String, String)], order: &[usize], notes: &str) -> String {
		format!("files created in the order {:?} [{notes}]", order.iter().map(|&i| files[i].0.as_str()).collect::<Vec<_>>())
	}
	fn brief(m: &Res<Model>) -> String {
		match m { Ok(m) => root_text(m, PLAIN).replace("tiny\t2\t0\tofficial\tnamed\n", "").replace('\n', " | "), Err(e) => format!("Err({})", e.chars().take(300).collect::<String>()) }
	}

	/// The oracle for a directory in which the diff of every edge (p, c) describes the change from the state of p to the state of c:
	/// root model, then the diffs along a path applied in order, then extension.  (Every path is followed; the harness checks that
	/// they agree, which they must by construction.)
	fn expected_of(g: &G, models: &[Model], diffs: &[MDiff], v: usize) -> Model {
		let mut res: Option<Model> = None;
		let ps = paths(g, v);
		assert!(!ps.is_empty(), "harness: version {v} is not reachable");
		for p in ps {
			let mut m = models[0].clone();
			for w in p.windows(2) {
				let e = g.edges.iter().position(|e| *e == (w[0], w[1])).unwrap();
				m = mapply(&m, &diffs[e]).expect("harness: the model-level diff does not apply");
			}
			assert_eq!(m, models[v], "harness: the model-level diffs along a path do not lead to the state of the version");
			let s = shown(&m).expect("harness: state with a nested class without its outer class");
			if let Some(r) = &res { assert_eq!(*r, s); }
			res = Some(s);
		}
		res.unwrap()
	}

	/// one well-formed directory: versions, edges, every lookup key of every version, an unknown version
	fn check_wellformed(t: &mut Tally, tag: &str, g: &G, names: &[String], sts: &[usize], st: Style, order: &[usize], listings: Option<&mut BTreeSet<Vec<usize>>>) {
		let models: Vec<Model> = sts.iter().map(|&s| state(s)).collect();
		let diffs: Vec<MDiff> = g.edges.iter().map(|&(p, c)| mdiff(&models[p], &models[c])).collect();
		let files = files_of(g, names, &models[0], &diffs, st);
		let what = describe(&files, order, &format!("states {sts:?} {st:?}"));
		t.at(what.as_bytes());
		let mut queries: Vec<(usize, String, Split)> = Vec::new();
		for v in 0..g.n { for (k, s) in lookup_keys(&names[v]) { queries.push((v, k, s)); } }
		let mut qs: Vec<String> = queries.iter().map(|q| q.1.clone()).collect();
		qs.push("9.9".to_owned());
		let r = with_dir(tag, &files, order, |d, listed| { if let Some(l) = listings { l.insert(listed); } guarded(|| ask(d, &qs)) });
		t.case(g.n > 1 && sts.iter().any(|s| *s != sts[0]));
		let real = match r {
			Ok(Some(Ok(r))) => r,
			Ok(Some(Err(e))) => { t.fail(what, &format!("resolve refused a well-formed directory: {e}")); return; },
			_ => { t.fail(what, "panic"); return; },
		};
		let mut want_versions: Vec<String> = names.to_vec();
		want_versions.sort();
		if real.versions != want_versions { t.fail(what.clone(), &format!("versions() = {:?}, the directory has {want_versions:?}", real.versions)); }
		let want_edges: BTreeSet<(String, String)> = g.edges.iter().map(|&(p, c)| (names[p].clone(), names[c].clone())).collect();
		if real.edges != want_edges { t.fail(what.clone(), &format!("children() give the edges {:?}, the directory has {want_edges:?}", real.edges)); }
		for (i, (v, k, s)) in queries.iter().enumerate() {
			let want = expected_of(g, &models, &diffs, *v);
			match &real.answers[i] {
				Err(e) => t.fail(what.clone(), &format!("version {:?} is not reachable under {k:?}: {e}", names[*v])),
				Ok(a) => {
					if a.split != *s || a.full != names[*v] { t.fail(what.clone(), &format!("get({k:?}) = ({:?}, {:?}), expected ({s:?}, {:?})", a.split, a.full, names[*v])); }
					if a.mappings.as_ref() != Ok(&want) {
						t.fail(what.clone(), &format!("mappings of {k:?} are {} but root + diffs along the path, extended, are {}", brief(&a.mappings), brief(&Ok(want))));
					}
				},
			}
		}
		if let Ok(a) = real.answers.last().unwrap() { t.fail(what, &format!("unknown version \"9.9\" was resolved to {:?}", a.full)); }
	}

	// ---------------------------------------------------------------------------------------------------------------------
	// the tests
	// ---------------------------------------------------------------------------------------------------------------------
	#[test]
	fn version_is_root_plus_path_diffs() {
		let mut t = Tally::new("version_is_root_plus_path_diffs");
		for g in trees() {
			let names: Vec<String> = (0..g.n).map(|i| vname(i, false)).collect();
			let order: Vec<usize> = (0..g.n).collect();
			for sts in tuples(g.n, N_STATES) {
				for st in [PLAIN, OTHER] { check_wellformed(&mut t, "a", &g, &names, &sts, st, &order, None); }
			}
		}
		t.finish();
	}

	#[test]
	fn every_path_of_a_consistent_graph_gives_the_version() {
		let mut t = Tally::new("every_path_of_a_consistent_graph_gives_the_version");
		// six of the states: 0, 2 (class renamed), 4 (field, comments), 5 (nested class), 6 (renamed, nested twice, parameter), 7
		let pick = [0usize, 2, 4, 5, 6, 7];
		for g in dags() {
			let names: Vec<String> = (0..g.n).map(|i| vname(i, false)).collect();
			let order: Vec<usize> = (0..=g.edges.len()).collect();
			for tu in tuples(g.n, pick.len()) {
				let sts: Vec<usize> = tu.iter().map(|&i| pick[i]).collect();
				check_wellformed(&mut t, "c", &g, &names, &sts, PLAIN, &order, None);
			}
		}
		t.finish();
	}

	#[test]
	fn names_and_creation_order_do_not_matter() {
		let mut t = Tally::new("names_and_creation_order_do_not_matter");
		let mut listings: BTreeMap<usize, BTreeSet<Vec<usize>>> = BTreeMap::new();
		let sts_all = [6usize, 1, 7, 4];
		for g in trees() {
			let sts = &sts_all[..g.n];
			for mask in 0u32..(1 << g.n) {
				for label in perms(g.n) {
					// node v gets version number label[v]; bit v of mask makes it a client~server name
					let names: Vec<String> = (0..g.n).map(|v| vname(label[v], mask >> v & 1 == 1)).collect();
					for order in perms(g.n) {
						check_wellformed(&mut t, "b", &g, &names, sts, PLAIN, &order, Some(listings.entry(g.n).or_default()));
					}
				}
			}
		}
		for g in dags() {
			let sts = &sts_all[..g.n];
			let k = g.edges.len() + 1;
			for mask in [0u32, 0b0101, 0b1010, 0b1111] {
				for label in perms(g.n) {
					let names: Vec<String> = (0..g.n).map(|v| vname(label[v], mask >> v & 1 == 1)).collect();
					for order in [(0..k).collect::<Vec<_>>(), (0..k).rev().collect::<Vec<_>>()] {
						check_wellformed(&mut t, "b", &g, &names, sts, OTHER, &order, None);
					}
				}
			}
		}
		for (n, l) in &listings { println!("INFO names_and_creation_order_do_not_matter: trees with {n} files were listed by the file system in {} different orders", l.len()); }
		t.finish();
	}

	/// Graphs in which the last version has several parents and the diffs into it do NOT agree (edge e leads to its own state):
	/// there is no single "the path"; the reported mappings must still be root + the diffs along ONE path root -> version
	/// (never a mixture, never a diff from elsewhere).
	#[test]
	fn ambiguous_paths_resolve_to_one_of_the_paths() {
		let mut t = Tally::new("ambiguous_paths_resolve_to_one_of_the_paths");
		let pick = [0usize, 3, 5, 7];
		let mut depends_on_names = 0u64;
		for g in dags() {
			let last = g.n - 1;
			// keep the graphs whose only version with several parents is the last one
			if (1..last).any(|v| g.edges.iter().filter(|e| e.1 == v).count() > 1) { continue; }
			let into_last: Vec<usize> = (0..g.edges.len()).filter(|&e| g.edges[e].1 == last).collect();
			for inner in tuples(last, pick.len()) {
				for targets in tuples(into_last.len(), pick.len()) {
					let models: Vec<Model> = inner.iter().map(|&i| state(pick[i])).collect();
					let tgt: Vec<Model> = targets.iter().map(|&i| state(pick[i])).collect();
					let diffs: Vec<MDiff> = g.edges.iter().enumerate().map(|(e, &(p, c))| {
						if c == last { mdiff(&models[p], &tgt[into_last.iter().position(|x| *x == e).unwrap()]) } else { mdiff(&models[p], &models[c]) }
					}).collect();
					// the candidates: for every path the model-level fold (it ends in the target state of the last edge of the path)
					let mut cands: Vec<Model> = Vec::new();
					for p in paths(&g, last) {
						let mut m = models[0].clone();
						for w in p.windows(2) {
							let e = g.edges.iter().position(|e| *e == (w[0], w[1])).unwrap();
							m = mapply(&m, &diffs[e]).expect("harness: the model-level diff does not apply");
						}
						cands.push(shown(&m).expect("harness: state"));
					}
					let mut seen: BTreeSet<String> = BTreeSet::new();
					for label in [vec![0usize, 1, 2, 3], vec![3, 2, 1, 0], vec![1, 3, 0, 2]] {
						let names: Vec<String> = (0..g.n).map(|v| vname(label[v], false)).collect();
						let files = files_of(&g, &names, &models[0], &diffs, PLAIN);
						let order: Vec<usize> = (0..files.len()).collect();
						let what = describe(&files, &order, &format!("edges {:?}, states of versions 0.. {:?}, states the edges into the last version lead to {:?}", g.edges, inner.iter().map(|&i| pick[i]).collect::<Vec<_>>(), targets.iter().map(|&i| pick[i]).collect::<Vec<_>>()));
						t.at(what.as_bytes());
						let q = vec![names[last].clone()];
						let r = with_dir("e", &files, &order, |d, _| guarded(|| ask(d, &q)));
						t.case(cands.iter().any(|c| *c != cands[0]));
						match r {
							Ok(Some(Ok(real))) => match &real.answers[0] {
								Ok(Answer { mappings: Ok(m), .. }) => {
									seen.insert(format!("{m:?}"));
									if !cands.contains(m) { t.fail(what, &format!("mappings {} are not root + diffs along any path", brief(&Ok(m.clone())))); }
								},
								Ok(Answer { mappings: Err(_), .. }) | Err(_) => {}, // refusing an ambiguous directory is fine
							},
							Ok(Some(Err(_))) => {},
							_ => t.fail(what, "panic"),
						}
					}
					if seen.len() > 1 { depends_on_names += 1; }
				}
			}
		}
		println!("INFO ambiguous_paths_resolve_to_one_of_the_paths: in {depends_on_names} directories the chosen path depended on the version names / listing order");
		t.finish();
	}

	/// what a malformed directory must lead to
	enum Demand {
		/// `resolve` must refuse
		Refuse,
		/// `resolve` may refuse; if it does not, each of these versions must be refused by `get` or `apply_diffs`,
		/// and each of the other listed (version, state) must be refused or be reported exactly
		NoAnswerFor(Vec<&'static str>, Vec<(&'static str, usize)>),
	}
	fn check_malformed(t: &mut Tally, family: &str, files: &[(String, String)], demand: &Demand) { check_malformed_in(t, family, files, demand, perms(files.len())) }
	fn check_malformed_in(t: &mut Tally, family: &str, files: &[(String, String)], demand: &Demand, orders: Vec<Vec<usize>>) {
		for order in orders {
			let what = describe(files, &order, family);
			t.at(what.as_bytes());
			let (bad, good): (Vec<&str>, Vec<(&str, usize)>) = match demand { Demand::Refuse => (vec![], vec![]), Demand::NoAnswerFor(b, g) => (b.clone(), g.clone()) };
			let qs: Vec<String> = bad.iter().map(|s| s.to_string()).chain(good.iter().map(|g| g.0.to_string())).collect();
			let r = with_dir("d", files, &order, |d, _| guarded(|| ask(d, &qs)));
			t.case(true);
			match (r, demand) {
				(Ok(Some(Err(_))), _) => {},
				(Ok(Some(Ok(real))), Demand::Refuse) => t.fail(what, &format!("resolve accepted the directory (versions {:?})", real.versions)),
				(Ok(Some(Ok(real))), Demand::NoAnswerFor(..)) => {
					for (i, q) in qs.iter().enumerate() {
						if let Ok(Answer { mappings: Ok(m), full, .. }) = &real.answers[i] {
							if i < bad.len() { t.fail(what.clone(), &format!("version {q:?} ({full:?}) was resolved to {}", brief(&Ok(m.clone())))); }
							else if *m != shown(&state(good[i - bad.len()].1)).unwrap() { t.fail(what.clone(), &format!("version {q:?} was resolved to {}", brief(&Ok(m.clone())))); }
						}
					}
				},
				_ => t.fail(what, "panic"),
			}
		}
	}
	fn rootf(name: &str, s: usize) -> (String, String) { (format!("{name}.tiny"), root_text(&state(s), PLAIN)) }
	fn edgef(p: &str, c: &str, from: usize, to: usize) -> (String, String) { (format!("{p}#{c}.tinydiff"), diff_text(&mdiff(&state(from), &state(to)), PLAIN)) }

	#[test]
	fn malformed_directories_are_refused() {
		let mut t = Tally::new("malformed_directories_are_refused");
		use Demand::*;
		// names: plain and client~server
		for (r, x, y, z) in [("1.0", "1.1", "1.2", "1.3"), ("1.0~server-0.0", "1.1~server-0.1", "1.2", "1.3~server-0.3"), ("1.3", "1.2~server-0.2", "1.1~server-0.1", "1.0")] {
			// the halves under which x, y, z are asked for
			let h = |n: &'static str| -> Vec<&'static str> { match n.split_once('~') { Some((a, b)) => vec![a, b], None => vec![n] } };
			let hs = |ns: &[&'static str]| -> Vec<&'static str> { ns.iter().flat_map(|n| h(n)).collect() };
			let hg = |ns: &[(&'static str, usize)]| -> Vec<(&'static str, usize)> { ns.iter().flat_map(|(n, s)| h(n).into_iter().map(move |k| (k, *s))).collect() };
			// --- no root
			check_malformed(&mut t, "no root: empty directory", &[], &Refuse);
			check_malformed(&mut t, "no root: one diff", &[edgef(r, x, 0, 1)], &Refuse);
			check_malformed(&mut t, "no root: chain of diffs", &[edgef(r, x, 0, 1), edgef(x, y, 1, 2)], &Refuse);
			check_malformed(&mut t, "no root: star of diffs", &[edgef(r, x, 0, 1), edgef(r, y, 0, 2), edgef(r, z, 0, 3)], &Refuse);
			// --- two roots
			check_malformed(&mut t, "two roots", &[rootf(r, 0), rootf(x, 1)], &Refuse);
			check_malformed(&mut t, "two roots, connected", &[rootf(r, 0), rootf(x, 1), edgef(r, x, 0, 1)], &Refuse);
			check_malformed(&mut t, "two roots with a child each", &[rootf(r, 0), rootf(x, 1), edgef(r, y, 0, 2), edgef(x, z, 1, 3)], &Refuse);
			check_malformed(&mut t, "three roots", &[rootf(r, 0), rootf(x, 1), rootf(y, 2)], &Refuse);
			check_malformed(&mut t, "two roots, the second below the first", &[rootf(r, 0), edgef(r, x, 0, 1), edgef(x, y, 1, 2), rootf(y, 2)], &Refuse);
			// --- cycles (every version on the cycle must stay without an answer; versions before it: refused or exact)
			check_malformed(&mut t, "cycle x -> y -> x below the root", &[rootf(r, 0), edgef(r, x, 0, 1), edgef(x, y, 1, 2), edgef(y, x, 2, 1)], &NoAnswerFor(hs(&[x, y]), hg(&[(r, 0)])));
			check_malformed(&mut t, "self loop x -> x", &[rootf(r, 0), edgef(r, x, 0, 1), edgef(x, x, 1, 1)], &NoAnswerFor(hs(&[x]), hg(&[(r, 0)])));
			check_malformed(&mut t, "cycle through the root", &[rootf(r, 0), edgef(r, x, 0, 1), edgef(x, r, 1, 0)], &NoAnswerFor(hs(&[r, x]), vec![]));
			check_malformed(&mut t, "self loop on the root", &[rootf(r, 0), edgef(r, r, 0, 0)], &NoAnswerFor(hs(&[r]), vec![]));
			check_malformed(&mut t, "cycle x -> y -> z -> x", &[rootf(r, 0), edgef(r, x, 0, 1), edgef(x, y, 1, 2), edgef(y, z, 2, 3), edgef(z, x, 3, 1)], &NoAnswerFor(hs(&[x, y, z]), hg(&[(r, 0)])));
			check_malformed(&mut t, "cycle y -> z -> y at the end of a chain", &[rootf(r, 0), edgef(r, x, 0, 1), edgef(x, y, 1, 2), edgef(y, z, 2, 3), edgef(z, y, 3, 2)], &NoAnswerFor(hs(&[y, z]), hg(&[(r, 0), (x, 1)])));
			check_malformed(&mut t, "cycle back to the root over three versions", &[rootf(r, 0), edgef(r, x, 0, 1), edgef(x, y, 1, 2), edgef(y, r, 2, 0)], &NoAnswerFor(hs(&[r, x, y]), vec![]));
			check_malformed(&mut t, "cycle apart from the root", &[rootf(r, 0), edgef(x, y, 1, 2), edgef(y, x, 2, 1)], &NoAnswerFor(hs(&[x, y]), hg(&[(r, 0)])));
			// --- unreachable versions
			check_malformed(&mut t, "edge apart from the root", &[rootf(r, 0), edgef(x, y, 1, 2)], &NoAnswerFor(hs(&[x, y]), hg(&[(r, 0)])));
			check_malformed(&mut t, "chain apart from the root", &[rootf(r, 0), edgef(r, x, 0, 1), edgef(y, z, 2, 3)], &NoAnswerFor(hs(&[y, z]), hg(&[(r, 0), (x, 1)])));
			check_malformed(&mut t, "a parent of the root", &[rootf(r, 0), edgef(x, r, 1, 0)], &NoAnswerFor(hs(&[x]), hg(&[(r, 0)])));
			check_malformed(&mut t, "a parent of the root and a child", &[rootf(r, 0), edgef(x, r, 1, 0), edgef(r, y, 0, 2)], &NoAnswerFor(hs(&[x]), hg(&[(r, 0), (y, 2)])));
			check_malformed(&mut t, "second, unreachable parent of a version", &[rootf(r, 0), edgef(r, x, 0, 1), edgef(y, x, 2, 1)], &NoAnswerFor(hs(&[y]), hg(&[(r, 0), (x, 1)])));
			check_malformed(&mut t, "unreachable parent chain", &[rootf(r, 0), edgef(r, x, 0, 1), edgef(z, y, 3, 2), edgef(y, x, 2, 1)], &NoAnswerFor(hs(&[y, z]), hg(&[(r, 0), (x, 1)])));
			// --- unknown versions of a well-formed directory
			check_malformed(&mut t, "unknown versions", &[rootf(r, 0), edgef(r, x, 0, 1), edgef(x, y, 1, 2)],
				&NoAnswerFor(vec!["1.3", "9.9", "", "1", "1.0.tiny", "1.0#1.1", "server-0.3", "~", "#"].into_iter().filter(|u| !hs(&[r, x, y]).contains(u)).collect(), hg(&[(r, 0), (x, 1), (y, 2)])));
		}
		t.finish();
	}

	/// every directed graph over the root and three more versions with at most five edges that holds a cycle (entered once, twice, over two branches, through the root, apart
	/// from it, several cycles): no version on a cycle may get an answer; every other version is refused or reported exactly
	#[test]
	fn every_small_graph_with_a_cycle_is_refused_or_answers_only_outside_the_cycle() {
		let mut t = Tally::new("every_small_graph_with_a_cycle_is_refused_or_answers_only_outside_the_cycle");
		for names in [["1.0", "1.1", "1.2", "1.3"], ["1.0~server-0.0", "1.1", "1.2~server-0.2", "1.3"]] {
			let h = |n: &'static str| -> Vec<&'static str> { match n.split_once('~') { Some((a, b)) => vec![a, b], None => vec![n] } };
			let all: Vec<(usize, usize)> = (0..4).flat_map(|a| (0..4).filter(move |b| *b != a).map(move |b| (a, b))).collect();
			for mask in 1u32..(1 << all.len()) {
				if mask.count_ones() > 5 { continue; }
				let edges: Vec<(usize, usize)> = all.iter().enumerate().filter(|(i, _)| mask & (1 << i) != 0).map(|(_, e)| *e).collect();
				// reach[a][b]: a path of at least one edge from a to b
				let mut reach = [[false; 4]; 4];
				for &(a, b) in &edges { reach[a][b] = true; }
				for k in 0..4 { for a in 0..4 { for b in 0..4 { if reach[a][k] && reach[k][b] { reach[a][b] = true; } } } }
				let on_cycle: Vec<usize> = (0..4).filter(|&v| reach[v][v]).collect();
				if on_cycle.is_empty() { continue; }
				// versions that occur in the directory at all
				let occurs = |v: usize| v == 0 || edges.iter().any(|&(a, b)| a == v || b == v);
				let mut files = vec![rootf(names[0], 0)];
				for &(a, b) in &edges { files.push(edgef(names[a], names[b], a, b)); }
				let bad: Vec<&'static str> = on_cycle.iter().flat_map(|&v| h(names[v])).collect();
				let good: Vec<(&'static str, usize)> = (0..4).filter(|&v| occurs(v) && !on_cycle.contains(&v)).flat_map(|v| h(names[v]).into_iter().map(move |k| (k, v))).collect();
				let n = files.len();
				let orders: Vec<Vec<usize>> = if n <= 4 { perms(n) } else {
					(0..n).flat_map(|r| { let fwd: Vec<usize> = (0..n).map(|i| (i + r) % n).collect(); let mut bwd = fwd.clone(); bwd.reverse(); vec![fwd, bwd] }).collect()
				};
				let entries = edges.iter().filter(|&&(a, b)| !on_cycle.contains(&a) && on_cycle.contains(&b)).count();
				check_malformed_in(&mut t, &format!("graph {edges:?} with a cycle over {on_cycle:?} entered by {entries} edge(s)"), &files, &Demand::NoAnswerFor(bad, good), orders);
			}
		}
		t.finish();
	}

	/// deliberately false: "every version has the mappings of the root" (the diffs along the path would not matter)
	#[test]
	fn canary_must_fail() {
		let mut t = Tally::new("canary_must_fail");
		let g = tree(&[0, 1]);
		let names: Vec<String> = (0..g.n).map(|i| vname(i, false)).collect();
		for sts in tuples(g.n, 3) {
			let models: Vec<Model> = sts.iter().map(|&s| state(s)).collect();
			let diffs: Vec<MDiff> = g.edges.iter().map(|&(p, c)| mdiff(&models[p], &models[c])).collect();
			let files = files_of(&g, &names, &models[0], &diffs, PLAIN);
			let order: Vec<usize> = (0..files.len()).collect();
			let r = with_dir("z", &files, &order, |d, _| guarded(|| ask(d, &names)));
			t.case(true);
			let Ok(Some(Ok(real))) = r else { t.fail(format!("{sts:?}"), "canary: no answer"); continue; };
			for a in real.answers.iter().flatten() {
				if a.mappings.as_ref() != Ok(&shown(&models[0]).unwrap()) { t.fail(format!("{sts:?}"), "canary"); }
			}
		}
		t.finish();
	}
