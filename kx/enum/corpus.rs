	// corpus check for the class reader and writer (C01 / C02, "generated and corpus classes"): the class files of the installed JDK (module java.base of
	// /usr/lib/jvm/..., extracted with `jimage`) are read with duke, written with duke, read again, and the written files are shown to `javap`, the JDK's own
	// class file reader, next to the originals.  Oracle: (1) duke reads every corpus class; (2) the tree read from the written bytes equals the tree read from the
	// original (labels are abstract, so different instruction widths do not matter); (3) javap accepts every written file; (4) javap's listing of the written file
	// -- members with flags and descriptors, constant values, per method the instruction mnemonics with their symbolic operands (`// Method java/lang/Object."<init>":()V`),
	// immediate operands, switch keys and exception types -- equals its listing of the original after normalisation: constant pool indices (`#12`), bytecode offsets,
	// branch targets and the width of ldc / goto / jsr are dropped, because the writer may lay the pool out differently.
	// Not compared by javap here (covered by (2) only): line numbers, local variable tables, annotations, StackMapTable (dropped by the writer: known finding), inner class records.
	use std::path::{Path, PathBuf};
	use std::process::Command;
	use std::io::Cursor;

	fn jdk_home() -> PathBuf {
		let java = std::fs::canonicalize("/usr/bin/java").expect("harness: /usr/bin/java not found");
		java.parent().and_then(|p| p.parent()).expect("harness: unexpected JDK layout").to_path_buf()
	}
	struct Scratch(PathBuf);
	impl Drop for Scratch { fn drop(&mut self) { let _ = std::fs::remove_dir_all(&self.0); } }
	fn scratch(tag: &str) -> Scratch {
		let base = std::env::var_os("CARGO_TARGET_TMPDIR").map(PathBuf::from).unwrap_or_else(std::env::temp_dir);
		let d = base.join(format!("verif-corpus-{tag}-{}", std::process::id()));
		let _ = std::fs::remove_dir_all(&d);
		std::fs::create_dir_all(&d).expect("harness: cannot create the scratch directory");
		Scratch(d)
	}
	fn class_files(dir: &Path, out: &mut Vec<PathBuf>) {
		let mut entries: Vec<_> = std::fs::read_dir(dir).map(|r| r.filter_map(|e| e.ok()).map(|e| e.path()).collect()).unwrap_or_default();
		entries.sort();
		for p in entries {
			if p.is_dir() { class_files(&p, out); }
			else if p.extension().is_some_and(|e| e == "class") && p.file_name().is_some_and(|n| n != "module-info.class") { out.push(p); }
		}
	}
	fn extract(include: &str, into: &Path) -> Vec<PathBuf> {
		let modules = jdk_home().join("lib/modules");
		let st = Command::new("jimage").arg("extract").arg("--dir").arg(into).arg("--include").arg(format!("regex:{include}")).arg(&modules).output().expect("harness: cannot run jimage");
		assert!(st.status.success(), "harness: jimage failed: {}", String::from_utf8_lossy(&st.stderr));
		let mut v = vec![];
		class_files(into, &mut v);
		v
	}
	fn strip_pool_indices(s: &str) -> String {
		// javap pads its columns to the width of the index: runs of blanks are one blank
		let s = &s.split_whitespace().collect::<Vec<_>>().join(" ");
		let mut out = String::with_capacity(s.len());
		let mut it = s.chars().peekable();
		while let Some(c) = it.next() {
			out.push(c);
			if c == '#' { while it.peek().is_some_and(|d| d.is_ascii_digit()) { it.next(); } }
		}
		out
	}
	/// javap's listing without what the writer is free to choose: pool indices, bytecode offsets, branch targets, the width of ldc / goto / jsr
	fn normalise(listing: &str) -> Vec<String> {
		let mut out = vec![];
		for line in listing.lines() {
			let t = line.trim_start();
			let indent = line.len() - t.len();
			// `  12: invokevirtual #7  // Method ...`, switch entries `  1: 36`, `default: 40`
			if indent > 0 {
				if let Some((head, rest)) = t.split_once(": ") {
					if !head.is_empty() && head.chars().all(|c| c.is_ascii_digit() || c == '-') {
						let rest = rest.trim();
						let mnemonic = rest.split_whitespace().next().unwrap_or("");
						if mnemonic.chars().all(|c| c.is_ascii_digit()) { out.push(format!("    case {head}")); continue; }
						let m = match mnemonic { "ldc_w" => "ldc", "goto_w" => "goto", "jsr_w" => "jsr", x => x };
						let branch = m.starts_with("if") || matches!(m, "goto" | "jsr" | "tableswitch" | "lookupswitch");
						if branch { out.push(format!("    {m}")); } else { out.push(format!("    {m}{}", strip_pool_indices(&rest[mnemonic.len()..]))); }
						continue;
					}
					if head == "default" { out.push("    default".to_string()); continue; }
				}
				// exception table rows: from to target type
				let cols: Vec<&str> = t.split_whitespace().collect();
				if cols.len() >= 4 && cols[..3].iter().all(|c| c.chars().all(|d| d.is_ascii_digit())) { out.push(format!("    exception {}", cols[3..].join(" "))); continue; }
			}
			out.push(strip_pool_indices(line));
		}
		out
	}
	/// a method as text, without what the writer drops or the reader numbers freely: the stack map frames (the writer drops the StackMapTable: known finding of C02, reported by
	/// the group cls), labels that nothing refers to any more once the frames are gone, and the numbering of the labels (ids are handed out in the order of creation)
	fn canonical(m: &crate::tree::method::Method) -> String {
		let mut m = m.clone();
		if let Some(c) = &mut m.code {
			for e in &mut c.instructions { e.frame = None; }
			// an empty LocalVariableTable states no fact: the reader reports it as Some([]), the writer writes a table only when it has an entry (reading fixed in the group file)
			if c.local_variables.as_ref().is_some_and(|l| l.is_empty()) { c.local_variables = None; }
		}
		let text = format!("{m:?}");
		const KEY: &str = "Label { id: ";
		let mut occ: Vec<(usize, usize, u32)> = vec![];     // start, end (after the closing brace), id
		let mut i = 0;
		while let Some(p) = text[i..].find(KEY) {
			let st = i + p;
			let ds = st + KEY.len();
			let de = ds + text[ds..].find(' ').unwrap_or(0);
			let id: u32 = text[ds..de].parse().unwrap_or(u32::MAX);
			let en = de + text[de..].find('}').map_or(0, |x| x + 1);
			occ.push((st, en, id));
			i = en;
		}
		let mut count = std::collections::BTreeMap::new();
		for o in &occ { *count.entry(o.2).or_insert(0u32) += 1; }
		let mut renum = std::collections::BTreeMap::new();
		let mut out = String::with_capacity(text.len());
		let mut pos = 0;
		for (st, en, id) in occ {
			const DEF: &str = "label: Some(";
			if count[&id] == 1 && text[..st].ends_with(DEF) && text[en..].starts_with(')') {
				out.push_str(&text[pos..st - DEF.len()]); out.push_str("label: None"); pos = en + 1;
			} else {
				let n = renum.len();
				let k = *renum.entry(id).or_insert(n);
				out.push_str(&text[pos..st]); out.push_str(&format!("Label#{k}")); pos = en;
			}
		}
		out.push_str(&text[pos..]);
		out
	}
	fn javap(files: &[PathBuf]) -> Result<String, String> {
		let o = Command::new("javap").args(["-p", "-s", "-c", "-constants"]).args(files).output().map_err(|e| format!("cannot run javap: {e}"))?;
		if !o.status.success() || !o.stderr.is_empty() { return Err(String::from_utf8_lossy(&o.stderr).lines().take(3).collect::<Vec<_>>().join(" | ")); }
		Ok(String::from_utf8_lossy(&o.stdout).into_owned())
	}
	fn run_corpus(name: &'static str, include: &str, want_at_least: usize) {
		let mut t = Tally::new(name);
		let sc = scratch(name);
		let (orig_dir, new_dir) = (sc.0.join("orig"), sc.0.join("new"));
		let files = extract(include, &orig_dir);
		assert!(files.len() >= want_at_least, "harness: only {} class files extracted for {include}", files.len());
		let mut pairs: Vec<(PathBuf, PathBuf)> = vec![];
		for f in &files {
			let rel = f.strip_prefix(&orig_dir).unwrap().to_path_buf();
			let what = rel.display().to_string();
			t.at(what.as_bytes());
			t.case(true);
			let bytes = std::fs::read(f).expect("harness: cannot read an extracted file");
			let tree = match guarded(|| crate::read_class(&mut Cursor::new(&bytes))) {
				Ok(Some(Ok(x))) => x,
				Ok(Some(Err(e))) => { t.fail(what, &format!("read_class refuses a class of the JDK: {}", format!("{e:#}").chars().take(300).collect::<String>())); continue; },
				_ => { t.fail(what, "read_class panicked"); continue; },
			};
			let written = match guarded(|| { let mut v = Vec::new(); crate::write_class(&mut v, &tree).map(|_| v) }) {
				Ok(Some(Ok(v))) => v,
				Ok(Some(Err(e))) => { t.fail(what, &format!("write_class refuses the tree read_class returned: {}", format!("{e:#}").chars().take(300).collect::<String>())); continue; },
				_ => { t.fail(what, "write_class panicked"); continue; },
			};
			match guarded(|| crate::read_class(&mut Cursor::new(&written))) {
				Ok(Some(Ok(again))) => {
					// compared through Debug (derived PartialEq says NaN != NaN and java.lang.Double.NaN is in the corpus), method by method, after `canonical`
					let (mut want, mut got) = (tree.clone(), again);
					let (wm, gm) = (std::mem::take(&mut want.methods), std::mem::take(&mut got.methods));
					if format!("{want:?}") != format!("{got:?}") { t.fail(what.clone(), "the tree read from the written bytes differs from the tree read from the original at the class or field level"); continue; }
					if wm.len() != gm.len() { t.fail(what.clone(), &format!("{} methods read from the original, {} from the written bytes", wm.len(), gm.len())); continue; }
					if let Some((a, b)) = wm.iter().zip(&gm).find(|(a, b)| canonical(a) != canonical(b)) {
						let (ca, cb) = (canonical(a), canonical(b));
						let i = ca.bytes().zip(cb.bytes()).position(|(x, y)| x != y).unwrap_or(ca.len().min(cb.len()));
						let cut = |s: &str| -> String { let st = i.saturating_sub(60); s.chars().skip(st).take(160).collect() };
						t.fail(what.clone(), &format!("the tree read from the written bytes differs from the tree read from the original (frames aside) in method {:?} {:?}: original ..{}.. written ..{}..", a.name, a.descriptor, cut(&ca), cut(&cb))); continue;
					}
				},
				Ok(Some(Err(e))) => { t.fail(what, &format!("read_class refuses what write_class wrote: {}", format!("{e:#}").chars().take(300).collect::<String>())); continue; },
				_ => { t.fail(what, "read_class panicked on what write_class wrote"); continue; },
			}
			let dst = new_dir.join(&rel);
			std::fs::create_dir_all(dst.parent().unwrap()).unwrap();
			std::fs::write(&dst, &written).unwrap();
			pairs.push((f.clone(), dst));
		}
		// the independent reader: javap on both, in batches
		for chunk in pairs.chunks(150) {
			let (a, b): (Vec<PathBuf>, Vec<PathBuf>) = chunk.iter().cloned().unzip();
			let first = chunk[0].0.strip_prefix(&orig_dir).unwrap().display().to_string();
			t.at(first.as_bytes());
			t.case(false);
			let la = match javap(&a) { Ok(x) => x, Err(e) => panic!("harness: javap fails on the original files starting at {first}: {e}") };
			let lb = match javap(&b) { Ok(x) => x, Err(e) => { t.fail(format!("batch starting at {first}"), &format!("javap refuses a written file: {e}")); continue; } };
			let (na, nb) = (normalise(&la), normalise(&lb));
			if na != nb {
				let i = na.iter().zip(&nb).position(|(x, y)| x != y).unwrap_or(na.len().min(nb.len()));
				let header = na[..i.min(na.len())].iter().rev().find(|l| l.contains("class ") || l.contains("interface ")).cloned().unwrap_or_default();
				let member = na[..i.min(na.len())].iter().rev().find(|l| l.starts_with("  ") && !l.starts_with("    ") && l.contains('(')).cloned().unwrap_or_default();
				t.fail(format!("{} / {}", header.trim(), member.trim()), &format!("javap lists the written file differently: original `{}`, written `{}`", na.get(i).map_or("<end>", |s| s.trim()), nb.get(i).map_or("<end>", |s| s.trim())));
			}
		}
		println!("NOTE {name}: {} class files of the JDK ({})", files.len(), jdk_home().display());
		t.finish();
	}
	#[test]
	fn jdk_java_lang_and_util() { run_corpus("jdk_java_lang_and_util", r"/java\.base/java/(lang|util)/[A-Za-z$0-9]*\.class", 500); }
	#[test]
	fn jdk_java_base_java() { run_corpus("jdk_java_base_java", r"/java\.base/java/.*\.class", 2000); }
	/// deliberately false: "javap lists every class the same way as java.lang.Object"
	#[test]
	fn canary_must_fail() {
		let mut t = Tally::new("canary_must_fail");
		let sc = scratch("canary");
		let files = extract(r"/java\.base/java/lang/(Object|String)\.class", &sc.0);
		t.case(true);
		let a = javap(&files[..1]).unwrap();
		let b = javap(&files[1..2]).unwrap();
		if normalise(&a) != normalise(&b) { t.fail("java/lang/Object vs java/lang/String".to_string(), "canary"); }
		t.finish();
	}
