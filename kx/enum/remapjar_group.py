"""Enumeration group `remapjar` (C07): the jar level of dukebox::remap (harness kx/enum/remapjar.rs).  Placeholder texts, completed below."""
GROUP = dict(
    crate='dukebox', file='dukebox/src/remap.rs', harness_file='remapjar.rs',
    functions=[], trusted=[],
    tests=[
        dict(name='jar_classes_are_renamed_and_stored_under_their_new_names', props=['C07'], tier='quick', timeout=300, text='x', bound='x'),
        dict(name='jar_in_every_input_form', props=['C07'], tier='quick', timeout=300, text='x', bound='x'),
        dict(name='jar_non_class_entries_are_untouched', props=['C07'], tier='quick', timeout=300, text='x', bound='x'),
        dict(name='jar_entries_in_every_order', props=['C07'], tier='quick', timeout=300, text='x', bound='x'),
        dict(name='jar_unparsed_entries_are_copied_verbatim', props=['C07'], tier='quick', timeout=300, text='x', bound='x'),
        dict(name='jar_remap__colliding_class_names', props=['C07'], tier='quick', timeout=300, text='x', bound='x'),
        dict(name='jar_remap__multi_release_class_entries', props=['C07'], tier='quick', timeout=300, text='x', bound='x'),
        dict(name='canary_must_fail', props=[], canary=True, text='must fail', bound=''),
    ])
