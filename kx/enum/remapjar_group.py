"""Enumeration group `remapjar` (C07): the JAR LEVEL of dukebox::remap (harness kx/enum/remapjar.rs).

The per-position traversal of the class tree (`impl Mappable for ...`) is checked elsewhere; this group covers what is built around it:
remap(jar, remapper) (entry loop, remap_jar_entry_name / remap_jar_entry_name_java, non-class entries, directories), writing the result
(ParsedJar::to_mem / write), reading it back (zip), lazily parsed class entries (dukebox/src/storage/*).
See kx/enum/remapjar_REPORT.md for the universes, the oracle rules with their source sentences, the mutants killed and the deviations found.
"""

_CLASSES = ('four classes written by the harness: p/A (extends ext/E outside the jar, implements p/I and java/lang/Runnable; fields f:Lp/B; and the constant c:I = 7; <init>, an abstract run()V and '
            'm(Lp/A;[Lp/B;I)Lp/B; with 31 instructions that name p/B, p/A$In, Root, [Lp/B;, [[Lp/A;, fields and methods of p/A, p/B, Root, members inherited from p/A and ext/E named through the sub class p/B, '
            'string constants "p/A" and "Lp/B;" that only look like names, line numbers), p/B (extends p/A, overrides m), p/A$In (version 45.3, synthetic field this$0:Lp/A;), Root (default package, version 61)')
_TABLES = ('class tables: p/A in {unmapped, p/X, q/r/A, X, p/B}, p/B in {unmapped, p/Y, p/A, q/r/B}, p/A$In in {unmapped, p/X$In, p/A$Ren}, Root in {unmapped, r/Root}, ext/E in {unmapped, ext/F} '
           '(renamed in place, moved to another package, moved to / out of the default package, swapped, an inner class renamed with and without its outer class, a super type outside the jar renamed)')
_MEMBERS = ('member tables (looked up in the owner, then in its super types): 0 = empty; 1 = fields p/A.f->k, p/B.g->h, ext/E.e->ee, p/A$In.this$0->outer and methods p/A.m->n, ext/E.em->en, Root.s->t, '
            'java/lang/Runnable.run->exec; 2 and 3 = the two halves, 3 with p/B.m->n2 next to p/A.m->n')
_FORMS = ('input forms: ParsedJar with every class as bytes (ClassRepr::Vec), as trees (ClassRepr::Parsed), alternating; zip archive in memory (UnnamedMemJar) deflated, stored')
_OBSERVED = ('Observed: the returned ParsedJar (names, kinds), the archive written by ParsedJar::to_mem read with the zip crate (every name once; classes read by the harness\' own strict class file reader and '
             'compared field by field with the expected model; duke::read_class agrees on the class name; non-class entries byte for byte), and the same archive re-opened through dukebox '
             '(UnnamedMemJar::open, OpenedJar::names / entry_keys / by_name, JarEntry::to_jar_entry_enum, IsClass::read, Jar::get_super_classes_provider == the renamed super type table).')

GROUP = dict(
    crate='dukebox', file='dukebox/src/remap.rs', harness_file='remapjar.rs',
    functions=['dukebox/src/remap.rs::remap', 'dukebox/src/remap.rs::remap_jar_entry_name', 'dukebox/src/remap.rs::remap_jar_entry_name_java', 'dukebox/src/remap.rs::remap_class',
               'dukebox/src/remap.rs::remap_other',
               'dukebox/src/storage/parsed.rs::ParsedJar (Jar, OpenedJar, JarEntry impls; from_jar, write, to_mem)',
               'dukebox/src/storage/zip_impls.rs::ZipArchive (OpenedJar impl), ZipFile (JarEntry impl: class / other / directory by name)',
               'dukebox/src/storage/zip_mem_unnamed.rs::UnnamedMemJar (Jar impl)',
               'dukebox/src/storage/lazy_class_file.rs::ClassRepr (IsClass impls: read, write, into_class_repr)', 'dukebox/src/storage/is_class.rs::VecClass (IsClass impl)',
               'dukebox/src/storage/jar_entry.rs::JarEntryEnum::try_map_both', 'dukebox/src/storage/opened_jar.rs::OpenedJar::get_super_classes_provider, read_classes_into',
               'quill/src/remapper.rs::ARemapper / BRemapper provided methods (map_class, map_class_any, map_field, map_field_ref, map_method, map_method_ref, map_*_desc) as called by remap'],
    trusted=['remapjar harness (kx/enum/remapjar.rs): own model of a jar (ordered entries: class, non-class, directory), of a class (version, flags, name, super class, interfaces, fields with an optional int constant, '
             'methods with max_stack / max_locals, 17 kinds of instructions that name classes / fields / methods or load constants, line numbers, SourceFile) and of a remapper (class -> class, (class, field, descriptor) -> name, '
             '(class, method, descriptor) -> name, a super type relation for the lookup of inherited members); the remapper given to the real code is a BRemapper of the harness that answers map_class_fail / map_field_fail / '
             'map_method_fail from these tables. Class bytes are produced by the harness\' own class file writer (with an unused constant, so a verbatim copy is told from a re-written class) and the result is read by the harness\' '
             'own strict class file reader (any attribute, opcode or constant shape outside the model is an error); archives are written and read with the zip crate directly; trees handed over as ClassRepr::Parsed are what '
             'duke::read_class yields for these bytes (trusted here, checked by the group `cls`); a self check before every test: own writer / own reader / duke reader+writer agree on every fixture class.',
             'KEPT OUT of the class model on purpose, because known_findings.jsonl already lists them for C07: generic signatures, unknown attributes, Module / ModulePackages / ModuleMainClass, record components; '
             'also absent: annotations, inner class / enclosing method / nest records, exception tables, stack map frames, local variable tables, invokedynamic (all per-position traversal, covered by the class-level checks).',
             'Not judged (C07 is silent): the order of the entries of the result, time stamps, compression, whether directory entries are created for / removed with moved classes (the statement says non-class entries are unchanged: '
             'directories are expected to stay as they are), the content of text files that name classes (manifest Main-Class, META-INF/services): expected byte-identical, as the statement says.',
             'Remappers that send two class entries of the jar to one name are outside the universe (decision of the integrator, DESIGN 10.7): the sentence "each class entry is stored under the name of its remapped class" has no model '
             'for them, neither an error nor any result can satisfy it. The harness file still contains the test jar_remap__colliding_class_names (the unchanged code answers Ok with one class silently replaced: resulting_entries.insert '
             'overwrites) but it is not registered and never reported as a violation of C07.'],
    tests=[
        dict(name='jar_classes_renamed_member_tables_none_and_all', props=['C07'], tier='quick', timeout=300,
             text='remap of a jar: every class entry of the input yields exactly one class entry, stored under the new name of its class + ".class", holding the class with every class / field / method reference '
                  '(own name, super class, interfaces, declarations, descriptors, instructions incl. array types and class constants, members inherited from super types inside and outside the jar) replaced by what the remapper answers '
                  'and everything else (version, flags, max_stack / max_locals, instruction stream, string and int constants that look like names, ConstantValue, line numbers, SourceFile) unchanged; '
                  'directories and non-class entries keep name and bytes; the result has no other entry; it is written by to_mem, re-opens as a zip archive with unique names and well-formed classes. ' + _OBSERVED,
             bound='every non-empty subset of ' + _CLASSES + ', between META-INF/, META-INF/MANIFEST.MF, p/A.txt (with p/A) and p/; x the 120 ' + _TABLES + ' with ext/E unmapped that give the class entries of the jar different names; '
                   'x member tables 0 and 1; ' + _MEMBERS + '; the input form rotates with the case number; ' + _FORMS + '; 3504 cases'),
        dict(name='jar_classes_renamed_member_tables_halves', props=['C07'], tier='quick', timeout=300,
             text='the same with partial member tables (a member renamed for one owner and not for another, the nearest listed declaration answers).',
             bound='the same jars and class tables x member tables 2 and 3; 3504 cases'),
        dict(name='jar_in_every_input_form', props=['C07'], tier='quick', timeout=300,
             text='the same rules for every input form: classes handed over as bytes (lazily parsed), as trees, mixed, and read from a deflated / stored zip archive by dukebox.',
             bound='the jar with all four classes x all 240 class tables (ext/E -> ext/F included) without a name collision (216) x member tables 1 and 3 x all 5 input forms; 2160 cases'),
        dict(name='jar_non_class_entries_are_untouched', props=['C07'], tier='quick', timeout=300,
             text='non-class entries and directories come out under their old names with their old bytes, exactly once, whatever they are called and contain, next to classes that are renamed; none is taken for a class.',
             bound='all 512 subsets of nine entries: META-INF/ and p/ (directories), META-INF/MANIFEST.MF (Main-Class: p.A, a per-entry section for p/A.class), META-INF/services/p.A, p/A (the class name without suffix), '
                   'p/A.class.txt, p/A.CLASS (holding the bytes of class p/A), empty.txt (0 bytes), bin/all.bytes (all 256 byte values); around p/A.class and p/B.class; '
                   'class table p/A->q/r/A, p/B->p/A, ext/E->ext/F with member table 1; x all 5 input forms; 2560 cases'),
        dict(name='jar_non_class_entries_with_the_empty_remapper', props=['C07'], tier='quick', timeout=300,
             text='the same with a remapper that maps nothing: every entry, class entries included, keeps its name; classes keep their content.',
             bound='the same 512 subsets x all 5 input forms with the empty remapper; 2560 cases'),
        dict(name='jar_entries_in_every_order', props=['C07'], tier='quick', timeout=300,
             text='the rules hold whatever the order of the entries in the input, also when classes trade names: no entry is overwritten by an earlier or later one.',
             bound='all 120 orders of p/A.class, p/B.class, p/A$In.class, p/ (directory), p/A.txt x 6 class tables (empty; swap p/A <-> p/B; cycle p/A -> p/B -> p/A$In -> p/A; p/A -> p/B with p/B -> q/r/B; p/B -> p/A with p/A -> X; '
                   'p/A$In -> p/X$In with p/A -> p/X) x member table 1 x all 5 input forms; 3600 cases'),
        dict(name='jar_unparsed_entries_are_copied_verbatim', props=['C07'], tier='quick', timeout=300,
             text='storage level without remap: ParsedJar::from_jar of a zip archive keeps every class as unparsed bytes, and to_mem writes every entry (classes, non-class entries, directories) under its name with exactly the bytes '
                  'of the input (class bytes that duke\'s writer would not produce), each once; the written jar re-opens through dukebox with the same listing, kinds, class names and super type table.',
             bound='16 subsets of the four classes x the 128 of the 512 subsets of the nine non-class entries with (subset number + class subset number) divisible by 4 x {stored, deflated} input archive; 4096 cases'),
        dict(name='jar_remap__multi_release_class_entries', props=['C07'], tier='quick', timeout=300,
             text='a class entry of a multi-release jar (META-INF/versions/9/p/A.class, holding the Java 9 version of class p/A) is stored under the new name of its class as well: META-INF/versions/9/<new name>.class '
                  '(or, when that name is free, <new name>.class); with p/A unmapped it stays where it is.',
             bound='jars {manifest with Multi-Release: true, [p/A.class], p/B.class, META-INF/versions/9/p/A.class} with and without the base version x 4 class tables (empty; p/A->p/X; p/A->q/r/A with p/B->p/Y; p/B->p/Y) '
                   'x member table 1 x all 5 input forms; 40 cases'),
        dict(name='canary_must_fail', props=[], canary=True, text='must fail', bound=''),
    ])
