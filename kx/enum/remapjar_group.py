"""Enumeration group `remapjar` (C07): the jar level of dukebox::remap (harness kx/enum/remapjar.rs).  Placeholder texts, completed below."""
GROUP = dict(
    crate='dukebox', file='dukebox/src/remap.rs', harness_file='remapjar.rs',
    functions=[], trusted=[],
    tests=[
        dict(name='jar_classes_renamed_member_tables_none_and_all', props=['C07'], tier='quick', timeout=300, text='x', bound='x'),
        dict(name='jar_classes_renamed_member_tables_halves', props=['C07'], tier='quick', timeout=300, text='x', bound='x'),
        dict(name='jar_in_every_input_form', props=['C07'], tier='quick', timeout=300, text='x', bound='x'),
        dict(name='jar_non_class_entries_are_untouched', props=['C07'], tier='quick', timeout=300, text='x', bound='x'),
        dict(name='jar_non_class_entries_with_the_empty_remapper', props=['C07'], tier='quick', timeout=300, text='x', bound='x'),
        dict(name='jar_entries_in_every_order', props=['C07'], tier='quick', timeout=300, text='x', bound='x'),
        dict(name='jar_unparsed_entries_are_copied_verbatim', props=['C07'], tier='quick', timeout=300, text='x', bound='x'),
        dict(name='jar_remap__colliding_class_names', props=['C07'], tier='quick', timeout=300, text='x', bound='x'),
        dict(name='jar_remap__multi_release_class_entries', props=['C07'], tier='quick', timeout=300, text='x', bound='x'),
        dict(name='canary_must_fail', props=[], canary=True, text='must fail', bound=''),
    ])
