	// bounded exhaustive enumeration for the validity predicates in duke/src/tree/mod.rs (module `names`)
	use java_string::JavaStr;
	fn js(b: &[u8]) -> &JavaStr { JavaStr::from_str(std::str::from_utf8(b).unwrap()) }
	// documented rules (JVMS 4.2.1 / 4.2.2 as quoted in the doc comments), over bytes
	fn o_unqualified(s: &[u8]) -> bool { !s.is_empty() && !s.iter().any(|&c| c == b'.' || c == b';' || c == b'[' || c == b'/') }
	fn o_method(s: &[u8]) -> bool { s == b"<init>" || s == b"<clinit>" || (o_unqualified(s) && !s.iter().any(|&c| c == b'<' || c == b'>')) }
	fn o_obj_class(s: &[u8]) -> bool { s.first() != Some(&b'[') && s.split(|&c| c == b'/').all(o_unqualified) }
	fn o_arr_class(s: &[u8]) -> bool { s.first() == Some(&b'[') }
	fn o_class(s: &[u8]) -> bool { o_arr_class(s) || o_obj_class(s) }
	const ALPHA: &[u8] = b".;[/<>$a";

	#[test]
	fn name_predicates() {
		let mut t = Tally::new("name_predicates");
		let mut check = |b: &[u8], t: &mut Tally| {
			let x = js(b);
			t.case(o_unqualified(b) || o_class(b));
			if names::is_valid_unqualified_name(x) != o_unqualified(b) { t.fail(show(b), "is_valid_unqualified_name"); }
			if names::is_valid_method_name(x) != o_method(b) { t.fail(show(b), "is_valid_method_name"); }
			if names::is_valid_obj_class_name(x) != o_obj_class(b) { t.fail(show(b), "is_valid_obj_class_name"); }
			if names::is_valid_arr_class_name(x) != o_arr_class(b) { t.fail(show(b), "is_valid_arr_class_name"); }
			if names::is_valid_class_name(x) != o_class(b) { t.fail(show(b), "is_valid_class_name"); }
			// the checked newtypes agree with the predicates
			if crate::tree::field::FieldName::is_valid(x) != o_unqualified(b) { t.fail(show(b), "FieldName::is_valid"); }
			if crate::tree::method::MethodName::is_valid(x) != o_method(b) { t.fail(show(b), "MethodName::is_valid"); }
			if crate::tree::class::ObjClassName::is_valid(x) != o_obj_class(b) { t.fail(show(b), "ObjClassName::is_valid"); }
			if crate::tree::class::ArrClassName::is_valid(x) != o_arr_class(b) { t.fail(show(b), "ArrClassName::is_valid"); }
			if crate::tree::class::ClassName::is_valid(x) != o_class(b) { t.fail(show(b), "ClassName::is_valid"); }
		};
		for_all_strings(ALPHA, 5, &mut |b| { t.at(b); check(b, &mut t) });
		for special in [&b"<init>"[..], b"<clinit>", b"<init", b"init>", b"<clinit", b"a<init>", b"<init>a", b"lambda$<init>$0", b"<>", b"<clinit>>"] { check(special, &mut t); }
		t.finish();
	}
	#[test]
	fn canary_must_fail() {
		let mut t = Tally::new("canary_must_fail");
		for_all_strings(ALPHA, 2, &mut |b| { t.at(b); t.case(true); if !names::is_valid_unqualified_name(js(b)) { t.fail(show(b), "canary"); } });
		t.finish();
	}
