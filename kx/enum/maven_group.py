"""Enumeration group `maven`: bounded stand-in checks for property C19 on the crate maven_dependency_resolver (harness kx/enum/maven.rs).

GROUP has exactly the shape of an entry of kx.groups.ENUM_GROUPS; it is picked up by kx.groups._load_group_files.
The universes, the oracle rules with the sentence of the property each one comes from, the mutants killed and the deviations
of /repo are described in kx/enum/maven_REPORT.md.
"""

_F = 'maven_dependency_resolver/src/'

GROUP = dict(
    crate='maven_dependency_resolver', file=_F + 'lib.rs', harness_file='maven.rs',
    functions=[_F + 'lib.rs::get_maven_dependencies', _F + 'lib.rs::get_dependencies_tree', _F + 'lib.rs::the_scope_table (nested in get_dependencies_tree)',
               _F + 'lib.rs::clean_up_dependencies', _F + 'lib.rs::FoundDependency (Display, TryFrom<&str>, make_url)', _F + 'lib.rs::DependencyScope (Display, FromStr)',
               _F + 'tree.rs::Forest::breadth_first_retain', _F + 'tree.rs::Forest::into_breadth_first', _F + 'tree.rs::Tree::breadth_first',
               _F + 'maven_pom_done.rs::get_merged_pom', _F + 'maven_pom_done.rs::merge_parent', _F + 'maven_pom_done.rs::make_dependency_management',
               _F + 'maven_pom_done.rs::make_dependencies', _F + 'resolver.rs::try_resolvers', _F + 'resolver.rs::try_get_pom_for',
               _F + 'coord.rs::MavenCoord (Display, FromStr, make_url, make_pom_url, base_version, matches_besides_version, dependency_collision_id)',
               _F + 'coord.rs::to_snapshot_version', _F + 'coord.rs::Types::type_to_classifier / type_to_extension / packaging_to_type',
               _F + 'maven_pom.rs::MavenPom (serde model read from XML)'],
    trusted=['maven harness (kx/enum/maven.rs): own model of POMs / repositories (plain string structs), own XML renderer, own model-level resolver written from the statement of C19 and '
             "Maven's documentation (scope table cell by cell; effective POM = own values, else the parent's; management precedence own entry > imports in declaration order > parent; "
             'breadth-first first-occurrence mediation on the fly, losers never expanded; Maven 2 repository layout with the timestamped-snapshot directory rule); it never calls the crate. '
             'The async functions are driven by a poll loop with a no-op waker over an in-memory Downloader (URL -> POM read from the generated XML by serde-xml-rs, as the fixture of the crate\'s own tests does). '
             'Assumptions of the model stated in the report: inherited dependencies are listed after the own ones; a managed `optional` is not modelled; left column `system` of the scope table, '
             "the precedence between a child's import and an explicit managed entry of its parent, own managed entries declared after an import of the same artifact and re-declared dependencies are "
             'outside the statement and skipped (counted in NOTE lines). Not covered: real repositories / network, maven-metadata.xml, property interpolation, version ranges, exclusions, profiles, relativePath, cycles.'],
    tests=[
        dict(name='mediation_over_all_small_forests', props=['C19'], tier='quick', timeout=600,
             text='clean_up_dependencies keeps of every artifact exactly the occurrence nearest to the roots, the first in declaration order on the same depth, drops every rival together with its whole subtree '
                  '(an artifact that only occurs below a loser disappears, one that occurs below a loser and elsewhere is judged among the survivors only), keeps everything else in place, and the breadth-first '
                  'list of the result is the breadth-first list of the winners without duplicates.',
             bound='all 345895 ordered forests with 0..5 nodes (Catalan(n) shapes x 6^n labellings) over the labels a:1, a:2, b:1, b:2, c:1, d:1'),
        dict(name='mediation_identity_is_group_artifact_classifier_type', props=['C19'], tier='quick', timeout=600,
             text='Two occurrences conflict exactly when group, artifact, classifier and type agree: version, scope and repository do not distinguish them, another group, classifier or type does; '
                  'the winner keeps its own version, scope and repository.',
             bound='all 35435 ordered forests with 0..4 nodes over 7 labels (a:1 compile@first, a:2 test@second, other group, classifier sources, type war, b:1 runtime, b:2)'),
        dict(name='scope_table_and_optional_through_three_levels', props=['C19'], tier='quick', timeout=600,
             text='Through get_maven_dependencies on generated POM XML: a dependency chain root -> x -> y -> z is followed exactly as far as the documented scope table allows (provided / test / system '
                  'declarations are not transitive, compile and runtime compose as in the table, an omitted scope is compile), optional dependencies (only an explicit true) are cut with everything below them, '
                  'and each of the 16 documented cells gives the documented scope.',
             bound='root scope (5) x scope of x (omitted + 5) x optional of x (omitted, false, true) x scope of y (6) x optional of y (3) = 1620 universes, minus those that need the undocumented left column `system`; plus the 16 cells literally'),
        dict(name='resolution_over_all_small_pom_graphs', props=['C19'], tier='quick', timeout=900,
             text='Through get_maven_dependencies on generated POM XML served by two repositories: the resolved list equals the model-level resolution (breadth first from the root list, nearest occurrence wins, '
                  'declaration order breaks ties, subtrees of losers discarded, scopes composed from the root scope), every entry names the repository that served its POM, no artifact occurs twice, '
                  'and every entry survives printing and parsing.',
             bound='artifacts a, b, c in versions 1 and 2; every version of a declares at most one b and one c in either order (13 lists), every version of b nothing or one c (3 lists): 13^2 x 3^2 = 1521 universes '
                   'x 85 root lists (empty; each of the 6 coordinates as compile / test; each of the 36 ordered pairs, repetitions included, as compile+compile / compile+test) = 129285 cases'),
        dict(name='effective_pom_inherits_through_the_parent_chain', props=['C19'], tier='quick', timeout=900,
             text='get_merged_pom and get_maven_dependencies: groupId and version are the own ones or else the nearest ancestor\'s, packaging is not inherited, the dependencies are the own ones followed by the '
                  "parent's followed by the grandparent's, a dependency without version is filled from the nearest ancestor's dependencyManagement (version and scope), a POM without parent that lacks groupId or "
                  'version is refused, as is a version-less dependency nobody manages.',
             bound='chains of depth 1..3 x the top-most POM complete / without groupId / without version x child and parent with own or omitted groupId and version x 3 dependency lists per level '
                   '(with scopes and an optional one) x parent / grandparent managing the artifact m or not x child depending on m without version or not x packaging omitted / jar / war = 32454 universes; each: effective POM once, resolution as root in scope compile and test (64908 counted cases)'),
        dict(name='effective_pom_management_and_imports', props=['C19'], tier='quick', timeout=900,
             text='get_merged_pom and get_maven_dependencies: omitted versions and scopes of the dependencies are filled from the effective dependencyManagement, explicit ones are kept; the management entry that counts '
                  "is the POM's own, else the one of the first import (in declaration order) that has it, else the parent's; an imported BOM contributes its own effective management (its parent's and its own imports "
                  'included); entries are matched by group, artifact, type and classifier (a classifier or another type is another entry; type test-jar implies classifier tests); a version-less dependency nothing '
                  'manages is refused; a managed scope test / provided cuts the dependency below a root like a declared one.',
             bound='child POM with 89 dependency lists (all lists of 0..2 entries with distinct keys out of 10 declarations of x / x:s / x war / y / z / w / y test-jar with and without version, scope, optional) '
                   'x 5 own management lists x 7 import lists over three BOMs (b1, b2 overlapping on x; b3 with a managing parent and importing b1) x 25 parents (none; 4 management lists x with / without import of b2 x own dependency none / q:1 / q managed by the parent) '
                   '= 77875 universes, of which 52777 inside the statement (25098 skipped: the precedence between an import of the child and an explicit entry of the parent is not stated)'),
        dict(name='inherited_dependencies_use_the_management_of_the_inheriting_pom', props=['C19'], tier='quick', timeout=600,
             text="A dependency inherited from the parent is filled in by the effective management of the inheriting POM (Maven Model Builder: inheritance assembly precedes dependency management injection): "
                  "the child's managed version / scope of x wins over the parent's for the parent's version-less (scope-less) dependency on x, and a parent's version-less dependency that only the child manages is accepted.",
             bound='parent: 3 management lists x 4 declarations of x (with / without version, with / without scope); child: no management / x:2 / x:2 provided / import of a BOM with x:b2 runtime; root scope compile / runtime: 96 cases, 16 skipped (import of the child against an explicit entry of the parent)'),
        dict(name='repositories_are_asked_in_order', props=['C19'], tier='quick', timeout=600,
             text='Every POM (root, its parent, its dependencies) is taken from the first repository of the list that has it, independently for every POM; the content of that repository counts when repositories '
                  'disagree; a resolved dependency names the repository of its own POM; nothing resolved when some needed POM is nowhere; URLs follow the repository layout for base URLs with and without '
                  'trailing slash and for a timestamped snapshot version (directory <base>-SNAPSHOT).',
             bound='3 repositories in all 6 orders x root POM / parent POM / leaf POMs each served by any of the 8 subsets of repositories (the root POM differing per repository) = 3072 cases'),
        dict(name='refused_universes', props=['C19'], tier='quick', timeout=600,
             text='Universes Maven refuses are refused (missing POM of a dependency / parent / imported BOM / root, parent with packaging jar, version-less dependency without management or managed only for another '
                  'classifier, managed entry without version, modelVersion other than 4.0.0, no groupId / version, no repository) and a broken POM behind an optional or non-transitive dependency does no harm.',
             bound='14 hand-written universes x 4 root scopes x 2 root lists + 3 degenerate ones'),
        dict(name='coordinates_parse_and_print', props=['C19'], tier='quick', timeout=600,
             text='MavenCoord::from_str accepts exactly the strings with three to five colon-separated parts and reads them as group:artifact[:type[:classifier]]:version (type jar when omitted); Display lists the type '
                  'always and is parsed back to the same coordinate; FoundDependency prints as <coordinate>:<scope> @ <url> and is parsed back to the same coordinate, scope and url; DependencyScope prints the five '
                  'documented names, parses them back and refuses everything else.',
             bound='all 29524 strings of length <= 9 over {a . :}; all 288 coordinates over 3 groups x 2 artifacts x 4 versions x 4 types x 3 classifiers (empty strings included), each x 5 scopes x 4 urls '
                   '(one containing " @ "); all 1365 strings of length <= 5 over {t e s T} and 10 near misses as scopes'),
        dict(name='snapshot_versions_and_repository_layout', props=['C19'], tier='quick', timeout=600,
             text='base_version / make_pom_url / make_url: a version is filed under <x>-SNAPSHOT exactly when it has the form <x>-<8 digits>.<6 digits>-<digits>, under itself otherwise; the POM URL is '
                  '<base>/<group path>/<artifact>/<directory>/<artifact>-<version>.pom and the artifact URL ends in [-<classifier>].<extension of the type by the artifact handlers table>, one slash after the base.',
             bound='68040 versions = 6 prefixes x 3 separators x 6 date fields x 5 dots x 6 time fields x 3 separators x 7 build numbers (each with one of 4 base URLs); all 9841 strings of length <= 8 over {1 - .}; '
                   '3 groups x 2 artifacts x 3 versions x 11 types x 3 classifiers x 4 base URLs = 2376 artifact URLs'),
        dict(name='canary_must_fail', props=[], canary=True, text='must fail', bound=''),
    ])
