	// =====================================================================================================================
	// group `cls`: bounded stand-in checks at the level of WHOLE CLASS FILES (appended to duke/src/lib.rs in the scratch copy).
	//
	// Everything the checks compare against is written here from the JVMS (chapter 4 and 6) and shares nothing with duke's
	// reader/writer:  (1) a plain model of a class, (2) a byte-level generator model -> class file with encoding choices,
	// (3) a strict parser class file -> model that also checks structural validity, (4) a converter duke tree -> model
	// (labels resolved to instruction indices through the instruction list), (5) a configurable visitor for partial reads.
	// =====================================================================================================================
	use std::collections::HashMap;
	use std::io::Cursor;
	use std::ops::ControlFlow;
	use std::rc::Rc;
	use java_string::JavaStr;
	use crate::tree::annotation::{Annotation, ElementValue, Object};
	use crate::tree::attribute::Attribute;
	use crate::tree::class::{ClassAccess, ClassName, ClassSignature, EnclosingMethod, InnerClass, ObjClassName};
	use crate::tree::field::{ConstantValue, Field, FieldAccess, FieldDescriptor, FieldName, FieldSignature};
	use crate::tree::method::{Method, MethodAccess, MethodDescriptor, MethodName, MethodParameter, MethodSignature};
	use crate::tree::method::code::{ArrayType, Code, Exception, Instruction, InstructionListEntry, Label, Loadable, Lv};
	use crate::tree::module::{Module, PackageName};
	use crate::tree::record::{RecordComponent, RecordName};
	use crate::tree::type_annotation::{TargetInfoClass, TargetInfoCode, TargetInfoField, TargetInfoMethod, TypeAnnotation};
	use crate::tree::version::Version;
	use crate::visitor::class::{ClassInterests, ClassVisitor};
	use crate::visitor::field::{FieldInterests, FieldVisitor};
	use crate::visitor::method::{MethodInterests, MethodVisitor};
	use crate::visitor::method::code::{CodeInterests, CodeVisitor, StackMapData, VerificationTypeInfo};
	use crate::visitor::record::{RecordComponentInterests, RecordComponentVisitor};

	// ---------------------------------------------------------------------------------------------------------------------
	// (1) the model
	// ---------------------------------------------------------------------------------------------------------------------
	type MUnk = (String, Vec<u8>);
	#[derive(Debug, Clone, PartialEq)]
	enum MConst { Int(i32), Float(u32), Long(i64), Double(u64), Str(String) }
	#[derive(Debug, Clone, PartialEq)]
	enum MElem { Int(i32), Str(String), Array(Vec<MElem>) }
	#[derive(Debug, Clone, PartialEq)]
	struct MAnn { ty: String, pairs: Vec<(String, MElem)> }
	#[derive(Debug, Clone, PartialEq)]
	enum MVt { Top, Integer, Float, Long, Double, Null, UninitThis, Object(String), Uninit(usize) }
	#[derive(Debug, Clone, PartialEq)]
	enum MFrame { Same, Same1(MVt), Chop(u8), Append(Vec<MVt>), Full(Vec<MVt>, Vec<MVt>) }
	#[derive(Debug, Clone, PartialEq)]
	enum MLdc { Int(i32), Float(u32), Long(i64), Double(u64), Str(String), Class(String) }
	/// one instruction at the semantic level: operands resolved, branch targets as instruction indices, encoding variant forgotten
	#[derive(Debug, Clone, PartialEq)]
	enum MInsn {
		/// an instruction without operands, named by its opcode (JVMS 6.5)
		Simple(u8),
		BiPush(i8), SiPush(i16),
		Ldc(MLdc),
		/// kind 0..=4 = i l f d a
		Load(u8, u16), Store(u8, u16),
		IInc(u16, i16), Ret(u16),
		/// canonical opcode (ifeq..if_acmpne 153..=166, goto 167, jsr 168, ifnull 198, ifnonnull 199), target instruction index
		Branch(u8, usize),
		TableSwitch { default: usize, low: i32, targets: Vec<usize> },
		LookupSwitch { default: usize, pairs: Vec<(i32, usize)> },
		/// getstatic 178 putstatic 179 getfield 180 putfield 181: owner, name, descriptor
		Field(u8, String, String, String),
		/// invokevirtual 182 invokespecial 183 invokestatic 184 invokeinterface 185: owner, name, descriptor, refers to an InterfaceMethodref
		Invoke(u8, String, String, String, bool),
		/// new 187 anewarray 189 checkcast 192 instanceof 193
		Type(u8, String),
		NewArray(u8),
		MultiANewArray(String, u8),
	}
	#[derive(Debug, Clone, PartialEq)]
	struct MExc { start: usize, end: usize, handler: usize, catch: Option<String> }
	#[derive(Debug, Clone, PartialEq)]
	struct MLv { start: usize, end: usize, name: String, ty: String, index: u16 }
	#[derive(Debug, Clone, PartialEq)]
	struct MCode {
		max_stack: u16, max_locals: u16,
		insns: Vec<MInsn>,
		exc: Vec<MExc>,
		/// None = no LineNumberTable attribute; entries in file order (several attributes concatenate)
		lines: Option<Vec<(usize, u16)>>,
		/// LocalVariableTable / LocalVariableTypeTable entries (empty = attribute absent)
		lvt: Vec<MLv>, lvtt: Vec<MLv>,
		/// StackMapTable: (instruction index, frame), strictly increasing
		frames: Vec<(usize, MFrame)>,
		unknown: Vec<MUnk>,
	}
	#[derive(Debug, Clone, PartialEq)]
	struct MMethod {
		access: u16, name: String, desc: String, deprecated: bool, synthetic: bool,
		code: Option<MCode>, exceptions: Option<Vec<String>>, signature: Option<String>,
		params: Option<Vec<(Option<String>, u16)>>, unknown: Vec<MUnk>,
	}
	#[derive(Debug, Clone, PartialEq)]
	struct MField { access: u16, name: String, desc: String, deprecated: bool, synthetic: bool, constant: Option<MConst>, signature: Option<String>, unknown: Vec<MUnk> }
	#[derive(Debug, Clone, PartialEq)]
	struct MRec { name: String, desc: String, signature: Option<String>, unknown: Vec<MUnk> }
	#[derive(Debug, Clone, PartialEq)]
	struct MInner { inner: String, outer: Option<String>, name: Option<String>, flags: u16 }
	#[derive(Debug, Clone, PartialEq)]
	struct MClass {
		minor: u16, major: u16, access: u16, this: String, sup: Option<String>, interfaces: Vec<String>,
		fields: Vec<MField>, methods: Vec<MMethod>,
		deprecated: bool, synthetic: bool,
		source_file: Option<String>, signature: Option<String>,
		inner_classes: Option<Vec<MInner>>, enclosing_method: Option<(String, Option<(String, String)>)>,
		nest_host: Option<String>, nest_members: Option<Vec<String>>, permitted: Option<Vec<String>>,
		record: Vec<MRec>, annotations: Vec<MAnn>, unknown: Vec<MUnk>,
	}

	/// apply `f` to every instruction index an instruction refers to
	fn retarget(i: &MInsn, f: &dyn Fn(usize) -> Result<usize, String>) -> Result<MInsn, String> {
		Ok(match i {
			MInsn::Branch(op, t) => MInsn::Branch(*op, f(*t)?),
			MInsn::TableSwitch { default, low, targets } => MInsn::TableSwitch { default: f(*default)?, low: *low, targets: targets.iter().map(|t| f(*t)).collect::<Result<_, _>>()? },
			MInsn::LookupSwitch { default, pairs } => MInsn::LookupSwitch { default: f(*default)?, pairs: pairs.iter().map(|(k, t)| Ok((*k, f(*t)?))).collect::<Result<_, String>>()? },
			other => other.clone(),
		})
	}
	fn retarget_vt(v: &MVt, f: &dyn Fn(usize) -> Result<usize, String>) -> Result<MVt, String> { Ok(match v { MVt::Uninit(t) => MVt::Uninit(f(*t)?), o => o.clone() }) }
	fn retarget_frame(fr: &MFrame, f: &dyn Fn(usize) -> Result<usize, String>) -> Result<MFrame, String> {
		let l = |v: &Vec<MVt>| v.iter().map(|x| retarget_vt(x, f)).collect::<Result<Vec<_>, String>>();
		Ok(match fr { MFrame::Same1(v) => MFrame::Same1(retarget_vt(v, f)?), MFrame::Append(v) => MFrame::Append(l(v)?), MFrame::Full(a, b) => MFrame::Full(l(a)?, l(b)?), o => o.clone() })
	}
	/// re-index a whole code body (instructions stay where they are in the list, only the references change)
	fn retarget_code(c: &MCode, f: &dyn Fn(usize) -> Result<usize, String>) -> Result<MCode, String> {
		Ok(MCode {
			max_stack: c.max_stack, max_locals: c.max_locals,
			insns: c.insns.iter().map(|i| retarget(i, f)).collect::<Result<_, _>>()?,
			exc: c.exc.iter().map(|e| Ok(MExc { start: f(e.start)?, end: f(e.end)?, handler: f(e.handler)?, catch: e.catch.clone() })).collect::<Result<_, String>>()?,
			lines: match &c.lines { None => None, Some(v) => Some(v.iter().map(|(a, l)| Ok((f(*a)?, *l))).collect::<Result<_, String>>()?) },
			lvt: c.lvt.iter().map(|v| Ok(MLv { start: f(v.start)?, end: f(v.end)?, ..v.clone() })).collect::<Result<_, String>>()?,
			lvtt: c.lvtt.iter().map(|v| Ok(MLv { start: f(v.start)?, end: f(v.end)?, ..v.clone() })).collect::<Result<_, String>>()?,
			frames: c.frames.iter().map(|(a, fr)| Ok((f(*a)?, retarget_frame(fr, f)?))).collect::<Result<_, String>>()?,
			unknown: c.unknown.clone(),
		})
	}
	/// insert `n` nops before instruction `at`; every reference to an instruction >= `at` (and to the end of the code) moves along
	fn insert_nops(c: &MCode, at: usize, n: usize) -> MCode {
		let mut r = retarget_code(c, &|t| Ok(if t >= at { t + n } else { t })).unwrap();
		r.insns.splice(at..at, std::iter::repeat(MInsn::Simple(0)).take(n));
		r
	}
	/// first difference of the Debug renderings (for failure reports)
	fn diff<T: std::fmt::Debug>(got: &T, want: &T) -> String {
		let (a, b) = (format!("{got:?}"), format!("{want:?}"));
		let (a, b): (Vec<char>, Vec<char>) = (a.chars().collect(), b.chars().collect());
		let p = a.iter().zip(b.iter()).position(|(x, y)| x != y).unwrap_or(a.len().min(b.len()));
		let w = |v: &Vec<char>| v[p.saturating_sub(70)..(p + 70).min(v.len())].iter().collect::<String>();
		format!("got ..{}.. expected ..{}..", w(&a), w(&b))
	}
	fn hex(b: &[u8]) -> String { b.iter().map(|x| format!("{x:02x}")).collect() }

	// ---------------------------------------------------------------------------------------------------------------------
	// (2) the generator: model -> class file bytes (JVMS 4.1 - 4.7, 6.5), with encoding choices
	// ---------------------------------------------------------------------------------------------------------------------
	#[derive(Debug, Clone, Copy, PartialEq)]
	struct Enc {
		/// constant pool layout: 0 = order of first use (references point forwards), 1 = reversed (references point backwards),
		/// 2 = scattered with an unused Long in front (indices 1-2), an unused Double in the middle and an unused duplicate Utf8
		pool: u8,
		/// attribute order: false = as listed, true = reversed (attributes of the same kind keep their relative order)
		rev: bool,
		/// LineNumberTable split into two attributes
		split: bool,
		/// 0 = shortest forms (xload_n, ldc, goto, jsr, short iinc, short frames); 1 = xload/xstore with a one-byte index also for 0..3;
		/// 2 = widest forms (wide xload/xstore/iinc/ret, ldc_w, goto_w, jsr_w, extended stack map frames)
		insn: u8,
	}
	fn encodings() -> Vec<Enc> {
		let mut v = Vec::new();
		for pool in 0..3 { for rev in [false, true] { for split in [false, true] { for insn in 0..3 { v.push(Enc { pool, rev, split, insn }); } } } }
		v
	}
	#[derive(Debug, Clone, PartialEq, Eq, Hash)]
	enum K { Utf8(String), Int(i32), Float(u32), Long(i64), Double(u64), Class(String), Str(String), Nat(String, String), Field(String, String, String), Method(String, String, String), IMethod(String, String, String) }
	fn deps(k: &K) -> Vec<K> {
		match k {
			K::Class(s) | K::Str(s) => vec![K::Utf8(s.clone())],
			K::Nat(n, d) => vec![K::Utf8(n.clone()), K::Utf8(d.clone())],
			K::Field(c, n, d) | K::Method(c, n, d) | K::IMethod(c, n, d) => vec![K::Class(c.clone()), K::Nat(n.clone(), d.clone())],
			_ => vec![],
		}
	}
	fn put_unit(u: u32, o: &mut Vec<u8>) {
		if u != 0 && u < 0x80 { o.push(u as u8); }
		else if u < 0x800 { o.push(0xC0 | (u >> 6) as u8); o.push(0x80 | (u & 0x3f) as u8); }
		else { o.push(0xE0 | (u >> 12) as u8); o.push(0x80 | ((u >> 6) & 0x3f) as u8); o.push(0x80 | (u & 0x3f) as u8); }
	}
	/// JVMS 4.4.7 modified UTF-8
	fn mutf8(s: &str) -> Vec<u8> {
		let mut o = Vec::new();
		for c in s.chars() {
			let c = c as u32;
			if c < 0x10000 { put_unit(c, &mut o); } else { let v = c - 0x10000; put_unit(0xD800 + (v >> 10), &mut o); put_unit(0xDC00 + (v & 0x3ff), &mut o); }
		}
		o
	}
	struct W(Vec<u8>);
	impl W {
		fn u1(&mut self, v: u8) { self.0.push(v); }
		fn u2(&mut self, v: usize) { assert!(v <= 0xffff, "harness: u2 overflow"); self.0.extend_from_slice(&(v as u16).to_be_bytes()); }
		fn u4(&mut self, v: usize) { self.0.extend_from_slice(&(v as u32).to_be_bytes()); }
		fn i4(&mut self, v: i32) { self.0.extend_from_slice(&v.to_be_bytes()); }
		fn bytes(&mut self, b: &[u8]) { self.0.extend_from_slice(b); }
	}
	struct Pool { keys: Vec<K>, idx: HashMap<K, u16>, collecting: bool, slots: Vec<K> }
	impl Pool {
		fn new() -> Pool { Pool { keys: Vec::new(), idx: HashMap::new(), collecting: true, slots: Vec::new() } }
		fn get(&mut self, k: K) -> u16 {
			if let Some(&i) = self.idx.get(&k) { return i; }
			assert!(self.collecting, "harness: constant {k:?} was not collected in the first pass");
			let i = self.keys.len() as u16 + 1;
			self.idx.insert(k.clone(), i);
			self.keys.push(k.clone());
			for d in deps(&k) { self.get(d); }
			i
		}
		fn utf8(&mut self, s: &str) -> u16 { self.get(K::Utf8(s.to_owned())) }
		fn class(&mut self, s: &str) -> u16 { self.get(K::Class(s.to_owned())) }
		fn opt_class(&mut self, s: &Option<String>) -> u16 { match s { Some(s) => self.class(s), None => 0 } }
		fn opt_utf8(&mut self, s: &Option<String>) -> u16 { match s { Some(s) => self.utf8(s), None => 0 } }
		/// the final pool: the collected constants placed according to `layout`
		fn laid_out(&self, layout: u8) -> Pool {
			let mut slots: Vec<K> = self.keys.clone();
			let mut fillers: Vec<(usize, K)> = Vec::new();
			let mut trailing: Vec<K> = Vec::new();
			match layout {
				0 => {},
				1 => slots.reverse(),
				_ => {
					let mut tagged: Vec<(u64, K)> = slots.into_iter().enumerate().map(|(i, k)| ((i as u64 + 1) * 2654435761 % 1000003, k)).collect();
					tagged.sort_by_key(|x| x.0);
					slots = tagged.into_iter().map(|x| x.1).collect();
					let n = slots.len();
					fillers = vec![(0, K::Long(0x1122334455667788)), (n / 2, K::Double(0x400921FB54442D18)), (n / 2, K::Utf8("Code".into()))];
					trailing = vec![K::Int(-1)];
				},
			}
			let mut idx = HashMap::new();
			let mut all = Vec::new();
			let mut next = 1usize;
			for (pos, k) in slots.into_iter().enumerate() {
				for (at, f) in &fillers { if *at == pos { next += if matches!(f, K::Long(_) | K::Double(_)) { 2 } else { 1 }; all.push(f.clone()); } }
				idx.insert(k.clone(), next as u16);
				next += if matches!(k, K::Long(_) | K::Double(_)) { 2 } else { 1 };
				all.push(k);
			}
			for f in trailing { next += 1; all.push(f); }
			assert!(next <= 0xffff);
			Pool { keys: self.keys.clone(), idx, collecting: false, slots: all }
		}
		fn emit(&self, w: &mut W) {
			let count = 1 + self.slots.iter().map(|k| if matches!(k, K::Long(_) | K::Double(_)) { 2 } else { 1 }).sum::<usize>();
			w.u2(count);
			let ix = |k: K| self.idx[&k] as usize;
			for k in &self.slots {
				match k {
					K::Utf8(s) => { let b = mutf8(s); w.u1(1); w.u2(b.len()); w.bytes(&b); },
					K::Int(v) => { w.u1(3); w.i4(*v); },
					K::Float(v) => { w.u1(4); w.u4(*v as usize); },
					K::Long(v) => { w.u1(5); w.bytes(&v.to_be_bytes()); },
					K::Double(v) => { w.u1(6); w.bytes(&v.to_be_bytes()); },
					K::Class(s) => { w.u1(7); w.u2(ix(K::Utf8(s.clone()))); },
					K::Str(s) => { w.u1(8); w.u2(ix(K::Utf8(s.clone()))); },
					K::Field(c, n, d) => { w.u1(9); w.u2(ix(K::Class(c.clone()))); w.u2(ix(K::Nat(n.clone(), d.clone()))); },
					K::Method(c, n, d) => { w.u1(10); w.u2(ix(K::Class(c.clone()))); w.u2(ix(K::Nat(n.clone(), d.clone()))); },
					K::IMethod(c, n, d) => { w.u1(11); w.u2(ix(K::Class(c.clone()))); w.u2(ix(K::Nat(n.clone(), d.clone()))); },
					K::Nat(n, d) => { w.u1(12); w.u2(ix(K::Utf8(n.clone()))); w.u2(ix(K::Utf8(d.clone()))); },
				}
			}
		}
	}
	/// attribute kinds for ordering: 0 = unknown attributes (all one kind), others distinct per attribute name
	type At = (u8, String, Vec<u8>);
	fn put_attrs(w: &mut W, p: &mut Pool, mut a: Vec<At>, rev: bool) {
		if rev {
			let orig = a.clone();
			a.reverse();
			// attributes of the same kind (unknown attributes, the parts of a split LineNumberTable) keep their relative order
			let mut next: HashMap<u8, usize> = HashMap::new();
			for pos in 0..a.len() {
				let k = a[pos].0;
				let start = *next.get(&k).unwrap_or(&0);
				let j = (start..orig.len()).find(|&j| orig[j].0 == k).unwrap();
				a[pos] = orig[j].clone();
				next.insert(k, j + 1);
			}
		}
		w.u2(a.len());
		for (_, n, b) in a { w.u2(p.utf8(&n) as usize); w.u4(b.len()); w.bytes(&b); }
	}
	fn unk_attrs(u: &[MUnk]) -> Vec<At> { u.iter().map(|(n, b)| (0u8, n.clone(), b.clone())).collect() }
	fn u2_body(v: u16) -> Vec<u8> { v.to_be_bytes().to_vec() }
	fn class_list(p: &mut Pool, l: &[String]) -> Vec<u8> { let mut w = W(Vec::new()); w.u2(l.len()); for c in l { w.u2(p.class(c) as usize); } w.0 }

	fn const_index(p: &mut Pool, c: &MConst) -> u16 {
		match c { MConst::Int(v) => p.get(K::Int(*v)), MConst::Float(v) => p.get(K::Float(*v)), MConst::Long(v) => p.get(K::Long(*v)), MConst::Double(v) => p.get(K::Double(*v)), MConst::Str(s) => p.get(K::Str(s.clone())) }
	}
	fn gen_elem(w: &mut W, p: &mut Pool, e: &MElem) {
		match e {
			MElem::Int(v) => { w.u1(b'I'); w.u2(p.get(K::Int(*v)) as usize); },
			MElem::Str(s) => { w.u1(b's'); w.u2(p.utf8(s) as usize); },
			MElem::Array(v) => { w.u1(b'['); w.u2(v.len()); for x in v { gen_elem(w, p, x); } },
		}
	}
	fn gen_annotations(p: &mut Pool, a: &[MAnn]) -> Vec<u8> {
		let mut w = W(Vec::new());
		w.u2(a.len());
		for an in a {
			w.u2(p.utf8(&an.ty) as usize);
			w.u2(an.pairs.len());
			for (n, e) in &an.pairs { w.u2(p.utf8(n) as usize); gen_elem(&mut w, p, e); }
		}
		w.0
	}
	/// pool index of the constant an instruction refers to (0 = none)
	fn insn_const(p: &mut Pool, i: &MInsn) -> u16 {
		match i {
			MInsn::Ldc(l) => match l {
				MLdc::Int(v) => p.get(K::Int(*v)), MLdc::Float(v) => p.get(K::Float(*v)), MLdc::Long(v) => p.get(K::Long(*v)), MLdc::Double(v) => p.get(K::Double(*v)),
				MLdc::Str(s) => p.get(K::Str(s.clone())), MLdc::Class(s) => p.class(s),
			},
			MInsn::Field(_, c, n, d) => p.get(K::Field(c.clone(), n.clone(), d.clone())),
			MInsn::Invoke(_, c, n, d, itf) => if *itf { p.get(K::IMethod(c.clone(), n.clone(), d.clone())) } else { p.get(K::Method(c.clone(), n.clone(), d.clone())) },
			MInsn::Type(_, c) | MInsn::MultiANewArray(c, _) => p.class(c),
			_ => 0,
		}
	}
	fn switch_pad(off: usize) -> usize { (4 - (off + 1) % 4) % 4 }
	fn insn_size(i: &MInsn, off: usize, v: u8, cidx: u16) -> usize {
		match i {
			MInsn::Simple(_) => 1,
			MInsn::BiPush(_) | MInsn::NewArray(_) => 2,
			MInsn::SiPush(_) => 3,
			MInsn::Ldc(MLdc::Long(_)) | MInsn::Ldc(MLdc::Double(_)) => 3,
			MInsn::Ldc(_) => if v < 2 && cidx <= 255 { 2 } else { 3 },
			MInsn::Load(_, x) | MInsn::Store(_, x) => if v == 2 || *x > 255 { 4 } else if v == 0 && *x < 4 { 1 } else { 2 },
			MInsn::IInc(x, d) => if v == 2 || *x > 255 || i8::try_from(*d).is_err() { 6 } else { 3 },
			MInsn::Ret(x) => if v == 2 || *x > 255 { 4 } else { 2 },
			MInsn::Branch(op, _) => if v == 2 && (*op == 167 || *op == 168) { 5 } else { 3 },
			MInsn::TableSwitch { targets, .. } => 1 + switch_pad(off) + 12 + 4 * targets.len(),
			MInsn::LookupSwitch { pairs, .. } => 1 + switch_pad(off) + 8 + 8 * pairs.len(),
			MInsn::Field(..) | MInsn::Type(..) => 3,
			MInsn::Invoke(op, ..) => if *op == 185 { 5 } else { 3 },
			MInsn::MultiANewArray(..) => 4,
		}
	}
	/// number of argument slots of a method descriptor incl. the receiver (the count operand of invokeinterface, JVMS 6.5)
	fn arg_slots(desc: &str) -> Option<u8> {
		let b = desc.as_bytes();
		if b.first() != Some(&b'(') { return None; }
		let (mut i, mut n) = (1usize, 1u32);
		loop {
			match b.get(i)? {
				b')' => return u8::try_from(n).ok(),
				b'J' | b'D' => { n += 2; i += 1; },
				b'B' | b'C' | b'F' | b'I' | b'S' | b'Z' => { n += 1; i += 1; },
				b'L' => { n += 1; i += b[i..].iter().position(|&c| c == b';')? + 1; },
				b'[' => { n += 1; while *b.get(i)? == b'[' { i += 1; } if b[i] == b'L' { i += b[i..].iter().position(|&c| c == b';')? + 1; } else { i += 1; } },
				_ => return None,
			}
		}
	}
	fn rel16(from: usize, to: usize) -> [u8; 2] { let d = to as i64 - from as i64; i16::try_from(d).expect("harness: generator asked for a 16-bit jump that does not fit").to_be_bytes() }
	fn rel32(from: usize, to: usize) -> i32 { (to as i64 - from as i64) as i32 }
	fn emit_insn(w: &mut W, i: &MInsn, off: usize, offs: &[usize], v: u8, cidx: u16) {
		match i {
			MInsn::Simple(op) => w.u1(*op),
			MInsn::BiPush(x) => { w.u1(16); w.u1(*x as u8); },
			MInsn::SiPush(x) => { w.u1(17); w.bytes(&x.to_be_bytes()); },
			MInsn::Ldc(MLdc::Long(_)) | MInsn::Ldc(MLdc::Double(_)) => { w.u1(20); w.u2(cidx as usize); },
			MInsn::Ldc(_) => if v < 2 && cidx <= 255 { w.u1(18); w.u1(cidx as u8); } else { w.u1(19); w.u2(cidx as usize); },
			MInsn::Load(k, x) | MInsn::Store(k, x) => {
				let (base, base_n) = if matches!(i, MInsn::Load(..)) { (21 + k, 26 + 4 * k) } else { (54 + k, 59 + 4 * k) };
				if v == 2 || *x > 255 { w.u1(196); w.u1(base); w.u2(*x as usize); } else if v == 0 && *x < 4 { w.u1(base_n + *x as u8); } else { w.u1(base); w.u1(*x as u8); }
			},
			MInsn::IInc(x, d) => if v == 2 || *x > 255 || i8::try_from(*d).is_err() { w.u1(196); w.u1(132); w.u2(*x as usize); w.bytes(&d.to_be_bytes()); } else { w.u1(132); w.u1(*x as u8); w.u1(*d as i8 as u8); },
			MInsn::Ret(x) => if v == 2 || *x > 255 { w.u1(196); w.u1(169); w.u2(*x as usize); } else { w.u1(169); w.u1(*x as u8); },
			MInsn::Branch(op, t) => if v == 2 && (*op == 167 || *op == 168) { w.u1(*op + 33); w.i4(rel32(off, offs[*t])); } else { w.u1(*op); w.bytes(&rel16(off, offs[*t])); },
			MInsn::TableSwitch { default, low, targets } => {
				w.u1(170); for _ in 0..switch_pad(off) { w.u1(0); }
				w.i4(rel32(off, offs[*default])); w.i4(*low); w.i4(*low + (targets.len() as i32 - 1));
				for t in targets { w.i4(rel32(off, offs[*t])); }
			},
			MInsn::LookupSwitch { default, pairs } => {
				w.u1(171); for _ in 0..switch_pad(off) { w.u1(0); }
				w.i4(rel32(off, offs[*default])); w.i4(pairs.len() as i32);
				for (k, t) in pairs { w.i4(*k); w.i4(rel32(off, offs[*t])); }
			},
			MInsn::Field(op, ..) | MInsn::Type(op, _) => { w.u1(*op); w.u2(cidx as usize); },
			MInsn::Invoke(op, _, _, d, _) => { w.u1(*op); w.u2(cidx as usize); if *op == 185 { w.u1(arg_slots(d).expect("harness: descriptor")); w.u1(0); } },
			MInsn::NewArray(t) => { w.u1(188); w.u1(*t); },
			MInsn::MultiANewArray(_, d) => { w.u1(197); w.u2(cidx as usize); w.u1(*d); },
		}
	}
	fn gen_vt(w: &mut W, p: &mut Pool, v: &MVt, offs: &[usize]) {
		match v {
			MVt::Top => w.u1(0), MVt::Integer => w.u1(1), MVt::Float => w.u1(2), MVt::Double => w.u1(3), MVt::Long => w.u1(4), MVt::Null => w.u1(5), MVt::UninitThis => w.u1(6),
			MVt::Object(c) => { w.u1(7); w.u2(p.class(c) as usize); },
			MVt::Uninit(t) => { w.u1(8); w.u2(offs[*t]); },
		}
	}
	/// the body of a Code attribute (JVMS 4.7.3)
	fn gen_code(p: &mut Pool, c: &MCode, e: Enc) -> Vec<u8> {
		let cidx: Vec<u16> = c.insns.iter().map(|i| insn_const(p, i)).collect();
		let mut offs = Vec::with_capacity(c.insns.len() + 1);
		let mut off = 0usize;
		for (k, i) in c.insns.iter().enumerate() { offs.push(off); off += insn_size(i, off, e.insn, cidx[k]); }
		offs.push(off);
		let mut code = W(Vec::new());
		for (k, i) in c.insns.iter().enumerate() { assert_eq!(code.0.len(), offs[k]); emit_insn(&mut code, i, offs[k], &offs, e.insn, cidx[k]); }
		assert_eq!(code.0.len(), off);
		let mut w = W(Vec::new());
		w.u2(c.max_stack as usize); w.u2(c.max_locals as usize); w.u4(off); w.bytes(&code.0);
		w.u2(c.exc.len());
		for x in &c.exc { w.u2(offs[x.start]); w.u2(offs[x.end]); w.u2(offs[x.handler]); let ci = p.opt_class(&x.catch); w.u2(ci as usize); }
		let mut attrs: Vec<At> = Vec::new();
		if !c.frames.is_empty() {
			let mut b = W(Vec::new());
			b.u2(c.frames.len());
			let mut prev: Option<usize> = None;
			for (at, fr) in &c.frames {
				let o = offs[*at];
				let delta = match prev { None => o, Some(q) => o - q - 1 };
				prev = Some(o);
				match fr {
					MFrame::Same => if delta <= 63 && e.insn < 2 { b.u1(delta as u8); } else { b.u1(251); b.u2(delta); },
					MFrame::Same1(v) => { if delta <= 63 && e.insn < 2 { b.u1(64 + delta as u8); } else { b.u1(247); b.u2(delta); } gen_vt(&mut b, p, v, &offs); },
					MFrame::Chop(k) => { b.u1(251 - *k); b.u2(delta); },
					MFrame::Append(l) => { b.u1(251 + l.len() as u8); b.u2(delta); for v in l { gen_vt(&mut b, p, v, &offs); } },
					MFrame::Full(l, s) => { b.u1(255); b.u2(delta); b.u2(l.len()); for v in l { gen_vt(&mut b, p, v, &offs); } b.u2(s.len()); for v in s { gen_vt(&mut b, p, v, &offs); } },
				}
			}
			attrs.push((1, "StackMapTable".into(), b.0));
		}
		if let Some(lines) = &c.lines {
			let parts: Vec<&[(usize, u16)]> = if e.split && lines.len() >= 2 { let h = lines.len() / 2; vec![&lines[..h], &lines[h..]] } else { vec![&lines[..]] };
			for part in parts {
				let mut b = W(Vec::new());
				b.u2(part.len());
				for (at, l) in part { b.u2(offs[*at]); b.u2(*l as usize); }
				attrs.push((2, "LineNumberTable".into(), b.0));
			}
		}
		for (kind, name, table) in [(3u8, "LocalVariableTable", &c.lvt), (4u8, "LocalVariableTypeTable", &c.lvtt)] {
			if table.is_empty() { continue; }
			let mut b = W(Vec::new());
			b.u2(table.len());
			for v in table { b.u2(offs[v.start]); b.u2(offs[v.end] - offs[v.start]); b.u2(p.utf8(&v.name) as usize); b.u2(p.utf8(&v.ty) as usize); b.u2(v.index as usize); }
			attrs.push((kind, name.into(), b.0));
		}
		attrs.extend(unk_attrs(&c.unknown));
		put_attrs(&mut w, p, attrs, e.rev);
		w.0
	}
	fn gen_field(w: &mut W, p: &mut Pool, f: &MField, e: Enc) {
		w.u2(f.access as usize); w.u2(p.utf8(&f.name) as usize); w.u2(p.utf8(&f.desc) as usize);
		let mut a: Vec<At> = Vec::new();
		if let Some(c) = &f.constant { a.push((1, "ConstantValue".into(), u2_body(const_index(p, c)))); }
		if let Some(s) = &f.signature { a.push((2, "Signature".into(), u2_body(p.utf8(s)))); }
		if f.deprecated { a.push((3, "Deprecated".into(), vec![])); }
		if f.synthetic { a.push((4, "Synthetic".into(), vec![])); }
		a.extend(unk_attrs(&f.unknown));
		put_attrs(w, p, a, e.rev);
	}
	fn gen_method(w: &mut W, p: &mut Pool, m: &MMethod, e: Enc) {
		w.u2(m.access as usize); w.u2(p.utf8(&m.name) as usize); w.u2(p.utf8(&m.desc) as usize);
		let mut a: Vec<At> = Vec::new();
		if let Some(c) = &m.code { let b = gen_code(p, c, e); a.push((1, "Code".into(), b)); }
		if let Some(x) = &m.exceptions { a.push((2, "Exceptions".into(), class_list(p, x))); }
		if let Some(s) = &m.signature { a.push((3, "Signature".into(), u2_body(p.utf8(s)))); }
		if let Some(ps) = &m.params {
			let mut b = W(Vec::new());
			b.u1(ps.len() as u8);
			for (n, fl) in ps { b.u2(p.opt_utf8(n) as usize); b.u2(*fl as usize); }
			a.push((4, "MethodParameters".into(), b.0));
		}
		if m.deprecated { a.push((5, "Deprecated".into(), vec![])); }
		if m.synthetic { a.push((6, "Synthetic".into(), vec![])); }
		a.extend(unk_attrs(&m.unknown));
		put_attrs(w, p, a, e.rev);
	}
	fn gen_body(m: &MClass, e: Enc, p: &mut Pool) -> Vec<u8> {
		let mut w = W(Vec::new());
		w.u2(m.access as usize); w.u2(p.class(&m.this) as usize); w.u2(p.opt_class(&m.sup) as usize);
		w.u2(m.interfaces.len());
		for i in &m.interfaces { w.u2(p.class(i) as usize); }
		w.u2(m.fields.len());
		for f in &m.fields { gen_field(&mut w, p, f, e); }
		w.u2(m.methods.len());
		for x in &m.methods { gen_method(&mut w, p, x, e); }
		let mut a: Vec<At> = Vec::new();
		if let Some(s) = &m.source_file { a.push((1, "SourceFile".into(), u2_body(p.utf8(s)))); }
		if let Some(l) = &m.inner_classes {
			let mut b = W(Vec::new());
			b.u2(l.len());
			for i in l { b.u2(p.class(&i.inner) as usize); b.u2(p.opt_class(&i.outer) as usize); b.u2(p.opt_utf8(&i.name) as usize); b.u2(i.flags as usize); }
			a.push((2, "InnerClasses".into(), b.0));
		}
		if let Some((c, me)) = &m.enclosing_method {
			let mut b = W(Vec::new());
			b.u2(p.class(c) as usize);
			b.u2(match me { Some((n, d)) => p.get(K::Nat(n.clone(), d.clone())) as usize, None => 0 });
			a.push((3, "EnclosingMethod".into(), b.0));
		}
		if let Some(s) = &m.signature { a.push((4, "Signature".into(), u2_body(p.utf8(s)))); }
		if let Some(h) = &m.nest_host { a.push((5, "NestHost".into(), u2_body(p.class(h)))); }
		if let Some(l) = &m.nest_members { a.push((6, "NestMembers".into(), class_list(p, l))); }
		if let Some(l) = &m.permitted { a.push((7, "PermittedSubclasses".into(), class_list(p, l))); }
		if !m.record.is_empty() {
			let mut b = W(Vec::new());
			b.u2(m.record.len());
			for r in &m.record {
				b.u2(p.utf8(&r.name) as usize); b.u2(p.utf8(&r.desc) as usize);
				let mut ra: Vec<At> = Vec::new();
				if let Some(s) = &r.signature { ra.push((1, "Signature".into(), u2_body(p.utf8(s)))); }
				ra.extend(unk_attrs(&r.unknown));
				put_attrs(&mut b, p, ra, e.rev);
			}
			a.push((8, "Record".into(), b.0));
		}
		if !m.annotations.is_empty() { a.push((9, "RuntimeVisibleAnnotations".into(), gen_annotations(p, &m.annotations))); }
		if m.deprecated { a.push((10, "Deprecated".into(), vec![])); }
		if m.synthetic { a.push((11, "Synthetic".into(), vec![])); }
		a.extend(unk_attrs(&m.unknown));
		put_attrs(&mut w, p, a, e.rev);
		w.0
	}
	fn gen_class(m: &MClass, e: Enc) -> Vec<u8> {
		let mut p = Pool::new();
		let _ = gen_body(m, e, &mut p);
		let mut p2 = p.laid_out(e.pool);
		let body = gen_body(m, e, &mut p2);
		let mut w = W(Vec::new());
		w.u4(0xCAFEBABE); w.u2(m.minor as usize); w.u2(m.major as usize);
		p2.emit(&mut w);
		w.bytes(&body);
		w.0
	}

	// ---------------------------------------------------------------------------------------------------------------------
	// (3) the independent parser: class file bytes -> model, refusing everything that is not structurally valid
	//     (pool indices in range and of the right tag, exact attribute lengths, code length limits, every offset on an
	//     instruction boundary, operand forms per JVMS 6.5)
	// ---------------------------------------------------------------------------------------------------------------------
	struct R<'a> { b: &'a [u8], p: usize }
	impl<'a> R<'a> {
		fn new(b: &'a [u8]) -> R<'a> { R { b, p: 0 } }
		fn take(&mut self, n: usize) -> Result<&'a [u8], String> {
			if self.b.len() - self.p < n { return Err(format!("truncated: need {n} bytes at {}", self.p)); }
			let s = &self.b[self.p..self.p + n]; self.p += n; Ok(s)
		}
		fn u1(&mut self) -> Result<u8, String> { Ok(self.take(1)?[0]) }
		fn u2(&mut self) -> Result<u16, String> { let s = self.take(2)?; Ok(u16::from_be_bytes([s[0], s[1]])) }
		fn u4(&mut self) -> Result<u32, String> { let s = self.take(4)?; Ok(u32::from_be_bytes([s[0], s[1], s[2], s[3]])) }
		fn i4(&mut self) -> Result<i32, String> { Ok(self.u4()? as i32) }
		fn end(&self, what: &str) -> Result<(), String> { if self.p == self.b.len() { Ok(()) } else { Err(format!("{what}: {} surplus bytes (length field not exact)", self.b.len() - self.p)) } }
	}
	fn un_mutf8(b: &[u8]) -> Result<String, String> {
		let mut units: Vec<u16> = Vec::new();
		let mut i = 0;
		let cont = |i: usize| -> Result<u16, String> { match b.get(i) { Some(x) if x & 0xC0 == 0x80 => Ok((x & 0x3f) as u16), _ => Err("bad continuation byte in Utf8 constant".to_owned()) } };
		while i < b.len() {
			let x = b[i];
			if x == 0 || x >= 0xf0 { return Err(format!("byte {x:#x} not allowed in a Utf8 constant (JVMS 4.4.7)")); }
			if x < 0x80 { units.push(x as u16); i += 1; }
			else if x & 0xE0 == 0xC0 { units.push(((x & 0x1f) as u16) << 6 | cont(i + 1)?); i += 2; }
			else if x & 0xF0 == 0xE0 { units.push(((x & 0x0f) as u16) << 12 | cont(i + 1)? << 6 | cont(i + 2)?); i += 3; }
			else { return Err("bad lead byte in Utf8 constant".to_owned()); }
		}
		String::from_utf16(&units).map_err(|_| "unpaired surrogate in Utf8 constant".to_owned())
	}
	#[derive(Debug, Clone)]
	enum PE { Utf8(String), Int(i32), Float(u32), Long(i64), Double(u64), Class(u16), Str(u16), Field(u16, u16), Method(u16, u16), IMethod(u16, u16), Nat(u16, u16) }
	struct PPool(Vec<Option<PE>>);
	impl PPool {
		fn read(r: &mut R) -> Result<PPool, String> {
			let count = r.u2()? as usize;
			if count == 0 { return Err("constant_pool_count is 0".into()); }
			let mut v: Vec<Option<PE>> = vec![None];
			while v.len() < count {
				let tag = r.u1()?;
				let e = match tag {
					1 => { let n = r.u2()? as usize; PE::Utf8(un_mutf8(r.take(n)?)?) },
					3 => PE::Int(r.i4()?),
					4 => PE::Float(r.u4()?),
					5 => { let s = r.take(8)?; PE::Long(i64::from_be_bytes(s.try_into().unwrap())) },
					6 => { let s = r.take(8)?; PE::Double(u64::from_be_bytes(s.try_into().unwrap())) },
					7 => PE::Class(r.u2()?),
					8 => PE::Str(r.u2()?),
					9 => PE::Field(r.u2()?, r.u2()?),
					10 => PE::Method(r.u2()?, r.u2()?),
					11 => PE::IMethod(r.u2()?, r.u2()?),
					12 => PE::Nat(r.u2()?, r.u2()?),
					t => return Err(format!("constant pool tag {t} at index {} is outside this model", v.len())),
				};
				let two = matches!(e, PE::Long(_) | PE::Double(_));
				v.push(Some(e));
				if two { v.push(None); }
			}
			if v.len() != count { return Err("a Long/Double constant occupies the last index and one beyond constant_pool_count".into()); }
			let p = PPool(v);
			// every entry must be valid on its own, used or not
			for i in 1..p.0.len() {
				match &p.0[i] {
					Some(PE::Class(n)) | Some(PE::Str(n)) => { p.utf8(*n)?; },
					Some(PE::Nat(a, b)) => { p.utf8(*a)?; p.utf8(*b)?; },
					Some(PE::Field(c, n)) | Some(PE::Method(c, n)) | Some(PE::IMethod(c, n)) => { p.class(*c)?; p.nat(*n)?; },
					_ => {},
				}
			}
			Ok(p)
		}
		fn get(&self, i: u16) -> Result<&PE, String> { match self.0.get(i as usize) { Some(Some(e)) => Ok(e), _ => Err(format!("constant pool index {i} out of range or second half of a Long/Double")) } }
		fn utf8(&self, i: u16) -> Result<String, String> { match self.get(i)? { PE::Utf8(s) => Ok(s.clone()), e => Err(format!("constant {i} should be Utf8, is {e:?}")) } }
		fn class(&self, i: u16) -> Result<String, String> { match self.get(i)? { PE::Class(n) => self.utf8(*n), e => Err(format!("constant {i} should be Class, is {e:?}")) } }
		fn nat(&self, i: u16) -> Result<(String, String), String> { match self.get(i)? { PE::Nat(a, b) => Ok((self.utf8(*a)?, self.utf8(*b)?)), e => Err(format!("constant {i} should be NameAndType, is {e:?}")) } }
		fn opt_class(&self, i: u16) -> Result<Option<String>, String> { if i == 0 { Ok(None) } else { self.class(i).map(Some) } }
		fn opt_utf8(&self, i: u16) -> Result<Option<String>, String> { if i == 0 { Ok(None) } else { self.utf8(i).map(Some) } }
	}
	fn p_attrs<'a>(r: &mut R<'a>, pool: &PPool) -> Result<Vec<(String, &'a [u8])>, String> {
		let n = r.u2()?;
		let mut v = Vec::new();
		for _ in 0..n { let name = pool.utf8(r.u2()?)?; let len = r.u4()? as usize; v.push((name, r.take(len)?)); }
		Ok(v)
	}
	/// attribute names duke knows but this model does not contain: seeing one means something was invented
	const NOT_IN_MODEL: &[&str] = &["BootstrapMethods", "Module", "ModulePackages", "ModuleMainClass", "SourceDebugExtension", "RuntimeInvisibleAnnotations",
		"RuntimeVisibleTypeAnnotations", "RuntimeInvisibleTypeAnnotations", "RuntimeVisibleParameterAnnotations", "RuntimeInvisibleParameterAnnotations", "AnnotationDefault", "StackMap"];
	fn set_once<T>(slot: &mut Option<T>, v: T, what: &str) -> Result<(), String> { if slot.is_some() { return Err(format!("duplicate {what} attribute")); } *slot = Some(v); Ok(()) }
	fn flag_once(slot: &mut bool, b: &[u8], what: &str) -> Result<(), String> {
		if !b.is_empty() { return Err(format!("{what} attribute with non-zero length")); }
		if *slot { return Err(format!("duplicate {what} attribute")); }
		*slot = true; Ok(())
	}
	fn p_u2_attr(b: &[u8], what: &str) -> Result<u16, String> { let mut r = R::new(b); let v = r.u2()?; r.end(what)?; Ok(v) }
	fn p_class_list(b: &[u8], pool: &PPool, what: &str) -> Result<Vec<String>, String> {
		let mut r = R::new(b);
		let n = r.u2()?;
		let mut v = Vec::new();
		for _ in 0..n { v.push(pool.class(r.u2()?)?); }
		r.end(what)?;
		Ok(v)
	}
	fn p_elem(r: &mut R, pool: &PPool) -> Result<MElem, String> {
		Ok(match r.u1()? {
			b'I' => match pool.get(r.u2()?)? { PE::Int(v) => MElem::Int(*v), e => return Err(format!("element value I refers to {e:?}")) },
			b's' => MElem::Str(pool.utf8(r.u2()?)?),
			b'[' => { let n = r.u2()?; let mut v = Vec::new(); for _ in 0..n { v.push(p_elem(r, pool)?); } MElem::Array(v) },
			t => return Err(format!("element value tag {t} is outside this model")),
		})
	}
	fn p_annotations(b: &[u8], pool: &PPool) -> Result<Vec<MAnn>, String> {
		let mut r = R::new(b);
		let n = r.u2()?;
		let mut v = Vec::new();
		for _ in 0..n {
			let ty = pool.utf8(r.u2()?)?;
			let k = r.u2()?;
			let mut pairs = Vec::new();
			for _ in 0..k { let name = pool.utf8(r.u2()?)?; pairs.push((name, p_elem(&mut r, pool)?)); }
			v.push(MAnn { ty, pairs });
		}
		r.end("RuntimeVisibleAnnotations")?;
		Ok(v)
	}
	fn p_ref(pool: &PPool, i: u16, want: &str) -> Result<(String, String, String, bool), String> {
		let (c, n, itf) = match pool.get(i)? {
			PE::Field(c, n) if want == "field" => (*c, *n, false),
			PE::Method(c, n) if want == "method" || want == "either" => (*c, *n, false),
			PE::IMethod(c, n) if want == "imethod" || want == "either" => (*c, *n, true),
			e => return Err(format!("constant {i} should be a {want} reference, is {e:?}")),
		};
		let (name, desc) = pool.nat(n)?;
		Ok((pool.class(c)?, name, desc, itf))
	}
	/// decode the code array; branch targets are byte offsets here
	fn p_insns(code: &[u8], pool: &PPool) -> Result<Vec<(usize, MInsn)>, String> {
		let mut r = R::new(code);
		let mut v = Vec::new();
		let tgt = |off: usize, d: i64| -> Result<usize, String> { let t = off as i64 + d; if t < 0 || t >= code.len() as i64 { Err(format!("branch at {off} leaves the code array (target {t})")) } else { Ok(t as usize) } };
		while r.p < code.len() {
			let off = r.p;
			let op = r.u1()?;
			let i = match op {
				0..=15 | 46..=53 | 79..=131 | 133..=152 | 172..=177 | 190 | 191 | 194 | 195 => MInsn::Simple(op),
				16 => MInsn::BiPush(r.u1()? as i8),
				17 => MInsn::SiPush(r.u2()? as i16),
				18 | 19 => {
					let ix = if op == 18 { r.u1()? as u16 } else { r.u2()? };
					MInsn::Ldc(match pool.get(ix)? { PE::Int(x) => MLdc::Int(*x), PE::Float(x) => MLdc::Float(*x), PE::Str(s) => MLdc::Str(pool.utf8(*s)?), PE::Class(_) => MLdc::Class(pool.class(ix)?),
						e => return Err(format!("ldc at {off} refers to {e:?}")) })
				},
				20 => MInsn::Ldc(match pool.get(r.u2()?)? { PE::Long(x) => MLdc::Long(*x), PE::Double(x) => MLdc::Double(*x), e => return Err(format!("ldc2_w at {off} refers to {e:?}")) }),
				21..=25 => MInsn::Load(op - 21, r.u1()? as u16),
				26..=45 => MInsn::Load((op - 26) / 4, ((op - 26) % 4) as u16),
				54..=58 => MInsn::Store(op - 54, r.u1()? as u16),
				59..=78 => MInsn::Store((op - 59) / 4, ((op - 59) % 4) as u16),
				132 => MInsn::IInc(r.u1()? as u16, r.u1()? as i8 as i16),
				153..=168 | 198 | 199 => MInsn::Branch(op, tgt(off, r.u2()? as i16 as i64)?),
				200 | 201 => MInsn::Branch(op - 33, tgt(off, r.i4()? as i64)?),
				169 => MInsn::Ret(r.u1()? as u16),
				170 => {
					r.take(switch_pad(off))?;
					let default = tgt(off, r.i4()? as i64)?;
					let (low, high) = (r.i4()?, r.i4()?);
					if low > high { return Err(format!("tableswitch at {off}: low > high")); }
					let n = high as i64 - low as i64 + 1;
					if n > code.len() as i64 { return Err(format!("tableswitch at {off}: table larger than the code")); }
					let mut targets = Vec::new();
					for _ in 0..n { targets.push(tgt(off, r.i4()? as i64)?); }
					MInsn::TableSwitch { default, low, targets }
				},
				171 => {
					r.take(switch_pad(off))?;
					let default = tgt(off, r.i4()? as i64)?;
					let n = r.i4()?;
					if n < 0 || n as usize > code.len() { return Err(format!("lookupswitch at {off}: bad npairs {n}")); }
					let mut pairs: Vec<(i32, usize)> = Vec::new();
					for _ in 0..n { let k = r.i4()?; if pairs.last().is_some_and(|l| l.0 >= k) { return Err(format!("lookupswitch at {off}: keys not strictly increasing")); } pairs.push((k, tgt(off, r.i4()? as i64)?)); }
					MInsn::LookupSwitch { default, pairs }
				},
				178..=181 => { let (c, n, d, _) = p_ref(pool, r.u2()?, "field")?; MInsn::Field(op, c, n, d) },
				182 => { let (c, n, d, _) = p_ref(pool, r.u2()?, "method")?; MInsn::Invoke(op, c, n, d, false) },
				183 | 184 => { let (c, n, d, itf) = p_ref(pool, r.u2()?, "either")?; MInsn::Invoke(op, c, n, d, itf) },
				185 => {
					let (c, n, d, _) = p_ref(pool, r.u2()?, "imethod")?;
					let (count, zero) = (r.u1()?, r.u1()?);
					if zero != 0 { return Err(format!("invokeinterface at {off}: fourth operand byte is {zero}, must be 0")); }
					if Some(count) != arg_slots(&d) { return Err(format!("invokeinterface at {off}: count {count} does not match descriptor {d}")); }
					MInsn::Invoke(op, c, n, d, true)
				},
				187 | 189 | 192 | 193 => MInsn::Type(op, pool.class(r.u2()?)?),
				188 => { let t = r.u1()?; if !(4..=11).contains(&t) { return Err(format!("newarray at {off}: atype {t}")); } MInsn::NewArray(t) },
				196 => match r.u1()? {
					x @ 21..=25 => MInsn::Load(x - 21, r.u2()?),
					x @ 54..=58 => MInsn::Store(x - 54, r.u2()?),
					132 => MInsn::IInc(r.u2()?, r.u2()? as i16),
					169 => MInsn::Ret(r.u2()?),
					x => return Err(format!("wide at {off} modifies opcode {x}")),
				},
				197 => { let c = pool.class(r.u2()?)?; let d = r.u1()?; if d == 0 { return Err(format!("multianewarray at {off}: 0 dimensions")); } MInsn::MultiANewArray(c, d) },
				x => return Err(format!("opcode {x} at {off} is not an instruction of a class file (or outside this model)")),
			};
			v.push((off, i));
		}
		Ok(v)
	}
	fn p_vt(r: &mut R, pool: &PPool, at: &dyn Fn(usize) -> Result<usize, String>) -> Result<MVt, String> {
		Ok(match r.u1()? {
			0 => MVt::Top, 1 => MVt::Integer, 2 => MVt::Float, 3 => MVt::Double, 4 => MVt::Long, 5 => MVt::Null, 6 => MVt::UninitThis,
			7 => MVt::Object(pool.class(r.u2()?)?),
			8 => MVt::Uninit(at(r.u2()? as usize)?),
			t => return Err(format!("verification type tag {t}")),
		})
	}
	fn p_code(b: &[u8], pool: &PPool) -> Result<MCode, String> {
		let mut r = R::new(b);
		let (max_stack, max_locals) = (r.u2()?, r.u2()?);
		let len = r.u4()? as usize;
		if len == 0 || len > 65535 { return Err(format!("code_length {len} outside 1..=65535")); }
		let code = r.take(len)?;
		let raw = p_insns(code, pool)?;
		let mut index_of: Vec<Option<usize>> = vec![None; len + 1];
		for (k, (off, _)) in raw.iter().enumerate() { index_of[*off] = Some(k); }
		let n = raw.len();
		let at = |off: usize| -> Result<usize, String> { match index_of.get(off) { Some(Some(k)) => Ok(*k), _ => Err(format!("offset {off} is not the start of an instruction")) } };
		let at_or_end = |off: usize| -> Result<usize, String> { if off == len { Ok(n) } else { at(off) } };
		let insns = raw.iter().map(|(_, i)| retarget(i, &at)).collect::<Result<Vec<_>, _>>()?;
		let mut exc = Vec::new();
		for _ in 0..r.u2()? {
			let (s, e, h, c) = (r.u2()? as usize, r.u2()? as usize, r.u2()? as usize, r.u2()?);
			if s >= e { return Err(format!("exception range [{s},{e}) is empty")); }
			exc.push(MExc { start: at(s)?, end: at_or_end(e)?, handler: at(h)?, catch: pool.opt_class(c)? });
		}
		let (mut lines, mut lvt, mut lvtt, mut frames, mut unknown) = (None::<Vec<(usize, u16)>>, None::<Vec<MLv>>, None::<Vec<MLv>>, None::<Vec<(usize, MFrame)>>, Vec::new());
		for (name, body) in p_attrs(&mut r, pool)? {
			let mut a = R::new(body);
			match name.as_str() {
				"LineNumberTable" => { let t = lines.get_or_insert_with(Vec::new); for _ in 0..a.u2()? { t.push((at(a.u2()? as usize)?, a.u2()?)); } a.end("LineNumberTable")?; },
				"LocalVariableTable" | "LocalVariableTypeTable" => {
					let mut t = Vec::new();
					for _ in 0..a.u2()? {
						let (s, l) = (a.u2()? as usize, a.u2()? as usize);
						t.push(MLv { start: at(s)?, end: at_or_end(s + l)?, name: pool.utf8(a.u2()?)?, ty: pool.utf8(a.u2()?)?, index: a.u2()? });
					}
					a.end(&name)?;
					if t.is_empty() { return Err(format!("empty {name} attribute")); }
					set_once(if name == "LocalVariableTable" { &mut lvt } else { &mut lvtt }, t, &name)?;
				},
				"StackMapTable" => {
					let mut t: Vec<(usize, MFrame)> = Vec::new();
					let mut prev: Option<usize> = None;
					for _ in 0..a.u2()? {
						let ty = a.u1()?;
						let (delta, fr) = match ty {
							0..=63 => (ty as usize, MFrame::Same),
							64..=127 => ((ty - 64) as usize, MFrame::Same1(p_vt(&mut a, pool, &at)?)),
							128..=246 => return Err(format!("reserved stack map frame type {ty}")),
							247 => (a.u2()? as usize, MFrame::Same1(p_vt(&mut a, pool, &at)?)),
							248..=250 => (a.u2()? as usize, MFrame::Chop(251 - ty)),
							251 => (a.u2()? as usize, MFrame::Same),
							252..=254 => { let d = a.u2()? as usize; let mut l = Vec::new(); for _ in 0..ty - 251 { l.push(p_vt(&mut a, pool, &at)?); } (d, MFrame::Append(l)) },
							255 => {
								let d = a.u2()? as usize;
								let mut l = Vec::new(); for _ in 0..a.u2()? { l.push(p_vt(&mut a, pool, &at)?); }
								let mut s = Vec::new(); for _ in 0..a.u2()? { s.push(p_vt(&mut a, pool, &at)?); }
								(d, MFrame::Full(l, s))
							},
						};
						let off = match prev { None => delta, Some(q) => q + delta + 1 };
						prev = Some(off);
						t.push((at(off)?, fr));
					}
					a.end("StackMapTable")?;
					set_once(&mut frames, t, "StackMapTable")?;
				},
				x if NOT_IN_MODEL.contains(&x) => return Err(format!("code attribute {x} does not come from the model")),
				_ => unknown.push((name, body.to_vec())),
			}
		}
		r.end("Code")?;
		Ok(MCode { max_stack, max_locals, insns, exc, lines, lvt: lvt.unwrap_or_default(), lvtt: lvtt.unwrap_or_default(), frames: frames.unwrap_or_default(), unknown })
	}
	fn p_field(r: &mut R, pool: &PPool) -> Result<MField, String> {
		let mut f = MField { access: r.u2()?, name: pool.utf8(r.u2()?)?, desc: pool.utf8(r.u2()?)?, deprecated: false, synthetic: false, constant: None, signature: None, unknown: Vec::new() };
		for (name, b) in p_attrs(r, pool)? {
			match name.as_str() {
				"ConstantValue" => {
					let c = match pool.get(p_u2_attr(b, "ConstantValue")?)? { PE::Int(v) => MConst::Int(*v), PE::Float(v) => MConst::Float(*v), PE::Long(v) => MConst::Long(*v), PE::Double(v) => MConst::Double(*v),
						PE::Str(s) => MConst::Str(pool.utf8(*s)?), e => return Err(format!("ConstantValue refers to {e:?}")) };
					set_once(&mut f.constant, c, "ConstantValue")?;
				},
				"Signature" => set_once(&mut f.signature, pool.utf8(p_u2_attr(b, "Signature")?)?, "Signature")?,
				"Deprecated" => flag_once(&mut f.deprecated, b, "Deprecated")?,
				"Synthetic" => flag_once(&mut f.synthetic, b, "Synthetic")?,
				x if NOT_IN_MODEL.contains(&x) => return Err(format!("field attribute {x} does not come from the model")),
				_ => f.unknown.push((name, b.to_vec())),
			}
		}
		Ok(f)
	}
	fn p_method(r: &mut R, pool: &PPool) -> Result<MMethod, String> {
		let mut m = MMethod { access: r.u2()?, name: pool.utf8(r.u2()?)?, desc: pool.utf8(r.u2()?)?, deprecated: false, synthetic: false, code: None, exceptions: None, signature: None, params: None, unknown: Vec::new() };
		for (name, b) in p_attrs(r, pool)? {
			match name.as_str() {
				"Code" => set_once(&mut m.code, p_code(b, pool).map_err(|e| format!("method {}{}: {e}", m.name, m.desc))?, "Code")?,
				"Exceptions" => set_once(&mut m.exceptions, p_class_list(b, pool, "Exceptions")?, "Exceptions")?,
				"Signature" => set_once(&mut m.signature, pool.utf8(p_u2_attr(b, "Signature")?)?, "Signature")?,
				"MethodParameters" => {
					let mut a = R::new(b);
					let mut v = Vec::new();
					for _ in 0..a.u1()? { v.push((pool.opt_utf8(a.u2()?)?, a.u2()?)); }
					a.end("MethodParameters")?;
					set_once(&mut m.params, v, "MethodParameters")?;
				},
				"Deprecated" => flag_once(&mut m.deprecated, b, "Deprecated")?,
				"Synthetic" => flag_once(&mut m.synthetic, b, "Synthetic")?,
				x if NOT_IN_MODEL.contains(&x) => return Err(format!("method attribute {x} does not come from the model")),
				_ => m.unknown.push((name, b.to_vec())),
			}
		}
		Ok(m)
	}
	fn parse_class(bytes: &[u8]) -> Result<MClass, String> {
		let mut r = R::new(bytes);
		if r.u4()? != 0xCAFEBABE { return Err("bad magic".into()); }
		let (minor, major) = (r.u2()?, r.u2()?);
		let pool = PPool::read(&mut r)?;
		let pool = &pool;
		let access = r.u2()?;
		let this = pool.class(r.u2()?)?;
		let sup = pool.opt_class(r.u2()?)?;
		let mut interfaces = Vec::new();
		for _ in 0..r.u2()? { interfaces.push(pool.class(r.u2()?)?); }
		let mut fields = Vec::new();
		for _ in 0..r.u2()? { fields.push(p_field(&mut r, pool)?); }
		let mut methods = Vec::new();
		for _ in 0..r.u2()? { methods.push(p_method(&mut r, pool)?); }
		let mut m = MClass { minor, major, access, this, sup, interfaces, fields, methods, deprecated: false, synthetic: false, source_file: None, signature: None, inner_classes: None,
			enclosing_method: None, nest_host: None, nest_members: None, permitted: None, record: Vec::new(), annotations: Vec::new(), unknown: Vec::new() };
		let (mut had_record, mut had_ann) = (false, false);
		for (name, b) in p_attrs(&mut r, pool)? {
			match name.as_str() {
				"SourceFile" => set_once(&mut m.source_file, pool.utf8(p_u2_attr(b, "SourceFile")?)?, "SourceFile")?,
				"Signature" => set_once(&mut m.signature, pool.utf8(p_u2_attr(b, "Signature")?)?, "Signature")?,
				"NestHost" => set_once(&mut m.nest_host, pool.class(p_u2_attr(b, "NestHost")?)?, "NestHost")?,
				"NestMembers" => set_once(&mut m.nest_members, p_class_list(b, pool, "NestMembers")?, "NestMembers")?,
				"PermittedSubclasses" => set_once(&mut m.permitted, p_class_list(b, pool, "PermittedSubclasses")?, "PermittedSubclasses")?,
				"InnerClasses" => {
					let mut a = R::new(b);
					let mut v = Vec::new();
					for _ in 0..a.u2()? { v.push(MInner { inner: pool.class(a.u2()?)?, outer: pool.opt_class(a.u2()?)?, name: pool.opt_utf8(a.u2()?)?, flags: a.u2()? }); }
					a.end("InnerClasses")?;
					set_once(&mut m.inner_classes, v, "InnerClasses")?;
				},
				"EnclosingMethod" => {
					let mut a = R::new(b);
					let c = pool.class(a.u2()?)?;
					let mi = a.u2()?;
					a.end("EnclosingMethod")?;
					set_once(&mut m.enclosing_method, (c, if mi == 0 { None } else { Some(pool.nat(mi)?) }), "EnclosingMethod")?;
				},
				"Record" => {
					if had_record { return Err("duplicate Record attribute".into()); }
					had_record = true;
					let mut a = R::new(b);
					for _ in 0..a.u2()? {
						let mut rc = MRec { name: pool.utf8(a.u2()?)?, desc: pool.utf8(a.u2()?)?, signature: None, unknown: Vec::new() };
						for (n2, b2) in p_attrs(&mut a, pool)? {
							match n2.as_str() {
								"Signature" => set_once(&mut rc.signature, pool.utf8(p_u2_attr(b2, "Signature")?)?, "Signature")?,
								x if NOT_IN_MODEL.contains(&x) => return Err(format!("record component attribute {x} does not come from the model")),
								_ => rc.unknown.push((n2, b2.to_vec())),
							}
						}
						m.record.push(rc);
					}
					a.end("Record")?;
					if m.record.is_empty() { return Err("Record attribute without components (outside this model)".into()); }
				},
				"RuntimeVisibleAnnotations" => {
					if had_ann { return Err("duplicate RuntimeVisibleAnnotations attribute".into()); }
					had_ann = true;
					m.annotations = p_annotations(b, pool)?;
					if m.annotations.is_empty() { return Err("empty RuntimeVisibleAnnotations attribute (outside this model)".into()); }
				},
				"Deprecated" => flag_once(&mut m.deprecated, b, "Deprecated")?,
				"Synthetic" => flag_once(&mut m.synthetic, b, "Synthetic")?,
				x if NOT_IN_MODEL.contains(&x) => return Err(format!("class attribute {x} does not come from the model")),
				_ => m.unknown.push((name, b.to_vec())),
			}
		}
		r.end("class file")?;
		Ok(m)
	}

	// ---------------------------------------------------------------------------------------------------------------------
	// (4) duke tree -> model.  Labels are resolved to instruction indices through the instruction list; anything in the
	//     tree that the model cannot express is an error ("invented").
	// ---------------------------------------------------------------------------------------------------------------------
	fn js(s: &JavaStr) -> Result<String, String> { s.as_str().map(|x| x.to_owned()).map_err(|_| format!("string {s:?} is not UTF-8")) }
	fn jsl(s: &JavaStr) -> String { s.as_str_lossy().into_owned() }
	fn bits(v: &[(bool, u16)]) -> u16 { v.iter().map(|&(b, m)| if b { m } else { 0 }).fold(0, |a, b| a | b) }
	fn class_access_bits(a: &ClassAccess) -> u16 {
		bits(&[(a.is_public, 0x0001), (a.is_final, 0x0010), (a.is_super, 0x0020), (a.is_interface, 0x0200), (a.is_abstract, 0x0400), (a.is_synthetic, 0x1000), (a.is_annotation, 0x2000), (a.is_enum, 0x4000), (a.is_module, 0x8000)])
	}
	fn field_access_bits(a: &FieldAccess) -> u16 {
		bits(&[(a.is_public, 0x0001), (a.is_private, 0x0002), (a.is_protected, 0x0004), (a.is_static, 0x0008), (a.is_final, 0x0010), (a.is_volatile, 0x0040), (a.is_transient, 0x0080), (a.is_synthetic, 0x1000), (a.is_enum, 0x4000)])
	}
	fn method_access_bits(a: &MethodAccess) -> u16 {
		bits(&[(a.is_public, 0x0001), (a.is_private, 0x0002), (a.is_protected, 0x0004), (a.is_static, 0x0008), (a.is_final, 0x0010), (a.is_synchronized, 0x0020), (a.is_bridge, 0x0040), (a.is_varargs, 0x0080),
			(a.is_native, 0x0100), (a.is_abstract, 0x0400), (a.is_strict, 0x0800), (a.is_synthetic, 0x1000)])
	}
	fn c_unknown(a: &[Attribute]) -> Result<Vec<MUnk>, String> { a.iter().map(|x| Ok((js(&x.name)?, x.bytes.clone()))).collect() }
	fn c_classes(v: &[ClassName]) -> Result<Vec<String>, String> { v.iter().map(|c| js(c.as_inner())).collect() }
	fn simple_op(i: &Instruction) -> Option<u8> {
		use Instruction as I;
		Some(match i {
			I::Nop => 0, I::AConstNull => 1, I::IConstM1 => 2, I::IConst0 => 3, I::IConst1 => 4, I::IConst2 => 5, I::IConst3 => 6, I::IConst4 => 7, I::IConst5 => 8,
			I::LConst0 => 9, I::LConst1 => 10, I::FConst0 => 11, I::FConst1 => 12, I::FConst2 => 13, I::DConst0 => 14, I::DConst1 => 15,
			I::IALoad => 46, I::LALoad => 47, I::FALoad => 48, I::DALoad => 49, I::AALoad => 50, I::BALoad => 51, I::CALoad => 52, I::SALoad => 53,
			I::IAStore => 79, I::LAStore => 80, I::FAStore => 81, I::DAStore => 82, I::AAStore => 83, I::BAStore => 84, I::CAStore => 85, I::SAStore => 86,
			I::Pop => 87, I::Pop2 => 88, I::Dup => 89, I::DupX1 => 90, I::DupX2 => 91, I::Dup2 => 92, I::Dup2X1 => 93, I::Dup2X2 => 94, I::Swap => 95,
			I::IAdd => 96, I::LAdd => 97, I::FAdd => 98, I::DAdd => 99, I::ISub => 100, I::LSub => 101, I::FSub => 102, I::DSub => 103,
			I::IMul => 104, I::LMul => 105, I::FMul => 106, I::DMul => 107, I::IDiv => 108, I::LDiv => 109, I::FDiv => 110, I::DDiv => 111,
			I::IRem => 112, I::LRem => 113, I::FRem => 114, I::DRem => 115, I::INeg => 116, I::LNeg => 117, I::FNeg => 118, I::DNeg => 119,
			I::IShl => 120, I::LShl => 121, I::IShr => 122, I::LShr => 123, I::IUShr => 124, I::LUShr => 125, I::IAnd => 126, I::LAnd => 127, I::IOr => 128, I::LOr => 129, I::IXor => 130, I::LXor => 131,
			I::I2L => 133, I::I2F => 134, I::I2D => 135, I::L2I => 136, I::L2F => 137, I::L2D => 138, I::F2I => 139, I::F2L => 140, I::F2D => 141, I::D2I => 142, I::D2L => 143, I::D2F => 144,
			I::I2B => 145, I::I2C => 146, I::I2S => 147, I::LCmp => 148, I::FCmpL => 149, I::FCmpG => 150, I::DCmpL => 151, I::DCmpG => 152,
			I::IReturn => 172, I::LReturn => 173, I::FReturn => 174, I::DReturn => 175, I::AReturn => 176, I::Return => 177,
			I::ArrayLength => 190, I::AThrow => 191, I::MonitorEnter => 194, I::MonitorExit => 195,
			_ => return None,
		})
	}
	fn c_insn(i: &Instruction, at: &dyn Fn(&Label) -> Result<usize, String>) -> Result<MInsn, String> {
		use Instruction as I;
		if let Some(op) = simple_op(i) { return Ok(MInsn::Simple(op)); }
		let br = |op: u8, l: &Label| -> Result<MInsn, String> { Ok(MInsn::Branch(op, at(l)?)) };
		Ok(match i {
			I::BiPush(v) => MInsn::BiPush(*v), I::SiPush(v) => MInsn::SiPush(*v),
			I::Ldc(l) => MInsn::Ldc(match l {
				Loadable::Integer(v) => MLdc::Int(*v), Loadable::Float(v) => MLdc::Float(v.to_bits()), Loadable::Long(v) => MLdc::Long(*v), Loadable::Double(v) => MLdc::Double(v.to_bits()),
				Loadable::Class(c) => MLdc::Class(js(c.as_inner())?), Loadable::String(s) => MLdc::Str(js(s)?),
				other => return Err(format!("ldc of {other:?} is outside the model")),
			}),
			I::ILoad(x) => MInsn::Load(0, x.index), I::LLoad(x) => MInsn::Load(1, x.index), I::FLoad(x) => MInsn::Load(2, x.index), I::DLoad(x) => MInsn::Load(3, x.index), I::ALoad(x) => MInsn::Load(4, x.index),
			I::IStore(x) => MInsn::Store(0, x.index), I::LStore(x) => MInsn::Store(1, x.index), I::FStore(x) => MInsn::Store(2, x.index), I::DStore(x) => MInsn::Store(3, x.index), I::AStore(x) => MInsn::Store(4, x.index),
			I::IInc(x, d) => MInsn::IInc(x.index, *d), I::Ret(x) => MInsn::Ret(x.index),
			I::IfEq(l) => br(153, l)?, I::IfNe(l) => br(154, l)?, I::IfLt(l) => br(155, l)?, I::IfGe(l) => br(156, l)?, I::IfGt(l) => br(157, l)?, I::IfLe(l) => br(158, l)?,
			I::IfICmpEq(l) => br(159, l)?, I::IfICmpNe(l) => br(160, l)?, I::IfICmpLt(l) => br(161, l)?, I::IfICmpGe(l) => br(162, l)?, I::IfICmpGt(l) => br(163, l)?, I::IfICmpLe(l) => br(164, l)?,
			I::IfACmpEq(l) => br(165, l)?, I::IfACmpNe(l) => br(166, l)?, I::Goto(l) => br(167, l)?, I::Jsr(l) => br(168, l)?, I::IfNull(l) => br(198, l)?, I::IfNonNull(l) => br(199, l)?,
			I::TableSwitch { default, low, high, table } => {
				if *high as i64 - *low as i64 + 1 != table.len() as i64 { return Err(format!("tableswitch low={low} high={high} with {} entries", table.len())); }
				MInsn::TableSwitch { default: at(default)?, low: *low, targets: table.iter().map(|l| at(l)).collect::<Result<_, _>>()? }
			},
			I::LookupSwitch { default, pairs } => MInsn::LookupSwitch { default: at(default)?, pairs: pairs.iter().map(|(k, l)| Ok((*k, at(l)?))).collect::<Result<_, String>>()? },
			I::GetStatic(f) => MInsn::Field(178, js(f.class.as_inner())?, js(f.name.as_inner())?, js(f.desc.as_inner())?),
			I::PutStatic(f) => MInsn::Field(179, js(f.class.as_inner())?, js(f.name.as_inner())?, js(f.desc.as_inner())?),
			I::GetField(f) => MInsn::Field(180, js(f.class.as_inner())?, js(f.name.as_inner())?, js(f.desc.as_inner())?),
			I::PutField(f) => MInsn::Field(181, js(f.class.as_inner())?, js(f.name.as_inner())?, js(f.desc.as_inner())?),
			I::InvokeVirtual(m) => MInsn::Invoke(182, js(m.class.as_inner())?, js(m.name.as_inner())?, js(m.desc.as_inner())?, false),
			I::InvokeSpecial(m, itf) => MInsn::Invoke(183, js(m.class.as_inner())?, js(m.name.as_inner())?, js(m.desc.as_inner())?, *itf),
			I::InvokeStatic(m, itf) => MInsn::Invoke(184, js(m.class.as_inner())?, js(m.name.as_inner())?, js(m.desc.as_inner())?, *itf),
			I::InvokeInterface(m) => MInsn::Invoke(185, js(m.class.as_inner())?, js(m.name.as_inner())?, js(m.desc.as_inner())?, true),
			I::New(c) => MInsn::Type(187, js(c.as_inner())?), I::ANewArray(c) => MInsn::Type(189, js(c.as_inner())?),
			I::CheckCast(c) => MInsn::Type(192, js(c.as_inner())?), I::InstanceOf(c) => MInsn::Type(193, js(c.as_inner())?),
			I::NewArray(t) => MInsn::NewArray(match t { ArrayType::Boolean => 4, ArrayType::Char => 5, ArrayType::Float => 6, ArrayType::Double => 7, ArrayType::Byte => 8, ArrayType::Short => 9, ArrayType::Int => 10, ArrayType::Long => 11 }),
			I::MultiANewArray(c, d) => MInsn::MultiANewArray(js(c.as_inner())?, *d),
			other => return Err(format!("instruction {other:?} is outside the model")),
		})
	}
	fn c_vt(v: &VerificationTypeInfo, at: &dyn Fn(&Label) -> Result<usize, String>) -> Result<MVt, String> {
		use VerificationTypeInfo as V;
		Ok(match v {
			V::Top => MVt::Top, V::Integer => MVt::Integer, V::Float => MVt::Float, V::Long => MVt::Long, V::Double => MVt::Double, V::Null => MVt::Null, V::UninitializedThis => MVt::UninitThis,
			V::Object(c) => MVt::Object(js(c.as_inner())?), V::Uninitialized(l) => MVt::Uninit(at(l)?),
		})
	}
	fn c_code(c: &Code) -> Result<MCode, String> {
		let n = c.instructions.len();
		let mut map: HashMap<Label, usize> = HashMap::new();
		for (k, e) in c.instructions.iter().enumerate() {
			if let Some(l) = e.label { if map.insert(l, k).is_some() { return Err(format!("label {l:?} is attached to two instructions")); } }
		}
		if let Some(l) = c.last_label { if map.insert(l, n).is_some() { return Err(format!("the last label {l:?} is also attached to an instruction")); } }
		let at = |l: &Label| -> Result<usize, String> { map.get(l).copied().ok_or_else(|| format!("label {l:?} is attached to no instruction")) };
		let at_insn = |l: &Label| -> Result<usize, String> { let k = at(l)?; if k == n { Err(format!("label {l:?} designates the end of the code where an instruction is required")) } else { Ok(k) } };
		let (Some(max_stack), Some(max_locals)) = (c.max_stack, c.max_locals) else { return Err("max_stack / max_locals missing".into()); };
		let mut insns = Vec::with_capacity(n);
		let mut frames = Vec::new();
		for (k, e) in c.instructions.iter().enumerate() {
			insns.push(c_insn(&e.instruction, &at_insn)?);
			if let Some(f) = &e.frame {
				let l = |v: &Vec<VerificationTypeInfo>| v.iter().map(|x| c_vt(x, &at_insn)).collect::<Result<Vec<_>, String>>();
				frames.push((k, match f {
					StackMapData::Same => MFrame::Same, StackMapData::SameLocals1StackItem { stack } => MFrame::Same1(c_vt(stack, &at_insn)?), StackMapData::Chop { k } => MFrame::Chop(*k),
					StackMapData::Append { locals } => MFrame::Append(l(locals)?), StackMapData::Full { locals, stack } => MFrame::Full(l(locals)?, l(stack)?),
				}));
			}
		}
		let exc = c.exception_table.iter().map(|x: &Exception| Ok(MExc { start: at_insn(&x.start)?, end: at(&x.end)?, handler: at_insn(&x.handler)?, catch: match &x.catch { Some(c) => Some(js(c.as_inner())?), None => None } }))
			.collect::<Result<Vec<_>, String>>()?;
		let lines = match &c.line_numbers { None => None, Some(v) => Some(v.iter().map(|(l, n)| Ok((at_insn(l)?, *n))).collect::<Result<Vec<_>, String>>()?) };
		let (mut lvt, mut lvtt) = (Vec::new(), Vec::new());
		for v in c.local_variables.iter().flatten() {
			let v: &Lv = v;
			let (start, end, name, index) = (at_insn(&v.range.start)?, at(&v.range.end)?, js(v.name.as_inner())?, v.index.index);
			if v.descriptor.is_none() && v.signature.is_none() { return Err(format!("local variable {name} has neither descriptor nor signature")); }
			if let Some(d) = &v.descriptor { lvt.push(MLv { start, end, name: name.clone(), ty: js(d.as_inner())?, index }); }
			if let Some(s) = &v.signature { lvtt.push(MLv { start, end, name: name.clone(), ty: js(s.as_inner())?, index }); }
		}
		if !c.runtime_visible_type_annotations.is_empty() || !c.runtime_invisible_type_annotations.is_empty() { return Err("type annotations on code (not in the model)".into()); }
		Ok(MCode { max_stack, max_locals, insns, exc, lines, lvt, lvtt, frames, unknown: c_unknown(&c.attributes)? })
	}
	fn c_elem(e: &ElementValue) -> Result<MElem, String> {
		Ok(match e {
			ElementValue::Object(Object::Integer(v)) => MElem::Int(*v),
			ElementValue::Object(Object::String(s)) => MElem::Str(js(s)?),
			ElementValue::ArrayType(v) => MElem::Array(v.iter().map(c_elem).collect::<Result<_, _>>()?),
			other => return Err(format!("element value {other:?} is outside the model")),
		})
	}
	fn c_field(f: &Field) -> Result<MField, String> {
		if !f.runtime_visible_annotations.is_empty() || !f.runtime_invisible_annotations.is_empty() || !f.runtime_visible_type_annotations.is_empty() || !f.runtime_invisible_type_annotations.is_empty() {
			return Err(format!("annotations on field {:?} (not in the model)", f.name));
		}
		Ok(MField {
			access: field_access_bits(&f.access), name: js(f.name.as_inner())?, desc: js(f.descriptor.as_inner())?, deprecated: f.has_deprecated_attribute, synthetic: f.has_synthetic_attribute,
			constant: match &f.constant_value {
				None => None,
				Some(ConstantValue::Integer(v)) => Some(MConst::Int(*v)), Some(ConstantValue::Float(v)) => Some(MConst::Float(v.to_bits())), Some(ConstantValue::Long(v)) => Some(MConst::Long(*v)),
				Some(ConstantValue::Double(v)) => Some(MConst::Double(v.to_bits())), Some(ConstantValue::String(s)) => Some(MConst::Str(js(s)?)),
			},
			signature: match &f.signature { Some(s) => Some(js(s.as_inner())?), None => None },
			unknown: c_unknown(&f.attributes)?,
		})
	}
	fn c_method(m: &Method) -> Result<MMethod, String> {
		if !m.runtime_visible_annotations.is_empty() || !m.runtime_invisible_annotations.is_empty() || !m.runtime_visible_type_annotations.is_empty() || !m.runtime_invisible_type_annotations.is_empty()
			|| m.annotation_default.is_some() {
			return Err(format!("annotations on method {:?} (not in the model)", m.name));
		}
		Ok(MMethod {
			access: method_access_bits(&m.access), name: js(m.name.as_inner())?, desc: js(m.descriptor.as_inner())?, deprecated: m.has_deprecated_attribute, synthetic: m.has_synthetic_attribute,
			code: match &m.code { Some(c) => Some(c_code(c).map_err(|e| format!("method {}: {e}", jsl(m.name.as_inner())))?), None => None },
			exceptions: match &m.exceptions { Some(v) => Some(c_classes(v)?), None => None },
			signature: match &m.signature { Some(s) => Some(js(s.as_inner())?), None => None },
			params: match &m.method_parameters {
				None => None,
				Some(v) => Some(v.iter().map(|p: &MethodParameter| Ok((match &p.name { Some(n) => Some(js(n.as_inner())?), None => None },
					bits(&[(p.flags.is_final, 0x0010), (p.flags.is_synthetic, 0x1000), (p.flags.is_mandated, 0x8000)])))).collect::<Result<Vec<_>, String>>()?),
			},
			unknown: c_unknown(&m.attributes)?,
		})
	}
	fn c_rec(r: &RecordComponent) -> Result<MRec, String> {
		if !r.runtime_visible_annotations.is_empty() || !r.runtime_invisible_annotations.is_empty() || !r.runtime_visible_type_annotations.is_empty() || !r.runtime_invisible_type_annotations.is_empty() {
			return Err("annotations on a record component (not in the model)".into());
		}
		Ok(MRec { name: js(r.name.as_inner())?, desc: js(r.descriptor.as_inner())?, signature: match &r.signature { Some(s) => Some(js(s.as_inner())?), None => None }, unknown: c_unknown(&r.attributes)? })
	}
	fn c_class(c: &ClassFile) -> Result<MClass, String> {
		if c.source_debug_extension.is_some() || !c.runtime_invisible_annotations.is_empty() || !c.runtime_visible_type_annotations.is_empty() || !c.runtime_invisible_type_annotations.is_empty()
			|| c.module.is_some() || c.module_packages.is_some() || c.module_main_class.is_some() {
			return Err("the tree holds class-level data that is not in the model (module / type annotations / invisible annotations / SourceDebugExtension)".into());
		}
		Ok(MClass {
			minor: c.version.minor, major: c.version.major, access: class_access_bits(&c.access), this: js(c.name.as_inner())?,
			sup: match &c.super_class { Some(s) => Some(js(s.as_inner())?), None => None },
			interfaces: c.interfaces.iter().map(|i| js(i.as_inner())).collect::<Result<_, _>>()?,
			fields: c.fields.iter().map(c_field).collect::<Result<_, _>>()?,
			methods: c.methods.iter().map(c_method).collect::<Result<_, _>>()?,
			deprecated: c.has_deprecated_attribute, synthetic: c.has_synthetic_attribute,
			source_file: match &c.source_file { Some(s) => Some(js(s)?), None => None },
			signature: match &c.signature { Some(s) => Some(js(s.as_inner())?), None => None },
			inner_classes: match &c.inner_classes {
				None => None,
				Some(v) => Some(v.iter().map(|i: &InnerClass| Ok(MInner {
					inner: js(i.inner_class.as_inner())?, outer: match &i.outer_class { Some(o) => Some(js(o.as_inner())?), None => None }, name: match &i.inner_name { Some(n) => Some(js(n)?), None => None },
					flags: bits(&[(i.flags.is_public, 0x0001), (i.flags.is_private, 0x0002), (i.flags.is_protected, 0x0004), (i.flags.is_static, 0x0008), (i.flags.is_final, 0x0010), (i.flags.is_interface, 0x0200),
						(i.flags.is_abstract, 0x0400), (i.flags.is_synthetic, 0x1000), (i.flags.is_annotation, 0x2000), (i.flags.is_enum, 0x4000)]),
				})).collect::<Result<Vec<_>, String>>()?),
			},
			enclosing_method: match &c.enclosing_method {
				None => None,
				Some(EnclosingMethod { class, method }) => Some((js(class.as_inner())?, match method { Some(m) => Some((js(m.name.as_inner())?, js(m.desc.as_inner())?)), None => None })),
			},
			nest_host: match &c.nest_host_class { Some(h) => Some(js(h.as_inner())?), None => None },
			nest_members: match &c.nest_members { Some(v) => Some(c_classes(v)?), None => None },
			permitted: match &c.permitted_subclasses { Some(v) => Some(c_classes(v)?), None => None },
			record: c.record_components.iter().map(c_rec).collect::<Result<_, _>>()?,
			annotations: c.runtime_visible_annotations.iter().map(|a: &Annotation| Ok(MAnn { ty: js(a.annotation_type.as_inner())?,
				pairs: a.element_value_pairs.iter().map(|p| Ok((js(&p.name)?, c_elem(&p.value)?))).collect::<Result<Vec<_>, String>>()? })).collect::<Result<Vec<_>, String>>()?,
			unknown: c_unknown(&c.attributes)?,
		})
	}

	// ---------------------------------------------------------------------------------------------------------------------
	// the universes
	// ---------------------------------------------------------------------------------------------------------------------
	fn s(x: &str) -> String { x.to_owned() }
	fn os(x: &str) -> Option<String> { Some(x.to_owned()) }
	fn base(major: u16, minor: u16, access: u16, this: &str, sup: Option<&str>) -> MClass {
		MClass { minor, major, access, this: s(this), sup: sup.map(s), interfaces: vec![], fields: vec![], methods: vec![], deprecated: false, synthetic: false, source_file: None, signature: None,
			inner_classes: None, enclosing_method: None, nest_host: None, nest_members: None, permitted: None, record: vec![], annotations: vec![], unknown: vec![] }
	}
	fn fld(access: u16, name: &str, desc: &str) -> MField { MField { access, name: s(name), desc: s(desc), deprecated: false, synthetic: false, constant: None, signature: None, unknown: vec![] } }
	fn code(max_stack: u16, max_locals: u16, insns: Vec<MInsn>) -> MCode { MCode { max_stack, max_locals, insns, exc: vec![], lines: None, lvt: vec![], lvtt: vec![], frames: vec![], unknown: vec![] } }
	fn mth(access: u16, name: &str, desc: &str, code: Option<MCode>) -> MMethod {
		MMethod { access, name: s(name), desc: s(desc), deprecated: false, synthetic: false, code, exceptions: None, signature: None, params: None, unknown: vec![] }
	}
	fn lv(start: usize, end: usize, name: &str, ty: &str, index: u16) -> MLv { MLv { start, end, name: s(name), ty: s(ty), index } }
	const SIMPLE_OPS: &[std::ops::RangeInclusive<u8>] = &[0..=15, 46..=53, 79..=131, 133..=152, 172..=177, 190..=191, 194..=195];
	const COND_OPS: &[u8] = &[153, 154, 155, 156, 157, 158, 159, 160, 161, 162, 163, 164, 165, 166, 198, 199];

	/// the six class shells (header + class-level attributes)
	fn shells() -> Vec<(&'static str, MClass)> {
		let s0 = base(45, 3, 0x0021, "A", None);
		let mut s1 = base(52, 0, 0x0021, "p/B", Some("java/lang/Object"));
		s1.interfaces = vec![s("p/I"), s("q/J$K")]; s1.source_file = os("B.java"); s1.deprecated = true;
		let mut s2 = base(55, 0, 0x1030, "p/B$C", Some("p/B"));
		s2.inner_classes = Some(vec![MInner { inner: s("p/B$C"), outer: os("p/B"), name: os("C"), flags: 0x0019 }, MInner { inner: s("p/B$1"), outer: None, name: None, flags: 0 },
			MInner { inner: s("p/B$D"), outer: os("p/B"), name: os("D"), flags: 0x761F }]);
		s2.nest_host = os("p/B"); s2.signature = os("<T:Ljava/lang/Object;>Lp/B;"); s2.synthetic = true;
		let mut s3 = base(61, 0, 0x0421, "q/S", Some("java/lang/Object"));
		s3.nest_members = Some(vec![s("q/S$A"), s("q/S$B")]); s3.permitted = Some(vec![s("q/S$A")]); s3.enclosing_method = Some((s("q/O"), Some((s("m"), s("()V")))));
		s3.unknown = vec![(s("X-Custom"), vec![]), (s("Y"), vec![1, 2, 3, 0xff, 0]), (s("X-Custom"), vec![0])];
		s3.annotations = vec![MAnn { ty: s("Lq/Ann;"), pairs: vec![(s("v"), MElem::Int(7)), (s("s"), MElem::Str(s("x"))), (s("a"), MElem::Array(vec![MElem::Int(1), MElem::Int(-1)])), (s("e"), MElem::Array(vec![]))] },
			MAnn { ty: s("Lq/M;"), pairs: vec![] }];
		let mut s4 = base(60, 0, 0x0031, "r/R", Some("java/lang/Record"));
		s4.record = vec![MRec { name: s("x"), desc: s("I"), signature: None, unknown: vec![] },
			MRec { name: s("y"), desc: s("Ljava/util/List;"), signature: os("Ljava/util/List<TT;>;"), unknown: vec![(s("Z"), vec![9]), (s("Z2"), vec![])] }];
		s4.enclosing_method = Some((s("r/O"), None)); s4.inner_classes = Some(vec![]); s4.nest_members = Some(vec![]); s4.signature = os("<T:Ljava/lang/Object;>Ljava/lang/Record;");
		let mut s5 = base(67, 65535, 0xF631, "\u{e9}/\u{3a9}", None);
		s5.interfaces = vec![s("java/lang/annotation/Annotation")]; s5.source_file = os("a\u{0}b.java"); s5.deprecated = true; s5.synthetic = true; s5.permitted = Some(vec![]);
		vec![("S0", s0), ("S1", s1), ("S2", s2), ("S3", s3), ("S4", s4), ("S5", s5)]
	}
	/// the four field lists
	fn field_lists() -> Vec<(&'static str, Vec<MField>)> {
		let f1 = vec![fld(0x0002, "f", "I")];
		let mut c = fld(0x0019, "C", "I"); c.constant = Some(MConst::Int(-5)); c.deprecated = true;
		let mut l = fld(0x0018, "L", "J"); l.constant = Some(MConst::Long(i64::MIN));
		let mut st = fld(0x0018, "S", "Ljava/lang/String;"); st.constant = Some(MConst::Str(s("h\u{e9}")));
		let mut fl = fld(0x0018, "F", "F"); fl.constant = Some(MConst::Float(0x3FC00000));
		let mut d = fld(0x0018, "D", "D"); d.constant = Some(MConst::Double(0x8000000000000000));
		let mut g = fld(0x50DF, "g", "Ljava/util/List;"); g.signature = os("Ljava/util/List<Ljava/lang/String;>;"); g.synthetic = true; g.unknown = vec![(s("U"), vec![1]), (s("V"), vec![])];
		let f2 = vec![c, l, st, fl, d, g];
		let mut x2 = fld(0, "x", "J"); x2.deprecated = true;
		let mut y = fld(0, "y", "I"); y.unknown = vec![(s("U"), vec![2])];
		let f3 = vec![fld(0, "x", "I"), x2, y];
		vec![("F0", vec![]), ("F1", f1), ("F2", f2), ("F3", f3)]
	}
	/// the ten method bodies
	fn bodies() -> Vec<MMethod> {
		use MInsn::*;
		let mut b0 = mth(0x0401, "a", "(IJ)Ljava/lang/String;", None);
		b0.exceptions = Some(vec![s("java/io/IOException"), s("p/E")]); b0.signature = os("<T:Ljava/lang/Object;>(IJ)TT;"); b0.params = Some(vec![(os("x"), 0x0010), (None, 0x9000)]);
		b0.deprecated = true; b0.unknown = vec![(s("Q"), vec![7, 7])];
		let b1 = mth(0x0009, "simple", "()V", Some(code(6, 6, SIMPLE_OPS.iter().flat_map(|r| r.clone()).map(Simple).collect())));
		let b2 = mth(0x0008, "consts", "()V", Some(code(2, 0, vec![BiPush(-128), BiPush(127), SiPush(-32768), SiPush(32767), SiPush(5), Ldc(MLdc::Int(0x12345678)), Ldc(MLdc::Int(-1)), Ldc(MLdc::Float(0x3FC00000)),
			Ldc(MLdc::Str(s("hello"))), Ldc(MLdc::Str(s(""))), Ldc(MLdc::Str(s("n\u{e9}\u{0}\u{20AC}\u{1F600}"))), Ldc(MLdc::Class(s("java/lang/String"))), Ldc(MLdc::Class(s("[I"))),
			Ldc(MLdc::Long(i64::MAX)), Ldc(MLdc::Long(-2)), Ldc(MLdc::Double(0x4004000000000000)), Simple(177)])));
		let mut l = Vec::new();
		for k in 0..5u8 { for x in [0u16, 1, 3, 4, 255, 256, 65535] { l.push(Load(k, x)); l.push(Store(k, x)); } }
		l.extend([IInc(0, 1), IInc(255, -128), IInc(255, 127), IInc(255, 128), IInc(3, -129), IInc(256, 0), IInc(65535, -32768), IInc(4, 32767), Ret(0), Ret(255), Ret(256), Ret(65535), Simple(177)]);
		let mut b3 = mth(0x0001, "locals", "()V", Some(code(2, 65535, l)));
		b3.synthetic = true;
		let mut br = vec![Simple(0)];
		let last = 1 + 2 * COND_OPS.len() + 5;
		for &op in COND_OPS { br.push(Branch(op, last)); br.push(Branch(op, 0)); }
		let here = br.len();
		br.extend([Branch(167, last), Branch(167, 0), Branch(168, last), Branch(168, 1), Branch(167, here + 4), Simple(177)]);
		assert_eq!(br.len(), last + 1);
		let b4 = mth(0x0009, "branches", "()V", Some(code(2, 1, br)));
		let b5 = mth(0x0009, "switches", "()V", Some(code(1, 0, vec![Simple(3), TableSwitch { default: 6, low: -1, targets: vec![2, 6, 0] }, Simple(3),
			LookupSwitch { default: 0, pairs: vec![(i32::MIN, 6), (-1, 2), (0, 3), (i32::MAX, 5)] }, TableSwitch { default: 4, low: i32::MAX, targets: vec![6] }, LookupSwitch { default: 6, pairs: vec![] }, Simple(177)])));
		let mut r = vec![Field(178, s("p/O"), s("f"), s("I")), Field(179, s("p/O"), s("f"), s("J")), Field(180, s("p/O"), s("g"), s("Lp/O;")), Field(181, s("q/P"), s("f"), s("[I")),
			Invoke(182, s("p/O"), s("m"), s("(IJ)V"), false), Invoke(182, s("[I"), s("clone"), s("()Ljava/lang/Object;"), false), Invoke(183, s("p/O"), s("<init>"), s("()V"), false),
			Invoke(183, s("p/I"), s("d"), s("()V"), true), Invoke(184, s("p/O"), s("s"), s("(D[[Ljava/lang/String;F)I"), false), Invoke(184, s("p/I"), s("s"), s("()V"), true),
			Invoke(185, s("p/I"), s("i"), s("(JLjava/lang/Object;[D)V"), true), Invoke(185, s("p/I"), s("j"), s("()I"), true),
			Type(187, s("p/O")), Type(189, s("p/O")), Type(189, s("[[I")), Type(192, s("[Lp/O;")), Type(193, s("p/O"))];
		r.extend((4..=11).map(NewArray));
		r.extend([MultiANewArray(s("[[I"), 2), MultiANewArray(s("[[[Lp/O;"), 255), Simple(177)]);
		let b6 = mth(0x0009, "refs", "()V", Some(code(8, 0, r)));
		let mut c7 = code(2, 3, vec![Simple(3), Store(0, 1), Load(0, 1), Branch(153, 6), IInc(1, 1), Branch(167, 2), Simple(177), Store(4, 2), Simple(177)]);
		c7.exc = vec![MExc { start: 0, end: 6, handler: 7, catch: os("java/lang/Exception") }, MExc { start: 2, end: 9, handler: 7, catch: None }, MExc { start: 7, end: 8, handler: 7, catch: os("p/E") }];
		c7.lines = Some(vec![(0, 10), (2, 11), (2, 12), (6, 65535), (7, 0)]);
		c7.lvt = vec![lv(1, 6, "i", "I", 1), lv(7, 9, "e", "Ljava/lang/Exception;", 2), lv(0, 9, "this", "Lp/B;", 0)];
		c7.lvtt = vec![lv(7, 9, "e", "TT;", 2)];
		c7.unknown = vec![(s("CodeX"), vec![1, 2, 3]), (s("CodeY"), vec![])];
		let mut b7 = mth(0x0001, "tables", "()V", Some(c7));
		b7.exceptions = Some(vec![]);
		let mut f = vec![Simple(3), Branch(153, 4), Type(187, s("p/O")), Simple(87), Simple(0), Simple(0), Simple(0), Simple(0)];
		f.extend(std::iter::repeat(Simple(0)).take(70));
		f.extend([Simple(0), Simple(177)]);
		let mut c8 = code(1, 9, f);
		c8.frames = vec![(1, MFrame::Append(vec![MVt::Integer, MVt::Object(s("p/O"))])), (2, MFrame::Same1(MVt::Uninit(2))), (3, MFrame::Chop(1)), (4, MFrame::Same),
			(5, MFrame::Full(vec![MVt::Top, MVt::Integer, MVt::Float, MVt::Long, MVt::Double, MVt::Null, MVt::UninitThis, MVt::Object(s("[I")), MVt::Uninit(2)], vec![MVt::Integer])),
			(6, MFrame::Append(vec![MVt::Null])), (7, MFrame::Append(vec![MVt::Long, MVt::Double, MVt::Float])), (8, MFrame::Chop(3)), (78, MFrame::Same), (79, MFrame::Same1(MVt::Integer))];
		let b8 = mth(0x0009, "frames", "()V", Some(c8));
		let mut c9 = code(0, 0, vec![Simple(177)]);
		c9.lines = Some(vec![]);
		let b9 = mth(0x0109, "tiny", "()V", Some(c9));
		vec![b0, b1, b2, b3, b4, b5, b6, b7, b8, b9]
	}
	fn pad_class(m: &MClass, k: usize) -> MClass {
		let mut m = m.clone();
		for x in &mut m.methods { if let Some(c) = &x.code { x.code = Some(insert_nops(c, 0, k)); } }
		m
	}
	/// Universe A (see cls_group.py): A1 = 6 shells x 4 field lists x method lists {none, [b0], [b7]} (72 models);
	/// A2 = shells {S1, S3} x field list F1 x method lists {[b1] .. [b9], all ten, all ten reversed} (11) x 0..3 leading nops in every code (4) (88 models)
	fn universe_a(with_frames: bool) -> Vec<(String, MClass)> {
		let (sh, fl, b) = (shells(), field_lists(), bodies());
		let mut v = Vec::new();
		for (sn, sc) in &sh { for (fname, f) in &fl { for (mn, ms) in [("none", vec![]), ("b0", vec![b[0].clone()]), ("b7", vec![b[7].clone()])] {
			let mut m = sc.clone(); m.fields = f.clone(); m.methods = ms;
			v.push((format!("A1/{sn}/{fname}/{mn}"), m));
		} } }
		let mut lists: Vec<(String, Vec<MMethod>)> = (1..10).map(|k| (format!("b{k}"), vec![b[k].clone()])).collect();
		lists.push((s("all"), b.clone()));
		lists.push((s("all-reversed"), b.iter().rev().cloned().collect()));
		for si in [1usize, 3] { for (mn, ms) in &lists { for pad in 0..4 {
			let mut m = sh[si].1.clone(); m.fields = fl[1].1.clone(); m.methods = ms.clone();
			v.push((format!("A2/{}/F1/{mn}/pad{pad}", sh[si].0), pad_class(&m, pad)));
		} } }
		if !with_frames { v.retain(|(_, m)| !has_frames(m)); }
		v
	}
	fn has_frames(m: &MClass) -> bool { m.methods.iter().any(|x| x.code.as_ref().is_some_and(|c| !c.frames.is_empty())) }
	fn without_frames(m: &MClass) -> MClass {
		let mut m = m.clone();
		for x in &mut m.methods { if let Some(c) = &mut x.code { c.frames.clear(); } }
		m
	}
	/// Universe B: class `A` (45.3) with one static method m()V whose code is any sequence of 1..=3 instruction templates:
	/// nop, iload 4, ldc 100000, iinc 4 1, return, goto T, ifeq T, tableswitch(default T, -1 -> T+1 mod L), lookupswitch(default T, 7 -> T+1 mod L), T any instruction index
	fn universe_b() -> Vec<(String, MClass)> {
		let mut v = Vec::new();
		for len in 1..=3usize {
			let mut pos: Vec<MInsn> = vec![MInsn::Simple(0), MInsn::Load(0, 4), MInsn::Ldc(MLdc::Int(100000)), MInsn::IInc(4, 1), MInsn::Simple(177)];
			for t in 0..len {
				pos.push(MInsn::Branch(167, t)); pos.push(MInsn::Branch(153, t));
				pos.push(MInsn::TableSwitch { default: t, low: -1, targets: vec![(t + 1) % len] });
				pos.push(MInsn::LookupSwitch { default: t, pairs: vec![(7, (t + 1) % len)] });
			}
			let n = pos.len();
			for code_no in 0..n.pow(len as u32) {
				let insns: Vec<MInsn> = (0..len).map(|k| pos[code_no / n.pow(k as u32) % n].clone()).collect();
				let mut m = base(45, 3, 0x0021, "A", None);
				m.methods = vec![mth(0x0009, "m", "()V", Some(code(2, 5, insns)))];
				v.push((format!("B/len{len}/#{code_no}"), m));
			}
		}
		v
	}
	fn encodings_b() -> Vec<Enc> { let mut v = Vec::new(); for pool in [0u8, 2] { for insn in 0..3 { v.push(Enc { pool, rev: false, split: false, insn }); } } v }
	fn read_bytes(b: &[u8]) -> Result<Option<Result<ClassFile>>, ()> { let owned = b.to_vec(); guarded(move || read_class(&mut Cursor::new(owned))) }
	fn write_tree(c: &ClassFile) -> Result<Option<Result<Vec<u8>>>, ()> { guarded(|| { let mut out = Vec::new(); write_class(&mut out, c).map(|()| out) }) }
	fn describe(name: &str, e: Enc, bytes: &[u8]) -> String { format!("model {name} enc {e:?} bytes[{}]={}", bytes.len(), if bytes.len() <= 48 { hex(bytes) } else { format!("{}..", hex(&bytes[..48])) }) }

	// ---------------------------------------------------------------------------------------------------------------------
	// C01: reading
	// ---------------------------------------------------------------------------------------------------------------------
	fn check_read(t: &mut Tally, name: &str, m: &MClass, e: Enc) {
		let bytes = gen_class(m, e);
		t.at(name.as_bytes());
		t.case(m.methods.iter().any(|x| x.code.is_some()));
		// harness self-check: the independent parser must read the generator's output back to the model
		match parse_class(&bytes) {
			Ok(p) if p == *m => {},
			Ok(p) => { t.fail(describe(name, e, &bytes), &format!("HARNESS self-check: own parser and own generator disagree: {}", diff(&p, m))); return; },
			Err(x) => { t.fail(describe(name, e, &bytes), &format!("HARNESS self-check: own parser refuses own generator's output: {x}")); return; },
		}
		match read_bytes(&bytes) {
			Err(()) | Ok(None) => t.fail(describe(name, e, &bytes), "read_class panicked on a well-formed class file"),
			Ok(Some(Err(x))) => t.fail(describe(name, e, &bytes), &format!("read_class refused a well-formed class file: {x:#}")),
			Ok(Some(Ok(tree))) => match c_class(&tree) {
				Err(x) => t.fail(describe(name, e, &bytes), &format!("the tree does not state the facts of the file: {x}")),
				Ok(got) => if got != *m { t.fail(describe(name, e, &bytes), &format!("the tree does not state the facts of the file: {}", diff(&got, m))); },
			},
		}
	}
	#[test]
	fn read_is_exact() {
		let mut t = Tally::new("read_is_exact");
		let encs = encodings();
		for (name, m) in universe_a(true) { for &e in &encs { check_read(&mut t, &name, &m, e); } }
		let encs = encodings_b();
		for (name, m) in universe_b() { for &e in &encs { check_read(&mut t, &name, &m, e); } }
		t.finish();
	}

	// ---------------------------------------------------------------------------------------------------------------------
	// C02: writing
	// ---------------------------------------------------------------------------------------------------------------------
	fn check_write(t: &mut Tally, name: &str, m: &MClass, e: Enc) {
		let bytes = gen_class(m, e);
		t.at(name.as_bytes());
		t.case(m.methods.iter().any(|x| x.code.is_some()));
		let tree = match read_bytes(&bytes) { Ok(Some(Ok(tree))) => tree, _ => { t.fail(describe(name, e, &bytes), "precondition: read_class did not accept the generated class file (see read_is_exact)"); return; } };
		let out = match write_tree(&tree) {
			Err(()) | Ok(None) => { t.fail(describe(name, e, &bytes), "write_class panicked"); return; },
			Ok(Some(Err(x))) => { t.fail(describe(name, e, &bytes), &format!("write_class refused a tree the reader produced: {x:#}")); return; },
			Ok(Some(Ok(out))) => out,
		};
		match parse_class(&out) {
			Err(x) => { t.fail(describe(name, e, &bytes), &format!("output of write_class is not a structurally valid class file: {x}; output={}", hex(&out[..out.len().min(200)]))); return; },
			Ok(p) => if p != *m { t.fail(describe(name, e, &bytes), &format!("an independent parser reads different facts from the output of write_class: {}", diff(&p, m))); return; },
		}
		match read_bytes(&out) {
			Ok(Some(Ok(tree2))) => match c_class(&tree2) {
				Ok(got) => if got != *m { t.fail(describe(name, e, &bytes), &format!("read(write(tree)) states different facts: {}", diff(&got, m))); },
				Err(x) => t.fail(describe(name, e, &bytes), &format!("read(write(tree)) is not expressible: {x}")),
			},
			_ => t.fail(describe(name, e, &bytes), "read_class does not accept the output of write_class"),
		}
	}
	/// all models whose code has no stack map frames (the frame-bearing ones with their frames removed, so every other fact of them is still covered)
	#[test]
	fn write_is_exact() {
		let mut t = Tally::new("write_is_exact");
		let encs = encodings();
		for (name, m) in universe_a(true) { let m = without_frames(&m); for &e in &encs { check_write(&mut t, &name, &m, e); } }
		let encs = encodings_b();
		for (name, m) in universe_b() { for &e in &encs { check_write(&mut t, &name, &m, e); } }
		t.finish();
	}
	/// the frame-bearing models of universe A, frames kept
	#[test]
	#[allow(non_snake_case)]
	fn write_is_exact__stack_map_frames() {
		let mut t = Tally::new("write_is_exact__stack_map_frames");
		let encs = encodings();
		for (name, m) in universe_a(true) { if has_frames(&m) { for &e in &encs { check_write(&mut t, &name, &m, e); } } }
		t.finish();
	}

	// ---------------------------------------------------------------------------------------------------------------------
	// C02: jumps that no longer fit 16 bits
	// ---------------------------------------------------------------------------------------------------------------------
	fn is_cond(op: u8) -> bool { COND_OPS.contains(&op) }
	fn inverse(op: u8) -> u8 { match op { 153 => 154, 154 => 153, 155 => 156, 156 => 155, 157 => 158, 158 => 157, 159 => 160, 160 => 159, 161 => 162, 162 => 161, 163 => 164, 164 => 163, 165 => 166, 166 => 165, 198 => 199, _ => 198 } }
	/// `parsed` must be `model` where some conditional jumps `if X -> T` may have become `if !X -> next; goto T`; every reference must still designate the same instruction.
	/// Returns the number of such trampolines.
	fn match_widened(model: &MCode, parsed: &MCode) -> Result<usize, String> {
		let n = model.insns.len();
		let mut map = vec![0usize; n + 1];
		let mut tramp = vec![false; n];
		let mut j = 0usize;
		for i in 0..n {
			map[i] = j;
			match (&model.insns[i], parsed.insns.get(j)) {
				(MInsn::Branch(op, _), Some(MInsn::Branch(pop, _))) if is_cond(*op) && *pop == inverse(*op) => { tramp[i] = true; j += 2; },
				_ => j += 1,
			}
		}
		map[n] = j;
		if j != parsed.insns.len() { return Err(format!("{} instructions written, {} expected ({} trampolines)", parsed.insns.len(), j, tramp.iter().filter(|x| **x).count())); }
		let f = |t: usize| -> Result<usize, String> { map.get(t).copied().ok_or_else(|| s("index")) };
		for i in 0..n {
			let j = map[i];
			if tramp[i] {
				let MInsn::Branch(op, tgt) = &model.insns[i] else { unreachable!() };
				if parsed.insns[j] != MInsn::Branch(inverse(*op), j + 2) { return Err(format!("instruction {i}: inverted jump {:?} does not skip exactly the following goto", parsed.insns[j])); }
				if parsed.insns[j + 1] != MInsn::Branch(167, map[*tgt]) { return Err(format!("instruction {i} ({:?}): the trampoline goto is {:?}, the original target is now instruction {}", model.insns[i], parsed.insns[j + 1], map[*tgt])); }
			} else {
				let want = retarget(&model.insns[i], &f)?;
				if parsed.insns[j] != want { return Err(format!("instruction {i}: written as {:?}, expected {:?}", parsed.insns[j], want)); }
			}
		}
		let mut want = retarget_code(model, &f)?;
		want.insns = parsed.insns.clone();
		if *parsed != want { return Err(format!("tables after the widened jumps: {}", diff(parsed, &want))); }
		Ok(tramp.iter().filter(|x| **x).count())
	}
	struct Far { name: &'static str, code: MCode, ins: Vec<(usize, usize)>, must_succeed: bool }
	fn far_cases() -> Vec<Far> {
		use MInsn::*;
		let c = |i: Vec<MInsn>| code(2, 2, i);
		let mut v = Vec::new();
		let big = 33000usize;
		v.push(Far { name: "goto forward over 33000 nops", code: c(vec![Branch(167, 2), Simple(0), Simple(177)]), ins: vec![(1, big)], must_succeed: true });
		v.push(Far { name: "goto backward over 33000 nops", code: c(vec![Simple(0), Simple(0), Branch(167, 0), Simple(177)]), ins: vec![(1, big)], must_succeed: true });
		let mut x = c(vec![Simple(3), Branch(153, 4), Simple(0), Simple(0), Simple(177), Store(4, 1), Simple(177)]);
		x.exc = vec![MExc { start: 1, end: 5, handler: 5, catch: None }, MExc { start: 4, end: 7, handler: 5, catch: os("p/E") }];
		x.lines = Some(vec![(0, 1), (1, 2), (2, 3), (4, 4), (5, 5)]);
		x.lvt = vec![lv(1, 7, "x", "I", 1), lv(4, 5, "y", "I", 0)];
		x.lvtt = vec![lv(2, 7, "x", "TT;", 1)];
		v.push(Far { name: "ifeq forward over 33000 nops, exception ranges, line numbers and local variables around and after it", code: x, ins: vec![(2, big)], must_succeed: true });
		v.push(Far { name: "if_icmplt backward over 33000 nops", code: c(vec![Simple(0), Simple(3), Simple(3), Branch(161, 0), Simple(177)]), ins: vec![(1, big)], must_succeed: true });
		v.push(Far { name: "jsr forward over 33000 nops", code: c(vec![Branch(168, 2), Simple(177), Store(4, 1), Ret(1)]), ins: vec![(1, big)], must_succeed: true });
		v.push(Far { name: "jsr backward (and goto forward) over 33000 nops", code: c(vec![Branch(167, 3), Store(4, 1), Ret(1), Branch(168, 1), Simple(177)]), ins: vec![(2, big)], must_succeed: true });
		let mut f: Vec<MInsn> = COND_OPS.iter().map(|&op| Branch(op, 16)).collect(); f.push(Simple(177));
		v.push(Far { name: "all 16 conditional jumps forward over 33000 nops", code: c(f), ins: vec![(16, big)], must_succeed: true });
		let mut f: Vec<MInsn> = vec![Simple(0)]; f.extend(COND_OPS.iter().map(|&op| Branch(op, 0))); f.push(Simple(177));
		v.push(Far { name: "all 16 conditional jumps backward over 33000 nops", code: c(f), ins: vec![(1, big)], must_succeed: true });
		let mut x = c(vec![Simple(0), Simple(3), TableSwitch { default: 5, low: 0, targets: vec![3, 5, 0] }, Simple(0), Simple(0), Simple(177)]);
		x.lines = Some(vec![(2, 7), (5, 8)]);
		v.push(Far { name: "tableswitch with arms 32000 bytes back and 33000 bytes ahead", code: x, ins: vec![(4, big), (1, 32000)], must_succeed: true });
		v.push(Far { name: "lookupswitch with arms 32000 bytes back and 33000 bytes ahead", code: c(vec![Simple(0), Simple(3), LookupSwitch { default: 0, pairs: vec![(-5, 3), (9, 5)] }, Simple(0), Simple(0), Simple(177)]),
			ins: vec![(4, big), (1, 32000)], must_succeed: true });
		v.push(Far { name: "goto at distance 32767 across an ifeq that must be widened (the goto must then be widened too)", code: c(vec![Branch(167, 2), Branch(153, 3), Simple(0), Simple(177)]),
			ins: vec![(3, 10), (2, 32761)], must_succeed: true });
		v.push(Far { name: "two conditional jumps over the same 33000 nops, one forward one backward", code: c(vec![Simple(3), Branch(154, 4), Simple(0), Simple(3), Branch(198, 2), Simple(177)]), ins: vec![(3, big)], must_succeed: true });
		for (n, nm) in [(32763usize, "goto forward by exactly 32767"), (32764, "goto forward by exactly 32768")] { v.push(Far { name: nm, code: c(vec![Branch(167, 2), Simple(0), Simple(177)]), ins: vec![(1, n)], must_succeed: true }); }
		for (n, nm) in [(32767usize, "goto backward by exactly -32768"), (32768, "goto backward by exactly -32769")] { v.push(Far { name: nm, code: c(vec![Simple(0), Branch(167, 0), Simple(177)]), ins: vec![(1, n)], must_succeed: true }); }
		for (n, nm) in [(32763usize, "ifeq forward by exactly 32767"), (32764, "ifeq forward by exactly 32768")] { v.push(Far { name: nm, code: c(vec![Branch(153, 2), Simple(0), Simple(177)]), ins: vec![(1, n)], must_succeed: true }); }
		for (n, nm) in [(32767usize, "ifnull backward by exactly -32768"), (32768, "ifnull backward by exactly -32769")] { v.push(Far { name: nm, code: c(vec![Simple(0), Branch(198, 0), Simple(177)]), ins: vec![(1, n)], must_succeed: true }); }
		v.push(Far { name: "code of exactly 65535 bytes", code: c(vec![Simple(0), Simple(177)]), ins: vec![(1, 65533)], must_succeed: true });
		v.push(Far { name: "65535 bytes before widening an ifeq: must fail cleanly", code: c(vec![Branch(153, 2), Simple(0), Simple(177)]), ins: vec![(1, 65530)], must_succeed: false });
		v.push(Far { name: "65536 bytes: must fail cleanly", code: c(vec![Simple(0), Simple(177)]), ins: vec![(1, 65534)], must_succeed: false });
		v.push(Far { name: "ifeq at offset 65531 jumping back to 0: the trampoline would end beyond 65535, must fail cleanly", code: c(vec![Simple(0), Branch(153, 0), Simple(177)]), ins: vec![(1, 65530)], must_succeed: false });
		v
	}
	#[test]
	fn far_jumps_survive_widening() {
		let mut t = Tally::new("far_jumps_survive_widening");
		for case in far_cases() {
			t.at(case.name.as_bytes());
			let mut small = base(52, 0, 0x0021, "p/Far", Some("java/lang/Object"));
			small.methods = vec![mth(0x0009, "m", "()V", Some(case.code.clone()))];
			let e = Enc { pool: 0, rev: false, split: false, insn: 0 };
			let tree = match read_bytes(&gen_class(&small, e)) { Ok(Some(Ok(tree))) => tree, _ => { t.case(false); t.fail(s(case.name), "precondition: read_class did not accept the small version"); continue; } };
			let mut tree = tree;
			let mut model = case.code.clone();
			for &(at, n) in &case.ins {
				model = insert_nops(&model, at, n);
				let Some(c) = tree.methods[0].code.as_mut() else { unreachable!() };
				c.instructions.splice(at..at, std::iter::repeat(InstructionListEntry { label: None, frame: None, instruction: Instruction::Nop }).take(n));
			}
			// the enlarged tree must be the enlarged model (labels travel with their instructions)
			match c_class(&tree) { Ok(m) if m.methods[0].code.as_ref() == Some(&model) => {}, other => { t.case(false); t.fail(s(case.name), &format!("HARNESS: enlarged tree and enlarged model differ: {:?}", other.map(|_| ()))); continue; } }
			match write_tree(&tree) {
				Err(()) | Ok(None) => { t.case(true); t.fail(s(case.name), "write_class panicked"); },
				Ok(Some(Err(x))) => { t.case(!case.must_succeed); if case.must_succeed { t.fail(s(case.name), &format!("write_class refused a method that fits into 65535 bytes: {x:#}")); } },
				Ok(Some(Ok(out))) => match parse_class(&out) {
					Err(x) => { t.case(true); t.fail(s(case.name), &format!("output of write_class is not a structurally valid class file: {x}")); },
					Ok(p) => {
						let r = match p.methods.first().and_then(|m| m.code.as_ref()) { Some(c) => match_widened(&model, c), None => Err(s("no code written")) };
						// what duke itself reads back from its output must designate the same instructions too (32-bit offsets beyond +-32767 on the reading side)
						let r = r.and_then(|n| match read_bytes(&out) {
							Ok(Some(Ok(back))) => match c_class(&back) { Ok(b) => match b.methods.first().and_then(|m| m.code.as_ref()) { Some(c) => match_widened(&model, c).map_err(|x| format!("read_class of the output: {x}")), None => Err(s("read_class of the output: no code")) },
								Err(x) => Err(format!("read_class of the output: {x}")) },
							_ => Err(s("read_class does not accept the output of write_class")),
						}.map(|_| n));
						match r {
							Ok(_) => { t.case(true); if !case.must_succeed { t.fail(s(case.name), "HARNESS: a case expected not to fit was written"); } },
							Err(x) => { t.case(true); t.fail(s(case.name), &format!("a jump or table entry designates another instruction after writing: {x}")); },
						}
					},
				},
			}
		}
		t.finish();
	}

	// ---------------------------------------------------------------------------------------------------------------------
	// C16: damaged files
	// ---------------------------------------------------------------------------------------------------------------------
	fn damaged_seeds() -> Vec<(String, Vec<u8>)> {
		let a = universe_a(true);
		let pick = |n: &str, e: Enc| -> (String, Vec<u8>) { let m = &a.iter().find(|x| x.0 == n).unwrap_or_else(|| panic!("harness: no model {n}")).1; (format!("{n} {e:?}"), gen_class(m, e)) };
		let mut v = vec![
			pick("A1/S3/F2/b7", Enc { pool: 0, rev: false, split: false, insn: 0 }),
			pick("A1/S4/F3/b0", Enc { pool: 1, rev: true, split: false, insn: 0 }),
			pick("A1/S2/F1/none", Enc { pool: 2, rev: false, split: false, insn: 0 }),
			pick("A2/S1/F1/b5/pad1", Enc { pool: 0, rev: false, split: false, insn: 0 }),
			pick("A2/S1/F1/b8/pad0", Enc { pool: 0, rev: true, split: false, insn: 2 }),
			pick("A2/S3/F1/all/pad2", Enc { pool: 2, rev: true, split: true, insn: 2 }),
			pick("A1/S0/F0/none", Enc { pool: 0, rev: false, split: false, insn: 0 }),
			pick("A1/S5/F2/b7", Enc { pool: 1, rev: false, split: true, insn: 1 }),
			pick("A2/S1/F1/b3/pad0", Enc { pool: 0, rev: false, split: false, insn: 0 }),
			pick("A2/S1/F1/b4/pad3", Enc { pool: 0, rev: false, split: false, insn: 2 }),
			pick("A2/S1/F1/b6/pad0", Enc { pool: 1, rev: false, split: false, insn: 0 }),
		];
		let b = universe_b();
		for n in ["B/len1/#4", "B/len3/#2000"] { let m = &b.iter().find(|x| x.0 == n).unwrap().1; v.push((s(n), gen_class(m, Enc { pool: 0, rev: false, split: false, insn: 0 }))); }
		// names that are no UTF-8: in every Utf8 constant that starts with `p/B` (the class itself, its inner classes, references to them) these three bytes become ED A0 80, the
		// modified UTF-8 form of the unpaired surrogate U+D800 (a class file may hold it; Rust strings cannot, so every message that prints such a name goes through a fallible conversion)
		let mut odd = vec![];
		for (name, bytes) in v.iter().take(5) {
			let mut b2 = bytes.clone();
			let mut hits = 0;
			let mut i = 0;
			while i + 6 <= b2.len() {
				if b2[i] == 1 && b2[i + 1] == 0 && b2[i + 2] >= 3 && &b2[i + 3..i + 6] == b"p/B" { b2[i + 3..i + 6].copy_from_slice(&[0xED, 0xA0, 0x80]); hits += 1; i += 6; } else { i += 1; }
			}
			if hits > 0 { odd.push((format!("{name} with U+D800 for p/B in {hits} constants"), b2)); }
		}
		assert!(!odd.is_empty(), "harness: no seed file names p/B");
		v.extend(odd);
		v
	}
	// a method with code_length 65535 and a label at every bytecode offset 0..=65535 (LineNumberTable entries for 0..65534, one LocalVariableTable range ending at 65535):
	// the reader hands out 65536 label ids from a u16 counter
	fn lb_u2(v: &mut Vec<u8>, x: u16) { v.extend_from_slice(&x.to_be_bytes()); }
	fn lb_u4(v: &mut Vec<u8>, x: u32) { v.extend_from_slice(&x.to_be_bytes()); }
	fn lb_utf8(v: &mut Vec<u8>, s: &str) { v.push(1); lb_u2(v, s.len() as u16); v.extend_from_slice(s.as_bytes()); }

	fn class_with_a_label_at_every_offset() -> Vec<u8> {
		let mut v = vec![0xCA, 0xFE, 0xBA, 0xBE, 0, 0, 0, 52];
		// pool: 1 Utf8 A, 2 Class #1, 3 Utf8 java/lang/Object, 4 Class #3, 5 Utf8 m, 6 Utf8 ()V, 7 Utf8 Code, 8 Utf8 LineNumberTable, 9 Utf8 LocalVariableTable, 10 Utf8 x, 11 Utf8 I
		lb_u2(&mut v, 12);
		lb_utf8(&mut v, "A"); v.push(7); lb_u2(&mut v, 1); lb_utf8(&mut v, "java/lang/Object"); v.push(7); lb_u2(&mut v, 3);
		for s in ["m", "()V", "Code", "LineNumberTable", "LocalVariableTable", "x", "I"] { lb_utf8(&mut v, s); }
		lb_u2(&mut v, 0x0021); lb_u2(&mut v, 2); lb_u2(&mut v, 4); lb_u2(&mut v, 0); lb_u2(&mut v, 0);
		lb_u2(&mut v, 1); // one method
		lb_u2(&mut v, 0x0009); lb_u2(&mut v, 5); lb_u2(&mut v, 6); lb_u2(&mut v, 1);
		// Code
		let code_length: u32 = 65535;
		let mut lnt = vec![]; lb_u2(&mut lnt, 65535); for pc in 0..65535u32 { lb_u2(&mut lnt, pc as u16); lb_u2(&mut lnt, 1); }
		let mut lvt = vec![]; lb_u2(&mut lvt, 1); lb_u2(&mut lvt, 0); lb_u2(&mut lvt, 65535); lb_u2(&mut lvt, 10); lb_u2(&mut lvt, 11); lb_u2(&mut lvt, 0);
		let mut code = vec![]; lb_u2(&mut code, 1); lb_u2(&mut code, 1); lb_u4(&mut code, code_length);
		code.extend(std::iter::repeat(0u8).take(65534)); code.push(0xb1); // nop ... return
		lb_u2(&mut code, 0); // exception table
		lb_u2(&mut code, 2);
		lb_u2(&mut code, 8); lb_u4(&mut code, lnt.len() as u32); code.extend_from_slice(&lnt);
		lb_u2(&mut code, 9); lb_u4(&mut code, lvt.len() as u32); code.extend_from_slice(&lvt);
		lb_u2(&mut v, 7); lb_u4(&mut v, code.len() as u32); v.extend_from_slice(&code);
		lb_u2(&mut v, 0); // class attributes
		v
	}

	// C16 "... or allocate memory unrelated to the input size": the largest single request the reader makes of the allocator while it reads one input is recorded per thread
	// (a request that is never touched costs nothing on a machine that overcommits, and aborts the process on one that does not)
	struct PeakAlloc;
	thread_local! {
		static PEAK_ON: std::cell::Cell<bool> = const { std::cell::Cell::new(false) };
		static PEAK: std::cell::Cell<usize> = const { std::cell::Cell::new(0) };
	}
	fn note(size: usize) { let _ = PEAK_ON.try_with(|on| if on.get() { let _ = PEAK.try_with(|p| if size > p.get() { p.set(size) }); }); }
	unsafe impl std::alloc::GlobalAlloc for PeakAlloc {
		unsafe fn alloc(&self, l: std::alloc::Layout) -> *mut u8 { note(l.size()); unsafe { std::alloc::System.alloc(l) } }
		unsafe fn alloc_zeroed(&self, l: std::alloc::Layout) -> *mut u8 { note(l.size()); unsafe { std::alloc::System.alloc_zeroed(l) } }
		unsafe fn realloc(&self, p: *mut u8, l: std::alloc::Layout, n: usize) -> *mut u8 { note(n); unsafe { std::alloc::System.realloc(p, l, n) } }
		unsafe fn dealloc(&self, p: *mut u8, l: std::alloc::Layout) { unsafe { std::alloc::System.dealloc(p, l) } }
	}
	#[global_allocator]
	static PEAK_ALLOC: PeakAlloc = PeakAlloc;
	/// what one request may ask for: 64 MiB (every count field of the format is a u2: 65535 entries of a few hundred bytes) plus 64 bytes per byte of input
	fn allowance(input_len: usize) -> usize { (64 << 20) + 64 * input_len }
	fn check_damaged(t: &mut Tally, what: &str, b: &[u8]) {
		t.at(what.as_bytes());
		PEAK.with(|p| p.set(0)); PEAK_ON.with(|o| o.set(true));
		let outcome = guarded(|| read_class(&mut Cursor::new(b)));
		PEAK_ON.with(|o| o.set(false));
		let peak = PEAK.with(|p| p.get());
		if peak > allowance(b.len()) { t.fail(if b.len() <= 120 { format!("{what}: bytes[{}]={}", b.len(), hex(b)) } else { s(what) }, &format!("read_class asked the allocator for {peak} bytes at once for an input of {} bytes", b.len())); }
		match outcome {
			Err(()) | Ok(None) => { t.case(true); t.fail(if b.len() <= 120 { format!("{what}: bytes[{}]={}", b.len(), hex(b)) } else { s(what) }, "read_class panicked"); },
			Ok(Some(Err(_))) => t.case(false),
			Ok(Some(Ok(tree))) => { t.case(true); if let Err(()) | Ok(None) = write_tree(&tree) { t.fail(s(what), "write_class panicked on a tree read_class returned"); } },
		}
	}
	#[test]
	fn no_panic_on_damaged_files() {
		let mut t = Tally::new("no_panic_on_damaged_files");
		check_damaged(&mut t, "a label at every bytecode offset 0..=65535 (65536 labels)", &class_with_a_label_at_every_offset());
		let seeds = damaged_seeds();
		println!("NOTE no_panic_on_damaged_files: {} seed files, {} bytes in total, sizes {:?}", seeds.len(), seeds.iter().map(|x| x.1.len()).sum::<usize>(), seeds.iter().map(|x| x.1.len()).collect::<Vec<_>>());
		for (name, bytes) in seeds {
			for cut in 0..bytes.len() { check_damaged(&mut t, &format!("{name} truncated to {cut} bytes"), &bytes[..cut]); }
			let mut buf = bytes.clone();
			for off in 0..bytes.len() {
				let o = bytes[off];
				let mut vals = vec![0x00u8, 0x01, 0x7f, 0x80, 0xff, o.wrapping_add(1), o.wrapping_sub(1)];
				vals.sort(); vals.dedup(); vals.retain(|&x| x != o);
				for x in vals { buf[off] = x; check_damaged(&mut t, &format!("{name} byte {off} {o:#04x}->{x:#04x}"), &buf); }
				buf[off] = o;
				// whole length / count / offset fields at once
				for pat in [&[0xffu8, 0xff][..], &[0x00, 0x00], &[0xff, 0xff, 0xff, 0xff], &[0x7f, 0xff, 0xff, 0xff], &[0x80, 0x00, 0x00, 0x00]] {
					if off + pat.len() > bytes.len() || &bytes[off..off + pat.len()] == pat { continue; }
					buf[off..off + pat.len()].copy_from_slice(pat);
					check_damaged(&mut t, &format!("{name} bytes {off}.. ->{}", hex(pat)), &buf);
					buf[off..off + pat.len()].copy_from_slice(&bytes[off..off + pat.len()]);
				}
			}
		}
		t.finish();
	}
	#[test]
	fn canary_must_fail() {
		let mut t = Tally::new("canary_must_fail");
		let e = Enc { pool: 0, rev: false, split: false, insn: 0 };
		for (name, m) in universe_b().into_iter().take(9) {
			t.at(name.as_bytes());
			t.case(true);
			// deliberately wrong claim: the reader reports a class file version one higher than the file states
			let mut wrong = m.clone(); wrong.major += 1;
			match read_bytes(&gen_class(&m, e)) { Ok(Some(Ok(tree))) if c_class(&tree).as_ref() == Ok(&wrong) => {}, _ => t.fail(name, "canary") }
		}
		t.finish();
	}

	// ---------------------------------------------------------------------------------------------------------------------
	// (5) C17: a configurable visitor.  It records into duke's tree types (like the tree builder does) but answers
	//     `interests()` from a mask, declines what it is told to decline and notes every event it did not ask for.
	// ---------------------------------------------------------------------------------------------------------------------
	/// interest flags in declaration order of ClassInterests (19), FieldInterests (7), MethodInterests (12), CodeInterests (7), RecordComponentInterests (6)
	#[derive(Debug, Clone, PartialEq)]
	struct Mask { c: [bool; 19], f: [bool; 7], m: [bool; 12], k: [bool; 7], r: [bool; 6] }
	const C_INNER: usize = 0; const C_ENCL: usize = 1; const C_SIG: usize = 2; const C_SRC: usize = 3; const C_SDE: usize = 4; const C_RVA: usize = 5; const C_RIA: usize = 6; const C_RVTA: usize = 7; const C_RITA: usize = 8;
	const C_MOD: usize = 9; const C_MODP: usize = 10; const C_MODM: usize = 11; const C_NH: usize = 12; const C_NM: usize = 13; const C_PERM: usize = 14; const C_REC: usize = 15; const C_UNK: usize = 16;
	const C_FIELDS: usize = 17; const C_METHODS: usize = 18;
	const MASK_BITS: usize = 19 + 7 + 12 + 7 + 6;
	impl Mask {
		fn from_bits(b: u64) -> Mask {
			let bit = |i: usize| b >> i & 1 == 1;
			let mut m = Mask { c: [false; 19], f: [false; 7], m: [false; 12], k: [false; 7], r: [false; 6] };
			for i in 0..19 { m.c[i] = bit(i); } for i in 0..7 { m.f[i] = bit(19 + i); } for i in 0..12 { m.m[i] = bit(26 + i); } for i in 0..7 { m.k[i] = bit(38 + i); } for i in 0..6 { m.r[i] = bit(45 + i); }
			m
		}
		fn class(&self) -> ClassInterests {
			let c = &self.c;
			ClassInterests { inner_classes: c[0], enclosing_method: c[1], signature: c[2], source_file: c[3], source_debug_extension: c[4], runtime_visible_annotations: c[5], runtime_invisible_annotations: c[6],
				runtime_visible_type_annotations: c[7], runtime_invisible_type_annotations: c[8], module: c[9], module_packages: c[10], module_main_class: c[11], nest_host: c[12], nest_members: c[13],
				permitted_subclasses: c[14], record: c[15], unknown_attributes: c[16], fields: c[17], methods: c[18] }
		}
		fn field(&self) -> FieldInterests {
			let f = &self.f;
			FieldInterests { constant_value: f[0], signature: f[1], runtime_visible_annotations: f[2], runtime_invisible_annotations: f[3], runtime_visible_type_annotations: f[4], runtime_invisible_type_annotations: f[5], unknown_attributes: f[6] }
		}
		fn method(&self) -> MethodInterests {
			let m = &self.m;
			MethodInterests { code: m[0], exceptions: m[1], signature: m[2], runtime_visible_annotations: m[3], runtime_invisible_annotations: m[4], runtime_visible_type_annotations: m[5], runtime_invisible_type_annotations: m[6],
				runtime_visible_parameter_annotations: m[7], runtime_invisible_parameter_annotations: m[8], annotation_default: m[9], method_parameters: m[10], unknown_attributes: m[11] }
		}
		fn code(&self) -> CodeInterests {
			let k = &self.k;
			CodeInterests { stack_map_table: k[0], line_number_table: k[1], local_variable_table: k[2], local_variable_type_table: k[3], runtime_visible_type_annotations: k[4], runtime_invisible_type_annotations: k[5], unknown_attributes: k[6] }
		}
		fn rc(&self) -> RecordComponentInterests {
			let r = &self.r;
			RecordComponentInterests { signature: r[0], runtime_visible_annotations: r[1], runtime_invisible_annotations: r[2], runtime_visible_type_annotations: r[3], runtime_invisible_type_annotations: r[4], unknown_attributes: r[5] }
		}
	}
	/// what to decline: bit k = the k-th class / field / method / code / record component (in visiting order, per class)
	#[derive(Debug, Clone, PartialEq)]
	struct Cfg { mask: Mask, no_class: u32, no_field: u32, no_method: u32, no_code: u32, no_rc: u32 }
	type Head = (u16, String, String);
	#[derive(Debug, Clone, PartialEq)]
	struct ClassHead { minor: u16, major: u16, access: u16, this: String, sup: Option<String>, interfaces: Vec<String> }
	/// what one class delivered
	#[derive(Debug, Clone)]
	struct Got { head: ClassHead, body: Option<(ClassFile, Vec<Head>, Vec<Head>, Vec<(String, String)>)> }
	struct PV { cfg: Rc<Cfg>, out: Vec<Got>, bad: Vec<String> }
	struct PC { cfg: Rc<Cfg>, cf: ClassFile, fh: Vec<Head>, mh: Vec<Head>, rh: Vec<(String, String)>, bad: Vec<String>, dep: usize }
	struct PF { cfg: Rc<Cfg>, f: Field, bad: Vec<String>, dep: usize }
	struct PM { cfg: Rc<Cfg>, m: Method, no_code: bool, bad: Vec<String>, dep: usize, code_calls: usize }
	struct PK { cfg: Rc<Cfg>, c: Code, bad: Vec<String>, mm: usize }
	struct PR { cfg: Rc<Cfg>, r: RecordComponent, bad: Vec<String> }
	fn uninvited(bad: &mut Vec<String>, interested: bool, what: &str) { if !interested { bad.push(format!("uninvited event {what}")); } }

	impl MultiClassVisitor for PV {
		type ClassVisitor = PC;
		type ClassResidual = (PV, ClassHead);
		fn visit_class(mut self, version: Version, access: ClassAccess, name: ObjClassName, super_class: Option<ObjClassName>, interfaces: Vec<ObjClassName>) -> Result<ControlFlow<Self, (Self::ClassResidual, Self::ClassVisitor)>> {
			let head = ClassHead { minor: version.minor, major: version.major, access: class_access_bits(&access), this: jsl(name.as_inner()), sup: super_class.as_ref().map(|x| jsl(x.as_inner())),
				interfaces: interfaces.iter().map(|x| jsl(x.as_inner())).collect() };
			let k = self.out.len();
			if self.cfg.no_class >> k & 1 == 1 { self.out.push(Got { head, body: None }); return Ok(ControlFlow::Break(self)); }
			let pc = PC { cfg: self.cfg.clone(), cf: ClassFile::new(version, access, name, super_class, interfaces), fh: vec![], mh: vec![], rh: vec![], bad: vec![], dep: 0 };
			Ok(ControlFlow::Continue(((self, head), pc)))
		}
		fn finish_class((mut this, head): Self::ClassResidual, c: PC) -> Result<Self> {
			this.bad.extend(c.bad);
			if c.dep != 1 { this.bad.push(format!("class: visit_deprecated_and_synthetic_attribute called {} times", c.dep)); }
			this.out.push(Got { head, body: Some((c.cf, c.fh, c.mh, c.rh)) });
			Ok(this)
		}
	}
	impl ClassVisitor for PC {
		type AnnotationsVisitor = Vec<Annotation>;
		type AnnotationsResidual = (Self, bool);
		type TypeAnnotationsVisitor = Vec<TypeAnnotation<TargetInfoClass>>;
		type TypeAnnotationsResidual = (Self, bool);
		type RecordComponentVisitor = PR;
		type RecordComponentResidual = Self;
		type FieldVisitor = PF;
		type FieldResidual = Self;
		type MethodVisitor = PM;
		type MethodResidual = Self;
		type UnknownAttribute = Attribute;
		fn interests(&self) -> ClassInterests { self.cfg.mask.class() }
		fn visit_deprecated_and_synthetic_attribute(&mut self, deprecated: bool, synthetic: bool) -> Result<()> { self.dep += 1; ClassVisitor::visit_deprecated_and_synthetic_attribute(&mut self.cf, deprecated, synthetic) }
		fn visit_inner_classes(&mut self, x: Vec<InnerClass>) -> Result<()> { uninvited(&mut self.bad, self.cfg.mask.c[C_INNER], "class.visit_inner_classes"); ClassVisitor::visit_inner_classes(&mut self.cf, x) }
		fn visit_enclosing_method(&mut self, x: EnclosingMethod) -> Result<()> { uninvited(&mut self.bad, self.cfg.mask.c[C_ENCL], "class.visit_enclosing_method"); ClassVisitor::visit_enclosing_method(&mut self.cf, x) }
		fn visit_signature(&mut self, x: ClassSignature) -> Result<()> { uninvited(&mut self.bad, self.cfg.mask.c[C_SIG], "class.visit_signature"); ClassVisitor::visit_signature(&mut self.cf, x) }
		fn visit_source_file(&mut self, x: java_string::JavaString) -> Result<()> { uninvited(&mut self.bad, self.cfg.mask.c[C_SRC], "class.visit_source_file"); ClassVisitor::visit_source_file(&mut self.cf, x) }
		fn visit_source_debug_extension(&mut self, x: java_string::JavaString) -> Result<()> { uninvited(&mut self.bad, self.cfg.mask.c[C_SDE], "class.visit_source_debug_extension"); ClassVisitor::visit_source_debug_extension(&mut self.cf, x) }
		fn visit_annotations(mut self, visible: bool) -> Result<(Self::AnnotationsResidual, Self::AnnotationsVisitor)> {
			let want = self.cfg.mask.c[if visible { C_RVA } else { C_RIA }];
			uninvited(&mut self.bad, want, "class.visit_annotations");
			Ok(((self, visible), Vec::new()))
		}
		fn finish_annotations((mut this, visible): Self::AnnotationsResidual, a: Self::AnnotationsVisitor) -> Result<Self> {
			if visible { this.cf.runtime_visible_annotations.extend(a); } else { this.cf.runtime_invisible_annotations.extend(a); }
			Ok(this)
		}
		fn visit_type_annotations(mut self, visible: bool) -> Result<(Self::TypeAnnotationsResidual, Self::TypeAnnotationsVisitor)> {
			let want = self.cfg.mask.c[if visible { C_RVTA } else { C_RITA }];
			uninvited(&mut self.bad, want, "class.visit_type_annotations");
			Ok(((self, visible), Vec::new()))
		}
		fn finish_type_annotations((mut this, visible): Self::TypeAnnotationsResidual, a: Self::TypeAnnotationsVisitor) -> Result<Self> {
			if visible { this.cf.runtime_visible_type_annotations.extend(a); } else { this.cf.runtime_invisible_type_annotations.extend(a); }
			Ok(this)
		}
		fn visit_module(&mut self, x: Module) -> Result<()> { uninvited(&mut self.bad, self.cfg.mask.c[C_MOD], "class.visit_module"); ClassVisitor::visit_module(&mut self.cf, x) }
		fn visit_module_packages(&mut self, x: Vec<PackageName>) -> Result<()> { uninvited(&mut self.bad, self.cfg.mask.c[C_MODP], "class.visit_module_packages"); ClassVisitor::visit_module_packages(&mut self.cf, x) }
		fn visit_module_main_class(&mut self, x: ClassName) -> Result<()> { uninvited(&mut self.bad, self.cfg.mask.c[C_MODM], "class.visit_module_main_class"); ClassVisitor::visit_module_main_class(&mut self.cf, x) }
		fn visit_nest_host_class(&mut self, x: ClassName) -> Result<()> { uninvited(&mut self.bad, self.cfg.mask.c[C_NH], "class.visit_nest_host_class"); ClassVisitor::visit_nest_host_class(&mut self.cf, x) }
		fn visit_nest_members(&mut self, x: Vec<ClassName>) -> Result<()> { uninvited(&mut self.bad, self.cfg.mask.c[C_NM], "class.visit_nest_members"); ClassVisitor::visit_nest_members(&mut self.cf, x) }
		fn visit_permitted_subclasses(&mut self, x: Vec<ClassName>) -> Result<()> { uninvited(&mut self.bad, self.cfg.mask.c[C_PERM], "class.visit_permitted_subclasses"); ClassVisitor::visit_permitted_subclasses(&mut self.cf, x) }
		fn visit_record_component(mut self, name: RecordName, descriptor: FieldDescriptor) -> Result<ControlFlow<Self, (Self::RecordComponentResidual, Self::RecordComponentVisitor)>> {
			uninvited(&mut self.bad, self.cfg.mask.c[C_REC], "class.visit_record_component");
			let k = self.rh.len();
			self.rh.push((jsl(name.as_inner()), jsl(descriptor.as_inner())));
			if self.cfg.no_rc >> k & 1 == 1 { return Ok(ControlFlow::Break(self)); }
			let pr = PR { cfg: self.cfg.clone(), r: RecordComponent::new(name, descriptor), bad: vec![] };
			Ok(ControlFlow::Continue((self, pr)))
		}
		fn finish_record_component(mut this: Self, r: PR) -> Result<Self> { this.bad.extend(r.bad); this.cf.record_components.push(r.r); Ok(this) }
		fn visit_unknown_attribute(&mut self, x: Attribute) -> Result<()> { uninvited(&mut self.bad, self.cfg.mask.c[C_UNK], "class.visit_unknown_attribute"); self.cf.attributes.push(x); Ok(()) }
		fn visit_field(mut self, access: FieldAccess, name: FieldName, descriptor: FieldDescriptor) -> Result<ControlFlow<Self, (Self::FieldResidual, Self::FieldVisitor)>> {
			uninvited(&mut self.bad, self.cfg.mask.c[C_FIELDS], "class.visit_field");
			let k = self.fh.len();
			self.fh.push((field_access_bits(&access), jsl(name.as_inner()), jsl(descriptor.as_inner())));
			if self.cfg.no_field >> k & 1 == 1 { return Ok(ControlFlow::Break(self)); }
			let pf = PF { cfg: self.cfg.clone(), f: Field::new(access, name, descriptor), bad: vec![], dep: 0 };
			Ok(ControlFlow::Continue((self, pf)))
		}
		fn finish_field(mut this: Self, f: PF) -> Result<Self> {
			this.bad.extend(f.bad);
			if f.dep != 1 { this.bad.push(format!("field: visit_deprecated_and_synthetic_attribute called {} times", f.dep)); }
			this.cf.fields.push(f.f);
			Ok(this)
		}
		fn visit_method(mut self, access: MethodAccess, name: MethodName, descriptor: MethodDescriptor) -> Result<ControlFlow<Self, (Self::MethodResidual, Self::MethodVisitor)>> {
			uninvited(&mut self.bad, self.cfg.mask.c[C_METHODS], "class.visit_method");
			let k = self.mh.len();
			self.mh.push((method_access_bits(&access), jsl(name.as_inner()), jsl(descriptor.as_inner())));
			if self.cfg.no_method >> k & 1 == 1 { return Ok(ControlFlow::Break(self)); }
			let pm = PM { cfg: self.cfg.clone(), m: Method::new(access, name, descriptor), no_code: self.cfg.no_code >> k & 1 == 1, bad: vec![], dep: 0, code_calls: 0 };
			Ok(ControlFlow::Continue((self, pm)))
		}
		fn finish_method(mut this: Self, m: PM) -> Result<Self> {
			this.bad.extend(m.bad);
			if m.dep != 1 { this.bad.push(format!("method: visit_deprecated_and_synthetic_attribute called {} times", m.dep)); }
			this.cf.methods.push(m.m);
			Ok(this)
		}
	}
	impl FieldVisitor for PF {
		type AnnotationsVisitor = Vec<Annotation>;
		type AnnotationsResidual = (Self, bool);
		type TypeAnnotationsVisitor = Vec<TypeAnnotation<TargetInfoField>>;
		type TypeAnnotationsResidual = (Self, bool);
		type UnknownAttribute = Attribute;
		fn interests(&self) -> FieldInterests { self.cfg.mask.field() }
		fn visit_deprecated_and_synthetic_attribute(&mut self, deprecated: bool, synthetic: bool) -> Result<()> { self.dep += 1; self.f.has_deprecated_attribute = deprecated; self.f.has_synthetic_attribute = synthetic; Ok(()) }
		fn visit_constant_value(&mut self, x: ConstantValue) -> Result<()> { uninvited(&mut self.bad, self.cfg.mask.f[0], "field.visit_constant_value"); FieldVisitor::visit_constant_value(&mut self.f, x) }
		fn visit_signature(&mut self, x: FieldSignature) -> Result<()> { uninvited(&mut self.bad, self.cfg.mask.f[1], "field.visit_signature"); FieldVisitor::visit_signature(&mut self.f, x) }
		fn visit_annotations(mut self, visible: bool) -> Result<(Self::AnnotationsResidual, Self::AnnotationsVisitor)> { let w = self.cfg.mask.f[if visible { 2 } else { 3 }]; uninvited(&mut self.bad, w, "field.visit_annotations"); Ok(((self, visible), Vec::new())) }
		fn finish_annotations((mut this, visible): Self::AnnotationsResidual, a: Self::AnnotationsVisitor) -> Result<Self> { if visible { this.f.runtime_visible_annotations.extend(a); } else { this.f.runtime_invisible_annotations.extend(a); } Ok(this) }
		fn visit_type_annotations(mut self, visible: bool) -> Result<(Self::TypeAnnotationsResidual, Self::TypeAnnotationsVisitor)> { let w = self.cfg.mask.f[if visible { 4 } else { 5 }]; uninvited(&mut self.bad, w, "field.visit_type_annotations"); Ok(((self, visible), Vec::new())) }
		fn finish_type_annotations((mut this, visible): Self::TypeAnnotationsResidual, a: Self::TypeAnnotationsVisitor) -> Result<Self> { if visible { this.f.runtime_visible_type_annotations.extend(a); } else { this.f.runtime_invisible_type_annotations.extend(a); } Ok(this) }
		fn visit_unknown_attribute(&mut self, x: Attribute) -> Result<()> { uninvited(&mut self.bad, self.cfg.mask.f[6], "field.visit_unknown_attribute"); self.f.attributes.push(x); Ok(()) }
	}
	impl RecordComponentVisitor for PR {
		type AnnotationsVisitor = Vec<Annotation>;
		type AnnotationsResidual = (Self, bool);
		type TypeAnnotationsVisitor = Vec<TypeAnnotation<TargetInfoField>>;
		type TypeAnnotationsResidual = (Self, bool);
		type UnknownAttribute = Attribute;
		fn interests(&self) -> RecordComponentInterests { self.cfg.mask.rc() }
		fn visit_signature(&mut self, x: FieldSignature) -> Result<()> { uninvited(&mut self.bad, self.cfg.mask.r[0], "record_component.visit_signature"); RecordComponentVisitor::visit_signature(&mut self.r, x) }
		fn visit_annotations(mut self, visible: bool) -> Result<(Self::AnnotationsResidual, Self::AnnotationsVisitor)> { let w = self.cfg.mask.r[if visible { 1 } else { 2 }]; uninvited(&mut self.bad, w, "record_component.visit_annotations"); Ok(((self, visible), Vec::new())) }
		fn finish_annotations((mut this, visible): Self::AnnotationsResidual, a: Self::AnnotationsVisitor) -> Result<Self> { if visible { this.r.runtime_visible_annotations.extend(a); } else { this.r.runtime_invisible_annotations.extend(a); } Ok(this) }
		fn visit_type_annotations(mut self, visible: bool) -> Result<(Self::TypeAnnotationsResidual, Self::TypeAnnotationsVisitor)> { let w = self.cfg.mask.r[if visible { 3 } else { 4 }]; uninvited(&mut self.bad, w, "record_component.visit_type_annotations"); Ok(((self, visible), Vec::new())) }
		fn finish_type_annotations((mut this, visible): Self::TypeAnnotationsResidual, a: Self::TypeAnnotationsVisitor) -> Result<Self> { if visible { this.r.runtime_visible_type_annotations.extend(a); } else { this.r.runtime_invisible_type_annotations.extend(a); } Ok(this) }
		fn visit_unknown_attribute(&mut self, x: Attribute) -> Result<()> { uninvited(&mut self.bad, self.cfg.mask.r[5], "record_component.visit_unknown_attribute"); self.r.attributes.push(x); Ok(()) }
	}
	impl MethodVisitor for PM {
		type AnnotationsVisitor = Vec<Annotation>;
		type AnnotationsResidual = (Self, bool);
		type TypeAnnotationsVisitor = Vec<TypeAnnotation<TargetInfoMethod>>;
		type TypeAnnotationsResidual = (Self, bool);
		type AnnotationDefaultVisitor = Vec<ElementValue>;
		type AnnotationDefaultResidual = Self;
		type CodeVisitor = PK;
		type UnknownAttribute = Attribute;
		fn interests(&self) -> MethodInterests { self.cfg.mask.method() }
		fn visit_deprecated_and_synthetic_attribute(&mut self, deprecated: bool, synthetic: bool) -> Result<()> { self.dep += 1; self.m.has_deprecated_attribute = deprecated; self.m.has_synthetic_attribute = synthetic; Ok(()) }
		fn visit_exceptions(&mut self, x: Vec<ClassName>) -> Result<()> { uninvited(&mut self.bad, self.cfg.mask.m[1], "method.visit_exceptions"); MethodVisitor::visit_exceptions(&mut self.m, x) }
		fn visit_signature(&mut self, x: MethodSignature) -> Result<()> { uninvited(&mut self.bad, self.cfg.mask.m[2], "method.visit_signature"); MethodVisitor::visit_signature(&mut self.m, x) }
		fn visit_annotations(mut self, visible: bool) -> Result<(Self::AnnotationsResidual, Self::AnnotationsVisitor)> { let w = self.cfg.mask.m[if visible { 3 } else { 4 }]; uninvited(&mut self.bad, w, "method.visit_annotations"); Ok(((self, visible), Vec::new())) }
		fn finish_annotations((mut this, visible): Self::AnnotationsResidual, a: Self::AnnotationsVisitor) -> Result<Self> { if visible { this.m.runtime_visible_annotations.extend(a); } else { this.m.runtime_invisible_annotations.extend(a); } Ok(this) }
		fn visit_type_annotations(mut self, visible: bool) -> Result<(Self::TypeAnnotationsResidual, Self::TypeAnnotationsVisitor)> { let w = self.cfg.mask.m[if visible { 5 } else { 6 }]; uninvited(&mut self.bad, w, "method.visit_type_annotations"); Ok(((self, visible), Vec::new())) }
		fn finish_type_annotations((mut this, visible): Self::TypeAnnotationsResidual, a: Self::TypeAnnotationsVisitor) -> Result<Self> { if visible { this.m.runtime_visible_type_annotations.extend(a); } else { this.m.runtime_invisible_type_annotations.extend(a); } Ok(this) }
		fn visit_annotation_default(mut self) -> Result<(Self::AnnotationDefaultResidual, Self::AnnotationDefaultVisitor)> { let w = self.cfg.mask.m[9]; uninvited(&mut self.bad, w, "method.visit_annotation_default"); Ok((self, Vec::new())) }
		fn finish_annotation_default(mut this: Self, v: Self::AnnotationDefaultVisitor) -> Result<Self> { this.m.annotation_default = v.into_iter().next(); Ok(this) }
		fn visit_parameters(&mut self, x: Vec<MethodParameter>) -> Result<()> { uninvited(&mut self.bad, self.cfg.mask.m[10], "method.visit_parameters"); MethodVisitor::visit_parameters(&mut self.m, x) }
		fn visit_annotable_parameter_count(&mut self) { self.bad.push(s("method.visit_annotable_parameter_count called")); }
		fn visit_parameter_annotation(&mut self) { self.bad.push(s("method.visit_parameter_annotation called")); }
		fn visit_unknown_attribute(&mut self, x: Attribute) -> Result<()> { uninvited(&mut self.bad, self.cfg.mask.m[11], "method.visit_unknown_attribute"); self.m.attributes.push(x); Ok(()) }
		fn visit_code(&mut self) -> Result<Option<Self::CodeVisitor>> {
			uninvited(&mut self.bad, self.cfg.mask.m[0], "method.visit_code");
			self.code_calls += 1;
			if self.code_calls > 1 { self.bad.push(s("method.visit_code called twice")); }
			if self.no_code { return Ok(None); }
			Ok(Some(PK { cfg: self.cfg.clone(), c: Code::default(), bad: vec![], mm: 0 }))
		}
		fn finish_code(&mut self, k: PK) -> Result<()> {
			self.bad.extend(k.bad);
			if k.mm != 1 { self.bad.push(format!("code: visit_max_stack_and_max_locals called {} times", k.mm)); }
			MethodVisitor::finish_code(&mut self.m, k.c)
		}
	}
	impl CodeVisitor for PK {
		type TypeAnnotationsVisitor = Vec<TypeAnnotation<TargetInfoCode>>;
		type TypeAnnotationsResidual = (Self, bool);
		type UnknownAttribute = Attribute;
		fn interests(&self) -> CodeInterests { self.cfg.mask.code() }
		fn visit_max_stack_and_max_locals(&mut self, max_stack: u16, max_locals: u16) -> Result<()> { self.mm += 1; self.c.max_stack = Some(max_stack); self.c.max_locals = Some(max_locals); Ok(()) }
		fn visit_exception_table(&mut self, x: Vec<Exception>) -> Result<()> { self.c.exception_table = x; Ok(()) }
		fn visit_instruction(&mut self, label: Option<Label>, frame: Option<StackMapData>, instruction: Instruction) -> Result<()> {
			if frame.is_some() { uninvited(&mut self.bad, self.cfg.mask.k[0], "code.visit_instruction with a stack map frame"); }
			self.c.instructions.push(InstructionListEntry { label, frame, instruction });
			Ok(())
		}
		fn visit_last_label(&mut self, l: Label) -> Result<()> { CodeVisitor::visit_last_label(&mut self.c, l) }
		fn visit_line_numbers(&mut self, x: Vec<(Label, u16)>) -> Result<()> { uninvited(&mut self.bad, self.cfg.mask.k[1], "code.visit_line_numbers"); CodeVisitor::visit_line_numbers(&mut self.c, x) }
		fn visit_local_variables(&mut self, x: Vec<Lv>) -> Result<()> {
			uninvited(&mut self.bad, self.cfg.mask.k[2] || self.cfg.mask.k[3], "code.visit_local_variables");
			if x.iter().any(|v| v.descriptor.is_some()) { uninvited(&mut self.bad, self.cfg.mask.k[2], "code.visit_local_variables with LocalVariableTable entries"); }
			if x.iter().any(|v| v.signature.is_some()) { uninvited(&mut self.bad, self.cfg.mask.k[3], "code.visit_local_variables with LocalVariableTypeTable entries"); }
			CodeVisitor::visit_local_variables(&mut self.c, x)
		}
		fn visit_type_annotations(mut self, visible: bool) -> Result<(Self::TypeAnnotationsResidual, Self::TypeAnnotationsVisitor)> { let w = self.cfg.mask.k[if visible { 4 } else { 5 }]; uninvited(&mut self.bad, w, "code.visit_type_annotations"); Ok(((self, visible), Vec::new())) }
		fn finish_type_annotations((mut this, visible): Self::TypeAnnotationsResidual, a: Self::TypeAnnotationsVisitor) -> Result<Self> { if visible { this.c.runtime_visible_type_annotations.extend(a); } else { this.c.runtime_invisible_type_annotations.extend(a); } Ok(this) }
		fn visit_unknown_attribute(&mut self, x: Attribute) -> Result<()> { uninvited(&mut self.bad, self.cfg.mask.k[6], "code.visit_unknown_attribute"); self.c.attributes.push(x); Ok(()) }
	}

	/// what a visitor with configuration `cfg` must receive for the class `m` (the `ordinal`-th class of the stream): header always,
	/// nothing else when declined, otherwise exactly the facts of `m` the mask asks for, members in order without the declined ones
	fn project(m: &MClass, cfg: &Cfg, ordinal: usize) -> (ClassHead, Option<(MClass, Vec<Head>, Vec<Head>, Vec<(String, String)>)>) {
		let head = ClassHead { minor: m.minor, major: m.major, access: m.access, this: m.this.clone(), sup: m.sup.clone(), interfaces: m.interfaces.clone() };
		if cfg.no_class >> ordinal & 1 == 1 { return (head, None); }
		let k = &cfg.mask;
		let mut p = m.clone();
		if !k.c[C_INNER] { p.inner_classes = None; }
		if !k.c[C_ENCL] { p.enclosing_method = None; }
		if !k.c[C_SIG] { p.signature = None; }
		if !k.c[C_SRC] { p.source_file = None; }
		if !k.c[C_RVA] { p.annotations.clear(); }
		if !k.c[C_NH] { p.nest_host = None; }
		if !k.c[C_NM] { p.nest_members = None; }
		if !k.c[C_PERM] { p.permitted = None; }
		if !k.c[C_UNK] { p.unknown.clear(); }
		let (mut fh, mut mh, mut rh) = (Vec::new(), Vec::new(), Vec::new());
		if k.c[C_REC] {
			rh = m.record.iter().map(|r| (r.name.clone(), r.desc.clone())).collect();
			let mut n = 0; p.record.retain(|_| { n += 1; cfg.no_rc >> (n - 1) & 1 == 0 });
			for r in &mut p.record { if !k.r[0] { r.signature = None; } if !k.r[5] { r.unknown.clear(); } }
		} else { p.record.clear(); }
		if k.c[C_FIELDS] {
			fh = m.fields.iter().map(|f| (f.access, f.name.clone(), f.desc.clone())).collect();
			let mut n = 0; p.fields.retain(|_| { n += 1; cfg.no_field >> (n - 1) & 1 == 0 });
			for f in &mut p.fields { if !k.f[0] { f.constant = None; } if !k.f[1] { f.signature = None; } if !k.f[6] { f.unknown.clear(); } }
		} else { p.fields.clear(); }
		if k.c[C_METHODS] {
			mh = m.methods.iter().map(|f| (f.access, f.name.clone(), f.desc.clone())).collect();
			for (n, x) in p.methods.iter_mut().enumerate() {
				if !k.m[0] || cfg.no_code >> n & 1 == 1 { x.code = None; }
				if !k.m[1] { x.exceptions = None; } if !k.m[2] { x.signature = None; } if !k.m[10] { x.params = None; } if !k.m[11] { x.unknown.clear(); }
				if let Some(c) = &mut x.code {
					if !k.k[0] { c.frames.clear(); } if !k.k[1] { c.lines = None; } if !k.k[2] { c.lvt.clear(); } if !k.k[3] { c.lvtt.clear(); } if !k.k[6] { c.unknown.clear(); }
				}
			}
			let mut n = 0; p.methods.retain(|_| { n += 1; cfg.no_method >> (n - 1) & 1 == 0 });
		} else { p.methods.clear(); }
		(head, Some((p, fh, mh, rh)))
	}
	fn check_got(got: &Got, m: &MClass, cfg: &Cfg, ordinal: usize) -> Result<(), String> {
		let (head, body) = project(m, cfg, ordinal);
		if got.head != head { return Err(format!("class header: {}", diff(&got.head, &head))); }
		match (&got.body, &body) {
			(None, None) => Ok(()),
			(Some((cf, fh, mh, rh)), Some((p, pfh, pmh, prh))) => {
				if fh != pfh { return Err(format!("sequence of visit_field calls: {}", diff(fh, pfh))); }
				if mh != pmh { return Err(format!("sequence of visit_method calls: {}", diff(mh, pmh))); }
				if rh != prh { return Err(format!("sequence of visit_record_component calls: {}", diff(rh, prh))); }
				let g = c_class(cf).map_err(|e| format!("received data not expressible: {e}"))?;
				if g != *p { return Err(format!("received facts are not the projection of the full read: {}", diff(&g, p))); }
				Ok(())
			},
			(a, _) => Err(format!("class {} although it was {}", if a.is_some() { "delivered" } else { "not delivered" }, if a.is_some() { "declined" } else { "accepted" })),
		}
	}
	fn pv(cfg: &Rc<Cfg>) -> PV { PV { cfg: cfg.clone(), out: vec![], bad: vec![] } }
	/// the mask family: all, none, each single flag off, each single flag on (with the flags needed to reach it), 16 fixed pseudo-random masks
	fn mask_family() -> Vec<(String, Mask)> {
		let all = (1u64 << MASK_BITS) - 1;
		let mut v = vec![(s("all"), Mask::from_bits(all)), (s("none"), Mask::from_bits(0))];
		for i in 0..MASK_BITS { v.push((format!("all-but-{i}"), Mask::from_bits(all & !(1 << i)))); }
		for i in 0..MASK_BITS {
			let path: u64 = if i < 19 { 0 } else if i < 26 { 1 << C_FIELDS } else if i < 38 { 1 << C_METHODS } else if i < 45 { 1 << C_METHODS | 1 << 26 } else { 1 << C_REC };
			v.push((format!("only-{i}"), Mask::from_bits(1 << i | path)));
		}
		let mut x = 0x9E3779B97F4A7C15u64;
		for i in 0..16 { x = x.wrapping_mul(6364136223846793005).wrapping_add(1442695040888963407); v.push((format!("random-{i}"), Mask::from_bits((x >> 11) & all | 1 << C_FIELDS | 1 << C_METHODS | 1 << 26 | 1 << C_REC))); }
		v
	}
	/// LocalVariableTable and LocalVariableTypeTable wanted differently (the family where replaying and reading differ, see cls_group.py)
	fn lv_split(m: &Mask) -> bool { m.c[C_METHODS] && m.m[0] && m.k[2] != m.k[3] }
	fn rich_classes() -> (MClass, MClass) {
		let (sh, fl, b) = (shells(), field_lists(), bodies());
		let mut r1 = sh[3].1.clone();
		r1.record = sh[4].1.record.clone(); r1.inner_classes = sh[2].1.inner_classes.clone(); r1.nest_host = os("q/H"); r1.source_file = os("S.java"); r1.signature = os("Ljava/lang/Object;"); r1.deprecated = true;
		r1.interfaces = vec![s("p/I")];
		r1.fields = fl[2].1.clone();
		r1.methods = vec![b[0].clone(), b[7].clone(), b[5].clone(), b[8].clone(), b[9].clone()];
		let mut r2 = sh[1].1.clone();
		r2.fields = fl[3].1.clone();
		r2.methods = vec![b[4].clone(), b[7].clone()];
		r2.synthetic = true;
		(r1, r2)
	}
	fn decline_family(m: &MClass) -> Vec<(String, Cfg0)> {
		let mut v = vec![(s("nothing declined"), Cfg0::default()), (s("class declined"), Cfg0 { no_class: 1, ..Cfg0::default() })];
		for i in 0..m.fields.len() { v.push((format!("field {i} declined"), Cfg0 { no_field: 1 << i, ..Cfg0::default() })); }
		for i in 0..m.methods.len() { v.push((format!("method {i} declined"), Cfg0 { no_method: 1 << i, ..Cfg0::default() })); v.push((format!("code of method {i} declined"), Cfg0 { no_code: 1 << i, ..Cfg0::default() })); }
		for i in 0..m.record.len() { v.push((format!("record component {i} declined"), Cfg0 { no_rc: 1 << i, ..Cfg0::default() })); }
		v.push((s("every second member declined"), Cfg0 { no_class: 0, no_field: 0b0101_0101, no_method: 0b1010_1010, no_code: 0b0000_0101, no_rc: 0b01 }));
		v
	}
	#[derive(Debug, Clone, Copy, Default)]
	struct Cfg0 { no_class: u32, no_field: u32, no_method: u32, no_code: u32, no_rc: u32 }
	fn same_got(a: &[Got], b: &[Got]) -> Result<(), String> {
		if a.len() != b.len() { return Err(format!("{} classes replayed, {} read", a.len(), b.len())); }
		for (x, y) in a.iter().zip(b) {
			if x.head != y.head { return Err(format!("class header: {}", diff(&x.head, &y.head))); }
			match (&x.body, &y.body) {
				(None, None) => {},
				(Some((c1, f1, m1, r1)), Some((c2, f2, m2, r2))) => {
					if (f1, m1, r1) != (f2, m2, r2) { return Err(s("sequence of member visits differs")); }
					let (g1, g2) = (c_class(c1).map_err(|e| format!("replayed data not expressible: {e}"))?, c_class(c2).map_err(|e| format!("read data not expressible: {e}"))?);
					if g1 != g2 { return Err(diff(&g1, &g2)); }
				},
				_ => return Err(s("delivered in one, declined in the other")),
			}
		}
		Ok(())
	}
	/// one configuration on the stream A ++ B: two successive reads deliver one class each and stop exactly at the boundaries; received == projection;
	/// no uninvited event.  With `replay`: ClassFile::accept of the fully read trees into the same visitor delivers the same.
	fn check_partial(t: &mut Tally, what: &str, models: [&MClass; 2], files: [&[u8]; 2], trees: &[ClassFile; 2], cfg: &Rc<Cfg>, replay: bool) {
		t.at(what.as_bytes());
		t.case(true);
		let mut stream = files[0].to_vec(); stream.extend_from_slice(files[1]);
		let ends = [files[0].len() as u64, stream.len() as u64];
		let r = guarded(|| -> std::result::Result<(PV, bool), String> {
			let mut cur = Cursor::new(&stream[..]);
			let mut v = pv(cfg);
			for k in 0..2 {
				v = read_class_multi(&mut cur, v).map_err(|e| format!("read {k} failed: {e:#}"))?;
				if v.out.len() != k + 1 { return Err(format!("read {k} delivered {} classes in total", v.out.len())); }
				if cur.position() != ends[k] { return Err(format!("after read {k} the stream is at {}, the class file ends at {}", cur.position(), ends[k])); }
			}
			let third = read_class_multi(&mut cur, pv(cfg)).is_err();
			Ok((v, third))
		});
		let v = match r {
			Err(()) | Ok(None) => { t.fail(s(what), "the reader panicked"); return; },
			Ok(Some(Err(x))) => { t.fail(s(what), &x); return; },
			Ok(Some(Ok((v, third)))) => { if !third { t.fail(s(what), "a third read at the end of the stream did not fail"); } v },
		};
		if !v.bad.is_empty() { t.fail(s(what), &format!("reading: {}", v.bad.join("; "))); return; }
		for k in 0..2 { if let Err(x) = check_got(&v.out[k], models[k], cfg, k) { t.fail(s(what), &format!("reading class {k}: {x}")); return; } }
		if !replay { return; }
		let r = guarded(|| -> std::result::Result<PV, String> {
			let mut w = pv(cfg);
			for k in 0..2 { w = trees[k].clone().accept(w).map_err(|e| format!("replay {k} failed: {e:#}"))?; }
			Ok(w)
		});
		match r {
			Err(()) | Ok(None) => t.fail(s(what), "ClassFile::accept panicked"),
			Ok(Some(Err(x))) => t.fail(s(what), &x),
			Ok(Some(Ok(w))) => {
				if !w.bad.is_empty() { t.fail(s(what), &format!("replaying: {}", w.bad.join("; "))); }
				else if let Err(x) = same_got(&w.out, &v.out) { t.fail(s(what), &format!("replaying delivers other events than reading: {x}")); }
			},
		}
	}
	fn partial_setup() -> Vec<([MClass; 2], [Vec<u8>; 2], [ClassFile; 2], String)> {
		let (r1, r2) = rich_classes();
		let mut v = Vec::new();
		for (e, en) in [(Enc { pool: 0, rev: false, split: false, insn: 0 }, "natural order"), (Enc { pool: 2, rev: true, split: true, insn: 2 }, "reversed attributes, scattered pool, wide forms")] {
			for (a, b, on) in [(&r1, &r2, "R1 ++ R2"), (&r2, &r1, "R2 ++ R1")] {
				let files = [gen_class(a, e), gen_class(b, e)];
				let trees = [read_class(&mut Cursor::new(&files[0])).expect("harness: rich class must be readable (see read_is_exact)"), read_class(&mut Cursor::new(&files[1])).expect("harness: rich class must be readable")];
				v.push(([a.clone(), b.clone()], files, trees, format!("{on}, {en}")));
			}
		}
		v
	}
	fn run_partial(t: &mut Tally, select: &dyn Fn(&Mask) -> bool, replay: bool) {
		for (models, files, trees, sn) in partial_setup() {
			// full read == model, replay into the tree builder reproduces the class
			for k in 0..2 {
				t.case(true);
				if c_class(&trees[k]).as_ref() != Ok(&models[k]) { t.fail(format!("{sn} class {k}"), "full read differs from the model (see read_is_exact)"); }
				match guarded(|| trees[k].clone().accept(Vec::<ClassFile>::new())) {
					Ok(Some(Ok(v))) if v.len() == 1 && v[0] == trees[k] => {},
					_ => t.fail(format!("{sn} class {k}"), "ClassFile::accept into the tree builder does not reproduce the class"),
				}
			}
			for (mn, mask) in mask_family() {
				if !select(&mask) { continue; }
				for (dn, d) in decline_family(&models[0]) {
					// the same decline pattern for both classes, except that only the first class of the stream is ever declined as a whole; then also the second
					for second in [false, true] {
						if second && d.no_class == 0 { continue; }
						let cfg = Rc::new(Cfg { mask: mask.clone(), no_class: if second { 0b10 } else { d.no_class }, no_field: d.no_field, no_method: d.no_method, no_code: d.no_code, no_rc: d.no_rc });
						let what = format!("{sn}; interests {mn}; {dn}{}", if second { " (second class)" } else { "" });
						check_partial(t, &what, [&models[0], &models[1]], [&files[0], &files[1]], &trees, &cfg, replay);
					}
				}
			}
		}
	}
	#[test]
	fn partial_visitors_see_projection() {
		let mut t = Tally::new("partial_visitors_see_projection");
		// reading for every mask; replay == reading for every mask that wants both local variable tables or neither
		run_partial(&mut t, &|m| !lv_split(m), true);
		run_partial(&mut t, &|m| lv_split(m), false);
		t.finish();
	}
	#[test]
	#[allow(non_snake_case)]
	fn partial_visitors_see_projection__replay_of_one_local_variable_table() {
		let mut t = Tally::new("partial_visitors_see_projection__replay_of_one_local_variable_table");
		run_partial(&mut t, &|m| lv_split(m), true);
		t.finish();
	}
