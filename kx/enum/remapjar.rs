	// =====================================================================================================================
	// bounded exhaustive enumeration for the JAR LEVEL of dukebox::remap (C07): remap(jar, remapper) (entry loop,
	// remap_jar_entry_name / remap_jar_entry_name_java, non-class entries, directories), ParsedJar::to_mem / write, the
	// zip archive read back, lazily parsed class entries (storage/*).
	//
	// Everything is generated from an own model (plain strings and numbers): a jar is an ordered list of entries, a class
	// is a small record (name, super class, interfaces, fields, methods with a few instructions that name classes, fields
	// and methods), a remapper is three tables plus a super type relation.  Class bytes are written by the harness' own
	// class file writer and read back by the harness' own strict class file reader; archives are written and read with
	// the zip crate directly.  The expected result is computed at model level from the sentences of C07 only
	// (`expected_class`, `expected_jar`); the code under test is never asked what the answer should be.
	//
	// Out of the class model on purpose (known findings of C07, see known_findings.jsonl): generic signatures, unknown
	// attributes, Module / ModulePackages / ModuleMainClass, record components.  The per-position traversal of the class
	// tree (`impl Mappable for ...`) is checked elsewhere; here the classes are small and the jars vary.
	// =====================================================================================================================
	use std::collections::{BTreeMap, BTreeSet};
	use std::io::{Cursor, Read, Write};
	use java_string::JavaString;
	use duke::tree::field::{FieldDescriptorSlice, FieldName, FieldNameAndDesc, FieldNameSlice};
	use duke::tree::method::{MethodDescriptorSlice, MethodName, MethodNameSlice};
	use quill::remapper::ARemapper;
	use crate::storage::{BasicFileAttributes, JarEntryEnum, UnnamedMemJar};

	fn js(s: &str) -> JavaString { JavaString::from(s.to_owned()) }
	fn sj(s: &JavaStr) -> String { s.as_str_lossy().into_owned() }

	/// panics of the code under test are caught and reported as failing inputs: keep stderr small, but never hide a panic of the harness itself
	fn quiet() {
		static ONCE: std::sync::Once = std::sync::Once::new();
		ONCE.call_once(|| std::panic::set_hook(Box::new(|info| {
			let p = info.payload();
			let m = p.downcast_ref::<&str>().map(|s| s.to_string()).or_else(|| p.downcast_ref::<String>().cloned()).unwrap_or_default();
			if m.starts_with("harness:") || m.contains("failing input(s)") { eprintln!("{m}"); }
		})));
	}

	enum Out<T> { Ok(T), Err(String), Panic }
	fn run<T>(f: impl FnOnce() -> Result<T>) -> Out<T> {
		match guarded(f) { Ok(Some(Ok(v))) => Out::Ok(v), Ok(Some(Err(e))) => Out::Err(format!("{e:#}")), _ => Out::Panic }
	}

	// ---------------------------------------------------------------------------------------------------------------------
	// model of a class
	// ---------------------------------------------------------------------------------------------------------------------
	#[derive(Clone, Debug, PartialEq, Eq, PartialOrd, Ord)]
	struct MRef { owner: String, name: String, desc: String }
	fn mref(owner: &str, name: &str, desc: &str) -> MRef { MRef { owner: owner.into(), name: name.into(), desc: desc.into() } }

	#[derive(Clone, Debug, PartialEq, Eq)]
	enum MInsn {
		ALoad0, AConstNull, Dup, Pop, Return, AReturn,
		LdcString(String), LdcInt(i32), LdcClass(String),
		New(String), CheckCast(String),
		GetStatic(MRef), GetField(MRef), PutField(MRef),
		InvokeVirtual(MRef), InvokeSpecial(MRef), InvokeStatic(MRef),
	}
	#[derive(Clone, Debug, PartialEq, Eq)]
	struct MField { access: u16, name: String, desc: String, constant: Option<i32> }
	/// lines: (index of the instruction, line number)
	#[derive(Clone, Debug, PartialEq, Eq)]
	struct MCode { max_stack: u16, max_locals: u16, insns: Vec<MInsn>, lines: Vec<(usize, u16)> }
	#[derive(Clone, Debug, PartialEq, Eq)]
	struct MMethod { access: u16, name: String, desc: String, code: Option<MCode> }
	#[derive(Clone, Debug, PartialEq, Eq)]
	struct MClass { minor: u16, major: u16, access: u16, name: String, super_class: Option<String>, interfaces: Vec<String>, fields: Vec<MField>, methods: Vec<MMethod>, source_file: Option<String> }

	// ---------------------------------------------------------------------------------------------------------------------
	// own class file writer (JVMS 4.1 - 4.7 for exactly the model above)
	// ---------------------------------------------------------------------------------------------------------------------
	#[derive(Clone, Debug, PartialEq, Eq)]
	enum PE { Utf8(String), Int(i32), Class(u16), Str(u16), NameType(u16, u16), Field(u16, u16), Method(u16, u16), IMethod(u16, u16), Other(u8), Second }
	struct PoolW(Vec<PE>);
	impl PoolW {
		fn add(&mut self, e: PE) -> u16 {
			if let Some(p) = self.0.iter().position(|x| *x == e) { return p as u16 + 1; }
			self.0.push(e);
			self.0.len() as u16
		}
		fn utf8(&mut self, s: &str) -> u16 { self.add(PE::Utf8(s.to_owned())) }
		fn class(&mut self, n: &str) -> u16 { let u = self.utf8(n); self.add(PE::Class(u)) }
		fn nt(&mut self, n: &str, d: &str) -> u16 { let (a, b) = (self.utf8(n), self.utf8(d)); self.add(PE::NameType(a, b)) }
		fn field(&mut self, r: &MRef) -> u16 { let (c, n) = (self.class(&r.owner), self.nt(&r.name, &r.desc)); self.add(PE::Field(c, n)) }
		fn method(&mut self, r: &MRef) -> u16 { let (c, n) = (self.class(&r.owner), self.nt(&r.name, &r.desc)); self.add(PE::Method(c, n)) }
		fn bytes(&self) -> Vec<u8> {
			let mut b = Vec::new();
			b.extend_from_slice(&(self.0.len() as u16 + 1).to_be_bytes());
			for e in &self.0 {
				match e {
					PE::Utf8(s) => { b.push(1); b.extend_from_slice(&(s.len() as u16).to_be_bytes()); b.extend_from_slice(s.as_bytes()); },
					PE::Int(i) => { b.push(3); b.extend_from_slice(&i.to_be_bytes()); },
					PE::Class(u) => { b.push(7); b.extend_from_slice(&u.to_be_bytes()); },
					PE::Str(u) => { b.push(8); b.extend_from_slice(&u.to_be_bytes()); },
					PE::Field(c, n) => { b.push(9); b.extend_from_slice(&c.to_be_bytes()); b.extend_from_slice(&n.to_be_bytes()); },
					PE::Method(c, n) => { b.push(10); b.extend_from_slice(&c.to_be_bytes()); b.extend_from_slice(&n.to_be_bytes()); },
					PE::NameType(c, n) => { b.push(12); b.extend_from_slice(&c.to_be_bytes()); b.extend_from_slice(&n.to_be_bytes()); },
					o => panic!("harness: the writer does not produce {o:?}"),
				}
			}
			b
		}
	}
	fn p16(b: &mut Vec<u8>, v: u16) { b.extend_from_slice(&v.to_be_bytes()); }
	fn p32(b: &mut Vec<u8>, v: u32) { b.extend_from_slice(&v.to_be_bytes()); }
	fn attr(b: &mut Vec<u8>, pool: &mut PoolW, name: &str, body: &[u8]) { p16(b, pool.utf8(name)); p32(b, body.len() as u32); b.extend_from_slice(body); }

	/// the bytes start with an unused Utf8 constant, so they are never what duke's writer would produce: a class that is copied verbatim is told from one that was re-written
	fn write_class_bytes(c: &MClass) -> Vec<u8> {
		let mut pool = PoolW(Vec::new());
		pool.utf8("unused constant of the harness");
		let mut body = Vec::new();
		p16(&mut body, c.access);
		p16(&mut body, pool.class(&c.name));
		p16(&mut body, c.super_class.as_deref().map_or(0, |s| pool.class(s)));
		p16(&mut body, c.interfaces.len() as u16);
		for i in &c.interfaces { p16(&mut body, pool.class(i)); }
		p16(&mut body, c.fields.len() as u16);
		for f in &c.fields {
			p16(&mut body, f.access); p16(&mut body, pool.utf8(&f.name)); p16(&mut body, pool.utf8(&f.desc));
			p16(&mut body, f.constant.is_some() as u16);
			if let Some(v) = f.constant { let i = pool.add(PE::Int(v)); attr(&mut body, &mut pool, "ConstantValue", &i.to_be_bytes()); }
		}
		p16(&mut body, c.methods.len() as u16);
		for m in &c.methods {
			p16(&mut body, m.access); p16(&mut body, pool.utf8(&m.name)); p16(&mut body, pool.utf8(&m.desc));
			p16(&mut body, m.code.is_some() as u16);
			if let Some(code) = &m.code {
				let mut bc: Vec<u8> = Vec::new();
				let mut pcs = Vec::new();
				for i in &code.insns {
					pcs.push(bc.len() as u16);
					fn op16(bc: &mut Vec<u8>, op: u8, idx: u16) { bc.push(op); bc.extend_from_slice(&idx.to_be_bytes()); }
					match i {
						MInsn::ALoad0 => bc.push(0x2a), MInsn::AConstNull => bc.push(0x01), MInsn::Dup => bc.push(0x59), MInsn::Pop => bc.push(0x57),
						MInsn::Return => bc.push(0xb1), MInsn::AReturn => bc.push(0xb0),
						MInsn::LdcString(s) => { let u = pool.utf8(s); let k = pool.add(PE::Str(u)); assert!(k < 256, "harness: ldc index"); bc.push(0x12); bc.push(k as u8); },
						MInsn::LdcInt(v) => { let k = pool.add(PE::Int(*v)); assert!(k < 256, "harness: ldc index"); bc.push(0x12); bc.push(k as u8); },
						MInsn::LdcClass(n) => { let k = pool.class(n); assert!(k < 256, "harness: ldc index"); bc.push(0x12); bc.push(k as u8); },
						MInsn::New(n) => { let k = pool.class(n); op16(&mut bc, 0xbb, k); },
						MInsn::CheckCast(n) => { let k = pool.class(n); op16(&mut bc, 0xc0, k); },
						MInsn::GetStatic(r) => { let k = pool.field(r); op16(&mut bc, 0xb2, k); },
						MInsn::GetField(r) => { let k = pool.field(r); op16(&mut bc, 0xb4, k); },
						MInsn::PutField(r) => { let k = pool.field(r); op16(&mut bc, 0xb5, k); },
						MInsn::InvokeVirtual(r) => { let k = pool.method(r); op16(&mut bc, 0xb6, k); },
						MInsn::InvokeSpecial(r) => { let k = pool.method(r); op16(&mut bc, 0xb7, k); },
						MInsn::InvokeStatic(r) => { let k = pool.method(r); op16(&mut bc, 0xb8, k); },
					}
				}
				let mut cb = Vec::new();
				p16(&mut cb, code.max_stack); p16(&mut cb, code.max_locals);
				p32(&mut cb, bc.len() as u32); cb.extend_from_slice(&bc);
				p16(&mut cb, 0); // exception table
				p16(&mut cb, !code.lines.is_empty() as u16);
				if !code.lines.is_empty() {
					let mut lb = Vec::new();
					p16(&mut lb, code.lines.len() as u16);
					for (i, l) in &code.lines { p16(&mut lb, pcs[*i]); p16(&mut lb, *l); }
					attr(&mut cb, &mut pool, "LineNumberTable", &lb);
				}
				attr(&mut body, &mut pool, "Code", &cb);
			}
		}
		p16(&mut body, c.source_file.is_some() as u16);
		if let Some(s) = &c.source_file { let u = pool.utf8(s); attr(&mut body, &mut pool, "SourceFile", &u.to_be_bytes()); }
		let mut out = vec![0xca, 0xfe, 0xba, 0xbe];
		p16(&mut out, c.minor); p16(&mut out, c.major);
		out.extend_from_slice(&pool.bytes());
		out.extend_from_slice(&body);
		out
	}

	// ---------------------------------------------------------------------------------------------------------------------
	// own strict class file reader: accepts exactly the shapes of the model (any other attribute, opcode, constant kind or
	// left-over byte is an error), so "nothing else changed" is decided on the bytes of the result
	// ---------------------------------------------------------------------------------------------------------------------
	struct Rd<'a> { b: &'a [u8], p: usize }
	impl Rd<'_> {
		fn take(&mut self, n: usize) -> Result<&[u8], String> {
			if self.p + n > self.b.len() { return Err(format!("class file ends at byte {} where {} more byte(s) are needed", self.b.len(), self.p + n - self.b.len())); }
			let s = &self.b[self.p..self.p + n]; self.p += n; Ok(s)
		}
		fn u8(&mut self) -> Result<u8, String> { Ok(self.take(1)?[0]) }
		fn u16(&mut self) -> Result<u16, String> { let s = self.take(2)?; Ok(u16::from_be_bytes([s[0], s[1]])) }
		fn u32(&mut self) -> Result<u32, String> { let s = self.take(4)?; Ok(u32::from_be_bytes([s[0], s[1], s[2], s[3]])) }
	}
	struct PoolR(Vec<PE>);
	impl PoolR {
		fn get(&self, i: u16) -> Result<&PE, String> { if i == 0 || i as usize > self.0.len() { Err(format!("constant pool index {i} out of range")) } else { Ok(&self.0[i as usize - 1]) } }
		fn utf8(&self, i: u16) -> Result<String, String> { match self.get(i)? { PE::Utf8(s) => Ok(s.clone()), o => Err(format!("constant {i} is {o:?}, not Utf8")) } }
		fn class(&self, i: u16) -> Result<String, String> { match self.get(i)? { PE::Class(u) => self.utf8(*u), o => Err(format!("constant {i} is {o:?}, not a Class")) } }
		fn nt(&self, i: u16) -> Result<(String, String), String> { match self.get(i)? { PE::NameType(a, b) => Ok((self.utf8(*a)?, self.utf8(*b)?)), o => Err(format!("constant {i} is {o:?}, not NameAndType")) } }
		fn field(&self, i: u16) -> Result<MRef, String> { match self.get(i)? { PE::Field(c, n) => { let (name, desc) = self.nt(*n)?; Ok(MRef { owner: self.class(*c)?, name, desc }) }, o => Err(format!("constant {i} is {o:?}, not a Fieldref")) } }
		fn method(&self, i: u16) -> Result<MRef, String> { match self.get(i)? { PE::Method(c, n) => { let (name, desc) = self.nt(*n)?; Ok(MRef { owner: self.class(*c)?, name, desc }) }, o => Err(format!("constant {i} is {o:?}, not a Methodref")) } }
	}
	fn parse_class_bytes(b: &[u8]) -> Result<MClass, String> {
		let mut r = Rd { b, p: 0 };
		if r.u32()? != 0xcafebabe { return Err("no class file magic".into()); }
		let (minor, major) = (r.u16()?, r.u16()?);
		let count = r.u16()?;
		let mut pool = PoolR(Vec::new());
		while (pool.0.len() as u16) + 1 < count {
			let tag = r.u8()?;
			let e = match tag {
				1 => { let n = r.u16()? as usize; PE::Utf8(String::from_utf8(r.take(n)?.to_vec()).map_err(|_| "Utf8 constant outside the harness' alphabet".to_string())?) },
				3 => PE::Int(r.u32()? as i32),
				4 => { r.u32()?; PE::Other(4) },
				5 | 6 => { r.u32()?; r.u32()?; PE::Other(tag) },
				7 => PE::Class(r.u16()?),
				8 => PE::Str(r.u16()?),
				9 => PE::Field(r.u16()?, r.u16()?),
				10 => PE::Method(r.u16()?, r.u16()?),
				11 => PE::IMethod(r.u16()?, r.u16()?),
				12 => PE::NameType(r.u16()?, r.u16()?),
				15 => { r.u8()?; r.u16()?; PE::Other(15) },
				16 | 19 | 20 => { r.u16()?; PE::Other(tag) },
				17 | 18 => { r.u32()?; PE::Other(tag) },
				t => return Err(format!("constant pool tag {t}")),
			};
			pool.0.push(e);
			if tag == 5 || tag == 6 { pool.0.push(PE::Second); }
		}
		let access = r.u16()?;
		let name = pool.class(r.u16()?)?;
		let sup = r.u16()?;
		let super_class = if sup == 0 { None } else { Some(pool.class(sup)?) };
		let mut interfaces = Vec::new();
		for _ in 0..r.u16()? { interfaces.push(pool.class(r.u16()?)?); }
		let mut fields = Vec::new();
		for _ in 0..r.u16()? {
			let (access, fname, desc) = (r.u16()?, pool.utf8(r.u16()?)?, pool.utf8(r.u16()?)?);
			let mut constant = None;
			for _ in 0..r.u16()? {
				let (an, len) = (pool.utf8(r.u16()?)?, r.u32()?);
				if an != "ConstantValue" || len != 2 || constant.is_some() { return Err(format!("field {fname} has the attribute {an} ({len} bytes)")); }
				constant = Some(match pool.get(r.u16()?)? { PE::Int(v) => *v, o => return Err(format!("ConstantValue of field {fname} is {o:?}")) });
			}
			fields.push(MField { access, name: fname, desc, constant });
		}
		let mut methods = Vec::new();
		for _ in 0..r.u16()? {
			let (access, mname, desc) = (r.u16()?, pool.utf8(r.u16()?)?, pool.utf8(r.u16()?)?);
			let mut code = None;
			for _ in 0..r.u16()? {
				let (an, len) = (pool.utf8(r.u16()?)?, r.u32()? as usize);
				if an != "Code" || code.is_some() { return Err(format!("method {mname} has the attribute {an} ({len} bytes)")); }
				let end = r.p + len;
				let (max_stack, max_locals, clen) = (r.u16()?, r.u16()?, r.u32()? as usize);
				let cstart = r.p;
				let mut insns = Vec::new();
				let mut pcs = Vec::new();
				while r.p < cstart + clen {
					pcs.push(r.p - cstart);
					let op = r.u8()?;
					insns.push(match op {
						0x2a => MInsn::ALoad0, 0x01 => MInsn::AConstNull, 0x59 => MInsn::Dup, 0x57 => MInsn::Pop, 0xb1 => MInsn::Return, 0xb0 => MInsn::AReturn,
						0x12 | 0x13 => {
							let k = if op == 0x12 { r.u8()? as u16 } else { r.u16()? };
							match pool.get(k)? { PE::Str(u) => MInsn::LdcString(pool.utf8(*u)?), PE::Int(v) => MInsn::LdcInt(*v), PE::Class(u) => MInsn::LdcClass(pool.utf8(*u)?), o => return Err(format!("method {mname}: ldc of {o:?}")) }
						},
						0xbb => MInsn::New(pool.class(r.u16()?)?), 0xc0 => MInsn::CheckCast(pool.class(r.u16()?)?),
						0xb2 => MInsn::GetStatic(pool.field(r.u16()?)?), 0xb4 => MInsn::GetField(pool.field(r.u16()?)?), 0xb5 => MInsn::PutField(pool.field(r.u16()?)?),
						0xb6 => MInsn::InvokeVirtual(pool.method(r.u16()?)?), 0xb7 => MInsn::InvokeSpecial(pool.method(r.u16()?)?), 0xb8 => MInsn::InvokeStatic(pool.method(r.u16()?)?),
						o => return Err(format!("method {mname}: opcode {o:#04x} at offset {}", r.p - cstart - 1)),
					});
				}
				if r.p != cstart + clen { return Err(format!("method {mname}: the last instruction runs past the code array")); }
				let n_ex = r.u16()?;
				if n_ex != 0 { return Err(format!("method {mname}: {n_ex} exception table entries")); }
				let mut lines = Vec::new();
				let mut seen_lines = false;
				for _ in 0..r.u16()? {
					let (an, len) = (pool.utf8(r.u16()?)?, r.u32()?);
					if an != "LineNumberTable" || seen_lines { return Err(format!("code of method {mname} has the attribute {an} ({len} bytes)")); }
					seen_lines = true;
					for _ in 0..r.u16()? {
						let (pc, line) = (r.u16()? as usize, r.u16()?);
						let idx = pcs.iter().position(|x| *x == pc).ok_or_else(|| format!("method {mname}: line number entry at offset {pc}, which is not the start of an instruction"))?;
						lines.push((idx, line));
					}
				}
				if r.p != end { return Err(format!("method {mname}: Code attribute length {len} does not match its content")); }
				code = Some(MCode { max_stack, max_locals, insns, lines });
			}
			methods.push(MMethod { access, name: mname, desc, code });
		}
		let mut source_file = None;
		for _ in 0..r.u16()? {
			let (an, len) = (pool.utf8(r.u16()?)?, r.u32()?);
			if an != "SourceFile" || len != 2 || source_file.is_some() { return Err(format!("the class has the attribute {an} ({len} bytes)")); }
			source_file = Some(pool.utf8(r.u16()?)?);
		}
		if r.p != b.len() { return Err(format!("{} byte(s) after the end of the class file", b.len() - r.p)); }
		Ok(MClass { minor, major, access, name, super_class, interfaces, fields, methods, source_file })
	}

	// ---------------------------------------------------------------------------------------------------------------------
	// model of a remapper: class -> class, (class, field, descriptor) -> name, (class, method, descriptor) -> name; a member
	// that is not listed for its owner is looked up in the super types of the owner (depth first, in declaration order)
	// ---------------------------------------------------------------------------------------------------------------------
	#[derive(Clone, Debug, Default)]
	struct MRemapper { classes: BTreeMap<String, String>, fields: BTreeMap<MRef, String>, methods: BTreeMap<MRef, String>, supers: BTreeMap<String, Vec<String>> }
	impl MRemapper {
		fn class(&self, n: &str) -> String { self.classes.get(n).cloned().unwrap_or_else(|| n.to_owned()) }
		/// descriptors (field, method) and array class names: exactly the names between `L` and `;` are replaced
		fn desc(&self, d: &str) -> String {
			let b: Vec<char> = d.chars().collect();
			let (mut out, mut i) = (String::new(), 0);
			while i < b.len() {
				out.push(b[i]);
				if b[i] == 'L' {
					let j = (i + 1..b.len()).find(|&k| b[k] == ';').unwrap_or_else(|| panic!("harness: descriptor {d}"));
					let n: String = b[i + 1..j].iter().collect();
					out.push_str(&self.class(&n)); out.push(';');
					i = j + 1;
				} else { i += 1; }
			}
			out
		}
		fn class_any(&self, n: &str) -> String { if n.starts_with('[') { self.desc(n) } else { self.class(n) } }
		fn find(&self, table: &BTreeMap<MRef, String>, owner: &str, name: &str, desc: &str) -> Option<String> {
			if let Some(x) = table.get(&mref(owner, name, desc)) { return Some(x.clone()); }
			for s in self.supers.get(owner).into_iter().flatten() { if let Some(x) = self.find(table, s, name, desc) { return Some(x); } }
			None
		}
		fn field(&self, r: &MRef) -> MRef { MRef { owner: self.class(&r.owner), name: self.find(&self.fields, &r.owner, &r.name, &r.desc).unwrap_or_else(|| r.name.clone()), desc: self.desc(&r.desc) } }
		fn method(&self, r: &MRef) -> MRef { MRef { owner: self.class_any(&r.owner), name: self.find(&self.methods, &r.owner, &r.name, &r.desc).unwrap_or_else(|| r.name.clone()), desc: self.desc(&r.desc) } }
		fn show(&self) -> String {
			let c: Vec<String> = self.classes.iter().map(|(a, b)| format!("{a}->{b}")).collect();
			let f: Vec<String> = self.fields.iter().map(|(a, b)| format!("{}.{}:{}->{b}", a.owner, a.name, a.desc)).collect();
			let m: Vec<String> = self.methods.iter().map(|(a, b)| format!("{}.{}{}->{b}", a.owner, a.name, a.desc)).collect();
			format!("remapper{{classes [{}] fields [{}] methods [{}]}}", c.join(", "), f.join(", "), m.join(", "))
		}
	}

	/// the remapper handed to the code under test: answers from the tables only (quill's provided methods do the rest)
	struct HR<'a>(&'a MRemapper);
	impl ARemapper for HR<'_> {
		fn map_class_fail(&self, class: &ObjClassNameSlice) -> Result<Option<ObjClassName>> {
			Ok(self.0.classes.get(&sj(class.as_inner())).map(|n| ObjClassName::try_from(js(n)).unwrap_or_else(|e| panic!("harness: class name {n}: {e:#}"))))
		}
	}
	impl BRemapper for HR<'_> {
		fn map_field_fail(&self, owner_name: &ObjClassNameSlice, field_name: &FieldNameSlice, field_desc: &FieldDescriptorSlice) -> Result<Option<FieldNameAndDesc>> {
			let d = sj(field_desc.as_inner());
			Ok(self.0.find(&self.0.fields, &sj(owner_name.as_inner()), &sj(field_name.as_inner()), &d).map(|n| FieldNameAndDesc {
				name: FieldName::try_from(js(&n)).unwrap_or_else(|e| panic!("harness: field name {n}: {e:#}")),
				desc: FieldDescriptor::try_from(js(&self.0.desc(&d))).unwrap_or_else(|e| panic!("harness: descriptor: {e:#}")),
			}))
		}
		fn map_method_fail(&self, owner_name: &ObjClassNameSlice, method_name: &MethodNameSlice, method_desc: &MethodDescriptorSlice) -> Result<Option<MethodNameAndDesc>> {
			let d = sj(method_desc.as_inner());
			Ok(self.0.find(&self.0.methods, &sj(owner_name.as_inner()), &sj(method_name.as_inner()), &d).map(|n| MethodNameAndDesc {
				name: MethodName::try_from(js(&n)).unwrap_or_else(|e| panic!("harness: method name {n}: {e:#}")),
				desc: MethodDescriptor::try_from(js(&self.0.desc(&d))).unwrap_or_else(|e| panic!("harness: descriptor: {e:#}")),
			}))
		}
	}

	// ---------------------------------------------------------------------------------------------------------------------
	// ORACLE, class level.  C07: "every class, field and method reference anywhere in every class (declarations, super types,
	// instructions, ...) is what the remapper answers for the original reference"; "all non-name content (flags, instruction
	// stream shape, constants, line numbers) [is] unchanged".
	// ---------------------------------------------------------------------------------------------------------------------
	fn expected_class(c: &MClass, r: &MRemapper) -> MClass {
		MClass {
			minor: c.minor, major: c.major, access: c.access,
			name: r.class(&c.name),
			super_class: c.super_class.as_deref().map(|s| r.class(s)),
			interfaces: c.interfaces.iter().map(|i| r.class(i)).collect(),
			fields: c.fields.iter().map(|f| { let d = r.field(&mref(&c.name, &f.name, &f.desc)); MField { access: f.access, name: d.name, desc: d.desc, constant: f.constant } }).collect(),
			methods: c.methods.iter().map(|m| {
				let d = r.method(&mref(&c.name, &m.name, &m.desc));
				MMethod { access: m.access, name: d.name, desc: d.desc, code: m.code.as_ref().map(|code| MCode {
					max_stack: code.max_stack, max_locals: code.max_locals, lines: code.lines.clone(),
					insns: code.insns.iter().map(|i| match i {
						MInsn::ALoad0 | MInsn::AConstNull | MInsn::Dup | MInsn::Pop | MInsn::Return | MInsn::AReturn | MInsn::LdcString(_) | MInsn::LdcInt(_) => i.clone(),
						MInsn::LdcClass(n) => MInsn::LdcClass(r.class_any(n)),
						MInsn::New(n) => MInsn::New(r.class_any(n)),
						MInsn::CheckCast(n) => MInsn::CheckCast(r.class_any(n)),
						MInsn::GetStatic(x) => MInsn::GetStatic(r.field(x)), MInsn::GetField(x) => MInsn::GetField(r.field(x)), MInsn::PutField(x) => MInsn::PutField(r.field(x)),
						MInsn::InvokeVirtual(x) => MInsn::InvokeVirtual(r.method(x)), MInsn::InvokeSpecial(x) => MInsn::InvokeSpecial(r.method(x)), MInsn::InvokeStatic(x) => MInsn::InvokeStatic(r.method(x)),
					}).collect(),
				}) }
			}).collect(),
			source_file: c.source_file.clone(),
		}
	}
	/// first difference between the class of the result and the expected class
	fn class_diff(got: &MClass, exp: &MClass) -> Option<String> {
		if got == exp { return None; }
		if got.name != exp.name { return Some(format!("the class is called {} instead of {}", got.name, exp.name)); }
		if (got.minor, got.major, got.access) != (exp.minor, exp.major, exp.access) { return Some(format!("version / access flags {}.{} {:#06x} instead of {}.{} {:#06x}", got.major, got.minor, got.access, exp.major, exp.minor, exp.access)); }
		if got.super_class != exp.super_class { return Some(format!("super class {:?} instead of {:?}", got.super_class, exp.super_class)); }
		if got.interfaces != exp.interfaces { return Some(format!("interfaces {:?} instead of {:?}", got.interfaces, exp.interfaces)); }
		if got.source_file != exp.source_file { return Some(format!("SourceFile {:?} instead of {:?}", got.source_file, exp.source_file)); }
		if got.fields.len() != exp.fields.len() { return Some(format!("{} fields instead of {}", got.fields.len(), exp.fields.len())); }
		for (g, e) in got.fields.iter().zip(&exp.fields) { if g != e { return Some(format!("field {g:?} instead of {e:?}")); } }
		if got.methods.len() != exp.methods.len() { return Some(format!("{} methods instead of {}", got.methods.len(), exp.methods.len())); }
		for (g, e) in got.methods.iter().zip(&exp.methods) {
			if (g.access, &g.name, &g.desc) != (e.access, &e.name, &e.desc) { return Some(format!("method {:#06x} {}{} instead of {:#06x} {}{}", g.access, g.name, g.desc, e.access, e.name, e.desc)); }
			match (&g.code, &e.code) {
				(None, None) => {},
				(Some(gc), Some(ec)) => {
					if gc.insns.len() != ec.insns.len() { return Some(format!("method {}: {} instructions instead of {}", e.name, gc.insns.len(), ec.insns.len())); }
					for (k, (gi, ei)) in gc.insns.iter().zip(&ec.insns).enumerate() { if gi != ei { return Some(format!("method {} instruction {k}: {gi:?} instead of {ei:?}", e.name)); } }
					if (gc.max_stack, gc.max_locals) != (ec.max_stack, ec.max_locals) { return Some(format!("method {}: max_stack / max_locals {} {} instead of {} {}", e.name, gc.max_stack, gc.max_locals, ec.max_stack, ec.max_locals)); }
					if gc.lines != ec.lines { return Some(format!("method {}: line numbers {:?} instead of {:?}", e.name, gc.lines, ec.lines)); }
				},
				_ => return Some(format!("method {}: code {} instead of {}", e.name, if g.code.is_some() { "present" } else { "absent" }, if e.code.is_some() { "present" } else { "absent" })),
			}
		}
		Some("the classes differ".into())
	}

	// ---------------------------------------------------------------------------------------------------------------------
	// model of a jar and the ORACLE at jar level.  C07: "each class entry is stored under the name of its remapped class",
	// "non-class entries ... are unchanged", "the result re-opens as a valid jar whose classes are well-formed".
	// Every entry of the input yields exactly one entry of the result and the result has nothing else.
	// Not judged (the property is silent): the order of the entries, time stamps, compression.
	// ---------------------------------------------------------------------------------------------------------------------
	#[derive(Clone, Debug, PartialEq)]
	enum MEntry { Dir, Class(MClass), Res(Vec<u8>) }
	type MJar = Vec<(String, MEntry)>;
	fn show_jar(j: &MJar) -> String {
		let v: Vec<String> = j.iter().map(|(n, e)| match e { MEntry::Dir => format!("{n} (dir)"), MEntry::Class(c) => format!("{n} (class {})", c.name), MEntry::Res(b) => format!("{n} ({} bytes)", b.len()) }).collect();
		format!("jar [{}]", v.join(", "))
	}
	fn expected_jar(j: &MJar, r: &MRemapper) -> MJar {
		j.iter().map(|(n, e)| match e {
			MEntry::Class(c) => { let x = expected_class(c, r); (format!("{}.class", x.name), MEntry::Class(x)) },
			o => (n.clone(), o.clone()),
		}).collect()
	}
	/// the names under which two different class entries of the jar are expected
	fn colliding_names(j: &MJar, r: &MRemapper) -> Vec<String> {
		let e = expected_jar(j, r);
		let mut seen = BTreeSet::new();
		e.iter().filter(|(n, _)| !seen.insert(n.clone())).map(|(n, _)| n.clone()).collect()
	}

	#[derive(Clone, Copy, Debug, PartialEq, Eq)]
	enum Form { ParsedBytes, ParsedTrees, ParsedMixed, ZipDeflated, ZipStored }
	const FORMS: [Form; 5] = [Form::ParsedBytes, Form::ParsedTrees, Form::ParsedMixed, Form::ZipDeflated, Form::ZipStored];

	fn duke_tree(bytes: &[u8]) -> ClassFile { duke::read_class(&mut Cursor::new(bytes.to_vec())).unwrap_or_else(|e| panic!("harness: duke cannot read a generated class: {e:#}")) }
	fn to_parsed(j: &MJar, form: Form) -> ParsedJar<ClassRepr, Vec<u8>> {
		let mut entries = IndexMap::new();
		let mut k = 0;
		for (n, e) in j {
			let content = match e {
				MEntry::Dir => JarEntryEnum::Dir,
				MEntry::Res(b) => JarEntryEnum::Other(b.clone()),
				MEntry::Class(c) => {
					k += 1;
					let bytes = write_class_bytes(c);
					let tree = form == Form::ParsedTrees || (form == Form::ParsedMixed && k % 2 == 0);
					JarEntryEnum::Class(if tree { ClassRepr::Parsed { class: duke_tree(&bytes) } } else { ClassRepr::Vec { data: bytes } })
				},
			};
			if entries.insert(n.clone(), ParsedJarEntry { attr: BasicFileAttributes::default(), content }).is_some() { panic!("harness: duplicate entry {n} in the input"); }
		}
		ParsedJar { entries }
	}
	/// a zip archive written with the zip crate directly (not with dukebox)
	fn to_zip(j: &MJar, deflate: bool) -> Vec<u8> {
		let mut w = zip::ZipWriter::new(Cursor::new(Vec::new()));
		let method = if deflate { zip::CompressionMethod::Deflated } else { zip::CompressionMethod::Stored };
		let opt = || zip::write::SimpleFileOptions::default().compression_method(method).last_modified_time(zip::DateTime::default());
		for (n, e) in j {
			match e {
				MEntry::Dir => w.add_directory(n.as_str(), opt()).unwrap_or_else(|e| panic!("harness: zip: {e}")),
				MEntry::Class(c) => { w.start_file(n.as_str(), opt()).unwrap_or_else(|e| panic!("harness: zip: {e}")); w.write_all(&write_class_bytes(c)).unwrap_or_else(|e| panic!("harness: zip: {e}")); },
				MEntry::Res(b) => { w.start_file(n.as_str(), opt()).unwrap_or_else(|e| panic!("harness: zip: {e}")); w.write_all(b).unwrap_or_else(|e| panic!("harness: zip: {e}")); },
			}
		}
		w.finish().unwrap_or_else(|e| panic!("harness: zip: {e}")).into_inner()
	}
	fn real_remap(j: &MJar, r: &MRemapper, form: Form) -> Out<ParsedJar<ClassRepr, Vec<u8>>> {
		match form {
			Form::ParsedBytes | Form::ParsedTrees | Form::ParsedMixed => { let p = to_parsed(j, form); run(|| remap(p, HR(r))) },
			Form::ZipDeflated | Form::ZipStored => { let z = UnnamedMemJar { data: to_zip(j, form == Form::ZipDeflated) }; run(|| remap(z, HR(r))) },
		}
	}

	/// an archive as the zip crate sees it: (name, None for a directory / the bytes of a file), in archive order
	fn observe_zip(data: &[u8]) -> Result<Vec<(String, Option<Vec<u8>>)>, String> {
		let mut z = zip::ZipArchive::new(Cursor::new(data.to_vec())).map_err(|e| format!("the result does not open as a zip archive: {e}"))?;
		let mut r = Vec::new();
		for i in 0..z.len() {
			let mut f = z.by_index(i).map_err(|e| format!("zip entry {i} of the result: {e}"))?;
			let n = f.name().to_owned();
			if f.is_dir() { r.push((n, None)); continue; }
			let mut b = Vec::new();
			f.read_to_end(&mut b).map_err(|e| format!("zip entry {n} of the result: {e}"))?;
			r.push((n, Some(b)));
		}
		Ok(r)
	}
	fn names_of(obs: &[(String, Option<Vec<u8>>)]) -> String { let v: Vec<&str> = obs.iter().map(|x| x.0.as_str()).collect(); format!("[{}]", v.join(", ")) }

	/// compares the archive with the expected jar
	fn check_archive(exp: &MJar, obs: &[(String, Option<Vec<u8>>)], verbatim_classes: bool) -> Result<(), String> {
		for (i, (n, _)) in obs.iter().enumerate() { if obs[..i].iter().any(|x| x.0 == *n) { return Err(format!("entry {n} occurs more than once in the result {}", names_of(obs))); } }
		for (n, e) in exp {
			let Some((_, o)) = obs.iter().find(|x| x.0 == *n) else {
				return Err(match e {
					MEntry::Class(c) => format!("there is no entry {n} for the class {}: the result has {}", c.name, names_of(obs)),
					MEntry::Dir => format!("the directory entry {n} is missing: the result has {}", names_of(obs)),
					MEntry::Res(_) => format!("the non-class entry {n} is missing: the result has {}", names_of(obs)),
				});
			};
			match (e, o) {
				(MEntry::Dir, None) => {},
				(MEntry::Dir, Some(_)) => return Err(format!("the directory entry {n} became a file")),
				(_, None) => return Err(format!("the entry {n} became a directory")),
				(MEntry::Res(b), Some(x)) => if x != b { return Err(format!("the non-class entry {n} changed: {} bytes {:?}... instead of {} bytes", x.len(), String::from_utf8_lossy(&x[..x.len().min(24)]), b.len())); },
				(MEntry::Class(c), Some(x)) => {
					if verbatim_classes { if *x != write_class_bytes(c) { return Err(format!("the bytes of the class entry {n} are not the bytes of the input ({} bytes)", x.len())); } continue; }
					let got = parse_class_bytes(x).map_err(|why| format!("the class in entry {n} is not well-formed / has content the input did not have: {why}"))?;
					if let Some(d) = class_diff(&got, c) { return Err(format!("entry {n}: {d}")); }
					// duke's reader (trusted here, checked by the group `cls`) must agree that this is a class of that name
					let t = duke::read_class(&mut Cursor::new(x.clone())).map_err(|e| format!("the class in entry {n} is refused by duke's reader: {e:#}"))?;
					if sj(t.name.as_inner()) != c.name { return Err(format!("entry {n}: duke reads the class name {}", sj(t.name.as_inner()))); }
				},
			}
		}
		for (n, _) in obs { if !exp.iter().any(|x| x.0 == *n) { return Err(format!("the result has the entry {n}, which no entry of the input accounts for; expected names {:?}", exp.iter().map(|x| x.0.as_str()).collect::<Vec<_>>())); } }
		Ok(())
	}

	/// the archive re-opened through dukebox itself (storage/zip_mem_unnamed.rs, zip_impls.rs, opened_jar.rs): the listing, lookup by name, the kind
	/// and content of every entry and the super type table (OpenedJar::get_super_classes_provider) must show the expected jar
	fn check_reopened_with_dukebox(exp: &MJar, mem: &UnnamedMemJar) -> Result<(), String> {
		let mut z = mem.open().map_err(|e| format!("dukebox cannot open the written jar: {e:#}"))?;
		let listed: BTreeSet<String> = OpenedJar::names(&z).map(|(_, n)| n.to_owned()).collect();
		let want: BTreeSet<String> = exp.iter().map(|x| x.0.clone()).collect();
		if listed != want { return Err(format!("OpenedJar::names of the written jar gives {listed:?} instead of {want:?}")); }
		if z.entry_keys().count() != exp.len() { return Err(format!("{} entry keys for {} entries", z.entry_keys().count(), exp.len())); }
		for (n, e) in exp {
			let entry = OpenedJar::by_name(&mut z, n).map_err(|e| format!("by_name({n}): {e:#}"))?.ok_or_else(|| format!("by_name({n}) finds nothing in the written jar"))?;
			match (e, entry.to_jar_entry_enum().map_err(|e| format!("entry {n}: {e:#}"))?) {
				(MEntry::Dir, JarEntryEnum::Dir) => {},
				(MEntry::Res(b), JarEntryEnum::Other(x)) => if x != *b { return Err(format!("non-class entry {n} read through dukebox differs")); },
				(MEntry::Class(c), JarEntryEnum::Class(x)) => {
					let t = x.read().map_err(|e| format!("class entry {n} read through dukebox: {e:#}"))?;
					if sj(t.name.as_inner()) != c.name { return Err(format!("class entry {n} read through dukebox is the class {}", sj(t.name.as_inner()))); }
				},
				(_, k) => return Err(format!("entry {n} read through dukebox has the kind {k:?}")),
			}
		}
		let prov = mem.get_super_classes_provider().map_err(|e| format!("get_super_classes_provider on the written jar: {e:#}"))?;
		let got: BTreeMap<String, Vec<String>> = prov.super_classes.iter().map(|(k, v)| (sj(k.as_inner()), v.iter().map(|x| sj(x.as_inner())).collect())).collect();
		let mut want: BTreeMap<String, Vec<String>> = BTreeMap::new();
		for (_, e) in exp { if let MEntry::Class(c) = e {
			let mut v: Vec<String> = Vec::new();
			for s in c.super_class.iter().chain(c.interfaces.iter()) { if !v.contains(s) { v.push(s.clone()); } }
			want.insert(c.name.clone(), v);
		}}
		if got != want { return Err(format!("super type table of the written jar {got:?} instead of {want:?}")); }
		Ok(())
	}

	/// everything that is observed of one result: the returned ParsedJar, the archive written by to_mem (read with the zip crate), the archive re-opened through dukebox
	fn check_result(exp: &MJar, out: ParsedJar<ClassRepr, Vec<u8>>) -> Result<(), String> {
		let listing: Vec<(String, &'static str)> = out.entries.iter().map(|(n, e)| (n.clone(), match e.content { JarEntryEnum::Dir => "dir", JarEntryEnum::Class(_) => "class", JarEntryEnum::Other(_) => "other" })).collect();
		for (n, k) in &listing {
			let Some((_, e)) = exp.iter().find(|x| x.0 == *n) else { return Err(format!("the returned jar has the entry {n} ({k}), which no entry of the input accounts for; it has {:?}, expected names {:?}", listing.iter().map(|x| x.0.as_str()).collect::<Vec<_>>(), exp.iter().map(|x| x.0.as_str()).collect::<Vec<_>>())); };
			let want = match e { MEntry::Dir => "dir", MEntry::Class(_) => "class", MEntry::Res(_) => "other" };
			if *k != want { return Err(format!("the returned jar holds the entry {n} as {k} instead of {want}")); }
		}
		if listing.len() != exp.len() { return Err(format!("the returned jar has {} entries {:?} for {} entries of the input (expected names {:?})", listing.len(), listing.iter().map(|x| x.0.as_str()).collect::<Vec<_>>(), exp.len(), exp.iter().map(|x| x.0.as_str()).collect::<Vec<_>>())); }
		let mem = match run(|| out.to_mem()) { Out::Ok(m) => m, Out::Err(e) => return Err(format!("the result cannot be written: {e}")), Out::Panic => return Err("writing the result panicked".into()) };
		let obs = observe_zip(&mem.data)?;
		check_archive(exp, &obs, false).map_err(|e| format!("after to_mem and re-opening: {e}"))?;
		match guarded(|| check_reopened_with_dukebox(exp, &mem)) { Ok(Some(r)) => r.map_err(|e| format!("after to_mem, re-opened through dukebox: {e}")), _ => Err("re-opening the written jar through dukebox panicked".into()) }
	}

	fn check_case(t: &mut Tally, j: &MJar, r: &MRemapper, form: Form) {
		let input = format!("{} {} given as {form:?}", show_jar(j), r.show());
		t.at(input.as_bytes());
		if !colliding_names(j, r).is_empty() { panic!("harness: this universe has no colliding names: {input}"); }
		match real_remap(j, r, form) {
			Out::Panic => t.fail(input, "remap panicked: no remapped jar"),
			Out::Err(e) => t.fail(input, &format!("remap refused: {e}")),
			Out::Ok(out) => if let Err(why) = check_result(&expected_jar(j, r), out) { t.fail(input, &why); },
		}
	}

	// ---------------------------------------------------------------------------------------------------------------------
	// the fixed classes of the universes.  ext/E and java/lang/Object are never in the jar (super types outside the jar).
	// ---------------------------------------------------------------------------------------------------------------------
	const M_DESC: &str = "(Lp/A;[Lp/B;I)Lp/B;";
	fn class_a() -> MClass {
		MClass { minor: 0, major: 52, access: 0x0021, name: "p/A".into(), super_class: Some("ext/E".into()), interfaces: vec!["p/I".into(), "java/lang/Runnable".into()], source_file: Some("A.java".into()),
			fields: vec![MField { access: 0x0002, name: "f".into(), desc: "Lp/B;".into(), constant: None }, MField { access: 0x0019, name: "c".into(), desc: "I".into(), constant: Some(7) }],
			methods: vec![
				MMethod { access: 0x0001, name: "<init>".into(), desc: "()V".into(), code: Some(MCode { max_stack: 1, max_locals: 1, lines: vec![(0, 3)],
					insns: vec![MInsn::ALoad0, MInsn::InvokeSpecial(mref("ext/E", "<init>", "()V")), MInsn::Return] }) },
				MMethod { access: 0x0001, name: "m".into(), desc: M_DESC.into(), code: Some(MCode { max_stack: 3, max_locals: 4, lines: vec![(0, 10), (4, 11), (13, 12)],
					insns: vec![
						MInsn::New("p/B".into()), MInsn::Dup, MInsn::InvokeSpecial(mref("p/B", "<init>", "()V")), MInsn::Pop,
						MInsn::ALoad0, MInsn::GetField(mref("p/A", "f", "Lp/B;")), MInsn::Pop,
						MInsn::GetStatic(mref("p/B", "g", "I")), MInsn::Pop,
						// members inherited from super types inside and outside the jar, named through a sub class
						MInsn::ALoad0, MInsn::GetField(mref("p/B", "f", "Lp/B;")), MInsn::InvokeVirtual(mref("p/B", "em", "()V")),
						MInsn::GetStatic(mref("p/A", "e", "I")), MInsn::Pop,
						// constants that only look like names: must stay
						MInsn::LdcString("p/A".into()), MInsn::Pop, MInsn::LdcString("Lp/B;".into()), MInsn::Pop, MInsn::LdcInt(100000), MInsn::Pop,
						MInsn::LdcClass("p/A$In".into()), MInsn::Pop, MInsn::LdcClass("[[Lp/A;".into()), MInsn::Pop,
						MInsn::AConstNull, MInsn::CheckCast("[Lp/B;".into()), MInsn::Pop,
						MInsn::InvokeStatic(mref("Root", "s", "()V")),
						MInsn::AConstNull, MInsn::CheckCast("p/B".into()), MInsn::AReturn] }) },
				MMethod { access: 0x0401, name: "run".into(), desc: "()V".into(), code: None },
			] }
	}
	fn class_b() -> MClass {
		MClass { minor: 0, major: 52, access: 0x0021, name: "p/B".into(), super_class: Some("p/A".into()), interfaces: vec![], source_file: Some("B.java".into()),
			fields: vec![MField { access: 0x0009, name: "g".into(), desc: "I".into(), constant: None }],
			methods: vec![
				MMethod { access: 0x0001, name: "<init>".into(), desc: "()V".into(), code: Some(MCode { max_stack: 1, max_locals: 1, lines: vec![],
					insns: vec![MInsn::ALoad0, MInsn::InvokeSpecial(mref("p/A", "<init>", "()V")), MInsn::Return] }) },
				MMethod { access: 0x0001, name: "m".into(), desc: M_DESC.into(), code: Some(MCode { max_stack: 2, max_locals: 4, lines: vec![(0, 5)],
					insns: vec![MInsn::ALoad0, MInsn::ALoad0, MInsn::PutField(mref("p/B", "f", "Lp/B;")), MInsn::ALoad0, MInsn::AReturn] }) },
			] }
	}
	fn class_in() -> MClass {
		MClass { minor: 3, major: 45, access: 0x0020, name: "p/A$In".into(), super_class: Some("java/lang/Object".into()), interfaces: vec![], source_file: None,
			fields: vec![MField { access: 0x1010, name: "this$0".into(), desc: "Lp/A;".into(), constant: None }],
			methods: vec![
				MMethod { access: 0x0000, name: "go".into(), desc: "()V".into(), code: Some(MCode { max_stack: 4, max_locals: 1, lines: vec![(0, 1)],
					insns: vec![MInsn::ALoad0, MInsn::GetField(mref("p/A$In", "this$0", "Lp/A;")), MInsn::ALoad0, MInsn::GetField(mref("p/A$In", "this$0", "Lp/A;")), MInsn::AConstNull, MInsn::LdcInt(1),
						MInsn::InvokeVirtual(mref("p/A", "m", M_DESC)), MInsn::Pop, MInsn::Return] }) },
			] }
	}
	fn class_root() -> MClass {
		MClass { minor: 0, major: 61, access: 0x0031, name: "Root".into(), super_class: Some("java/lang/Object".into()), interfaces: vec!["p/I".into()], source_file: Some("Root.java".into()),
			fields: vec![],
			methods: vec![
				MMethod { access: 0x0009, name: "s".into(), desc: "()V".into(), code: Some(MCode { max_stack: 1, max_locals: 0, lines: vec![(0, 1), (2, 2)],
					insns: vec![MInsn::GetStatic(mref("p/B", "g", "I")), MInsn::Pop, MInsn::LdcClass("Root".into()), MInsn::Pop, MInsn::Return] }) },
			] }
	}
	fn class_entry(c: MClass) -> (String, MEntry) { (format!("{}.class", c.name), MEntry::Class(c)) }
	fn four_classes() -> Vec<MClass> { vec![class_a(), class_b(), class_in(), class_root()] }
	fn supers() -> BTreeMap<String, Vec<String>> {
		[("p/A", vec!["ext/E", "p/I", "java/lang/Runnable"]), ("p/B", vec!["p/A"]), ("p/A$In", vec!["java/lang/Object"]), ("Root", vec!["java/lang/Object", "p/I"]), ("ext/E", vec!["java/lang/Object"])]
			.into_iter().map(|(k, v)| (k.to_owned(), v.into_iter().map(|x| x.to_owned()).collect())).collect()
	}
	/// the harness checks its own writer, reader and fixtures before every test
	fn self_check() {
		for c in four_classes() {
			let b = write_class_bytes(&c);
			let back = parse_class_bytes(&b).unwrap_or_else(|e| panic!("harness: own reader refuses own writer's class {}: {e}", c.name));
			if back != c { panic!("harness: own writer and reader disagree on {}", c.name); }
			let t = duke_tree(&b);
			let mut w = Vec::new();
			duke::write_class(&mut w, &t).unwrap_or_else(|e| panic!("harness: duke cannot write {}: {e:#}", c.name));
			if w == b { panic!("harness: duke reproduces the harness' bytes of {}, verbatim copies would not be observable", c.name); }
			let back = parse_class_bytes(&w).unwrap_or_else(|e| panic!("harness: own reader refuses duke's rendering of {}: {e}", c.name));
			if back != c { panic!("harness: {} does not survive duke's reader and writer: {:?}", c.name, class_diff(&back, &c)); }
			let id = MRemapper { supers: supers(), ..Default::default() };
			if expected_class(&c, &id) != c { panic!("harness: the empty remapper changes {}", c.name); }
		}
	}

	// class tables: every class of the universe is unmapped or gets one of its targets (renamed in place, moved to another package,
	// moved to the default package, moved onto the name another class of the jar gives up, inner class renamed with / without its outer class)
	const TARGETS: [(&str, &[&str]); 5] = [
		("p/A", &["p/X", "q/r/A", "X", "p/B"]),
		("p/B", &["p/Y", "p/A", "q/r/B"]),
		("p/A$In", &["p/X$In", "p/A$Ren"]),
		("Root", &["r/Root"]),
		("ext/E", &["ext/F"]),
	];
	fn all_class_tables() -> Vec<BTreeMap<String, String>> {
		let mut out: Vec<BTreeMap<String, String>> = vec![BTreeMap::new()];
		for (k, ts) in TARGETS {
			let mut next = Vec::new();
			for m in &out { next.push(m.clone()); for t in ts { let mut m2 = m.clone(); m2.insert(k.to_owned(), t.to_string()); next.push(m2); } }
			out = next;
		}
		out
	}
	/// member tables: none / everything / two halves; (p/B, m) is listed with a name of its own in the last one (the nearest declaration answers)
	fn member_table(k: usize) -> (BTreeMap<MRef, String>, BTreeMap<MRef, String>) {
		let f_all = [(mref("p/A", "f", "Lp/B;"), "k"), (mref("p/B", "g", "I"), "h"), (mref("ext/E", "e", "I"), "ee"), (mref("p/A$In", "this$0", "Lp/A;"), "outer")];
		let m_all = [(mref("p/A", "m", M_DESC), "n"), (mref("ext/E", "em", "()V"), "en"), (mref("Root", "s", "()V"), "t"), (mref("java/lang/Runnable", "run", "()V"), "exec"), (mref("p/B", "m", M_DESC), "n2")];
		let pick = |i: usize| match k { 0 => false, 1 => i < 4, 2 => i % 2 == 0 && i < 4, _ => i % 2 == 1 || i == 4 };
		(f_all.iter().enumerate().filter(|(i, _)| pick(*i)).map(|(_, (a, b))| (a.clone(), b.to_string())).collect(),
		 m_all.iter().enumerate().filter(|(i, _)| pick(*i)).map(|(_, (a, b))| (a.clone(), b.to_string())).collect())
	}
	fn remapper(classes: &BTreeMap<String, String>, members: usize) -> MRemapper { let (fields, methods) = member_table(members); MRemapper { classes: classes.clone(), fields, methods, supers: supers() } }
	fn table(pairs: &[(&str, &str)]) -> BTreeMap<String, String> { pairs.iter().map(|(a, b)| (a.to_string(), b.to_string())).collect() }
	fn res(s: &str) -> MEntry { MEntry::Res(s.as_bytes().to_vec()) }

	/// every non-empty set of the four classes x every class table over the four classes that gives the classes of the jar different names x the given member tables; the input form rotates
	fn classes_case_loop(name: &'static str, member_tables: &[usize]) {
		quiet(); self_check();
		let mut t = Tally::new(name);
		let classes = four_classes();
		let tables: Vec<BTreeMap<String, String>> = all_class_tables().into_iter().filter(|m| !m.contains_key("ext/E")).collect();
		let mut n = 0usize;
		for set in 1u32..16 { for tb in &tables { for &members in member_tables {
			let mut j: MJar = vec![("META-INF/".into(), MEntry::Dir), ("META-INF/MANIFEST.MF".into(), res("Manifest-Version: 1.0\r\nMain-Class: p.A\r\n\r\n"))];
			for (i, c) in classes.iter().enumerate() { if set & (1 << i) != 0 { j.push(class_entry(c.clone())); if i == 0 { j.push(("p/A.txt".into(), res("p/A"))); } } }
			j.push(("p/".into(), MEntry::Dir));
			let r = remapper(tb, members);
			if !colliding_names(&j, &r).is_empty() { continue; }   // see jar_remap__colliding_class_names
			n += 1;
			t.case(j.iter().any(|(_, e)| matches!(e, MEntry::Class(c) if expected_class(c, &r) != *c)));
			check_case(&mut t, &j, &r, FORMS[n % 5]);
		}}}
		t.finish();
	}
	#[test]
	fn jar_classes_renamed_member_tables_none_and_all() { classes_case_loop("jar_classes_renamed_member_tables_none_and_all", &[0, 1]); }
	#[test]
	fn jar_classes_renamed_member_tables_halves() { classes_case_loop("jar_classes_renamed_member_tables_halves", &[2, 3]); }

	/// the same classes and tables in every input form, for the jar with all four classes
	#[test]
	fn jar_in_every_input_form() {
		quiet(); self_check();
		let mut t = Tally::new("jar_in_every_input_form");
		let j: MJar = four_classes().into_iter().map(class_entry).collect();
		for tb in &all_class_tables() { for members in [1, 3] { for form in FORMS {
			let r = remapper(tb, members);
			if !colliding_names(&j, &r).is_empty() { continue; }
			t.case(!tb.is_empty());
			check_case(&mut t, &j, &r, form);
		}}}
		t.finish();
	}

	fn non_class_menu() -> Vec<(String, MEntry)> {
		let a_bytes = write_class_bytes(&class_a());
		vec![
			("META-INF/".into(), MEntry::Dir),
			("META-INF/MANIFEST.MF".into(), res("Manifest-Version: 1.0\r\nMain-Class: p.A\r\n\r\nName: p/A.class\r\nSHA-256-Digest: AAAA\r\n\r\n")),
			("META-INF/services/p.A".into(), res("p.B\n")),
			("p/".into(), MEntry::Dir),
			("p/A".into(), res("an entry called like the class, without suffix")),
			("p/A.class.txt".into(), res("p/A.class")),
			("p/A.CLASS".into(), MEntry::Res(a_bytes)),      // the bytes of a class under a name that is not a class entry name
			("empty.txt".into(), MEntry::Res(Vec::new())),
			("bin/all.bytes".into(), MEntry::Res((0u8..=255).collect())),
		]
	}
	/// non-class entries: every subset of nine (directories, manifest, service file, names that resemble the class entry, class bytes under another name, empty and binary content) around the classes, in every input form
	fn non_class_case_loop(name: &'static str, tb: BTreeMap<String, String>, members: usize) {
		quiet(); self_check();
		let mut t = Tally::new(name);
		let menu = non_class_menu();
		for set in 0u32..512 { for form in FORMS {
			let mut j: MJar = Vec::new();
			for (i, e) in menu.iter().enumerate() { if set & (1 << i) != 0 { j.push(e.clone()); } if i == 3 { j.push(class_entry(class_a())); } }
			j.push(class_entry(class_b()));
			let r = remapper(&tb, members);
			t.case(set != 0);
			check_case(&mut t, &j, &r, form);
		}}
		t.finish();
	}
	#[test]
	fn jar_non_class_entries_are_untouched() { non_class_case_loop("jar_non_class_entries_are_untouched", table(&[("p/A", "q/r/A"), ("p/B", "p/A"), ("ext/E", "ext/F")]), 1); }
	#[test]
	fn jar_non_class_entries_with_the_empty_remapper() { non_class_case_loop("jar_non_class_entries_with_the_empty_remapper", table(&[]), 0); }

	fn permutations(n: usize) -> Vec<Vec<usize>> {
		fn rec(cur: &mut Vec<usize>, n: usize, out: &mut Vec<Vec<usize>>) {
			if cur.len() == n { out.push(cur.clone()); return; }
			for e in 0..n { if !cur.contains(&e) { cur.push(e); rec(cur, n, out); cur.pop(); } }
		}
		let mut out = Vec::new();
		rec(&mut Vec::new(), n, &mut out);
		out
	}
	/// the order of the entries does not matter, also when classes trade names (swap, cycle of three) or take a name an earlier / later entry gives up
	#[test]
	fn jar_entries_in_every_order() {
		quiet(); self_check();
		let mut t = Tally::new("jar_entries_in_every_order");
		let base: MJar = vec![class_entry(class_a()), class_entry(class_b()), class_entry(class_in()), ("p/".into(), MEntry::Dir), ("p/A.txt".into(), res("p/A"))];
		let tables = [table(&[]), table(&[("p/A", "p/B"), ("p/B", "p/A")]), table(&[("p/A", "p/B"), ("p/B", "p/A$In"), ("p/A$In", "p/A")]), table(&[("p/A", "p/B"), ("p/B", "q/r/B")]),
			table(&[("p/B", "p/A"), ("p/A", "X")]), table(&[("p/A$In", "p/X$In"), ("p/A", "p/X")])];
		for p in permutations(5) { for (ti, tb) in tables.iter().enumerate() { for form in FORMS {
			let j: MJar = p.iter().map(|&i| base[i].clone()).collect();
			let r = remapper(tb, 1);
			t.case(ti != 0);
			check_case(&mut t, &j, &r, form);
		}}}
		t.finish();
	}

	/// storage level without remap: entries that nobody parses are copied verbatim (ParsedJar::from_jar keeps classes as bytes, to_mem writes these bytes), whatever the archive looked like
	#[test]
	fn jar_unparsed_entries_are_copied_verbatim() {
		quiet(); self_check();
		let mut t = Tally::new("jar_unparsed_entries_are_copied_verbatim");
		let menu = non_class_menu();
		let classes = four_classes();
		for cset in 0u32..16 { for oset in 0u32..512 { for deflate in [false, true] {
			// a quarter of the non-class subsets per class subset keeps the test short: the rotation covers every subset with every class set parity
			if (oset + cset) % 4 != 0 { continue; }
			let mut j: MJar = Vec::new();
			for (i, e) in menu.iter().enumerate() { if oset & (1 << i) != 0 { j.push(e.clone()); } if i < 4 && cset & (1 << i) != 0 { j.push(class_entry(classes[i].clone())); } }
			let input = format!("{} as a {} zip archive", show_jar(&j), if deflate { "deflated" } else { "stored" });
			t.at(input.as_bytes());
			t.case(cset != 0);
			let z = UnnamedMemJar { data: to_zip(&j, deflate) };
			match run(|| ParsedJar::<ClassRepr, Vec<u8>>::from_jar(&z)) {
				Out::Panic => t.fail(input, "ParsedJar::from_jar panicked"),
				Out::Err(e) => t.fail(input, &format!("ParsedJar::from_jar refused: {e}")),
				Out::Ok(p) => {
					if let Some((n, _)) = p.entries.iter().find(|(_, e)| matches!(e.content, JarEntryEnum::Class(ClassRepr::Parsed { .. }))) { t.fail(input, &format!("from_jar parsed the class entry {n}")); continue; }
					match run(|| p.to_mem()) {
						Out::Panic => t.fail(input, "to_mem panicked"),
						Out::Err(e) => t.fail(input, &format!("to_mem refused: {e}")),
						Out::Ok(mem) => if let Err(why) = observe_zip(&mem.data).and_then(|obs| check_archive(&j, &obs, true)).and_then(|()| check_reopened_with_dukebox(&j, &mem)) { t.fail(input, &why); },
					}
				},
			}
		}}}
		t.finish();
	}

	/// Two class entries that the remapper sends to one name.  C07 demands "each class entry is stored under the name of its remapped class":
	/// both cannot be stored under one name, so no result satisfies the sentence; what is compatible with it is a refusal (Err).  A result
	/// in which one of the classes is silently gone is not.
	#[test]
	fn jar_remap__colliding_class_names() {
		quiet(); self_check();
		let mut t = Tally::new("jar_remap__colliding_class_names");
		let classes = four_classes();
		// every table of the other tests, plus: two classes sent to one new name, a class sent onto a class of the default package, an inner class sent onto a top-level class
		let mut tables = all_class_tables();
		tables.extend([table(&[("p/A", "p/Z"), ("p/B", "p/Z")]), table(&[("p/A", "Root")]), table(&[("p/A$In", "p/B")]), table(&[("p/A", "p/Z"), ("p/B", "p/Z"), ("p/A$In", "p/Z")])]);
		let (mut lost, mut refused) = (0u32, 0u32);
		for set in 1u32..16 { for tb in &tables { for form in [Form::ParsedBytes, Form::ZipStored] {
			let mut j: MJar = Vec::new();
			for (i, c) in classes.iter().enumerate() { if set & (1 << i) != 0 { j.push(class_entry(c.clone())); } }
			j.push(("p/A.txt".into(), res("p/A")));
			let r = remapper(tb, 0);
			let coll = colliding_names(&j, &r);
			if coll.is_empty() { continue; }
			let input = format!("{} {} given as {form:?}", show_jar(&j), r.show());
			t.at(input.as_bytes());
			t.case(true);
			match real_remap(&j, &r, form) {
				Out::Panic => t.fail(input, "remap panicked"),
				Out::Err(_) => refused += 1,
				Out::Ok(out) => {
					lost += 1;
					let names: Vec<&String> = out.entries.keys().collect();
					t.fail(input, &format!("two class entries are renamed to {coll:?}; remap returns Ok with {} entries {names:?} for {} entries of the input: a class is silently lost", names.len(), j.len()));
				},
			}
		}}}
		println!("INFO jar_remap__colliding_class_names: {refused} case(s) refused, {lost} case(s) returned Ok without one of the classes");
		t.finish();
	}

	/// Multi-release jars (JAR specification, "Multi-release JAR files"): META-INF/versions/<n>/p/A.class holds another version of the class p/A.
	/// C07: "each class entry is stored under the name of its remapped class".  Accepted: the entry keeps its versions prefix and gets the new class name,
	/// or (literal reading, when the name is free) the plain new name.
	#[test]
	fn jar_remap__multi_release_class_entries() {
		quiet(); self_check();
		let mut t = Tally::new("jar_remap__multi_release_class_entries");
		let tables = [table(&[]), table(&[("p/A", "p/X")]), table(&[("p/A", "q/r/A"), ("p/B", "p/Y")]), table(&[("p/B", "p/Y")])];
		let mut misplaced = 0u32;
		for with_base in [true, false] { for tb in &tables { for form in FORMS {
			let mut v9 = class_a(); v9.major = 53; v9.fields.pop();
			let mut j: MJar = vec![("META-INF/MANIFEST.MF".into(), res("Manifest-Version: 1.0\r\nMulti-Release: true\r\n\r\n"))];
			if with_base { j.push(class_entry(class_a())); }
			j.push(class_entry(class_b()));
			j.push(("META-INF/versions/9/p/A.class".into(), MEntry::Class(v9.clone())));
			let r = remapper(tb, 1);
			let input = format!("{} {} given as {form:?}", show_jar(&j), r.show());
			t.at(input.as_bytes());
			t.case(tb.contains_key("p/A"));
			match real_remap(&j, &r, form) {
				Out::Panic => t.fail(input, "remap panicked"),
				Out::Err(e) => t.fail(input, &format!("remap refused: {e}")),
				Out::Ok(out) => {
					let mut exp = expected_jar(&j, &r);
					let new_name = r.class("p/A");
					let literal = format!("{new_name}.class");
					let prefixed = format!("META-INF/versions/9/{new_name}.class");
					let stored: Vec<String> = out.entries.iter().filter(|(_, e)| matches!(&e.content, JarEntryEnum::Class(c) if c.read().is_ok_and(|c| c.version == duke::tree::version::Version::V9))).map(|(n, _)| n.clone()).collect();
					let last = exp.len() - 1;
					if stored.len() == 1 && (stored[0] == prefixed || (!with_base && stored[0] == literal)) {
						exp[last].0 = stored[0].clone();
						if let Err(why) = check_result(&exp, out) { t.fail(input, &why); }
					} else {
						misplaced += 1;
						t.fail(input, &format!("the Java 9 version of class p/A, now class {new_name}, is stored under {stored:?} instead of {prefixed}{}", if with_base { String::new() } else { format!(" (or {literal})") }));
					}
				},
			}
		}}}
		println!("INFO jar_remap__multi_release_class_entries: {misplaced} case(s) with the versioned class entry under a name that is not the name of its class");
		t.finish();
	}

	#[test]
	fn canary_must_fail() {
		quiet(); self_check();
		let mut t = Tally::new("canary_must_fail");
		// deliberately false: claims that class entries keep their old entry names
		let j: MJar = vec![class_entry(class_a()), class_entry(class_b()), ("p/A.txt".into(), res("p/A"))];
		let r = remapper(&table(&[("p/A", "p/X")]), 1);
		t.at(b"canary");
		t.case(true);
		match real_remap(&j, &r, Form::ParsedBytes) {
			Out::Ok(out) => {
				let mut exp = expected_jar(&j, &r);
				exp[0].0 = "p/A.class".into();
				if let Err(why) = check_result(&exp, out) { t.fail("canary".into(), &why); }
			},
			_ => t.fail("canary".into(), "remap did not return"),
		}
		t.finish();
	}
