"""Enumeration group `corpus`: duke's class reader and writer on the class files of the installed JDK (module java.base), with `javap` as the independent reader.
Bounded stand-in (a corpus is a finite sample): never counted as proved."""
_TEXT = ('every class file of the corpus is read by duke::read_class; the tree read from what duke::write_class wrote equals the tree read from the original; javap (the JDK\'s own reader) accepts every written '
         'file and lists it like the original -- members with flags and descriptors, constant values, per method the instruction mnemonics with their symbolic operands, immediate operands, switch keys and '
         'exception types -- after dropping what the writer may choose freely (constant pool indices, bytecode offsets, branch targets, the width of ldc / goto / jsr)')
GROUP = dict(
    crate='duke', file='duke/src/lib.rs', harness_file='corpus.rs',
    functions=['duke/src/lib.rs::read_class', 'duke/src/lib.rs::write_class', 'duke/src/class_reader.rs (all)', 'duke/src/class_reader/pool.rs (all)', 'duke/src/simple_class_writer.rs (all)', 'duke/src/simple_class_writer/pool.rs (all)'],
    trusted=['corpus harness (kx/enum/corpus.rs): the corpus is module java.base of the JDK installed in the sandbox (/usr/lib/jvm/*/lib/modules, extracted with `jimage extract` into a scratch directory that is removed afterwards); '
             'the independent reader is `javap -p -s -c -constants` of the same JDK; its listings are compared after a normalisation written for this harness (pool indices `#n` dropped, `offset:` prefixes dropped, operands of '
             'if* / goto / jsr / tableswitch / lookupswitch dropped, ldc_w / goto_w / jsr_w read as ldc / goto / jsr, switch rows reduced to their key, exception table rows reduced to their type)',
             'not seen by the javap comparison (only by the comparison of the two duke trees): line number tables, local variable tables, annotations, inner class records, signatures of locals; not seen at all: the StackMapTable '
             '(the writer drops it: known finding of C02), anything both duke passes lose in the same way -- that is what the generated universes of the groups cls / indy with their own byte level oracle are for',
             'readings fixed for the comparison of the two duke trees: stack map frames are left out (dropped by the writer: known finding), labels that nothing refers to once the frames are gone are left out, label ids are renumbered in '
             'order of appearance (the reader numbers them in order of creation), an empty LocalVariableTable (javac -g writes one for a <clinit> without locals; read as Some([])) counts like an absent one (the writer writes the table '
             'only when it has an entry), values are compared through Debug (derived PartialEq says NaN != NaN; java.lang.Double.NaN is in the corpus)',
             'module-info.class files are left out (ModuleTarget / ModuleHashes / ModuleResolution are attributes duke keeps as raw bytes although they hold pool indices: covered by the C07 / C02 known findings on unknown attributes)'],
    tests=[
        dict(name='jdk_java_lang_and_util', props=['C01', 'C02'], tier='quick', timeout=900, text='On the classes of java.lang and java.util: ' + _TEXT,
             bound='the 718 class files directly in java/lang and java/util of module java.base of the installed JDK 17 (no subpackages)'),
        dict(name='jdk_java_base_java', props=['C01', 'C02'], tier='thorough', timeout=1800, text='On all classes below java/ of java.base: ' + _TEXT,
             bound='every class file below java/ of module java.base of the installed JDK 17 (about 3 000 files: java.io, java.lang.**, java.math, java.net, java.nio.**, java.security.**, java.text, java.time.**, java.util.**)'),
        dict(name='canary_must_fail', props=[], canary=True, text='must fail', bound=''),
    ])
