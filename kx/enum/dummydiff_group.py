"""Enumeration group `dummydiff`: the diff-side dummy filter of C10, MappingsDiff::insert_dummy_and_contract_inner_names
(quill/src/action/insert_dummy.rs).  The mapping-side filter Mappings::remove_dummy is covered by group `maps`."""

_ORACLE = ('Oracle (statement of C10, applied bottom-up in the order of the statement): R1 every removal of a name becomes an edit from the old name '
           'to the placeholder (field, method: source name of the key; parameter: p_<index>; class: the part of the key after the last $ of its last '
           '/-segment, the whole key when it has none); R2 an added field or parameter is discarded, an added method / class is discarded iff no '
           'parameter / member remains under it, otherwise it stays an addition; R3 every other node is dropped iff (after R1) its name action and '
           'its comment action change nothing (no action, or old == new) and no child remains; every kept node keeps its name action (after R1), '
           'its comment action and its remaining children unchanged; the result is Ok, the top-level actions stay empty, no panic; R4 a second '
           'application changes nothing.')

GROUP = dict(
    crate='quill', file='quill/src/lib.rs', harness_file='dummydiff.rs',
    functions=['quill/src/action/insert_dummy.rs::MappingsDiff::insert_dummy_and_contract_inner_names'],
    trusted=[
        'dummydiff harness (kx/enum/dummydiff.rs): own model of a mapping diff (Act = nothing / add / remove / edit on every name and every comment), '
        'own builder into MappingsDiff (public fields) and own .tinydiff renderer (read back by quill::tiny_v2_diff::read and compared with the model '
        'before use), own extractor (refuses duplicate keys and top-level actions), menus written by hand',
        'the doc comment of insert_dummy_and_contract_inner_names is a copy of the doc comment of Mappings::remove_dummy ("// TODO: doc") and describes '
        'the mapping side; the oracle is written from the diff-side sentence of the statement of C10 and agrees with the three comments inside the '
        'function ("new mappings should be ignored, as any un-mapped members should already be present as dummy mappings", "removing a mapping is '
        'changed into a dummy mapping")',
        'readings fixed where the statement is short: (1) "changes nothing" = no action or an edit whose two sides are equal (Action::is_diff; '
        'MappingsDiff::diff emits old == new edits for every entry both sides have); (2) the rules apply in the order of the statement, so the removal '
        'of a name that already is the placeholder becomes placeholder -> placeholder and is dropped under R3 when nothing else keeps the node '
        '(forced by idempotence: a second application would drop it); (3) a comment is not a child: an added method / class with a comment action but '
        'without remaining parameters / members is discarded, and the removal of a comment stays a removal (R1 lists names only); (4) "contract inner '
        'names" is only what R1 says for a removed class; names inside additions and edits, with or without $, are returned as they are; (5) the '
        'statement names no refused input: a refusal is reported as a failure',
        'outside the universe: class keys with an empty side of $ (A$, $B, p/$B: the split is the subject of group `inner`), comments that need '
        'escaping or are empty, top-level actions on the namespaces / the comment of the whole set, more than one class together with more than two '
        'members each; the relative order of the kept entries is not compared (the statement says nothing about order)',
    ],
    tests=[
        dict(name='parameters_and_methods', props=['C10'], tier='quick', timeout=600,
             text='insert_dummy_and_contract_inner_names on every method/parameter diff of the bound: ' + _ORACLE,
             bound='3 x 60 x 71 x 6 = 76 680 diffs: class A without action, one method (I)V with source name m_1 / <init> / run carrying each of 12 name '
                   'actions (none; add real / placeholder; remove real / placeholder / xm_1; edit real->real, placeholder->placeholder, real->other, '
                   'placeholder->real, real->placeholder, xm_1->real) x 5 comment actions (none, add, remove, c->c, c->d); first parameter (index 0 / 10 / 1) '
                   'absent or each of 14 name actions (the same menu over p_<index>, arg, arg2, p_<index+1>, xp_<index>) x 5 comment actions; second '
                   'parameter (index 3) absent or one of 5 representatives; each diff built through the public fields and through .tinydiff text'),
        dict(name='fields_classes_and_inner_names', props=['C10'], tier='quick', timeout=600,
             text='insert_dummy_and_contract_inner_names on every field/class diff of the bound, with inner class names in keys and names: ' + _ORACLE,
             bound='2 x 60 x 10 = 1 200 diffs (class A$B without action, field I f_1 / fld with each of 12 x 5 actions next to a field J g absent or one '
                   'of 9 representatives) + 105 x 5 x 10 x 16 = 84 000 diffs: one class under each of the keys A, A$B, p/A$B$C, p$q/D, '
                   'net/minecraft/unmapped/C_1, net/minecraft/unmapped/C_1$C_2 with each of 16 (plain keys) or 19 (inner keys) name actions (none; add / remove / edit over the simple '
                   'inner name of the key, Real, p/Other, the full key, O$I, O$J) x 5 comment actions x field I f_1 (absent or 9 representatives: unchanged, '
                   'c->c, added, added with comment, placeholder removed, placeholder and comment removed, real name removed, comment removed, edited) x '
                   'method (I)V m_1 (absent or 15 representatives: unchanged / added / removed / commented, without parameter and with a parameter that '
                   'stays or goes); both construction routes'),
        dict(name='several_members_and_classes', props=['C10'], tier='quick', timeout=600,
             text='insert_dummy_and_contract_inner_names on diffs with several fields, methods and classes (no entry influences a sibling): ' + _ORACLE,
             bound='10 x 10 x 16 x 6 = 9 600 diffs (class p/A with fields I f_1 and J g, methods (I)V m_1 and ()V <init>, each absent or a representative) '
                   '+ 49 x 49 = 2 401 diffs with the classes A and A$B (each absent or 6 name actions x 2 comment actions x 4 member shapes); both '
                   'construction routes'),
        dict(name='canary_must_fail', props=[], canary=True, text='must fail', bound=''),
    ])
