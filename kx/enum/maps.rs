	// =====================================================================================================================
	// bounded exhaustive enumeration at the level of whole mapping sets (quill::tree::mappings::Mappings / MappingsDiff)
	// =====================================================================================================================
	use std::collections::{BTreeMap, BTreeSet};
	use indexmap::{IndexMap, IndexSet};
	use java_string::JavaString;
	use duke::tree::class::{ClassName, ObjClassName};
	use duke::tree::field::{FieldDescriptor, FieldName};
	use duke::tree::method::{MethodDescriptor, MethodName};
	use duke::tree::descriptor::ReturnDescriptor;
	use crate::tree::mappings::{JavadocMapping, Mappings};
	use crate::tree::mappings_diff::{Action, MappingsDiff};
	use crate::tree::names::Namespace;
	use crate::remapper::{ARemapper, BRemapper, SuperClassProvider};

	// ---------------------------------------------------------------------------------------------------------------------
	// the model of a mapping set (independent of quill's tree): everything is a String, every map is ordered by key
	// ---------------------------------------------------------------------------------------------------------------------
	type Nm = Option<String>;
	/// (descriptor, name in the first namespace)
	type MKey = (String, String);
	#[derive(Clone, Debug, PartialEq, Eq)]
	struct MParam { names: Vec<Nm>, comment: Nm }
	#[derive(Clone, Debug, PartialEq, Eq)]
	struct MField { names: Vec<Nm>, comment: Nm }
	#[derive(Clone, Debug, PartialEq, Eq)]
	struct MMethod { names: Vec<Nm>, comment: Nm, params: BTreeMap<usize, MParam> }
	#[derive(Clone, Debug, PartialEq, Eq)]
	struct MClass { names: Vec<Nm>, comment: Nm, fields: BTreeMap<MKey, MField>, methods: BTreeMap<MKey, MMethod> }
	#[derive(Clone, Debug, PartialEq, Eq)]
	struct MSet { ns: Vec<String>, classes: BTreeMap<String, MClass> }

	impl MSet {
		fn n(&self) -> usize { self.ns.len() }
		/// number of entries (classes + fields + methods + parameters)
		fn size(&self) -> usize {
			self.classes.values().map(|c| 1 + c.fields.len() + c.methods.values().map(|m| 1 + m.params.len()).sum::<usize>()).sum()
		}
		/// every entry has a name in column `col`
		fn all_named(&self, col: usize) -> bool {
			self.classes.values().all(|c| c.names[col].is_some()
				&& c.fields.values().all(|f| f.names[col].is_some())
				&& c.methods.values().all(|m| m.names[col].is_some() && m.params.values().all(|p| p.names[col].is_some())))
		}
	}

	// Tiny v2 comment escaping: `\\` -> `\\\\`, line break -> `\\n` (a backslash before any other character stands for itself)
	fn esc(s: &str) -> String { s.replace('\\', "\\\\").replace('\n', "\\n") }
	fn unesc(s: &str) -> String {
		let mut out = String::new();
		let mut it = s.chars();
		while let Some(c) = it.next() {
			if c != '\\' { out.push(c); continue; }
			match it.next() { Some('n') => out.push('\n'), Some('\\') => out.push('\\'), Some(o) => { out.push('\\'); out.push(o); }, None => out.push('\\') }
		}
		out
	}
	fn row(names: &[Nm]) -> String { names.iter().map(|n| format!("\t{}", n.as_deref().unwrap_or(""))).collect() }

	/// model -> Tiny v2 text.  `rev == false`: the canonical form (entries sorted by key, comment first, fields before methods);
	/// `rev == true`: the same content in a different order (everything reversed, comments last, methods before fields).
	fn render(m: &MSet, rev: bool) -> String {
		fn ord<'a, K, V>(map: &'a BTreeMap<K, V>, rev: bool) -> Vec<(&'a K, &'a V)> {
			let mut v: Vec<_> = map.iter().collect(); if rev { v.reverse(); } v
		}
		let mut o = String::from("tiny\t2\t0");
		for n in &m.ns { o.push('\t'); o.push_str(n); }
		o.push('\n');
		for (_, c) in ord(&m.classes, rev) {
			o += &format!("c{}\n", row(&c.names));
			let ccom = c.comment.as_ref().map(|x| format!("\tc\t{}\n", esc(x))).unwrap_or_default();
			let mut fields = String::new();
			for ((desc, _), f) in ord(&c.fields, rev) {
				fields += &format!("\tf\t{desc}{}\n", row(&f.names));
				if let Some(x) = &f.comment { fields += &format!("\t\tc\t{}\n", esc(x)); }
			}
			let mut methods = String::new();
			for ((desc, _), me) in ord(&c.methods, rev) {
				methods += &format!("\tm\t{desc}{}\n", row(&me.names));
				let mcom = me.comment.as_ref().map(|x| format!("\t\tc\t{}\n", esc(x))).unwrap_or_default();
				if !rev { methods += &mcom; }
				for (idx, p) in ord(&me.params, rev) {
					methods += &format!("\t\tp\t{idx}{}\n", row(&p.names));
					if let Some(x) = &p.comment { methods += &format!("\t\t\tc\t{}\n", esc(x)); }
				}
				if rev { methods += &mcom; }
			}
			if rev { o += &methods; o += &fields; o += &ccom; } else { o += &ccom; o += &fields; o += &methods; }
		}
		o
	}

	/// Tiny v2 text -> model; a strict line parser written for this harness (does not use quill's reader)
	fn parse_model(text: &str) -> Result<MSet, String> {
		let mut lines: Vec<&str> = text.split('\n').collect();
		if lines.pop() != Some("") { return Err("text does not end with a newline".into()); }
		if lines.is_empty() { return Err("no header".into()); }
		let h: Vec<&str> = lines[0].split('\t').collect();
		if h.len() < 5 || h[0] != "tiny" || h[1] != "2" || h[2] != "0" { return Err(format!("bad header {:?}", lines[0])); }
		let ns: Vec<String> = h[3..].iter().map(|x| x.to_string()).collect();
		let n = ns.len();
		let mut set = MSet { ns, classes: BTreeMap::new() };
		enum Cur { Nothing, Field(MKey), Method(MKey) }
		let (mut ck, mut cur, mut pk): (Option<String>, Cur, Option<usize>) = (None, Cur::Nothing, None);
		let names = |xs: &[&str]| -> Result<Vec<Nm>, String> {
			if xs.len() != n { return Err(format!("{} name columns instead of {n}", xs.len())); }
			Ok(xs.iter().map(|x| if x.is_empty() { None } else { Some(x.to_string()) }).collect())
		};
		fn put(slot: &mut Nm, f: &[&str]) -> Result<(), String> {
			if f.len() != 2 { return Err("comment line with more than one field".into()); }
			if slot.is_some() { return Err("second comment".into()); }
			*slot = Some(unesc(f[1])); Ok(())
		}
		for (i, l) in lines.iter().enumerate().skip(1) {
			let d = l.bytes().take_while(|b| *b == b'\t').count();
			let f: Vec<&str> = l[d..].split('\t').collect();
			let e = |s: &str| format!("line {}: {s}: {l:?}", i + 1);
			match (d, f[0]) {
				(0, "c") => {
					let nm = names(&f[1..]).map_err(|x| e(&x))?;
					let k = nm[0].clone().ok_or_else(|| e("class without first name"))?;
					if set.classes.insert(k.clone(), MClass { names: nm, comment: None, fields: BTreeMap::new(), methods: BTreeMap::new() }).is_some() { return Err(e("duplicate class")); }
					ck = Some(k); cur = Cur::Nothing; pk = None;
				},
				(1, kind) => {
					let c = set.classes.get_mut(ck.as_ref().ok_or_else(|| e("member line outside a class"))?).unwrap();
					pk = None;
					match kind {
						"c" => { put(&mut c.comment, &f).map_err(|x| e(&x))?; cur = Cur::Nothing; },
						"f" | "m" => {
							if f.len() < 2 { return Err(e("no descriptor")); }
							let nm = names(&f[2..]).map_err(|x| e(&x))?;
							let k = (f[1].to_string(), nm[0].clone().ok_or_else(|| e("member without first name"))?);
							if kind == "f" {
								if c.fields.insert(k.clone(), MField { names: nm, comment: None }).is_some() { return Err(e("duplicate field")); }
								cur = Cur::Field(k);
							} else {
								if c.methods.insert(k.clone(), MMethod { names: nm, comment: None, params: BTreeMap::new() }).is_some() { return Err(e("duplicate method")); }
								cur = Cur::Method(k);
							}
						},
						_ => return Err(e("unknown line kind at depth 1")),
					}
				},
				(2, kind) => {
					let c = set.classes.get_mut(ck.as_ref().ok_or_else(|| e("line outside a class"))?).unwrap();
					pk = None;
					match (&cur, kind) {
						(Cur::Field(k), "c") => put(&mut c.fields.get_mut(k).unwrap().comment, &f).map_err(|x| e(&x))?,
						(Cur::Method(k), "c") => put(&mut c.methods.get_mut(k).unwrap().comment, &f).map_err(|x| e(&x))?,
						(Cur::Method(k), "p") => {
							if f.len() < 2 { return Err(e("no index")); }
							let idx: usize = f[1].parse().map_err(|_| e("bad index"))?;
							let nm = names(&f[2..]).map_err(|x| e(&x))?;
							if c.methods.get_mut(k).unwrap().params.insert(idx, MParam { names: nm, comment: None }).is_some() { return Err(e("duplicate parameter")); }
							pk = Some(idx);
						},
						_ => return Err(e("unexpected line at depth 2")),
					}
				},
				(3, "c") => {
					let c = set.classes.get_mut(ck.as_ref().ok_or_else(|| e("line outside a class"))?).unwrap();
					match (&cur, pk) {
						(Cur::Method(k), Some(idx)) => put(&mut c.methods.get_mut(k).unwrap().params.get_mut(&idx).unwrap().comment, &f).map_err(|x| e(&x))?,
						_ => return Err(e("comment at depth 3 outside a parameter")),
					}
				},
				_ => return Err(e("unexpected line")),
			}
		}
		Ok(set)
	}

	// ---------------------------------------------------------------------------------------------------------------------
	// quill tree -> model (walks the pub fields; checks that every map key agrees with the entry stored under it)
	// ---------------------------------------------------------------------------------------------------------------------
	fn sv<T: std::fmt::Display>(xs: &[Option<T>]) -> Vec<Nm> { xs.iter().map(|x| x.as_ref().map(|x| x.to_string())).collect() }
	fn jd(j: &Option<JavadocMapping>) -> Nm { j.as_ref().map(|j| j.0.clone()) }

	fn extract<const N: usize, Ns>(m: &Mappings<N, Ns>) -> Result<MSet, String> {
		let mut out = MSet { ns: m.info.namespaces.names().to_vec(), classes: BTreeMap::new() };
		if m.javadoc.is_some() { return Err("a comment on the mapping set itself appeared".into()); }
		for (k, c) in &m.classes {
			let names = sv(c.info.names.names());
			let k = k.to_string();
			if names[0].as_deref() != Some(k.as_str()) { return Err(format!("class stored under key {k:?} has names {names:?}")); }
			let mut mc = MClass { names, comment: jd(&c.javadoc), fields: BTreeMap::new(), methods: BTreeMap::new() };
			for (fk, f) in &c.fields {
				let names = sv(f.info.names.names());
				let key = (fk.desc.as_inner().to_string(), fk.name.to_string());
				if f.info.desc.as_inner().to_string() != key.0 || names[0].as_deref() != Some(key.1.as_str()) {
					return Err(format!("field of {k:?} stored under key {key:?} has desc {:?} names {names:?}", f.info.desc.as_inner()));
				}
				if mc.fields.insert(key.clone(), MField { names, comment: jd(&f.javadoc) }).is_some() { return Err(format!("two fields with key {key:?}")); }
			}
			for (mk, me) in &c.methods {
				let names = sv(me.info.names.names());
				let key = (mk.desc.as_inner().to_string(), mk.name.to_string());
				if me.info.desc.as_inner().to_string() != key.0 || names[0].as_deref() != Some(key.1.as_str()) {
					return Err(format!("method of {k:?} stored under key {key:?} has desc {:?} names {names:?}", me.info.desc.as_inner()));
				}
				let mut mm = MMethod { names, comment: jd(&me.javadoc), params: BTreeMap::new() };
				for (pk, p) in &me.parameters {
					if pk.index != p.info.index { return Err(format!("parameter stored under index {} has index {}", pk.index, p.info.index)); }
					if mm.params.insert(pk.index, MParam { names: sv(p.info.names.names()), comment: jd(&p.javadoc) }).is_some() { return Err("two parameters with one index".into()); }
				}
				if mc.methods.insert(key.clone(), mm).is_some() { return Err(format!("two methods with key {key:?}")); }
			}
			if out.classes.insert(k.clone(), mc).is_some() { return Err(format!("two classes with key {k:?}")); }
		}
		Ok(out)
	}

	fn rd<const N: usize, Ns>(text: &str) -> Result<Mappings<N, Ns>, String> { crate::tiny_v2::read::<N, Ns>(text.as_bytes()).map_err(|e| format!("{e:#}")) }
	fn wr<const N: usize, Ns>(m: &Mappings<N, Ns>) -> Result<String, String> { crate::tiny_v2::write_string(m).map_err(|e| format!("{e:#}")) }
	/// model -> quill tree, through quill's reader (`tiny_roundtrip` checks the reader against the model)
	fn load<const N: usize, Ns>(m: &MSet) -> Mappings<N, Ns> {
		rd::<N, Ns>(&render(m, false)).unwrap_or_else(|e| panic!("the harness could not load a model through tiny_v2::read: {e}\n{}", render(m, false)))
	}
	fn txt(m: &MSet) -> String { format!("{:?}", render(m, false)) }

	// ---------------------------------------------------------------------------------------------------------------------
	// the universes: a class key is absent or has one of a list of shapes; a shape is a spec that is instantiated for a list
	// of "naming columns" (namespace `s` plus one namespace per naming column: 1 = `a`, 2 = `b`, 3 = `c`)
	// ---------------------------------------------------------------------------------------------------------------------
	/// how an entry is named in the namespaces after the first: bit j of `absent` = no name in the (j+1)-th namespace,
	/// `var` = 1 selects a second spelling, `lit` = a literal name (used in the namespaces selected by `lit_mask`)
	#[derive(Clone, Copy, Debug)]
	struct NS { absent: u8, var: u8, lit: Option<&'static str>, lit_mask: u8 }
	const fn nsp(absent: u8, var: u8) -> NS { NS { absent, var, lit: None, lit_mask: 0xff } }
	const fn lit(s: &'static str) -> NS { NS { absent: 0, var: 0, lit: Some(s), lit_mask: 0xff } }
	const fn lit_in(s: &'static str, mask: u8) -> NS { NS { absent: 0, var: 0, lit: Some(s), lit_mask: mask } }
	/// named everywhere
	const P: NS = nsp(0, 0);
	/// named everywhere, second spelling
	const P2: NS = nsp(0, 1);
	/// no name in the second namespace
	const U: NS = nsp(1, 0);
	type Co = Option<&'static str>;
	#[derive(Clone, Debug)] struct PS { idx: usize, src: Co, n: NS, c: Co }
	#[derive(Clone, Debug)] struct FS { desc: &'static str, src: &'static str, n: NS, c: Co }
	#[derive(Clone, Debug)] struct MS { desc: &'static str, src: &'static str, n: NS, c: Co, ps: Vec<PS> }
	#[derive(Clone, Debug)] struct CS { n: NS, c: Co, fs: Vec<FS>, ms: Vec<MS> }
	fn cs(n: NS) -> CS { CS { n, c: None, fs: vec![], ms: vec![] } }
	fn ps(idx: usize, src: Co, n: NS, c: Co) -> PS { PS { idx, src, n, c } }
	impl CS {
		fn c(mut self, c: &'static str) -> CS { self.c = Some(c); self }
		fn f(mut self, desc: &'static str, src: &'static str, n: NS, c: Co) -> CS { self.fs.push(FS { desc, src, n, c }); self }
		fn m(mut self, desc: &'static str, src: &'static str, n: NS, c: Co, ps: Vec<PS>) -> CS { self.ms.push(MS { desc, src, n, c, ps }); self }
	}
	const NSN: [&str; 4] = ["s", "a", "b", "c"];
	/// the name of class `key` in naming column `col`: the innermost simple name (for `Outer$Inner` keys) or the whole key,
	/// with the column number appended to every package/class segment: A -> A1, p/B -> p1/B1, A$I -> I1
	fn cmap(key: &str, col: usize, var: u8) -> String {
		let simple = key.rsplit('$').next().unwrap();
		let mut s = simple.split('/').map(|seg| format!("{seg}{col}")).collect::<Vec<_>>().join("/");
		if var > 0 { s.push('v'); }
		s
	}
	struct Cx { cols: Vec<usize> }
	impl Cx {
		fn new(cols: &[usize]) -> Cx { Cx { cols: cols.to_vec() } }
		fn ns(&self) -> Vec<String> { std::iter::once(0).chain(self.cols.iter().copied()).map(|c| NSN[c].to_string()).collect() }
		fn names(&self, first: Nm, n: NS, f: &dyn Fn(usize, u8) -> String) -> Vec<Nm> {
			let mut v = vec![first];
			for (j, &col) in self.cols.iter().enumerate() {
				v.push(if n.absent & (1 << j) != 0 { None }
					else if n.lit.is_some() && n.lit_mask & (1 << j) != 0 { n.lit.map(|x| x.to_string()) }
					else { Some(f(col, n.var)) });
			}
			v
		}
		fn member(&self, src: &str, n: NS) -> Vec<Nm> {
			self.names(Some(src.to_string()), n, &|col, var| format!("{src}{col}{}", if var > 0 { "v" } else { "" }))
		}
		fn class(&self, key: &str, s: &CS) -> MClass {
			let mut c = MClass { names: self.names(Some(key.to_string()), s.n, &|col, var| cmap(key, col, var)), comment: s.c.map(String::from), fields: BTreeMap::new(), methods: BTreeMap::new() };
			for f in &s.fs {
				let old = c.fields.insert((f.desc.to_string(), f.src.to_string()), MField { names: self.member(f.src, f.n), comment: f.c.map(String::from) });
				assert!(old.is_none(), "harness: duplicate field in a shape");
			}
			for m in &s.ms {
				let mut mm = MMethod { names: self.member(m.src, m.n), comment: m.c.map(String::from), params: BTreeMap::new() };
				for p in &m.ps {
					let idx = p.idx;
					let names = self.names(p.src.map(String::from), p.n, &|col, var| format!("q{idx}_{col}{}", if var > 0 { "v" } else { "" }));
					assert!(mm.params.insert(idx, MParam { names, comment: p.c.map(String::from) }).is_none(), "harness: duplicate parameter in a shape");
				}
				assert!(c.methods.insert((m.desc.to_string(), m.src.to_string()), mm).is_none(), "harness: duplicate method in a shape");
			}
			c
		}
		/// all sets in which every key is absent or has one of its shapes
		fn universe(&self, keys: &[(&str, Vec<CS>)]) -> Vec<MSet> {
			let mut out = vec![MSet { ns: self.ns(), classes: BTreeMap::new() }];
			for (key, shapes) in keys {
				let mut next = Vec::with_capacity(out.len() * (shapes.len() + 1));
				for m in &out {
					next.push(m.clone());
					for s in shapes { let mut m2 = m.clone(); m2.classes.insert(key.to_string(), self.class(key, s)); next.push(m2); }
				}
				out = next;
			}
			out
		}
	}
	/// run the real code; a panic and an inconsistent tree are failures of the case, not of the harness
	fn real<T>(t: &mut Tally, input: &dyn Fn() -> String, f: impl FnOnce() -> Result<T, String>) -> Option<T> {
		match guarded(f) {
			Ok(Some(Ok(x))) => Some(x),
			Ok(Some(Err(e))) => { t.fail(input(), &e); None },
			_ => { t.fail(input(), "panicked"); None },
		}
	}

	// ---------------------------------------------------------------------------------------------------------------------
	// C03  tiny_roundtrip
	// ---------------------------------------------------------------------------------------------------------------------
	fn roundtrip_case<const N: usize>(t: &mut Tally, m: &MSet) {
		let (t1, t2) = (render(m, false), render(m, true));
		t.at(t1.as_bytes());
		t.case(m.size() >= 2);
		real(t, &|| txt(m), || {
			let m1 = rd::<N, ()>(&t1).map_err(|e| format!("read refused the rendered text: {e}"))?;
			let m2 = rd::<N, ()>(&t2).map_err(|e| format!("read refused the same content in another line order: {e}"))?;
			let e1 = extract(&m1)?;
			if &e1 != m { return Err(format!("read lost, merged or re-parented an entry: got {}", txt(&e1))); }
			let e2 = extract(&m2)?;
			if &e2 != m { return Err(format!("read (other line order) lost, merged or re-parented an entry: got {}", txt(&e2))); }
			let (w1, w2) = (wr(&m1)?, wr(&m2)?);
			if w1 != w2 { return Err(format!("the written text depends on the insertion order: {w1:?} vs {w2:?}")); }
			if w1 != t1 { return Err(format!("the written text is not the sorted rendering of the content: {w1:?}")); }
			let p = parse_model(&w1).map_err(|e| format!("the written text is not Tiny v2: {e}"))?;
			if &p != m { return Err(format!("parse(write(read(render(m)))) != m: {}", txt(&p))); }
			let w3 = wr(&rd::<N, ()>(&w1).map_err(|e| format!("read refused what write wrote: {e}"))?)?;
			if w3 != w1 { return Err(format!("write(read(write(M))) != write(M): {w3:?}")); }
			Ok(())
		});
	}
	fn roundtrip_shapes_2() -> Vec<CS> {
		vec![
			cs(P),
			cs(U),
			cs(P).c("c"),
			cs(P).f("I", "f", P, None),
			cs(P).f("LA;", "f", U, Some("l1\nl2")),
			cs(P).m("()V", "m", P, None, vec![]),
			cs(P).m("(Lp/B;I)V", "m", P, None, vec![ps(0, Some("x"), P, None), ps(1, None, P, Some("pc"))]),
			cs(U).c("").f("I", "f", P, None).f("LA;", "f", P, None).m("()V", "m", U, Some("mc"), vec![ps(0, Some("x"), U, None)]),
			cs(lit("\u{dc}n\u{ef}/\u{c7}\u{e9}$\u{3a9}")).f("I", "\u{3b1}", lit("\u{3b2}"), Some("\u{3b3}\n\u{3b4}")),
			// several members whose written order is decided by descriptor first, then name
			cs(P).f("I", "b", P, None).f("I", "a", P, None).f("J", "a", U, None)
				.m("()V", "b", P, None, vec![ps(2, None, P, None), ps(10, None, P, None), ps(1, Some("x"), U, None)])
				.m("()V", "a", P, Some("c"), vec![]).m("(I)V", "a", U, None, vec![]),
		]
	}
	/// C03. Bound: (a) 2 namespaces: every set over the class keys {A, p/B, A$I} where each key is absent or has one of the
	/// 10 shapes of `roundtrip_shapes_2` (name present/absent, comment none/empty/one-line/multi-line, unicode names, 0..3
	/// fields, 0..3 methods, 0..3 parameters with and without source name) = 11^3 = 1331 sets; (b) 3 namespaces: keys
	/// {A, p/B}, 12 shapes (all 4 present/absent patterns of the two non-source names on the class, on a field and on a
	/// method with a parameter) = 13^2 = 169 sets; (c) 4 namespaces: key A, the 8 patterns of absent names x {bare, with a
	/// field and a method with parameter of the same pattern} = 17 sets.  Each set is rendered twice (sorted / reversed
	/// with comments after the members).  Checked: read accepts both; the tree read equals the model (no entry lost,
	/// merged, re-parented); both trees are written to the same bytes, which are the sorted rendering of the model;
	/// an independent parser reads the written text back to the model; write(read(write(M))) == write(M).
	#[test]
	fn tiny_roundtrip() {
		let mut t = Tally::new("tiny_roundtrip");
		let keys2: Vec<(&str, Vec<CS>)> = ["A", "p/B", "A$I"].iter().map(|k| (*k, roundtrip_shapes_2())).collect();
		for m in Cx::new(&[1]).universe(&keys2) { roundtrip_case::<2>(&mut t, &m); }
		let mut shapes3 = vec![];
		for a in 0..4u8 {
			shapes3.push(cs(nsp(a, 0)));
			shapes3.push(cs(P).f("LA;", "f", nsp(a, 0), if a == 1 { Some("c") } else { None }));
			shapes3.push(cs(nsp(3 - a, 0)).m("(Lp/B;)V", "m", nsp(a, 0), None, vec![ps(0, if a < 2 { Some("x") } else { None }, nsp(a, 0), None)]));
		}
		let keys3: Vec<(&str, Vec<CS>)> = ["A", "p/B"].iter().map(|k| (*k, shapes3.clone())).collect();
		for m in Cx::new(&[1, 2]).universe(&keys3) { roundtrip_case::<3>(&mut t, &m); }
		let mut shapes4 = vec![];
		for a in 0..8u8 {
			shapes4.push(cs(nsp(a, 0)));
			shapes4.push(cs(nsp(a, 0)).c("c").f("I", "f", nsp(a, 0), None).m("(I)V", "m", nsp(a, 0), None, vec![ps(0, None, nsp(a, 0), Some("d"))]));
		}
		for m in Cx::new(&[1, 2, 3]).universe(&[("A", shapes4)]) { roundtrip_case::<4>(&mut t, &m); }
		// names that are valid but unusual: every name of length 1..2 over {space, no-break space, ideographic space, em space, a, e-acute} in the second namespace of a
		// class, a field, a method and a parameter, and as the source name of the parameter ("unicode names": a name made of white space is a name, an empty cell is none)
		{
			let alphabet = [' ', '\u{a0}', '\u{3000}', '\u{2003}', 'a', '\u{e9}'];
			let mut names: Vec<String> = alphabet.iter().map(|c| c.to_string()).collect();
			for a in alphabet { for b in alphabet { names.push(format!("{a}{b}")); } }
			for n in &names {
				for with_src in [true, false] {
					let nm = |first: &str| vec![Some(first.to_string()), Some(n.clone())];
					let mut c = MClass { names: nm("A"), comment: None, fields: BTreeMap::new(), methods: BTreeMap::new() };
					c.fields.insert(("I".into(), "f".into()), MField { names: nm("f"), comment: None });
					let mut me = MMethod { names: nm("m"), comment: None, params: BTreeMap::new() };
					me.params.insert(0, MParam { names: vec![if with_src { Some(n.clone()) } else { None }, Some(n.clone())], comment: None });
					c.methods.insert(("(I)V".into(), "m".into()), me);
					let mut m = MSet { ns: vec![NSN[0].to_string(), NSN[1].to_string()], classes: BTreeMap::new() };
					m.classes.insert("A".into(), c);
					roundtrip_case::<2>(&mut t, &m);
				}
			}
		}
		// EXCLUSIONS (C03, reported): two kinds of sets that can only be built through the pub fields of the tree, never by
		// reading text, do not survive write + read.  They are outside the model (the model has no comment on the set itself
		// and its comments are what the text can spell); what the real code does is recorded, not asserted.
		{
			let base = Cx::new(&[1]).universe(&[("A", vec![cs(P)])]).pop().unwrap();
			let mut m = load::<2, ()>(&base);
			m.javadoc = Some(JavadocMapping("top".into()));
			let w = wr(&m).unwrap();
			if let Err(e) = rd::<2, ()>(&w) { println!("DEVIATION tiny_roundtrip a set with a comment on the set itself is written as {w:?}, which read refuses: {}", e.split_whitespace().collect::<Vec<_>>().join(" ").chars().take(160).collect::<String>()); }
			// every comment of length <= 4 over {a, backslash, n, line break} survives writing and reading (341 comments)
			for_all_strings(b"a\\n\n", 4, &mut |c| {
				let c = String::from_utf8(c.to_vec()).unwrap();
				t.at(c.as_bytes());
				t.case(c.contains('\\'));
				let mut m = load::<2, ()>(&base);
				m.classes.values_mut().next().unwrap().javadoc = Some(JavadocMapping(c.clone()));
				let w = wr(&m).unwrap();
				let back = rd::<2, ()>(&w).map(|x| jd(&x.classes.values().next().unwrap().javadoc));
				if back != Ok(Some(c.clone())) { t.fail(format!("comment {c:?}"), &format!("written as {w:?} and read back as {back:?}")); }
			});
		}
		t.finish();
	}

	// ---------------------------------------------------------------------------------------------------------------------
	// C09  merge_is_faithful_join
	// ---------------------------------------------------------------------------------------------------------------------
	fn join_comment(a: Option<&Nm>, b: Option<&Nm>, what: &str) -> Result<Nm, String> {
		match (a.cloned().flatten(), b.cloned().flatten()) {
			(Some(x), Some(y)) if x != y => Err(format!("two different comments on {what}")),
			(Some(x), _) => Ok(Some(x)),
			(None, y) => Ok(y),
		}
	}
	fn union<'a, K: Ord + Clone, V>(a: Option<&'a BTreeMap<K, V>>, b: Option<&'a BTreeMap<K, V>>) -> Vec<(K, Option<&'a V>, Option<&'a V>)> {
		let keys: BTreeSet<&K> = a.iter().flat_map(|m| m.keys()).chain(b.iter().flat_map(|m| m.keys())).collect();
		keys.into_iter().map(|k| (k.clone(), a.and_then(|m| m.get(k)), b.and_then(|m| m.get(k)))).collect()
	}
	/// [first name, A's name or absent, B's name or absent]; the first names of the two sides must agree
	fn join_names(a: Option<&Vec<Nm>>, b: Option<&Vec<Nm>>, what: &str) -> Result<Vec<Nm>, String> {
		let first = match (a, b) {
			(Some(a), Some(b)) => { if a[0] != b[0] { return Err(format!("the two sides disagree on the first name of {what}")); } a[0].clone() },
			(Some(x), None) | (None, Some(x)) => x[0].clone(),
			(None, None) => unreachable!(),
		};
		Ok(vec![first, a.and_then(|a| a[1].clone()), b.and_then(|b| b[1].clone())])
	}
	/// the join of A (s,a) and B (s,b) as the property states it; Err = the two sides conflict
	fn o_merge(a: &MSet, b: &MSet) -> Result<MSet, String> {
		if a.ns[0] != b.ns[0] { return Err("different first namespaces".into()); }
		let mut out = MSet { ns: vec![a.ns[0].clone(), a.ns[1].clone(), b.ns[1].clone()], classes: BTreeMap::new() };
		for (k, ca, cb) in union(Some(&a.classes), Some(&b.classes)) {
			let mut c = MClass {
				names: join_names(ca.map(|c| &c.names), cb.map(|c| &c.names), "a class")?,
				comment: join_comment(ca.map(|c| &c.comment), cb.map(|c| &c.comment), "a class")?,
				fields: BTreeMap::new(), methods: BTreeMap::new(),
			};
			for (fk, fa, fb) in union(ca.map(|c| &c.fields), cb.map(|c| &c.fields)) {
				c.fields.insert(fk, MField {
					names: join_names(fa.map(|f| &f.names), fb.map(|f| &f.names), "a field")?,
					comment: join_comment(fa.map(|f| &f.comment), fb.map(|f| &f.comment), "a field")?,
				});
			}
			for (mk, ma, mb) in union(ca.map(|c| &c.methods), cb.map(|c| &c.methods)) {
				let mut m = MMethod {
					names: join_names(ma.map(|m| &m.names), mb.map(|m| &m.names), "a method")?,
					comment: join_comment(ma.map(|m| &m.comment), mb.map(|m| &m.comment), "a method")?,
					params: BTreeMap::new(),
				};
				for (pk, pa, pb) in union(ma.map(|m| &m.params), mb.map(|m| &m.params)) {
					m.params.insert(pk, MParam {
						names: join_names(pa.map(|p| &p.names), pb.map(|p| &p.names), "a parameter")?,
						comment: join_comment(pa.map(|p| &p.comment), pb.map(|p| &p.comment), "a parameter")?,
					});
				}
				c.methods.insert(mk, m);
			}
			out.classes.insert(k, c);
		}
		Ok(out)
	}
	/// `side` (two namespaces) is contained in column `col` of the merged set `r`: every entry of `side` is there with the
	/// same names and the same comment (if it has one); entries of `r` that `side` lacks have no name in that column
	fn projection_gives_back(r: &MSet, col: usize, side: &MSet) -> Result<(), String> {
		fn chk(rn: &[Nm], rc: &Nm, col: usize, s: Option<(&Vec<Nm>, &Nm)>, what: &str) -> Result<(), String> {
			match s {
				None => if rn[col].is_some() { Err(format!("{what}: a name appeared in the column of a side that lacks the entry")) } else { Ok(()) },
				Some((sn, sc)) => {
					if rn[0] != sn[0] || rn[col] != sn[1] { return Err(format!("{what}: names {rn:?} do not project back onto {sn:?}")); }
					if sc.is_some() && rc != sc { return Err(format!("{what}: the comment of one side was lost")); }
					Ok(())
				},
			}
		}
		if r.ns[0] != side.ns[0] || r.ns[col] != side.ns[1] { return Err("namespaces do not project back".into()); }
		for k in side.classes.keys() { if !r.classes.contains_key(k) { return Err(format!("class {k} lost")); } }
		for (k, c) in &r.classes {
			let s = side.classes.get(k);
			chk(&c.names, &c.comment, col, s.map(|s| (&s.names, &s.comment)), "class")?;
			if let Some(s) = s {
				for fk in s.fields.keys() { if !c.fields.contains_key(fk) { return Err(format!("field {fk:?} lost")); } }
				for mk in s.methods.keys() { if !c.methods.contains_key(mk) { return Err(format!("method {mk:?} lost")); } }
			}
			for (fk, f) in &c.fields { chk(&f.names, &f.comment, col, s.and_then(|s| s.fields.get(fk)).map(|s| (&s.names, &s.comment)), "field")?; }
			for (mk, m) in &c.methods {
				let sm = s.and_then(|s| s.methods.get(mk));
				chk(&m.names, &m.comment, col, sm.map(|s| (&s.names, &s.comment)), "method")?;
				if let Some(sm) = sm { for pk in sm.params.keys() { if !m.params.contains_key(pk) { return Err(format!("parameter {pk} lost")); } } }
				for (pk, p) in &m.params { chk(&p.names, &p.comment, col, sm.and_then(|s| s.params.get(pk)).map(|s| (&s.names, &s.comment)), "parameter")?; }
			}
		}
		Ok(())
	}
	type M2 = Mappings<2, ((), ())>;
	fn merge_pairs(t: &mut Tally, ua: &[MSet], ub: &[MSet]) {
		let la: Vec<M2> = ua.iter().map(load::<2, ((), ())>).collect();
		let lb: Vec<M2> = ub.iter().map(load::<2, ((), ())>).collect();
		for (i, a) in ua.iter().enumerate() { for (j, b) in ub.iter().enumerate() {
			let input = || format!("A={} B={}", txt(a), txt(b));
			t.at(input().as_bytes());
			t.case(a.classes.keys().any(|k| b.classes.contains_key(k)));
			let want = o_merge(a, b);
			let got = real(t, &input, || Ok(match Mappings::<2, ((), (), ())>::merge(&la[i], &lb[j]) { Ok(m) => Ok(extract(&m)?), Err(e) => Err(format!("{e:#}")) }));
			match (want, got) {
				(_, None) => {},
				(Err(_), Some(Err(_))) => {},
				(Err(w), Some(Ok(g))) => t.fail(input(), &format!("the two sides conflict ({w}) but merge returned {}", txt(&g))),
				(Ok(_), Some(Err(e))) => t.fail(input(), &format!("no conflict, but merge refused: {e}")),
				(Ok(w), Some(Ok(g))) => {
					if w != g { t.fail(input(), &format!("merge is not the join: expected {} got {}", txt(&w), txt(&g))); }
					else if let Err(e) = projection_gives_back(&g, 1, a) { t.fail(input(), &format!("projection on (s,a): {e}")); }
					else if let Err(e) = projection_gives_back(&g, 2, b) { t.fail(input(), &format!("projection on (s,b): {e}")); }
				},
			}
		}}
	}
	/// C09. Bound: all pairs (A over (s,a), B over (s,b)) of (wide) the 4^3 = 64 sets over keys {A, p/B, A$I} with shapes
	/// {named, unnamed with comment c, named with a commented field} and (deep) the 1 + 2*3*4*10 = 241 sets with the single
	/// key A: class name present/absent x comment none/c/d x field (LA;,f) absent/named/unnamed with c/named with d x
	/// method ((Lp/B;)V,m) in 10 variants (absent, named, with comment, parameter 0 with source name x / other source name
	/// y / no source name / comment c / comment d, parameter 1, unnamed method) = 64^2 + 241^2 = 62177 pairs, plus the same
	/// deep sets of A against B read with a different first namespace name (241 pairs on the diagonal).
	/// Oracle: key union at every level; names [first, A's, B's]; comment of whichever side has one; Err iff two
	/// different comments, two different parameter source names or different first namespaces; both projections contain
	/// the inputs.
	#[test]
	fn merge_is_faithful_join() {
		let mut t = Tally::new("merge_is_faithful_join");
		let wide: Vec<(&str, Vec<CS>)> = ["A", "p/B", "A$I"].iter().map(|k| (*k, vec![cs(P), cs(U).c("c"), cs(P).f("I", "f", P, Some("d"))])).collect();
		merge_pairs(&mut t, &Cx::new(&[1]).universe(&wide), &Cx::new(&[2]).universe(&wide));
		let mut deep = vec![];
		let methods: Vec<Option<(NS, Co, Vec<PS>)>> = vec![
			None,
			Some((P, None, vec![])),
			Some((P, Some("c"), vec![])),
			Some((P, None, vec![ps(0, Some("x"), P, None)])),
			Some((P, None, vec![ps(0, Some("y"), P, None)])),
			Some((P, None, vec![ps(0, None, P, None)])),
			Some((P, None, vec![ps(0, Some("x"), U, Some("c"))])),
			Some((P, None, vec![ps(0, Some("x"), P, Some("d"))])),
			Some((P, None, vec![ps(1, Some("x"), P, None)])),
			Some((U, Some("d"), vec![])),
		];
		for n in [P, U] { for c in [None, Some("c"), Some("d")] {
			for f in [None, Some((P, None)), Some((U, Some("c"))), Some((P, Some("d")))] {
				for m in &methods {
					let mut s = cs(n); s.c = c;
					if let Some((fnm, fc)) = f { s = s.f("LA;", "f", fnm, fc); }
					if let Some((mn, mc, mps)) = m { s = s.m("(Lp/B;)V", "m", *mn, *mc, mps.clone()); }
					deep.push(s);
				}
			}
		}}
		let deep = [("A", deep)];
		let (ua, ub) = (Cx::new(&[1]).universe(&deep), Cx::new(&[2]).universe(&deep));
		merge_pairs(&mut t, &ua, &ub);
		// different first namespaces: always refused
		for (a, b) in ua.iter().zip(&ub) {
			let mut b2 = b.clone(); b2.ns[0] = "z".into();
			let input = || format!("A={} B={}", txt(a), txt(&b2));
			t.at(input().as_bytes()); t.case(true);
			let (la, lb) = (load::<2, ((), ())>(a), load::<2, ((), ())>(&b2));
			if let Some(true) = real(&mut t, &input, || Ok(Mappings::<2, ((), (), ())>::merge(&la, &lb).is_ok())) { t.fail(input(), "merged although the first namespaces differ"); }
			if o_merge(a, &b2).is_ok() { t.fail(input(), "harness: oracle accepts different first namespaces"); }
		}
		t.finish();
	}

	// ---------------------------------------------------------------------------------------------------------------------
	// C04  diff_then_apply, apply_is_exact_or_refused
	// ---------------------------------------------------------------------------------------------------------------------
	#[derive(Clone, Debug, PartialEq, Eq)]
	enum Act { Keep, Add(String), Remove(String), Edit(String, String) }
	impl Act {
		fn of(a: Nm, b: Nm) -> Act { match (a, b) { (None, None) => Act::Keep, (None, Some(b)) => Act::Add(b), (Some(a), None) => Act::Remove(a), (Some(a), Some(b)) => Act::Edit(a, b) } }
		fn cols(&self) -> String { match self { Act::Keep => "\t\t".into(), Act::Add(b) => format!("\t\t{b}"), Act::Remove(a) => format!("\t{a}\t"), Act::Edit(a, b) => format!("\t{a}\t{b}") } }
	}
	#[derive(Clone, Debug, PartialEq, Eq)] struct DLeaf { info: Act, doc: Act }
	#[derive(Clone, Debug, PartialEq, Eq)] struct DMethod { info: Act, doc: Act, params: BTreeMap<usize, DLeaf> }
	#[derive(Clone, Debug, PartialEq, Eq)] struct DClass { info: Act, doc: Act, fields: BTreeMap<MKey, DLeaf>, methods: BTreeMap<MKey, DMethod> }
	#[derive(Clone, Debug, PartialEq, Eq)] struct DSet { classes: BTreeMap<String, DClass> }

	/// the diff of two two-namespace sets at model level: for every entry of the key union the pair (name in A, name in B)
	/// of the second namespace and the pair (comment in A, comment in B); None when some existing entry has no second name
	fn o_diff(a: &MSet, b: &MSet) -> Option<DSet> {
		if !a.all_named(1) || !b.all_named(1) { return None; }
		fn nm(x: Option<&Vec<Nm>>) -> Nm { x.and_then(|x| x[1].clone()) }
		fn cm(x: Option<&Nm>) -> Nm { x.cloned().flatten() }
		let mut d = DSet { classes: BTreeMap::new() };
		for (k, ca, cb) in union(Some(&a.classes), Some(&b.classes)) {
			let mut c = DClass { info: Act::of(nm(ca.map(|c| &c.names)), nm(cb.map(|c| &c.names))), doc: Act::of(cm(ca.map(|c| &c.comment)), cm(cb.map(|c| &c.comment))), fields: BTreeMap::new(), methods: BTreeMap::new() };
			for (fk, fa, fb) in union(ca.map(|c| &c.fields), cb.map(|c| &c.fields)) {
				c.fields.insert(fk, DLeaf { info: Act::of(nm(fa.map(|f| &f.names)), nm(fb.map(|f| &f.names))), doc: Act::of(cm(fa.map(|f| &f.comment)), cm(fb.map(|f| &f.comment))) });
			}
			for (mk, ma, mb) in union(ca.map(|c| &c.methods), cb.map(|c| &c.methods)) {
				let mut m = DMethod { info: Act::of(nm(ma.map(|m| &m.names)), nm(mb.map(|m| &m.names))), doc: Act::of(cm(ma.map(|m| &m.comment)), cm(mb.map(|m| &m.comment))), params: BTreeMap::new() };
				for (pk, pa, pb) in union(ma.map(|m| &m.params), mb.map(|m| &m.params)) {
					m.params.insert(pk, DLeaf { info: Act::of(nm(pa.map(|p| &p.names)), nm(pb.map(|p| &p.names))), doc: Act::of(cm(pa.map(|p| &p.comment)), cm(pb.map(|p| &p.comment))) });
				}
				c.methods.insert(mk, m);
			}
			d.classes.insert(k, c);
		}
		Some(d)
	}
	/// the .tinydiff text of a model diff
	fn render_diff(d: &DSet) -> String {
		fn doc(o: &mut String, depth: usize, a: &Act) { if *a != Act::Keep { *o += &format!("{}c{}\n", "\t".repeat(depth), esc(&a.cols())); } }
		let mut o = String::from("tiny\t2\t0\n");
		for (k, c) in &d.classes {
			o += &format!("c\t{k}{}\n", c.info.cols()); doc(&mut o, 1, &c.doc);
			for ((desc, name), f) in &c.fields { o += &format!("\tf\t{desc}\t{name}{}\n", f.info.cols()); doc(&mut o, 2, &f.doc); }
			for ((desc, name), m) in &c.methods {
				o += &format!("\tm\t{desc}\t{name}{}\n", m.info.cols()); doc(&mut o, 2, &m.doc);
				for (idx, p) in &m.params { o += &format!("\t\tp\t{idx}\t{}\n", p.info.cols()); doc(&mut o, 3, &p.doc); }
			}
		}
		o
	}
	fn act<T>(a: &Action<T>, f: &dyn Fn(&T) -> String) -> Act {
		match a { Action::None => Act::Keep, Action::Add(b) => Act::Add(f(b)), Action::Remove(a) => Act::Remove(f(a)), Action::Edit(a, b) => Act::Edit(f(a), f(b)) }
	}
	/// quill's diff tree -> model diff
	fn extract_diff(d: &MappingsDiff) -> Result<DSet, String> {
		let j = |x: &JavadocMapping| x.0.clone();
		if d.info != Action::None || d.javadoc != Action::None { return Err("the diff touches the namespaces or a comment of the whole set".into()); }
		let mut out = DSet { classes: BTreeMap::new() };
		for (k, c) in &d.classes {
			let mut dc = DClass { info: act(&c.info, &|x| x.to_string()), doc: act(&c.javadoc, &j), fields: BTreeMap::new(), methods: BTreeMap::new() };
			for (fk, f) in &c.fields { dc.fields.insert((fk.desc.as_inner().to_string(), fk.name.to_string()), DLeaf { info: act(&f.info, &|x| x.to_string()), doc: act(&f.javadoc, &j) }); }
			for (mk, m) in &c.methods {
				let mut dm = DMethod { info: act(&m.info, &|x| x.to_string()), doc: act(&m.javadoc, &j), params: BTreeMap::new() };
				for (pk, p) in &m.parameters { dm.params.insert(pk.index, DLeaf { info: act(&p.info, &|x| x.to_string()), doc: act(&p.javadoc, &j) }); }
				dc.methods.insert((mk.desc.as_inner().to_string(), mk.name.to_string()), dm);
			}
			out.classes.insert(k.to_string(), dc);
		}
		Ok(out)
	}
	/// Applying a diff, as the property states it.  On the name of an entry in namespace `col`:
	///   Keep: nothing; Add(b): the entry is created if it does not exist, b is put in; refused if the entry already has a
	///   name there (collision); Remove(a): refused unless the name is a; the entry disappears with its subtree;
	///   Edit(a,b): refused unless the name is a; it becomes b.  Keep/Remove/Edit of an entry that does not exist: refused.
	/// On a comment: Add refused if there is one, Remove/Edit refused unless the comment is the stated old one.
	fn o_apply(d: &DSet, target: &MSet, col: usize) -> Result<MSet, String> {
		let n = target.n();
		fn doc(slot: &mut Nm, a: &Act) -> Result<(), String> {
			match a {
				Act::Keep => Ok(()),
				Act::Add(b) => if slot.is_some() { Err("comment addition collides".into()) } else { *slot = Some(b.clone()); Ok(()) },
				Act::Remove(a) => if slot.as_ref() == Some(a) { *slot = None; Ok(()) } else { Err("old comment does not match".into()) },
				Act::Edit(a, b) => if slot.as_ref() == Some(a) { *slot = Some(b.clone()); Ok(()) } else { Err("old comment does not match".into()) },
			}
		}
		/// Ok(true) = entry stays, Ok(false) = entry is removed
		fn name(names: &mut [Nm], col: usize, a: &Act) -> Result<bool, String> {
			match a {
				Act::Keep => Ok(true),
				Act::Add(b) => if names[col].is_some() { Err("name addition collides".into()) } else { names[col] = Some(b.clone()); Ok(true) },
				Act::Remove(a) => if names[col].as_ref() == Some(a) { Ok(false) } else { Err("old name does not match".into()) },
				Act::Edit(a, b) => if names[col].as_ref() == Some(a) { names[col] = Some(b.clone()); Ok(true) } else { Err("old name does not match".into()) },
			}
		}
		fn fresh(n: usize, first: Nm, col: usize, a: &Act) -> Result<Vec<Nm>, String> {
			let Act::Add(b) = a else { return Err("action on an entry that does not exist".into()) };
			let mut v = vec![None; n]; v[0] = first; v[col] = Some(b.clone()); Ok(v)
		}
		let mut out = target.clone();
		for (k, dc) in &d.classes {
			let mut c = match out.classes.remove(k) {
				Some(mut c) => { if !name(&mut c.names, col, &dc.info)? { continue; } c },
				None => MClass { names: fresh(n, Some(k.clone()), col, &dc.info)?, comment: None, fields: BTreeMap::new(), methods: BTreeMap::new() },
			};
			doc(&mut c.comment, &dc.doc)?;
			for (fk, df) in &dc.fields {
				let mut f = match c.fields.remove(fk) {
					Some(mut f) => { if !name(&mut f.names, col, &df.info)? { continue; } f },
					None => MField { names: fresh(n, Some(fk.1.clone()), col, &df.info)?, comment: None },
				};
				doc(&mut f.comment, &df.doc)?;
				c.fields.insert(fk.clone(), f);
			}
			for (mk, dm) in &dc.methods {
				let mut m = match c.methods.remove(mk) {
					Some(mut m) => { if !name(&mut m.names, col, &dm.info)? { continue; } m },
					None => MMethod { names: fresh(n, Some(mk.1.clone()), col, &dm.info)?, comment: None, params: BTreeMap::new() },
				};
				doc(&mut m.comment, &dm.doc)?;
				for (pk, dp) in &dm.params {
					let mut p = match m.params.remove(pk) {
						Some(mut p) => { if !name(&mut p.names, col, &dp.info)? { continue; } p },
						None => MParam { names: fresh(n, None, col, &dp.info)?, comment: None },
					};
					doc(&mut p.comment, &dp.doc)?;
					m.params.insert(*pk, p);
				}
				c.methods.insert(mk.clone(), m);
			}
			out.classes.insert(k.clone(), c);
		}
		Ok(out)
	}
	/// EXCLUSION (C04, reported): the diff format has no column for the source name of a parameter.  A parameter that B has
	/// with a source name and A does not have (it would be created without it), or that A and B have with different source
	/// names, cannot be reproduced by diff + apply: the real code silently yields B with A's / no source name.
	fn param_source_names_expressible(a: &MSet, b: &MSet) -> bool {
		b.classes.iter().all(|(k, cb)| cb.methods.iter().all(|(mk, mb)| mb.params.iter().all(|(pk, pb)| {
			match a.classes.get(k).and_then(|c| c.methods.get(mk)).and_then(|m| m.params.get(pk)) {
				Some(pa) => pa.names[0] == pb.names[0],
				None => pb.names[0].is_none(),
			}
		})))
	}
	fn diff_pairs(t: &mut Tally, u: &[MSet], excluded: &mut (u64, u64)) {
		let l: Vec<Mappings<2, ()>> = u.iter().map(load::<2, ()>).collect();
		for (i, a) in u.iter().enumerate() { for (j, b) in u.iter().enumerate() {
			let input = || format!("A={} B={}", txt(a), txt(b));
			t.at(input().as_bytes());
			let want = o_diff(a, b);
			t.case(want.is_some() && a != b);
			let Some(got) = real(t, &input, || Ok(match MappingsDiff::diff(&l[i], &l[j]) { Ok(d) => Ok(d), Err(e) => Err(format!("{e:#}")) })) else { continue };
			match (want, got) {
				(None, Err(_)) => { excluded.0 += 1; },
				(None, Ok(d)) => t.fail(input(), &format!("an entry has no name in the second namespace, but diff produced {d:?}")),
				(Some(_), Err(e)) => t.fail(input(), &format!("every entry is named, but diff refused: {e}")),
				(Some(w), Ok(d)) => {
					if !param_source_names_expressible(a, b) {
						// see the EXCLUSION above; what the real code does here is recorded as a DEVIATION line by the test
						excluded.1 += 1;
						continue;
					}
					// the diff tree itself, then through the textual form of the model diff
					let text = render_diff(&w);
					for (how, d) in [("diff", Ok(d)), ("tinydiff text", crate::tiny_v2_diff::read(text.as_bytes()).map_err(|e| format!("{e:#}")))] {
						let d = match d { Ok(d) => d, Err(e) => { t.fail(input(), &format!("the .tinydiff text {text:?} of the pair was refused: {e}")); continue } };
						let r = real(t, &input, || Ok(match d.apply_to::<2, (), ()>(l[i].clone(), "a") { Ok(m) => Ok(extract(&m)?), Err(e) => Err(format!("{e:#}")) }));
						match r {
							None => {},
							Some(Err(e)) => t.fail(input(), &format!("apply_to(A) of the {how} of (A,B) was refused: {e}")),
							Some(Ok(g)) => if &g != b { t.fail(input(), &format!("apply_to(A) of the {how} of (A,B) is not B but {}", txt(&g))); },
						}
					}
				},
			}
		}}
	}
	fn diff_deep_shapes() -> Vec<CS> {
		let mut deep = vec![];
		let methods: Vec<Option<(NS, Co, Vec<PS>)>> = vec![
			None,
			Some((P, None, vec![])),
			Some((P2, Some("c"), vec![])),
			Some((P, None, vec![ps(0, None, P, None)])),
			Some((P, None, vec![ps(0, None, P2, Some("c"))])),
			Some((P, None, vec![ps(0, Some("x"), P, None)])),
		];
		for n in [P, P2] { for c in [None, Some("c"), Some("d")] {
			for f in [None, Some((P, None)), Some((P2, Some("c")))] {
				for m in &methods {
					let mut s = cs(n); s.c = c;
					if let Some((fnm, fc)) = f { s = s.f("LA;", "f", fnm, fc); }
					if let Some((mn, mc, mps)) = m { s = s.m("(Lp/B;)V", "m", *mn, *mc, mps.clone()); }
					deep.push(s);
				}
			}
		}}
		// sets with an entry that has no name in the second namespace, at each level
		deep.push(cs(U));
		deep.push(cs(U).c("c").f("LA;", "f", P, None));
		deep.push(cs(P).f("LA;", "f", U, None));
		deep.push(cs(P).f("LA;", "f", U, Some("c")).m("(Lp/B;)V", "m", P, None, vec![]));
		deep.push(cs(P).m("(Lp/B;)V", "m", U, None, vec![]));
		deep.push(cs(P).m("(Lp/B;)V", "m", U, None, vec![ps(0, None, P, None)]));
		deep.push(cs(P).m("(Lp/B;)V", "m", P, None, vec![ps(0, None, U, None)]));
		deep.push(cs(P2).m("(Lp/B;)V", "m", P, None, vec![ps(0, Some("x"), U, Some("c"))]));
		deep
	}
	/// C04. Bound: all ordered pairs (A,B) over the namespaces (s,a) of (wide) the 5^3 = 125 sets over keys {A, p/B, A$I}
	/// with shapes {named, named differently, unnamed, named with comment c} and (deep) the 1 + 2*3*3*6 + 8 = 117 sets with
	/// the single key A: class name X/X' x comment none/c/d x field (LA;,f) absent/named/renamed with c x method
	/// ((Lp/B;)V,m) absent/named/renamed with c/with parameter 0 named/renamed with comment/with source name x, plus 8 sets
	/// with an unnamed class, field, method or parameter = 125^2 + 117^2 = 29314 pairs.  Oracle: diff(A,B) is Ok iff every
	/// entry of A and of B has a name in the second namespace (EXCLUSION stated by the property: the format cannot express
	/// an entry without one; the excluded pairs are counted and must be refused); if Ok, apply_to(A) == B, also when the
	/// diff is written as .tinydiff text by the harness and read back by quill.  Second EXCLUSION (a deviation of the real
	/// code, see `param_source_names_expressible`).
	#[test]
	fn diff_then_apply() {
		let mut t = Tally::new("diff_then_apply");
		let mut excluded = (0, 0);
		let wide: Vec<(&str, Vec<CS>)> = ["A", "p/B", "A$I"].iter().map(|k| (*k, vec![cs(P), cs(P2), cs(U), cs(P).c("c")])).collect();
		diff_pairs(&mut t, &Cx::new(&[1]).universe(&wide), &mut excluded);
		diff_pairs(&mut t, &Cx::new(&[1]).universe(&[("A", diff_deep_shapes())]), &mut excluded);
		println!("NOTE diff_then_apply excluded_unnamed_entry={} excluded_parameter_source_name={}", excluded.0, excluded.1);
		// record what the real code does on the smallest excluded parameter case
		let cx = Cx::new(&[1]);
		let a = cx.universe(&[("A", vec![cs(P).m("()V", "m", P, None, vec![])])]).pop().unwrap();
		let b = cx.universe(&[("A", vec![cs(P).m("()V", "m", P, None, vec![ps(0, Some("x"), P, None)])])]).pop().unwrap();
		let (la, lb) = (load::<2, ()>(&a), load::<2, ()>(&b));
		let r = MappingsDiff::diff(&la, &lb).and_then(|d| d.apply_to::<2, (), ()>(la.clone(), "a")).map_err(|e| format!("{e:#}")).and_then(|m| extract(&m));
		if r.as_ref() != Ok(&b) { println!("DEVIATION diff_then_apply A={} B={} apply_to(A, diff(A,B)) = {:?} (the source name x of the new parameter is lost, no error)", txt(&a), txt(&b), r.as_ref().map(|m| render(m, false))); }
		t.finish();
	}
	/// C04, the pairs excluded from `diff_then_apply` as a deviation: B has a parameter source name that A lacks or spells differently
	/// (the .tinydiff format has no column for it).  Bound: method ()V m of class A with parameter 0 absent / without source name /
	/// source name x / source name y on either side: 16 ordered pairs.  Expected by the property: apply_to(A, diff(A,B)) == B or a refusal.
	#[test]
	fn diff_apply_keeps_parameter_source_names() {
		let mut t = Tally::new("diff_apply_keeps_parameter_source_names");
		let cx = Cx::new(&[1]);
		let shapes: Vec<Vec<PS>> = vec![vec![], vec![ps(0, None, P, None)], vec![ps(0, Some("x"), P, None)], vec![ps(0, Some("y"), P, None)]];
		for pa in &shapes { for pb in &shapes {
			let a = cx.universe(&[("A", vec![cs(P).m("()V", "m", P, None, pa.clone())])]).pop().unwrap();
			let b = cx.universe(&[("A", vec![cs(P).m("()V", "m", P, None, pb.clone())])]).pop().unwrap();
			t.at(format!("A={} B={}", txt(&a), txt(&b)).as_bytes());
			t.case(format!("{pa:?}") != format!("{pb:?}"));
			let (la, lb) = (load::<2, ()>(&a), load::<2, ()>(&b));
			let Ok(d) = MappingsDiff::diff(&la, &lb) else { continue; };
			let r = d.apply_to::<2, (), ()>(la.clone(), "a").map_err(|e| format!("{e:#}")).and_then(|m| extract(&m));
			if let Ok(got) = &r { if got != &b { t.fail(format!("A={} B={}", txt(&a), txt(&b)), &format!("apply_to(A, diff(A,B)) = {:?}: neither B nor a refusal (parameter source name lost)", render(got, false))); } }
		}}
		t.finish();
	}
	/// the "chain" universe of `apply_is_exact_or_refused`: one level at a time (class A, its field, its method, the
	/// method's parameter) ranges over absent / {named X, named X', unnamed} x {no comment, c, d}; everything above is named
	fn chain_shapes() -> Vec<CS> {
		let mut v = vec![];
		let states: Vec<(NS, Co)> = [P, P2, U].iter().flat_map(|n| [None, Some("c"), Some("d")].iter().map(|c| (*n, *c)).collect::<Vec<_>>()).collect();
		for (n, c) in &states { let mut s = cs(*n); s.c = *c; v.push(s); }
		for (n, c) in &states { v.push(cs(P).f("LA;", "f", *n, *c)); }
		for (n, c) in &states { v.push(cs(P).m("(Lp/B;)V", "m", *n, *c, vec![])); }
		for (n, c) in &states { v.push(cs(P).m("(Lp/B;)V", "m", P, None, vec![ps(0, None, *n, *c)])); }
		v.push(cs(P).f("LA;", "f", P, None).m("(Lp/B;)V", "m", P, None, vec![ps(0, None, P, None)]));
		v.push(cs(P2).c("c").f("LA;", "f", P, Some("d")).m("(Lp/B;)V", "m", P2, None, vec![ps(0, None, P, Some("c")), ps(1, None, P, None)]));
		v
	}
	/// C04. Bound: triples (A,B,C): A,B range over the 27 sets of the chain universe (`chain_shapes`, key A, plus the empty
	/// set) in which every entry is named (729 diffs, produced by MappingsDiff::diff); C ranges over (i) all 39 sets of the
	/// chain universe, (ii) the same 39 with an unrelated class p/B (named, commented, with field and method with parameter)
	/// next to it, both over (s,a), and (iii) the 39 sets over three namespaces (s,c,a) with the diff applied in the third
	/// namespace = 729 * 117 = 85293 triples.  Oracle: `o_apply` on the model of the diff that quill produced: the result is
	/// exactly that set (additions appear, removals disappear with their subtree, edits replace, everything else -
	/// other classes, other namespaces, comments - identical) or the application is refused; refused iff a stated old
	/// name/comment does not match, an addition collides, or a removal/edit addresses an entry that does not exist.
	#[test]
	fn apply_is_exact_or_refused() {
		let mut t = Tally::new("apply_is_exact_or_refused");
		let cx = Cx::new(&[1]);
		let chain = [("A", chain_shapes())];
		let u = cx.universe(&chain);
		let named: Vec<&MSet> = u.iter().filter(|m| m.all_named(1)).collect();
		let mut diffs: Vec<(&MSet, &MSet, MappingsDiff, DSet)> = vec![];
		for a in &named { for b in &named {
			let input = || format!("A={} B={}", txt(a), txt(b));
			let (la, lb) = (load::<2, ()>(a), load::<2, ()>(b));
			if let Some(d) = real(&mut t, &input, || { let d = MappingsDiff::diff(&la, &lb).map_err(|e| format!("diff refused: {e:#}"))?; let m = extract_diff(&d)?; Ok((d, m)) }) { diffs.push((a, b, d.0, d.1)); }
		}}
		let other = cs(P).c("c").f("LA;", "f", P, Some("d")).m("(Lp/B;)V", "m", P, None, vec![ps(0, Some("x"), P, None)]);
		let mut with_other = u.clone();
		for m in &mut with_other { m.classes.insert("p/B".into(), cx.class("p/B", &other)); }
		let cx3 = Cx::new(&[3, 1]);
		let u3 = cx3.universe(&chain);
		let (l2, lo, l3): (Vec<Mappings<2, ()>>, Vec<Mappings<2, ()>>, Vec<Mappings<3, ()>>) = (u.iter().map(load).collect(), with_other.iter().map(load).collect(), u3.iter().map(load).collect());
		for (a, b, d, dm) in &diffs {
			let mut one = |c: &MSet, col: usize, run: &dyn Fn() -> Result<Result<MSet, String>, String>| {
				let input = || format!("A={} B={} C={}", txt(a), txt(b), txt(c));
				t.at(input().as_bytes());
				let want = o_apply(dm, c, col);
				t.case(want.as_ref().is_ok_and(|w| w != c));
				match (want, real(&mut t, &input, run)) {
					(_, None) => {},
					(Err(_), Some(Err(_))) => {},
					(Err(w), Some(Ok(g))) => t.fail(input(), &format!("must be refused ({w}) but produced {}", txt(&g))),
					(Ok(w), Some(Err(e))) => t.fail(input(), &format!("refused ({e}) although the diff fits; expected {}", txt(&w))),
					(Ok(w), Some(Ok(g))) => if w != g { t.fail(input(), &format!("expected {} got {}", txt(&w), txt(&g))); },
				}
			};
			for (c, lc) in u.iter().zip(&l2).chain(with_other.iter().zip(&lo)) {
				one(c, 1, &|| Ok(match d.apply_to::<2, (), ()>(lc.clone(), "a") { Ok(m) => Ok(extract(&m)?), Err(e) => Err(format!("{e:#}")) }));
			}
			for (c, lc) in u3.iter().zip(&l3) {
				one(c, 2, &|| Ok(match d.apply_to::<3, (), ()>(lc.clone(), "a") { Ok(m) => Ok(extract(&m)?), Err(e) => Err(format!("{e:#}")) }));
			}
		}
		t.finish();
	}

	// ---------------------------------------------------------------------------------------------------------------------
	// C08  reorder_is_a_permutation
	// ---------------------------------------------------------------------------------------------------------------------
	/// rewrite exactly the class names of a (valid) descriptor: walk the JVMS grammar, `L<name>;` is the only place
	fn o_map_desc(desc: &str, f: &dyn Fn(&str) -> String) -> String {
		let (mut out, mut rest) = (String::new(), desc);
		while let Some(c) = rest.chars().next() {
			if c == 'L' {
				let end = rest.find(';').expect("harness: descriptor with an unterminated class name");
				out.push('L'); out += &f(&rest[1..end]); out.push(';');
				rest = &rest[end + 1..];
			} else {
				assert!("BCDFIJSZV[()".contains(c), "harness: not a descriptor: {desc}");
				out.push(c); rest = &rest[c.len_utf8()..];
			}
		}
		out
	}
	/// the counterpart of class `name` (given in column `from`) in column `to`: the entry that has this name in `from` and
	/// a name in `to`; otherwise the name is unchanged
	fn o_map_class(m: &MSet, from: usize, to: usize, name: &str) -> String {
		for c in m.classes.values() { if c.names[from].as_deref() == Some(name) { if let Some(t) = &c.names[to] { return t.clone(); } } }
		name.to_string()
	}
	/// EXCLUSION (C08, reported): the property says that reordering fails when the new first namespace lacks a name for
	/// "some entry".  Parameters are keyed by their index and may lack a name in the first namespace (C03 quantifies over
	/// "parameters without source names"); the real code reorders them without complaint.  The oracle therefore requires
	/// a name in the new first namespace for classes, fields and methods only.
	fn o_reorder(m: &MSet, perm: &[usize]) -> Result<MSet, String> {
		let p = |names: &Vec<Nm>| -> Vec<Nm> { perm.iter().map(|&i| names[i].clone()).collect() };
		let first = |names: &Vec<Nm>, what: &str| names[0].clone().ok_or_else(|| format!("a {what} has no name in the new first namespace"));
		let mut out = MSet { ns: perm.iter().map(|&i| m.ns[i].clone()).collect(), classes: BTreeMap::new() };
		let desc = |d: &str| o_map_desc(d, &|c| o_map_class(m, 0, perm[0], c));
		for c in m.classes.values() {
			let names = p(&c.names);
			let mut nc = MClass { comment: c.comment.clone(), fields: BTreeMap::new(), methods: BTreeMap::new(), names };
			for ((d, _), f) in &c.fields {
				let names = p(&f.names);
				if nc.fields.insert((desc(d), first(&names, "field")?), MField { names, comment: f.comment.clone() }).is_some() { return Err("two fields collide".into()); }
			}
			for ((d, _), me) in &c.methods {
				let names = p(&me.names);
				let nm = MMethod { comment: me.comment.clone(), params: me.params.iter().map(|(i, pa)| (*i, MParam { names: p(&pa.names), comment: pa.comment.clone() })).collect(), names };
				if nc.methods.insert((desc(d), first(&nm.names, "method")?), nm).is_some() { return Err("two methods collide".into()); }
			}
			if out.classes.insert(first(&nc.names, "class")?, nc).is_some() { return Err("two classes collide".into()); }
		}
		Ok(out)
	}
	fn permutations(n: usize) -> Vec<Vec<usize>> {
		fn rec(cur: &mut Vec<usize>, n: usize, out: &mut Vec<Vec<usize>>) {
			if cur.len() == n { out.push(cur.clone()); return; }
			for i in 0..n { if !cur.contains(&i) { cur.push(i); rec(cur, n, out); cur.pop(); } }
		}
		let mut out = vec![]; rec(&mut vec![], n, &mut out); out
	}
	fn reorder_all<const N: usize>(t: &mut Tally, u: &[MSet]) {
		for m in u {
			let lm = load::<N, ()>(m);
			for perm in permutations(N) {
				let new_ns: Vec<String> = perm.iter().map(|&i| m.ns[i].clone()).collect();
				let input = || format!("{} -> {new_ns:?}", txt(m));
				t.at(input().as_bytes());
				let identity = perm.iter().enumerate().all(|(i, &p)| i == p);
				let want = o_reorder(m, &perm);
				t.case(!identity && !m.classes.is_empty() && want.is_ok());
				let got = real(t, &input, || {
					let arr: [&str; N] = std::array::from_fn(|i| new_ns[i].as_str());
					let r = match lm.reorder::<()>(arr) { Ok(r) => r, Err(e) => return Ok(Err(format!("{e:#}"))) };
					let model = extract(&r)?;
					// and back: the inverse permutation is "the original order of the namespaces"
					let orig: [&str; N] = std::array::from_fn(|i| m.ns[i].as_str());
					let back = r.reorder::<()>(orig).map_err(|e| format!("the inverse permutation was refused: {e:#}"))?;
					let back = extract(&back)?;
					if &back != m { return Err(format!("permutation followed by its inverse is not the identity: {}", txt(&back))); }
					Ok(Ok(model))
				});
				match (want, got) {
					(_, None) => {},
					(Err(_), Some(Err(_))) => {},
					(Err(w), Some(Ok(g))) => t.fail(input(), &format!("must fail ({w}) but produced {}", txt(&g))),
					(Ok(w), Some(Err(e))) => t.fail(input(), &format!("refused ({e}); expected {}", txt(&w))),
					(Ok(w), Some(Ok(g))) => {
						if w != g { t.fail(input(), &format!("expected {} got {}", txt(&w), txt(&g))); }
						else if identity && &g != m { t.fail(input(), "the identity permutation changed something"); }
					},
				}
			}
		}
	}
	/// C08. Bound: (a) 2 namespaces (s,a), both permutations, all 9^3 = 729 sets over keys {A, p/B, A$I} with the 8 shapes
	/// below (named / unnamed / commented class, fields `LA;` and `[Lp/B;` named or not, method `(LA;[[Lp/B;I)LA$I;` with
	/// parameters with/without source name, named or not, with comments); (b) 3 namespaces (s,a,b), all 6 permutations, all
	/// 12^2 * 5 = 720 sets over keys {A, p/B} (11 shapes: the 4 absent-name patterns on the class, 3 on a field `LA;`, 4 on a
	/// method `(Lp/B;)LA;` with parameter) and A$I (4 patterns).  Oracle: Err iff a class, field or method has no name in the
	/// new first namespace; otherwise namespaces and every name row permuted, keys = new first names, every class name in a
	/// descriptor replaced by the new first name of that class if it is in the set (unchanged if not), comments and indices
	/// untouched; then reordering the result back to the original namespace order gives the original; the identity
	/// permutation changes nothing.  (Parameters without a name in the new first namespace: see `o_reorder`.)
	/// (c) colliding names: 7^2 * 3 = 147 sets (2 namespaces) and 10^2 = 100 sets (3 namespaces, all 6 permutations) in which classes, fields of one descriptor, methods of one
	/// descriptor share a literal name in the second, the third or both later namespaces (and, as controls, fields / methods of different descriptors): Err iff two siblings get
	/// the same key in the new first namespace.
	#[test]
	fn reorder_is_a_permutation() {
		let mut t = Tally::new("reorder_is_a_permutation");
		let shapes2 = vec![
			cs(P),
			cs(U),
			cs(P).c("c"),
			cs(P).f("LA;", "f", P, Some("d")),
			cs(P).f("[Lp/B;", "f", U, None),
			cs(P).m("(LA;[[Lp/B;I)LA$I;", "m", P, Some("c"), vec![ps(0, Some("x"), P, None), ps(2, None, P, Some("d"))]),
			cs(P).m("(LA;[[Lp/B;I)LA$I;", "m", P, None, vec![ps(0, Some("x"), U, None)]),
			cs(P).f("LA;", "f", P, None).m("()V", "m", U, None, vec![]),
		];
		let keys2: Vec<(&str, Vec<CS>)> = ["A", "p/B", "A$I"].iter().map(|k| (*k, shapes2.clone())).collect();
		reorder_all::<2>(&mut t, &Cx::new(&[1]).universe(&keys2));
		let mut shapes3 = vec![];
		for a in 0..4u8 { shapes3.push(if a == 0 { cs(nsp(a, 0)).c("c") } else { cs(nsp(a, 0)) }); }
		for a in 0..3u8 { shapes3.push(cs(P).f("LA;", "f", nsp(a, 0), if a == 0 { Some("d") } else { None })); }
		for (a, src) in [(0u8, Some("x")), (1, None), (2, Some("x")), (3, None)] { shapes3.push(cs(P).m("(Lp/B;)LA;", "m", nsp(a & 1, 0), None, vec![ps(1, src, nsp(a, 0), None)])); }
		let inner: Vec<CS> = (0..4u8).map(|a| cs(nsp(a, 0))).collect();
		let keys3: Vec<(&str, Vec<CS>)> = vec![("A", shapes3.clone()), ("p/B", shapes3), ("A$I", inner)];
		reorder_all::<3>(&mut t, &Cx::new(&[1, 2]).universe(&keys3));
		// entries whose names collide in a namespace that is not the first: moving that namespace to the front must be refused (the re-keying "rejects missing/duplicate keys"),
		// every other permutation must keep all of them
		let clash2 = vec![
			cs(lit("X")), cs(P),
			cs(P).f("I", "f", lit("n"), None).f("I", "g", lit("n"), Some("d")),
			cs(P).f("I", "f", lit("n"), None).f("J", "g", lit("n"), None),
			cs(P).m("()V", "m", lit("n"), None, vec![]).m("()V", "k", lit("n"), Some("c"), vec![ps(0, Some("x"), P, None)]),
			cs(P).m("()V", "m", lit("n"), None, vec![]).m("(I)V", "k", lit("n"), None, vec![]),
		];
		let keysc2: Vec<(&str, Vec<CS>)> = vec![("A", clash2.clone()), ("p/B", clash2.clone()), ("A$I", vec![cs(lit("X")), cs(P)])];
		reorder_all::<2>(&mut t, &Cx::new(&[1]).universe(&keysc2));
		let mut clash3 = vec![cs(P)];
		for mask in [0b01u8, 0b10, 0b11] {
			clash3.push(cs(lit_in("X", mask)));
			clash3.push(cs(P).f("I", "f", lit_in("n", mask), None).f("I", "g", lit_in("n", mask), None));
			clash3.push(cs(P).m("()V", "m", lit_in("n", mask), None, vec![]).m("()V", "k", lit_in("n", mask), None, vec![]));
		}
		let keysc3: Vec<(&str, Vec<CS>)> = vec![("A", clash3.clone()), ("p/B", clash3)];
		reorder_all::<3>(&mut t, &Cx::new(&[1, 2]).universe(&keysc3));
		t.finish();
	}

	// ---------------------------------------------------------------------------------------------------------------------
	// C11  extend_contract_inner_names
	// ---------------------------------------------------------------------------------------------------------------------
	/// `Outer$Inner` -> (Outer, Inner): the last `$` of the last `/`-segment, with something on both sides of it
	fn o_split_inner(name: &str) -> Option<(&str, &str)> {
		let seg = name.rfind('/').map_or(0, |i| i + 1);
		let i = seg + name[seg..].rfind('$')?;
		if i == seg || i + 1 == name.len() { return None; }
		Some((&name[..i], &name[i + 1..]))
	}
	/// the extended name of class `key` in column `col` (None: the class has no name there; Err: an outer class is missing)
	fn o_extended(m: &MSet, col: usize, key: &str) -> Result<Nm, String> {
		let Some(own) = m.classes.get(key).and_then(|c| c.names[col].clone()) else { return Ok(None) };
		let Some((outer, _)) = o_split_inner(key) else { return Ok(Some(own)) };
		if !m.classes.contains_key(outer) { return Err(format!("outer class {outer} of {key} is not in the set")); }
		let Some(ext_outer) = o_extended(m, col, outer)? else { return Err(format!("outer class {outer} of {key} has no name in the namespace")) };
		Ok(Some(format!("{ext_outer}${own}")))
	}
	/// Reading of the statement used by the oracle: "the extended name of its outer class plus $ plus its own simple name",
	/// where the own name of the class itself is taken as it stands (EXCLUSION, reported: if the own name already contains
	/// a `$`, e.g. `Q$J`, the statement's "simple name" would be `J`; the real code appends the whole `Q$J`.  Only sets whose
	/// names in the chosen namespace are not themselves nested names are in the oracle's domain; the others are counted and only required not to panic.)
	fn o_extend(m: &MSet, col: usize) -> Result<MSet, String> {
		let mut out = m.clone();
		for (k, c) in &mut out.classes { c.names[col] = o_extended(m, col, k)?; }
		Ok(out)
	}
	fn o_contract(m: &MSet, col: usize) -> MSet {
		let mut out = m.clone();
		for c in out.classes.values_mut() { if let Some(n) = &c.names[col] { if let Some((_, s)) = o_split_inner(n) { c.names[col] = Some(s.to_string()); } } }
		out
	}
	fn inner_all<const N: usize>(t: &mut Tally, u: &[MSet], cols: &[usize], excluded: &mut u64) {
		for m in u { for &col in cols {
			let ns = m.ns[col].clone();
			let input = || format!("{} in {ns:?}", txt(m));
			t.at(input().as_bytes());
			let lm = load::<N, ()>(m);
			let simple = m.classes.values().all(|c| c.names[col].as_ref().map_or(true, |n| o_split_inner(n).is_none()));
			let nested = m.classes.keys().any(|k| o_split_inner(k).is_some());
			t.case(nested);
			// contraction: total, keeps the innermost simple name, touches nothing else
			if let Some(g) = real(t, &input, || extract(&lm.contract_inner_class_names(&ns).map_err(|e| format!("contraction failed: {e:#}"))?)) {
				let w = o_contract(m, col);
				if g != w { t.fail(input(), &format!("contract: expected {} got {}", txt(&w), txt(&g))); }
			}
			// extension
			let got = real(t, &input, || Ok(match lm.extend_inner_class_names(&ns) {
				Err(e) => Err(format!("{e:#}")),
				Ok(x) => {
					let model = extract(&x)?;
					let back = extract(&x.contract_inner_class_names(&ns).map_err(|e| format!("contraction failed: {e:#}"))?)?;
					Ok((model, back))
				},
			}));
			if !simple { *excluded += 1; continue; }
			match (o_extend(m, col), got) {
				(_, None) => {},
				(Err(_), Some(Err(_))) => {},
				(Err(w), Some(Ok((g, _)))) => t.fail(input(), &format!("extend must fail ({w}) but produced {}", txt(&g))),
				(Ok(w), Some(Err(e))) => t.fail(input(), &format!("extend refused ({e}); expected {}", txt(&w))),
				(Ok(w), Some(Ok((g, back)))) => {
					if w != g { t.fail(input(), &format!("extend: expected {} got {}", txt(&w), txt(&g))); }
					else if &back != m { t.fail(input(), &format!("contract(extend(M)) != M: {}", txt(&back))); }
				},
			}
		}}
	}
	/// C11. Bound: (a) 2 namespaces (s,a), namespace a: all 4^4 * 5 * 3 = 3840 sets over the keys A, A$I$K, p/B, p/B$M (absent
	/// / named / unnamed / named with comment, field `LA$I;` and method with parameter), A$I (those and additionally the
	/// non-simple name `Q$J`) and a$b/C (a `$` in the package, not a nested class: absent / named / named `x$y/Z`);
	/// (b) 3 namespaces (s,a,b), namespace a and namespace b: all 4^4 = 256 sets over A, A$I, A$I$K, p/B$M, each absent or
	/// with one of the patterns {both named, a absent, b absent}.
	/// Oracle: extension = in the chosen namespace only, name of a nested class := extended name of the outer class + `$` +
	/// own name, recursively; Err iff a class named in that namespace has an outer class (at any depth) that is missing
	/// from the set or unnamed there; classes without a name there stay unnamed; everything else (other namespaces, keys,
	/// top-level names, members, comments) identical.  Contraction = name := part after the last `$` of the last segment.
	/// contract(extend(M)) == M.  Domain of the extension oracle: no name in the chosen namespace is itself of the form Outer$Inner (see `o_extend`).
	#[test]
	fn extend_contract_inner_names() {
		let mut t = Tally::new("extend_contract_inner_names");
		let mut excluded = 0;
		let base = vec![cs(P), cs(U), cs(P).c("c").f("LA$I;", "f", P, Some("d")).m("(LA$I;)V", "m", P, None, vec![ps(0, Some("x"), P, None)])];
		let mut ai = base.clone(); ai.push(cs(lit("Q$J")));
		let keys2: Vec<(&str, Vec<CS>)> = vec![("A", base.clone()), ("A$I", ai), ("A$I$K", base.clone()), ("p/B", base.clone()), ("p/B$M", base.clone()), ("a$b/C", vec![cs(P), cs(lit("x$y/Z"))])];
		inner_all::<2>(&mut t, &Cx::new(&[1]).universe(&keys2), &[1], &mut excluded);
		let pats = vec![cs(nsp(0, 0)), cs(nsp(1, 0)), cs(nsp(2, 0))];
		let keys3: Vec<(&str, Vec<CS>)> = ["A", "A$I", "A$I$K", "p/B$M"].iter().map(|k| (*k, pats.clone())).collect();
		inner_all::<3>(&mut t, &Cx::new(&[1, 2]).universe(&keys3), &[1, 2], &mut excluded);
		println!("NOTE extend_contract_inner_names excluded_non_simple_names={excluded}");
		// record what the real code does with a non-simple own name
		let m = Cx::new(&[1]).universe(&[("A", vec![cs(P)]), ("A$I", vec![cs(lit("Q$J"))])]).pop().unwrap();
		let r = load::<2, ()>(&m).extend_inner_class_names("a").map_err(|e| format!("{e:#}")).and_then(|x| extract(&x));
		println!("DEVIATION extend_contract_inner_names {} extended in \"a\" = {:?} (statement: outer + $ + own *simple* name = A1$J)", txt(&m), r.map(|x| render(&x, false)));
		t.finish();
	}

	// ---------------------------------------------------------------------------------------------------------------------
	// C06  remapper_consistency
	// ---------------------------------------------------------------------------------------------------------------------
	fn oc(s: &str) -> ObjClassName { ObjClassName::try_from(JavaString::from(s)).expect("harness: class name") }
	/// the inheritance relation, handed to quill through the provider trait it expects
	struct Inh(IndexMap<ObjClassName, IndexSet<ObjClassName>>);
	impl SuperClassProvider for Inh {
		fn get_super_classes(&self, class: &duke::tree::class::ObjClassNameSlice) -> anyhow::Result<Option<&IndexSet<ObjClassName>>> { Ok(self.0.get(class)) }
	}
	/// (class -> its direct super types in declaration order), in the names of one namespace
	type Graph = Vec<(String, Vec<String>)>;
	fn supers<'a>(g: &'a Graph, c: &str) -> &'a [String] { g.iter().find(|(k, _)| k == c).map_or(&[], |(_, v)| v.as_slice()) }
	/// the name that class `key` (first namespace) has in column `col`; a class that is not in the set or has no name there keeps its name
	fn name_in(m: &MSet, col: usize, key: &str) -> String { o_map_class(m, 0, col, key) }
	#[derive(Clone, Copy)]
	struct Query<'a> { m: &'a MSet, from: usize, to: usize, g: &'a Graph, method: bool, name: &'a str, desc: &'a str }
	/// The statement: the member declared by the owner, else by the nearest declaring super type, searching the direct
	/// super types in declaration order, depth first.  `off_domain` is set when the search visits (before it finds its
	/// answer) a class that the mapping set does not name in both `from` and `to` - see the EXCLUSION at the test.
	fn o_member(q: &Query, owner: &str, off_domain: &mut bool) -> Option<(String, String)> {
		let entry = q.m.classes.values().find(|c| c.names[q.from].as_deref() == Some(owner));
		if !entry.is_some_and(|c| c.names[q.to].is_some()) { *off_domain = true; }
		if let Some(c) = entry {
			let members: Vec<(&MKey, &Vec<Nm>)> = if q.method { c.methods.iter().map(|(k, v)| (k, &v.names)).collect() } else { c.fields.iter().map(|(k, v)| (k, &v.names)).collect() };
			for ((desc0, _), names) in members {
				if names[q.from].as_deref() == Some(q.name) && o_map_desc(desc0, &|c| name_in(q.m, q.from, c)) == q.desc {
					if let Some(t) = &names[q.to] { return Some((t.clone(), o_map_desc(desc0, &|c| name_in(q.m, q.to, c)))); }
				}
			}
		}
		for s in supers(q.g, owner) { if let Some(r) = o_member(q, s, off_domain) { return Some(r); } }
		None
	}
	/// the answers of all declarations reachable from `owner` (used only for the excluded queries)
	fn o_member_any(q: &Query, owner: &str, out: &mut Vec<(String, String)>) {
		let mut off = false;
		let g0: Graph = vec![];
		if let Some(r) = o_member(&Query { g: &g0, ..*q }, owner, &mut off) { out.push(r); }
		for s in supers(q.g, owner) { o_member_any(q, s, out); }
	}
	const RKEYS: [&str; 4] = ["A", "B", "C", "D"];
	fn remapper_universe() -> Vec<MSet> {
		let (fd, md) = ("LA;", "(LA;)[LB;");
		let shapes = vec![
			cs(P),
			cs(P).f(fd, "f", P, None).m(md, "m", P, None, vec![]),
			cs(nsp(1, 0)).f(fd, "f", P, None).m(md, "m", P, None, vec![]),
			cs(P).f(fd, "f", nsp(1, 0), None).m(md, "m", nsp(1, 0), None, vec![]),
		];
		let keys: Vec<(&str, Vec<CS>)> = RKEYS.iter().map(|k| (*k, shapes.clone())).collect();
		let mut u = Cx::new(&[1, 2]).universe(&keys);
		// the names of the members say which class declares them: f1 -> f1A, so that the answer identifies the declaration
		for m in &mut u { for (k, c) in &mut m.classes {
			for f in c.fields.values_mut() { for n in f.names[1..].iter_mut().flatten() { n.push_str(k); } }
			for me in c.methods.values_mut() { for n in me.names[1..].iter_mut().flatten() { n.push_str(k); } }
		}}
		u
	}
	/// C06. Bound: all 5^4 = 625 sets over three namespaces (s,a,b) with keys A,B,C,D, each absent or {named, no members |
	/// named, field (LA;,f) and method ((LA;)[LB;,m) named | class without a name in a, members named | class named,
	/// members without a name in a}; member names carry the declaring class (f1A, f2B, ..) x all 6 ordered pairs (from,to) of
	/// distinct namespaces (so from != first in 4 of 6) x 4 inheritance relations given in the names of `from` (none; chain
	/// D<C<B<A; diamond D<[B,C], B<A, C<A; D<[C,B], C<A) = 15000 remappers.  Per remapper_a: every class name of any column
	/// plus the unmapped `Z` and `java/lang/Object` -> counterpart or unchanged; field, array, method and return
	/// descriptors and array class names built from these names are rewritten exactly at the class names; to(from(x)) == x
	/// for every class named in both namespaces and every descriptor over such classes.  Per remapper_b: owners A..D x
	/// (every spelling of f / m in `from`, and the undeclared `zz`) with the descriptor spelled in `from`: the answer is the
	/// declaration of the owner, else of the first declaring super type in depth-first declaration order, else the
	/// unchanged name with the descriptor remapped; members declared and named in both namespaces by a class named in
	/// both map back to themselves through the opposite remapper.
	/// EXCLUSION (a deviation of the real code, reported): when the search passes through a class that the set does not
	/// name in both `from` and `to` (owner or intermediate super type: "missing intermediate classes"), the real code
	/// stops there and falls back.  Those queries are counted; for them only "the answer of some declaration of
	/// the owner or of a super type, or the fallback - nothing else" is required.
	#[test]
	fn remapper_consistency() {
		let mut t = Tally::new("remapper_consistency");
		let (mut excluded, mut excluded_differs, mut queries) = (0u64, 0u64, 0u64);
		let mut first_dev: Vec<String> = vec![];
		let graphs: Vec<Vec<(&str, Vec<&str>)>> = vec![
			vec![],
			vec![("D", vec!["C"]), ("C", vec!["B"]), ("B", vec!["A"])],
			vec![("D", vec!["B", "C"]), ("B", vec!["A"]), ("C", vec!["A"])],
			vec![("D", vec!["C", "B"]), ("C", vec!["A"])],
		];
		for m in &remapper_universe() {
			let lm = load::<3, ()>(m);
			let mut class_names: BTreeSet<String> = ["Z", "java/lang/Object"].iter().map(|x| x.to_string()).collect();
			for k in RKEYS { for col in 0..3 { class_names.insert(cmap(k, col, 0)); } class_names.insert(k.to_string()); }
			for from in 0..3 { for to in 0..3 { if from == to { continue; }
				let head = || format!("{} from {:?} to {:?}", txt(m), m.ns[from], m.ns[to]);
				t.at(head().as_bytes());
				// ---- remapper_a
				real(&mut t, &head, || {
					let (nf, nt) = (Namespace::<3>::new(from).unwrap(), Namespace::<3>::new(to).unwrap());
					let (ra, rback) = (lm.remapper_a(nf, nt).map_err(|e| format!("{e:#}"))?, lm.remapper_a(nt, nf).map_err(|e| format!("{e:#}"))?);
					for c in &class_names {
						let want = o_map_class(m, from, to, c);
						let got = ra.map_class(oc(c).as_slice()).map_err(|e| format!("{e:#}"))?.to_string();
						if got != want { return Err(format!("map_class({c}) = {got}, expected {want}")); }
						let named_both = m.classes.values().any(|x| x.names[from].as_deref() == Some(c.as_str()) && x.names[to].is_some());
						if named_both && rback.map_class(oc(&got).as_slice()).map_err(|e| format!("{e:#}"))?.to_string() != *c { return Err(format!("class {c} -> {got} does not map back")); }
						for c2 in ["A", "Z"] {
							let f = |x: &str| o_map_class(m, from, to, x);
							let fd = format!("[[L{c};");
							let got = ra.map_field_desc(FieldDescriptor::try_from(JavaString::from(fd.as_str())).unwrap().as_slice()).map_err(|e| format!("{e:#}"))?.as_inner().to_string();
							if got != o_map_desc(&fd, &f) { return Err(format!("map_field_desc({fd}) = {got}")); }
							let md = format!("(L{c};I[L{c2};)L{c};");
							let got = ra.map_method_desc(MethodDescriptor::try_from(JavaString::from(md.as_str())).unwrap().as_slice()).map_err(|e| format!("{e:#}"))?.as_inner().to_string();
							if got != o_map_desc(&md, &f) { return Err(format!("map_method_desc({md}) = {got}")); }
							if named_both && c2 == "Z" {
								let back = rback.map_method_desc(MethodDescriptor::try_from(JavaString::from(got.as_str())).unwrap().as_slice()).map_err(|e| format!("{e:#}"))?.as_inner().to_string();
								if back != md { return Err(format!("descriptor {md} -> {got} -> {back} does not map back")); }
							}
							for rd in [format!("L{c};"), "V".to_string()] {
								let got = ra.map_return_desc(ReturnDescriptor::try_from(JavaString::from(rd.as_str())).unwrap().as_slice()).map_err(|e| format!("{e:#}"))?.as_inner().to_string();
								if got != o_map_desc(&rd, &f) { return Err(format!("map_return_desc({rd}) = {got}")); }
							}
							let arr = format!("[L{c};");
							let got = ra.map_class_any(ClassName::try_from(JavaString::from(arr.as_str())).unwrap().as_slice()).map_err(|e| format!("{e:#}"))?.as_inner().to_string();
							if got != o_map_desc(&arr, &f) { return Err(format!("map_class_any({arr}) = {got}")); }
						}
					}
					Ok(())
				});
				// ---- remapper_b
				for g in &graphs {
					let graph: Graph = g.iter().map(|(k, v)| (name_in(m, from, k), v.iter().map(|s| name_in(m, from, s)).collect())).collect();
					let input = || format!("{} inheritance {graph:?}", head());
					t.at(input().as_bytes());
					t.case(!m.classes.is_empty() && !g.is_empty());
					real(&mut t, &input, || {
						let (nf, nt) = (Namespace::<3>::new(from).unwrap(), Namespace::<3>::new(to).unwrap());
						let inh = Inh(graph.iter().map(|(k, v)| (oc(k), v.iter().map(|s| oc(s)).collect())).collect());
						let none = Inh(IndexMap::new());
						let rb = lm.remapper_b(nf, nt, &inh).map_err(|e| format!("{e:#}"))?;
						let rback = lm.remapper_b(nt, nf, &none).map_err(|e| format!("{e:#}"))?;
						for method in [false, true] {
							let (src, desc0) = if method { ("m", "(LA;)[LB;") } else { ("f", "LA;") };
							let desc = o_map_desc(desc0, &|c| name_in(m, from, c));
							let mut spellings: BTreeSet<String> = ["zz".to_string()].into();
							for k in RKEYS { spellings.insert(if from == 0 { src.to_string() } else { format!("{src}{from}{k}") }); }
							for owner_key in RKEYS { for name in &spellings {
								let owner = name_in(m, from, owner_key);
								queries += 1;
								let q = Query { m, from, to, g: &graph, method, name, desc: &desc };
								let mut off = false;
								let stated = o_member(&q, &owner, &mut off);
								let fallback = (name.clone(), o_map_desc(&desc, &|c| o_map_class(m, from, to, c)));
								let want = stated.clone().unwrap_or(fallback.clone());
								let got = if method {
									let r = rb.map_method(oc(&owner).as_slice(), MethodName::try_from(JavaString::from(name.as_str())).unwrap().as_slice(), MethodDescriptor::try_from(JavaString::from(desc.as_str())).unwrap().as_slice()).map_err(|e| format!("{e:#}"))?;
									(r.name.to_string(), r.desc.as_inner().to_string())
								} else {
									let r = rb.map_field(oc(&owner).as_slice(), FieldName::try_from(JavaString::from(name.as_str())).unwrap().as_slice(), FieldDescriptor::try_from(JavaString::from(desc.as_str())).unwrap().as_slice()).map_err(|e| format!("{e:#}"))?;
									(r.name.to_string(), r.desc.as_inner().to_string())
								};
								let what = format!("{} {owner}.{name} {desc}", if method { "method" } else { "field" });
								if off {
									// EXCLUDED from the exact oracle, see the doc comment
									excluded += 1;
									if got != want { excluded_differs += 1; if first_dev.is_empty() { first_dev.push(format!("{} inheritance {graph:?}: {what} -> {got:?}, the statement gives {want:?}", head())); } }
									let mut any = vec![fallback.clone()];
									o_member_any(&q, &owner, &mut any);
									if !any.contains(&got) { return Err(format!("{what} -> {got:?}: neither a declaration of the owner or of a super type ({any:?}) nor the fallback")); }
									continue;
								}
								if got != want { return Err(format!("{what} -> {got:?}, expected {want:?}")); }
								// X -> Y -> X for a member that the (fully named) owner itself declares
								let declares = stated.is_some() && supers(&graph, &owner).is_empty();
								if declares {
									let owner_to = o_map_class(m, from, to, &owner);
									let back = if method {
										let r = rback.map_method(oc(&owner_to).as_slice(), MethodName::try_from(JavaString::from(got.0.as_str())).unwrap().as_slice(), MethodDescriptor::try_from(JavaString::from(got.1.as_str())).unwrap().as_slice()).map_err(|e| format!("{e:#}"))?;
										(r.name.to_string(), r.desc.as_inner().to_string())
									} else {
										let r = rback.map_field(oc(&owner_to).as_slice(), FieldName::try_from(JavaString::from(got.0.as_str())).unwrap().as_slice(), FieldDescriptor::try_from(JavaString::from(got.1.as_str())).unwrap().as_slice()).map_err(|e| format!("{e:#}"))?;
										(r.name.to_string(), r.desc.as_inner().to_string())
									};
									if back != (name.clone(), desc.clone()) { return Err(format!("{what} -> {got:?} -> {back:?} does not map back")); }
								}
							}}
						}
						Ok(())
					});
				}
			}}
		}
		for d in &first_dev { println!("DEVIATION remapper_consistency {d}"); }
		// the smallest "missing intermediate class": C < B < A, B is not in the set, A declares f, the query is C.f
		{
			let m = Cx::new(&[1, 2]).universe(&[("A", vec![cs(P).f("LA;", "f", P, None)]), ("C", vec![cs(P)])]).pop().unwrap();
			let lm = load::<3, ()>(&m);
			let inh = Inh([(oc("C"), [oc("B")].into_iter().collect()), (oc("B"), [oc("A")].into_iter().collect())].into_iter().collect());
			let rb = lm.remapper_b(Namespace::<3>::new(0).unwrap(), Namespace::<3>::new(1).unwrap(), &inh).unwrap();
			let r = rb.map_field(oc("C").as_slice(), FieldName::try_from(JavaString::from("f")).unwrap().as_slice(), FieldDescriptor::try_from(JavaString::from("LA;")).unwrap().as_slice()).unwrap();
			if r.name.to_string() != "f1" { println!("DEVIATION remapper_consistency {} from \"s\" to \"a\" inheritance C<B<A (B not in the set): field C.f LA; -> ({}, {}), the statement gives (f1, LA1;)", txt(&m), r.name, r.desc.as_inner()); }
		}
		println!("NOTE remapper_consistency member_queries={queries} excluded_search_through_unnamed_class={excluded} of_which_real_code_differs_from_statement={excluded_differs}");
		t.finish();
	}

	/// C06: "maps a field or method through the nearest declaring super type": a declaration whose name is the SAME in both namespaces is
	/// still a declaration -- it answers the query (with its unchanged name) and hides a renamed declaration further up.
	/// Bound: classes A, B, C, D, all named in both namespaces; each declares field (I, f) / method (()V, m) in one of three ways: not at all,
	/// with an unchanged name (f -> f), renamed (f -> f<class>); 3^4 = 81 sets x 4 inheritance graphs x both directions x 4 owners x field/method.
	#[test]
	fn unchanged_names_are_declarations_too() {
		let mut t = Tally::new("unchanged_names_are_declarations_too");
		let graphs: Vec<Vec<(&str, Vec<&str>)>> = vec![
			vec![],
			vec![("D", vec!["C"]), ("C", vec!["B"]), ("B", vec!["A"])],
			vec![("D", vec!["B", "C"]), ("B", vec!["A"]), ("C", vec!["A"])],
			vec![("D", vec!["C", "B"]), ("C", vec!["A"])],
		];
		for code in 0..81usize {
			let mut m = MSet { ns: vec!["s".into(), "a".into()], classes: BTreeMap::new() };
			let mut c = code;
			for k in RKEYS {
				let how = c % 3; c /= 3;
				let mut cl = MClass { names: vec![Some(k.to_string()), Some(format!("{k}1"))], comment: None, fields: BTreeMap::new(), methods: BTreeMap::new() };
				if how > 0 {
					let (fnm, mnm) = if how == 1 { ("f".to_string(), "m".to_string()) } else { (format!("f{k}"), format!("m{k}")) };
					cl.fields.insert(("I".into(), "f".into()), MField { names: vec![Some("f".into()), Some(fnm)], comment: None });
					cl.methods.insert(("()V".into(), "m".into()), MMethod { names: vec![Some("m".into()), Some(mnm)], comment: None, params: BTreeMap::new() });
				}
				m.classes.insert(k.to_string(), cl);
			}
			let lm = load::<2, ()>(&m);
			for (from, to) in [(0usize, 1usize), (1, 0)] { for g in &graphs {
				let graph: Graph = g.iter().map(|(k, v)| (name_in(&m, from, k), v.iter().map(|s| name_in(&m, from, s)).collect())).collect();
				let input = || format!("{} from {:?} to {:?} inheritance {graph:?}", txt(&m), m.ns[from], m.ns[to]);
				t.at(input().as_bytes());
				t.case(code % 3 != 0 || !g.is_empty());
				real(&mut t, &input, || {
					let (nf, nt) = (Namespace::<2>::new(from).unwrap(), Namespace::<2>::new(to).unwrap());
					let inh = Inh(graph.iter().map(|(k, v)| (oc(k), v.iter().map(|s| oc(s)).collect())).collect());
					let rb = lm.remapper_b(nf, nt, &inh).map_err(|e| format!("{e:#}"))?;
					for method in [false, true] {
						let (src, desc) = if method { ("m", "()V") } else { ("f", "I") };
						let mut spellings: BTreeSet<String> = ["zz".to_string(), src.to_string()].into();
						for k in RKEYS { spellings.insert(format!("{src}{k}")); }
						for owner_key in RKEYS { for name in &spellings {
							let owner = name_in(&m, from, owner_key);
							let q = Query { m: &m, from, to, g: &graph, method, name, desc };
							let mut off = false;
							let want = o_member(&q, &owner, &mut off).unwrap_or((name.clone(), desc.to_string()));
							if off { return Err("harness: every class of this universe is named in both namespaces".into()); }
							let got = if method {
								let r = rb.map_method(oc(&owner).as_slice(), MethodName::try_from(JavaString::from(name.as_str())).unwrap().as_slice(), MethodDescriptor::try_from(JavaString::from(desc)).unwrap().as_slice()).map_err(|e| format!("{e:#}"))?;
								(r.name.to_string(), r.desc.as_inner().to_string())
							} else {
								let r = rb.map_field(oc(&owner).as_slice(), FieldName::try_from(JavaString::from(name.as_str())).unwrap().as_slice(), FieldDescriptor::try_from(JavaString::from(desc)).unwrap().as_slice()).map_err(|e| format!("{e:#}"))?;
								(r.name.to_string(), r.desc.as_inner().to_string())
							};
							if got != want { return Err(format!("{} {owner}.{name} {desc} -> {got:?}, expected {want:?}", if method { "method" } else { "field" })); }
						}}
					}
					Ok(())
				});
			}}
		}
		t.finish();
	}

	/// C06, the queries excluded from `remapper_consistency` as a deviation: the search for the nearest declaring super type has to pass
	/// through a class that the mapping set does not contain ("missing intermediate classes" in the property's quantifier).
	/// Bound: chains C < B < A and D < C < B < A where exactly the intermediate classes are missing from the set; field and method of A.
	#[test]
	fn super_class_search_passes_classes_outside_the_set() {
		let mut t = Tally::new("super_class_search_passes_classes_outside_the_set");
		for depth in [1usize, 2] {
			let low = if depth == 1 { "C" } else { "D" };
			let m = Cx::new(&[1, 2]).universe(&[("A", vec![cs(P).f("LA;", "f", P, None).m("(LA;)V", "m", P, None, vec![])]), (low, vec![cs(P)])]).pop().unwrap();
			let lm = load::<3, ()>(&m);
			let chain: Vec<(ObjClassName, IndexSet<ObjClassName>)> = if depth == 1 { vec![(oc("C"), [oc("B")].into_iter().collect()), (oc("B"), [oc("A")].into_iter().collect())] }
				else { vec![(oc("D"), [oc("C")].into_iter().collect()), (oc("C"), [oc("B")].into_iter().collect()), (oc("B"), [oc("A")].into_iter().collect())] };
			let inh = Inh(chain.into_iter().collect());
			let rb = lm.remapper_b(Namespace::<3>::new(0).unwrap(), Namespace::<3>::new(1).unwrap(), &inh).unwrap();
			let what = format!("{} from \"s\" to \"a\", inheritance {low} < .. < A with the intermediate classes not in the set", txt(&m));
			t.at(what.as_bytes());
			t.case(true);
			let r = rb.map_field(oc(low).as_slice(), FieldName::try_from(JavaString::from("f")).unwrap().as_slice(), FieldDescriptor::try_from(JavaString::from("LA;")).unwrap().as_slice()).unwrap();
			let a_named = o_map_class(&m, 0, 1, "A");
			if r.name.to_string() == "f" { t.fail(what.clone(), &format!("field {low}.f LA; -> ({}, {}): the declaration in the super type A (named in \"a\") is not found, the fallback is answered (owner A maps to {a_named})", r.name, r.desc.as_inner())); }
			t.case(true);
			let r = rb.map_method(oc(low).as_slice(), MethodName::try_from(JavaString::from("m")).unwrap().as_slice(), MethodDescriptor::try_from(JavaString::from("(LA;)V")).unwrap().as_slice()).unwrap();
			if r.name.to_string() == "m" { t.fail(what.clone(), &format!("method {low}.m (LA;)V -> ({}, {}): the declaration in the super type A is not found", r.name, r.desc.as_inner())); }
		}
		t.finish();
	}

	// ---------------------------------------------------------------------------------------------------------------------
	// C10  remove_dummy_rules
	// ---------------------------------------------------------------------------------------------------------------------
	/// the documented rules of `Mappings::remove_dummy` (doc comment in quill/src/action/remove_dummy.rs), bottom-up
	fn o_remove_dummy(m: &MSet, col: usize) -> MSet {
		let st = |n: &Vec<Nm>, p: &str| n[col].as_ref().is_some_and(|x| x.starts_with(p));
		let mut out = m.clone();
		out.classes.retain(|_, c| {
			c.fields.retain(|_, f| !(st(&f.names, "f_") && f.comment.is_none()));
			c.methods.retain(|_, me| {
				me.params.retain(|_, p| !(st(&p.names, "p_") && p.comment.is_none()));
				let dummy = st(&me.names, "m_") || me.names[col].as_deref() == Some("<init>") || me.names[col].as_deref() == Some("<clinit>");
				!(dummy && me.comment.is_none() && me.params.is_empty())
			});
			let dummy = st(&c.names, "C_") || st(&c.names, "net/minecraft/unmapped/C_");
			!(dummy && c.comment.is_none() && c.fields.is_empty() && c.methods.is_empty())
		});
		out
	}
	fn dummy_shapes(l: &dyn Fn(&'static str) -> NS) -> Vec<CS> {
		let mut v = vec![];
		let methods: Vec<Option<(&'static str, NS, Co, Vec<PS>)>> = vec![
			None,
			Some(("m", l("m_1"), None, vec![])),
			Some(("<init>", lit("<init>"), None, vec![])),
			Some(("<clinit>", lit("<clinit>"), None, vec![])),
			Some(("m", l("run"), None, vec![])),
			Some(("m", l("xm_1"), None, vec![])),
			Some(("m", l("m_1"), Some("c"), vec![])),
			Some(("m", l("m_1"), None, vec![ps(0, None, l("p_1"), None)])),
			Some(("m", l("m_1"), None, vec![ps(0, None, l("arg"), None)])),
			Some(("m", l("m_1"), None, vec![ps(0, Some("x"), l("p_1"), Some("c"))])),
			Some(("m", l("m_1"), None, vec![ps(0, None, l("p_1"), None), ps(1, None, l("xp_1"), None)])),
			Some(("m", l("run"), None, vec![ps(0, None, l("p_1"), None)])),
			Some(("<init>", lit("<init>"), None, vec![ps(1, None, U, None)])),
			Some(("m", U, None, vec![ps(0, None, l("p_1"), None)])),
			// a method that is kept because of its comment still loses its placeholder parameters (added after seed C10-b)
			Some(("m", l("m_1"), Some("c"), vec![ps(0, None, l("p_1"), None)])),
			Some(("m", l("run"), Some("c"), vec![ps(0, None, l("p_1"), None), ps(1, None, l("arg"), None)])),
		];
		for n in [l("C_1"), l("net/minecraft/unmapped/C_2"), l("p/C_3"), l("Real"), U] { for c in [None, Some("c")] {
			for f in [None, Some((l("f_1"), None)), Some((l("g"), None)), Some((l("f_1"), Some("c"))), Some((l("xf_1"), None)), Some((U, None))] {
				for me in &methods {
					let mut s = cs(n); s.c = c;
					if let Some((fnm, fc)) = f { s = s.f("I", "f", fnm, fc); }
					if let Some((src, mn, mc, mps)) = me { s = s.m("()V", src, *mn, *mc, mps.clone()); }
					v.push(s);
				}
			}
		}}
		v
	}
	fn dummy_all<const N: usize>(t: &mut Tally, u: &[MSet], cols: &[usize]) {
		for m in u { for &col in cols {
			let ns = m.ns[col].clone();
			let input = || format!("{} in {ns:?}", txt(m));
			t.at(input().as_bytes());
			let want = o_remove_dummy(m, col);
			t.case(&want != m);
			if let Some((g, again)) = real(t, &input, || {
				let r = load::<N, ()>(m).remove_dummy(&ns).map_err(|e| format!("refused: {e:#}"))?;
				let g = extract(&r)?;
				Ok((g, extract(&r.remove_dummy(&ns).map_err(|e| format!("refused: {e:#}"))?)?))
			}) {
				if g != want { t.fail(input(), &format!("expected {} got {}", txt(&want), txt(&g))); }
				else if again != g { t.fail(input(), "not idempotent"); }
			}
		}}
	}
	/// C10 (mapping side only). Bound: (a) 2 namespaces, namespace a: the 1 + 5*2*6*14 = 841 sets with the single key A:
	/// class name C_1 / net/minecraft/unmapped/C_2 / p/C_3 / Real / absent x comment none/c x field absent / f_1 / g /
	/// f_1 with comment / xf_1 / unnamed x method in 14 variants (absent, m_1, <init>, <clinit>, run, xm_1, m_1 with
	/// comment, m_1 with parameter p_1 / arg / p_1 with comment / p_1 and xp_1, run with p_1, <init> with an unnamed
	/// parameter, unnamed method with p_1), each also next to a second class B named C_9 with a field g;
	/// (b) 3 namespaces (s,a,b), the same 841 sets with the placeholder names in a and ordinary names in b, filtered once by
	/// a and once by b.  Oracle: the documented rules applied bottom-up (parameter: p_ prefix and no comment; field: f_
	/// prefix and no comment; method: m_ prefix or <init> or <clinit>, no comment, no parameter left; class: C_ or
	/// net/minecraft/unmapped/C_ prefix, no comment, no member left); everything else identical; the filter is idempotent.
	#[test]
	fn remove_dummy_rules() {
		let mut t = Tally::new("remove_dummy_rules");
		let cx = Cx::new(&[1]);
		let u = cx.universe(&[("A", dummy_shapes(&lit))]);
		dummy_all::<2>(&mut t, &u, &[1]);
		let mut u2 = u.clone();
		for m in &mut u2 { m.classes.insert("B".into(), cx.class("B", &cs(lit("C_9")).f("I", "f", lit("g"), None))); }
		dummy_all::<2>(&mut t, &u2, &[1]);
		dummy_all::<3>(&mut t, &Cx::new(&[1, 2]).universe(&[("A", dummy_shapes(&|s| lit_in(s, 1)))]), &[1, 2]);
		t.finish();
	}

	/// deliberately false: "merging never fails" (it must fail for two different comments on the same class)
	#[test]
	fn canary_must_fail() {
		let mut t = Tally::new("canary_must_fail");
		let keys: Vec<(&str, Vec<CS>)> = vec![("A", vec![cs(P), cs(P).c("c"), cs(P).c("d")])];
		let (ua, ub) = (Cx::new(&[1]).universe(&keys), Cx::new(&[2]).universe(&keys));
		for a in &ua { for b in &ub {
			t.case(true);
			let (la, lb) = (load::<2, ((), ())>(a), load::<2, ((), ())>(b));
			if Mappings::<2, ((), (), ())>::merge(&la, &lb).is_err() { t.fail(format!("A={} B={}", txt(a), txt(b)), "canary"); }
		}}
		t.finish();
	}
