"""Enumeration group `jarmerge` (C13): class level and jar level of dukebox::merge (harness kx/enum/jarmerge.rs).

The helper merge_preserve_order alone is covered by the group `mpo`; this group covers what is built on it.
See kx/enum/jarmerge_REPORT.md for the universes, the oracle rules and the mutants killed.
"""

_LISTS = ('all 65 duplicate-free lists of length <= 4 over 4 keys (prefixes, suffixes, interleavings, permutations, disjoint and equal lists are all among the 65 x 65 = 4225 pairs)')

GROUP = dict(
    crate='dukebox', file='dukebox/src/merge.rs', harness_file='jarmerge.rs',
    functions=['dukebox/src/merge.rs::merge_slice', 'dukebox/src/merge.rs::class_merger_merge', 'dukebox/src/merge.rs::sided_annotation',
               'dukebox/src/merge.rs::class_merger_merge::make_annotation', 'dukebox/src/merge.rs::visit_sided_annotation', 'dukebox/src/merge.rs::merge',
               'dukebox/src/merge.rs::merge_eq', 'dukebox/src/merge.rs::merge_from_client',
               'dukebox/src/storage/parsed.rs::ParsedJar (Jar, OpenedJar, JarEntry impls; to_mem / write)',
               'dukebox/src/storage/zip_impls.rs::ZipArchive (OpenedJar impl), ZipFile (JarEntry impl)',
               'dukebox/src/storage/lazy_class_file.rs::ClassRepr (IsClass impls)', 'dukebox/src/storage/jar_entry.rs::JarEntryEnum::try_map_both'],
    trusted=['jar-merge harness (kx/enum/jarmerge.rs): own model of a class (two shells, interfaces, fields, methods, inner class records as strings and numbers) and of a jar (entry name, kind, content); '
             'the duke trees / class bytes / zip archives handed to the real code are generated from the model (duke tree constructors, duke::write_class, the zip crate directly); '
             'the oracle decides union, sidedness and order on model keys and compares contents with trees built from the model (duke PartialEq); side markers are recognised by an own recogniser '
             '(@net.fabricmc.api.Environment / EnvironmentInterfaces). Results are inspected as duke trees (ClassRepr::Parsed directly, bytes through duke::read_class, trusted here, checked by the group `cls`). '
             'Not judged (the property is silent): file attributes / time stamps, the order of the entries of the result, the content of the merged manifest, '
             'classes whose version / access flags / super class / other class attributes differ between the sides, which version of a shared member or resource with different content is taken.'],
    tests=[
        dict(name='class_members_union_marks_and_order', props=['C13'], tier='quick', timeout=300,
             text='class_merger_merge of two versions of a class: the result has every field and every method (keyed by name and descriptor) of either side exactly once and nothing else; a member of one side only '
                  'carries exactly one side marker, of that side, and is otherwise unchanged; a member of both sides is unmarked and is the client\'s or the server\'s version; when no two shared members are '
                  'ordered oppositely both orders are preserved; everything else of the class (equal on both sides) is unchanged.',
             bound='fields, then methods: ' + _LISTS + ' with keys (a,I) (a,J) (b,I) (c,I) resp. (a,()V) (a,(I)V) (b,()V) (c,()V) (same name, different descriptor included), '
                   'every subset of the shared members differing in access flags and annotations, x 2 class shells (plain; rich: version 61, abstract, own super class, Deprecated, SourceFile, Signature, '
                   'a visible and an invisible annotation, an unknown attribute); the other member kind has one client-only, one shared and one server-only member; 2 x 2 x 26 669 = 106 676 cases (26 669 = sum over the 4225 list pairs of 2^(shared members))'),
        dict(name='class_interfaces_and_inner_records', props=['C13'], tier='quick', timeout=300,
             text='the same for interfaces (one-sided interfaces listed with their side in the interface marker, exactly once, shared ones not listed, nothing else listed, orders preserved when compatible) '
                  'and for the records of the InnerClasses attribute (every record of either side exactly once, unchanged, unmarked).',
             bound='interfaces: ' + _LISTS + ' over 4 interface names x 2 shells = 8450 cases; inner class records: all 16 x 16 pairs of duplicate-free lists over 3 records (member class static, member class, anonymous class) '
                   'x 3 interface pairs x 2 shells = 1536 cases'),
        dict(name='class_shared_member_with_different_content', props=['C13'], tier='quick', timeout=300,
             text='a field / method that both sides have with different content is in the result exactly once, unmarked, as the client\'s or the server\'s version, next to one-sided and identical members.',
             bound='field (a,I) and method (a,()V): all 6 x 6 pairs of versions {public, private, public synthetic, annotated, with ConstantValue / Exceptions, with Signature}; 72 cases'),
        dict(name='class_shared_member_with_different_content__deprecated_or_synthetic_attribute', props=['C13'], tier='quick', timeout=300,
             text='the same when the two versions of the member differ in the Deprecated or the Synthetic attribute.',
             bound='field (a,I) and method (a,()V): the 28 pairs of the 8 x 8 versions in which a side has the Deprecated or the Synthetic attribute; 56 cases'),
        dict(name='class_shared_inner_record_with_different_content', props=['C13'], tier='quick', timeout=300,
             text='an InnerClasses record that both sides have for the same inner class with different content (flags, outer class, inner name) is in the result exactly once, as one of the two versions.',
             bound='record A$X: all 4 x 4 pairs of versions {static member, non-static member, no inner name, neither outer class nor name}; 16 cases'),
        dict(name='jar_entries_classes_and_resources', props=['C13'], tier='quick', timeout=300,
             text='merge of two jars (ParsedJar, classes as bytes): every entry of either jar is in the result exactly once, except library classes that only the server has; a class of one side only carries exactly one '
                  'class-level side marker of that side and is otherwise unchanged; a class with the same bytes on both sides comes out with exactly these bytes (also bytes a writer would not produce: unused constant); '
                  'a class whose bytes differ obeys the class-level rules (also when only the bytes differ); a resource is the content of the side(s) that have it.',
             bound='all pairs of jars over 4 names: net/minecraft/A.class in {absent, v0, v0 with an unused constant, v1}, B.class (rich shell) and com/lib/L.class in {absent, v0 with unused constant, v1}, '
                   'assets/x.txt in {absent, "one", "two"}; v0 / v1 overlap in interfaces, fields (same name different descriptor, one shared field with different content), methods (incompatible order) and inner class records; '
                   '16 x 9 x 9 x 9 = 11 664 pairs'),
        dict(name='jar_entries_meta_inf', props=['C13'], tier='quick', timeout=300,
             text='META-INF content: the signature files (.SF, .RSA) of either jar are not in the result; the manifest, other META-INF files and the directory entry are there exactly once.',
             bound='all pairs of jars over META-INF/ (directory entry), META-INF/MANIFEST.MF in {absent, two contents}, META-INF/MOJANGCS.SF, META-INF/MOJANGCS.RSA, META-INF/notes.txt, B.class each absent / present; 4 x 9 x 4^4 = 9216 pairs'),
        dict(name='jar_entries_meta_inf__dsa_and_ec_signature_blocks', props=['C13'], tier='quick', timeout=300,
             text='the signature block files META-INF/*.DSA and META-INF/*.EC (JAR specification, "Signed JAR file") are signature files as well and are not in the result.',
             bound='all pairs of jars over META-INF/MOJANG_C.SF, META-INF/MOJANG_C.DSA, META-INF/SERVER.EC, B.class each absent / present; 256 pairs'),
        dict(name='jar_entries_in_every_order', props=['C13'], tier='quick', timeout=300,
             text='the same rules whatever the order of the entries inside the two jars, classes handed over as bytes or as trees.',
             bound='3 names (B.class differing between the sides, com/lib/L.class and assets/x.txt identical) each on both sides / client only / server only (27 patterns) x 6 x 6 entry orders x {bytes, trees}, '
                   'a signature file in the middle of the client jar; 1944 cases'),
        dict(name='jar_zip_archives_in_and_out', props=['C13'], tier='quick', timeout=300,
             text='the same rules when the jars are zip archives in memory (written by the harness with the zip crate; read by dukebox through storage/zip_impls.rs), one side a zip archive and the other a ParsedJar, '
                  'and again after the result is written with ParsedJar::to_mem and read back by the harness with the zip crate (every name once in the archive, passed-through classes still byte-identical).',
             bound='all pairs of jars over net/ (directory entry) absent / present, net/minecraft/A.class (rich shell) in {absent, v0 with unused constant, v1}, com/lib/L.class absent / v0, assets/x.txt in {absent, "one", "two"}, '
                   'META-INF/MOJANGCS.SF absent / present; 4 x 9 x 4 x 9 x 4 = 5184 pairs; input form (zip+zip, zip+parsed, parsed+zip) and compression of the input archives (deflated, stored) rotate with the case number'),
        dict(name='canary_must_fail', props=[], canary=True, text='must fail', bound=''),
    ])
