"""Enumeration group `cls`: bounded stand-in checks at the level of whole class files (harness kx/enum/cls.rs).

GROUP has exactly the shape of an entry of kx.groups.ENUM_GROUPS (register it there as ENUM_GROUPS['cls'] = GROUP).

Universes (all counts are checked by the `cases=` numbers the tests print):

Universe A, 160 models:
  A1 (72) = 6 class shells x 4 field lists x 3 method lists.
     shells: S0 version 45.3, flags 0x0021, no super class, nothing else; S1 52.0 with two interfaces, SourceFile, Deprecated;
             S2 55.0 final/super/synthetic with InnerClasses (3 entries, one anonymous, one with all 10 flags), NestHost, Signature, Synthetic;
             S3 61.0 abstract with NestMembers, PermittedSubclasses, EnclosingMethod (with method), three unknown attributes (two of the same
             name, one empty), RuntimeVisibleAnnotations (two annotations; int, string, array and empty-array elements);
             S4 60.0 with Record (two components, one with Signature and two unknown attributes), EnclosingMethod without method, empty
             InnerClasses and NestMembers, Signature; S5 67.65535 with all 9 class flags, a non-ASCII class name, a NUL in SourceFile
             (modified UTF-8), empty PermittedSubclasses, Deprecated + Synthetic.
     field lists: F0 none; F1 one private int; F2 six fields with ConstantValue int/long/String/float/double, all 9 field flags, Signature,
             Deprecated, Synthetic, two unknown attributes; F3 three fields, two of the same name, attributes on the 2nd and 3rd only.
     method lists: none; [b0]; [b7].
  A2 (88) = shells {S1, S3} x field list F1 x 11 method lists ([b1] .. [b9], all ten bodies, all ten reversed) x 0..3 nops in front of every code
     (so that every tableswitch / lookupswitch is seen at each of the 4 paddings).
     bodies: b0 abstract, Exceptions, Signature, MethodParameters, Deprecated, unknown attribute; b1 all 107 operand-less opcodes;
             b2 bipush/sipush extremes, ldc int/float/String (empty, NUL, 2-, 3-byte and supplementary characters)/Class (also array), ldc2_w long/double;
             b3 x{load,store} of all 5 kinds at indices 0,1,3,4,255,256,65535, iinc at the byte/short boundaries, ret; b4 all 16 conditional jumps,
             goto, jsr forward and backward, a self-loop; b5 tableswitch (3 arms, negative low; low = high = i32::MAX), lookupswitch (4 keys
             incl. i32::MIN/MAX; no key); b6 get/putstatic/field, invokevirtual (also on an array class), invokespecial/static on Methodref and
             InterfaceMethodref, invokeinterface, new, anewarray, checkcast, instanceof, newarray of all 8 types, multianewarray (2 and 255);
             b7 loop with exception table (3 ranges, one ending at the end of the code, one catch-all), LineNumberTable (5 entries, two on one
             instruction), LocalVariableTable (3), LocalVariableTypeTable (1), two unknown code attributes, empty Exceptions;
             b8 StackMapTable with same, same_locals_1_stack_item, chop 1 and 3, append 1/2/3, full (all 9 verification types incl. Uninitialized)
             and offset deltas > 63; b9 a single return with an empty LineNumberTable.
  36 encodings = 3 constant pool layouts (first use / reversed / scattered with an unused Long at index 1-2, an unused Double and duplicate Utf8
     in the middle) x 2 attribute orders (as listed / reversed) x LineNumberTable in one or two attributes x 3 instruction forms (shortest;
     xload/xstore with explicit index; widest: wide, ldc_w, goto_w, jsr_w, extended frames).
Universe B, 5091 models: class A (45.3) with one static method whose code is any sequence of 1..3 templates out of nop, iload 4, ldc 100000,
     iinc 4 1, return, goto T, ifeq T, tableswitch(default T, one arm T+1 mod L), lookupswitch(default T, one pair T+1 mod L), T any instruction
     index (9 + 13^2 + 17^3 sequences); 6 encodings = pool layout {first use, scattered} x 3 instruction forms.
"""

_A = 'Universe A: 160 models (A1: 6 class shells x 4 field lists x 3 method lists = 72; A2: 2 shells x 11 method lists over ten method bodies x 0..3 leading nops = 88) x 36 encodings (3 constant pool layouts incl. unused Long/Double entries x 2 attribute orders x LineNumberTable in 1 or 2 attributes x 3 instruction forms short/explicit/wide) = 5760 class files'
_B = 'Universe B: all 5091 instruction sequences of length 1..3 over {nop, iload 4, ldc, iinc, return, goto T, ifeq T, tableswitch T, lookupswitch T} with T any instruction index, x 6 encodings (2 pool layouts x 3 instruction forms) = 30546 class files'

GROUP = dict(
    crate='duke', file='duke/src/lib.rs', harness_file='cls.rs',
    functions=['duke/src/lib.rs::read_class', 'duke/src/lib.rs::read_class_multi', 'duke/src/lib.rs::write_class',
               'duke/src/class_reader.rs::read', 'class_reader::read_field', 'class_reader::read_method', 'class_reader::read_code', 'class_reader::read_record_component',
               'class_reader::read_annotations_attribute', 'class_reader::read_element_values_named', 'class_reader::read_verification_type_info', 'class_reader::skip_attributes',
               'class_reader::align_to_4_byte_boundary', 'duke/src/class_reader/pool.rs::PoolRead::read / get_*', 'duke/src/class_reader/labels.rs::Labels',
               'duke/src/simple_class_writer.rs::write', 'simple_class_writer::write_field', 'simple_class_writer::write_method', 'simple_class_writer::write_code',
               'simple_class_writer::if_helper', 'simple_class_writer::goto_helper', 'simple_class_writer::switch_helper', 'simple_class_writer::write_record_component',
               'simple_class_writer::write_annotations_attribute', 'duke/src/simple_class_writer/pool.rs::PoolWrite::put_* / write', 'duke/src/simple_class_writer/labels.rs::Labels',
               'duke/src/jstring.rs::from_vec_to_string / from_string_to_vec',
               'duke/src/tree/class.rs::ClassFile::accept', 'duke/src/tree/field.rs::Field::accept', 'duke/src/tree/method.rs::Method::accept', 'duke/src/tree/method/code.rs::Code::accept',
               'duke/src/tree/record.rs::RecordComponent::accept', 'duke/src/visitor/implementations/tree.rs (tree builder)'],
    trusted=['class-file harness (kx/enum/cls.rs): own model of a class, own byte-level generator (JVMS 4.1-4.7, 6.5; modified UTF-8; two-slot Long/Double), own strict parser '
             '(pool tags and index ranges of every entry, exact attribute_length of every attribute, code_length 1..65535, every offset on an instruction boundary, ldc/ldc2_w constant kinds, '
             'invokeinterface count, sorted lookupswitch keys); generator and parser are cross-checked on every generated file (parse(generate(m)) == m). '
             'The converter duke tree -> model reads the public fields of duke::tree and resolves labels through the instruction list; anything in a tree the model cannot express is reported. '
             'The partial visitor records into duke tree types. '
             'Outside the model (not covered): invokedynamic / MethodHandle / MethodType / Dynamic constants and BootstrapMethods, Module*, type annotations, parameter annotations, '
             'AnnotationDefault, invisible annotations, annotation element kinds other than int / String / array, SourceDebugExtension, the CLDC StackMap attribute, annotations on members.'],
    tests=[
        dict(name='read_is_exact', props=['C01'], tier='quick', timeout=600,
             text='For every model and every encoding, read_class accepts the generated class file and the tree states exactly the facts of the model: header, super types, every field and method '
                  'with flags, descriptor and attributes on the right member, every instruction with resolved operands and branch / switch targets as instruction indices, exception ranges, '
                  'line numbers (attributes concatenated in file order), local variable (type) tables, stack map frames, annotations, nest / record / inner class data and unknown attributes byte for byte.',
             bound=_A + '; ' + _B + '; 36306 cases'),
        dict(name='write_is_exact', props=['C02'], tier='quick', timeout=600,
             text='For every tree read from such a file write_class succeeds, the output is a structurally valid class file (independent strict parser), the parser reads back exactly the model, '
                  'and read_class of the output states the same facts again.',
             bound=_A + ' with the stack map frames of body b8 removed before generating (see write_is_exact__stack_map_frames); ' + _B + '; 36306 cases'),
        dict(name='write_is_exact__stack_map_frames', props=['C02'], tier='quick', timeout=600,
             text='The same for the models that carry a StackMapTable: the frames (same, same_locals_1_stack_item, chop, append, full; all verification types) are in the output and designate the same instructions.',
             bound='the 24 models of universe A2 that contain body b8 (lists [b8], all, all reversed x 2 shells x 4 paddings) x 36 encodings = 864 cases'),
        dict(name='far_jumps_survive_widening', props=['C02'], tier='quick', timeout=600,
             text='Methods whose jumps no longer fit 16 bits are written (or refused cleanly when the code cannot fit 65535 bytes); in the output, read by the independent parser and by read_class, '
                  'every jump, switch arm, exception range, line number and local variable range designates the same instruction; a conditional jump may only have become inverted-if over a goto to the original target.',
             bound='24 methods: goto / jsr forward and backward over 33000 nops; ifeq forward with exception ranges, line numbers, LocalVariable(Type)Table around and after it; if_icmplt backward; '
                   'all 16 conditional opcodes forward and all 16 backward; tableswitch and lookupswitch with arms 32000 bytes back and 33000 ahead; a goto at distance 32767 across an ifeq that must be widened; '
                   'two far conditionals in opposite directions; goto / ifeq / ifnull at distances exactly 32767, 32768, -32768, -32769; code of exactly 65535 bytes; three methods that cannot fit (must fail cleanly)'),
        dict(name='partial_visitors_see_projection', props=['C17'], tier='quick', timeout=600,
             text='A visitor with an interest mask (class / field / method / code / record component level) that declines a class, a field, a method, a Code (visit_code -> None) or a record component receives '
                  'exactly the projection of the full read onto what it asked for, members in order, no uninvited event, every header of declined members still announced; two concatenated class files are delivered '
                  'by two successive reads with the stream exactly at the boundary / end and a third read fails; ClassFile::accept of the fully read trees into the same visitor delivers the same; '
                  'ClassFile::accept into the tree builder reproduces the class.',
             bound='streams R1++R2 and R2++R1 of two rich classes (R1: 6 fields, 5 methods with all code tables and frames, 2 record components, all modelled class attributes; R2: 3 fields, 2 methods) in 2 encodings '
                   '(natural; reversed attributes + scattered pool + wide forms + split LineNumberTable); 120 masks over the 51 interest flags (all, none, each flag off, each flag on with its path, 16 fixed pseudo-random); '
                   'decline patterns: nothing, first class, second class, each field, each method, each Code, each record component, every second member (22 for R1 first, 11 for R2 first); 2 x 33 x 120 = 7920 configurations '
                   '+ 16 full-read / tree-builder replay checks = 7936 cases. The replay comparison is left out for the 14 masks that want exactly one of LocalVariableTable / LocalVariableTypeTable '
                   '(see partial_visitors_see_projection__replay_of_one_local_variable_table); reading is checked for them here.'),
        dict(name='partial_visitors_see_projection__replay_of_one_local_variable_table', props=['C17'], tier='quick', timeout=600,
             text='The same including the replay comparison for visitors that want exactly one of LocalVariableTable and LocalVariableTypeTable: ClassFile::accept delivers what reading delivers.',
             bound='the 14 masks of the family with code interest and local_variable_table != local_variable_type_table x the same 66 stream / decline configurations + 8 = 932 cases'),
        dict(name='no_panic_on_damaged_files', props=['C16'], tier='quick', timeout=900,
             text='read_class returns Ok or Err on every damaged file, without panic, without hanging (20 s watchdog) and without asking the allocator for more than 64 MiB + 64 bytes per input byte in one request (a counting global allocator records the largest request per input), and write_class does not panic on any tree read_class returned.',
             bound='13 generated class files (31 .. 2685 bytes, 7633 bytes in total: six universe-A models covering all class / member / code attributes, switches, frames, all branch forms, in different '
                   'encodings, the minimal class, two universe-B files); every proper prefix (7633 truncations); at every offset every different value out of {0x00, 0x01, 0x7f, 0x80, 0xff, b+1, b-1}; '
                   'at every offset the patterns ffff, 0000, ffffffff, 7fffffff, 80000000 written over 2 / 4 bytes; 89114 cases; plus one well-formed class whose only method has code_length 65535 and a label at every offset 0..=65535 (65536 labels); plus 5 of the files with every Utf8 constant that starts with p/B rewritten to start with ED A0 80 (the unpaired surrogate U+D800: a name that is no UTF-8), damaged in the same ways'),
        dict(name='canary_must_fail', props=[], canary=True, text='must fail', bound=''),
    ])
