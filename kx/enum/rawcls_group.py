"""Enumeration group `rawcls`: C20 "raw_class_file reads and writes class files byte-exactly" on the public API
raw_class_file::ClassFile::{read, write, to_bytes, length} (raw_class_file/src/lib.rs, macros.rs)."""

_ORACLE = ('Oracle (own byte builder written from JVMS 4.1, 4.4, 4.5, 4.6, 4.7.2-4.7.31; own conversion of the same model into the crate\'s value through '
           'its public fields): for every class of the bound (1) read(bytes) is Ok and consumes the whole file, (5) the value read is the value the file '
           'denotes item by item (JVMS item name = field name), (2) write(read(bytes)) == bytes and to_bytes gives the same bytes, (3) length() == number '
           'of bytes written, (4) read(write(v)) == v; for the value built directly through the public fields (6) write(v) == the bytes of the own builder '
           '(every count, every attribute_length, constant_pool_count as JVMS prescribes), (7) length() == bytes written, (8) read(write(v)) == v; no panic.')
_BASE = ('every class has the 20 one-slot base entries Utf8 A, I, ()V, x, Class, 2 NameAndType, Fieldref, Methodref, Integer, Float, String, MethodHandle, '
         'MethodType, Module, Package, Utf8 LA;, InvokeDynamic, Dynamic, InterfaceMethodref, followed by one Utf8 entry per attribute name used (order of '
         'first use); every index item of the bodies points to a base entry of the kind JVMS asks for (or is 0 where JVMS allows 0)')

GROUP = dict(
    crate='raw_class_file', file='raw_class_file/src/lib.rs', harness_file='rawcls.rs',
    functions=['raw_class_file/src/lib.rs::ClassFile::read', 'raw_class_file/src/lib.rs::ClassFile::write', 'raw_class_file/src/lib.rs::ClassFile::to_bytes',
               'raw_class_file/src/lib.rs::ClassFile::length', 'raw_class_file/src/lib.rs::pool_has_utf8',
               'raw_class_file/src/macros.rs::notation (every _read / _write / _len it derives: ClassFile, CpInfo, FieldInfo, MethodInfo, AttributeInfo, '
               'StackMapFrame, VerificationTypeInfo, Annotation, ElementValue and the table entry structs)'],
    trusted=[
        'rawcls harness (kx/enum/rawcls.rs): own model of a class file (17 pool entry kinds, members, 28 attribute bodies incl. type annotations and unknown '
        'attributes, stack map frames, element values), own byte builder `*_bytes` written from JVMS chapter 4 (attribute_length = length of the info built '
        'separately; counts from the table lengths; constant_pool_count = 1 + slots, a Long / Double counting two), own conversion `*_value` into the crate\'s '
        'types through their public fields, own skeleton walker `o_walk` (pool with the two-slot rule, members, attributes framed by attribute_length, names are '
        'Utf8 entries, nothing after the class) that must accept every generated file and count the same tables; menus written by hand',
        'which attribute kinds exist was taken from `enum AttributeInfo`, their layout from JVMS 4.7; the field names of the crate (e.g. `boostrap_arguments`, '
        '`UnintializedThis`) are mapped to the JVMS item of the same name; RuntimeVisibleTypeAnnotations / RuntimeInvisibleTypeAnnotations have no variant in '
        'the crate ("TODO"): the expected representation of them is the one of an unknown attribute, `Other { info }`, their bytes are built per JVMS 4.7.20',
        'readings fixed: (a) "well-formed class file" = well-formed on the level the raw representation sees: magic, every tag, count, length and '
        'attribute_length as JVMS 4.1-4.7 prescribe, every attribute_name_index a Utf8 entry, reserved frame types / unknown tags absent; constraints between '
        'entries (4.4.x kinds of referenced entries beyond what the menus respect, 4.8-4.10, which attributes may stand together or in which table, module-info '
        'rules, uniqueness of members) are not demanded, so the universe is a superset of the files a JVM accepts and a reader that checked them would be '
        'reported (the crate documents "no format checking"); (b) "equal value" = derived PartialEq of ClassFile; (c) "announced length" = ClassFile::length(); '
        '"bytes written" = what write hands to a Vec<u8>, and to_bytes must give the same bytes; (d) "every raw representation" = every value whose variants '
        'agree with the Utf8 names their attribute_name_index points to (Other only under names the crate does not model) and whose tables fit their count items '
        '(<= 255 / 65535 entries; chop k and append locals 1..=3; same_frame / same_locals_1 offset_delta <= 63): a value that says `Other` under the name Code, or '
        '`Code` under the name Foo, cannot be read back equal by any name-dispatching reader and is outside; values that are no well-formed files but fit (dangling '
        'indices, Utf8 bytes 4.4.7 forbids, reference_kind 0 / 255, empty code array, code_length >= 65536) are asked the value side only (test raw_values_..., '
        'two cases of code_attributes); (e) when the value read equals the value built directly, clauses (2) (3) (4) are not evaluated a second time: write, '
        'to_bytes, length and read are functions of the compared fields, so they coincide with (6) (7) (8)',
        'classes whose pool contains a Long or Double are separated into the tests pools_with_long_double, attributes_with_long_double_pool and '
        'counts_at_their_bounds_with_long_double_pool (same oracle, nothing special-cased) so that one defect of the pool code does not hide the attribute results; '
        'all other tests use pools of one-slot entries only',
        'outside the universe: malformed or truncated files (C16), tables longer than their count item, files larger than ~35 MB, attribute_name_index 0 or not a '
        'Utf8, pools of more than 4 enumerated entries next to the base (except the two 65535-slot pools), element values nested deeper than 4, stack map tables of '
        'more than 3 enumerated frames (plus one of 25 and the 65535-frame table), writers that fail (only Vec<u8> is used) and readers other than a byte slice, '
        'the cross-read by duke::read_class named in the property (only the own walker and the own builder stand for "other readers"); corpus = the 4 loose .class '
        'files of the repository (raw_class_file has no zip dependency, jars are not opened)',
    ],
    tests=[
        dict(name='pools_without_long_double', props=['C20'], tier='quick', timeout=600,
             text='constant pools of one-slot entries and the ClassFile items around the pool: ' + _ORACLE,
             bound='159 710 classes: every sequence of 0..4 entries over 19 shapes (Utf8 empty / "a" / modified UTF-8 of U+0000, U+20AC and a surrogate pair / "Code" as a '
                   'second entry with the content of an attribute name; Integer, Float, Class, String, Fieldref, Methodref, InterfaceMethodref, NameAndType, MethodHandle kind 1 '
                   'and 9, MethodType, Dynamic, InvokeDynamic, Module, Package), sequences of 1..3 entries at each of 4 places (before the base; between base and attribute '
                   'names; after the first name; after all names), sequences of 4 between base and names: 1 + 4 x (19 + 361 + 6 859) + 130 321 = 159 278; each class has a '
                   'field with ConstantValue, a method with Code containing LineNumberTable and a SourceFile attribute (names looked up on three levels); + 432 classes '
                   'over minor {0, 3, 65535} x major {45, 52, 65, 65535} x access_flags {0, 0x0021, 0xFFFF} x super_class {0, a class} x 0..2 interfaces, with and without '
                   'members and attributes; ' + _BASE),
        dict(name='pools_with_long_double', props=['C20'], tier='quick', timeout=600,
             text='constant pools containing 8-byte constants (JVMS 4.4.5: a Long / Double takes two entries; constant_pool_count and every later index count both): ' + _ORACLE,
             bound='74 096 classes: the 21-shape menu (the 19 shapes + Long + Double), every sequence of 1..4 entries that contains at least one Long or Double, sequences of 1..3 '
                   'at each of the 4 places, sequences of 4 between base and names: 4 x (2 + 80 + 2 402) + 64 160; shortest first (the first case is the pool [Long] ++ base ++ '
                   'names); same class around the pool as in pools_without_long_double, all indices computed with the two-slot rule'),
        dict(name='class_level_attributes', props=['C20'], tier='quick', timeout=600,
             text='attributes of the ClassFile structure, alone, in twos and in threes: ' + _ORACLE,
             bound='70 687 classes: menu of 80 shapes: SourceFile; SourceDebugExtension of 0 / 1 / 20 / 300 bytes; InnerClasses with 0..3 classes (zero and non-zero outer / name '
                   'indices, flags 0xFFFF); EnclosingMethod with and without method; Synthetic; Deprecated; Signature; Runtime(In)VisibleAnnotations with 0 / 1 / 2 annotations (0..2 '
                   'pairs, array value); Runtime(In)VisibleTypeAnnotations with 0 / 1 / 2 annotations; BootstrapMethods with 0..3 methods of 0 / 1 / 2 / 5 arguments; NestHost; NestMembers, '
                   'PermittedSubclasses with 0..3 classes; ModulePackages with 0..2; ModuleMainClass; Module (minimal and with one row in every table); Record with 0 / 1 / 2 components '
                   '(with Signature / annotations inside); 30 unknown attributes = 10 names (Foo, empty name, code, CodeX, Cod, SourceFil, NestMember, "Synthetic ", '
                   'RuntimeVisibleTypeAnnotationsX, org.example.Custom: near misses of modelled names) x info of 0 / 1 / 5 bytes; every ordered selection of 0, 1, 2 shapes with '
                   'different names; every ordered selection of 3 out of 22 representatives (the fullest shape of each of the 19 kinds + 3 unknown) and of 3 out of every second '
                   'shape of the menu (40); ' + _BASE),
        dict(name='field_and_method_attributes', props=['C20'], tier='quick', timeout=600,
             text='attributes of field_info and method_info, 0..3 fields and 0..3 methods: ' + _ORACLE,
             bound='66 420 classes: field menu of 16 shapes (ConstantValue of Integer / String / Float, Synthetic, Deprecated, Signature, visible / invisible annotations, type annotations '
                   'with target 0x13, unknown Foo / ConstantValu / empty name), method menu of 44 shapes (Exceptions with 0..3 classes; MethodParameters with 0 / 1 / 2 / 255 parameters, '
                   'name_index 0 included; Runtime(In)VisibleParameterAnnotations with 0 / 1 / 2 / 3 / 255 parameters of 0..2 annotations; AnnotationDefault with 7 element values; '
                   'Signature, Synthetic, Deprecated, annotations, type annotations of method targets, Code without and with exception table and LineNumberTable, unknown Foo / '
                   'MethodParameter / "Exceptions."); one field / one method with every ordered selection of 0..3 shapes with different names (2 024 + 63 780), and 616 classes with '
                   '0..3 fields x 0..3 methods (access_flags 0 / 0xFFFF) whose last field / first method carries no or one attribute'),
        dict(name='code_attributes', props=['C20'], tier='quick', timeout=600,
             text='the Code attribute: code array, exception table, nested attributes (a nested attribute must neither be dropped nor miscounted in attribute_length): ' + _ORACLE,
             bound='12 638 classes: nested menu of 22 shapes (StackMapTable with 0 / 1 / 4 / 5 / 25 frames; LineNumberTable with 0..3 rows; LocalVariableTable and LocalVariableTypeTable '
                   'with 0..2 rows, values 65535; type annotations with Code targets; unknown Foo / LineNumberTabl / StackMapTable2); every ordered selection of 0..2 nested shapes with '
                   'different names (437) x 3 code arrays (return; aload_0 invokespecial return; a tableswitch with padding) x 4 exception tables (0..3 rows, catch_type 0 and a '
                   'class) with max_stack / max_locals cycling through (0,0), (1,1), (65535,65535), (2,65535) = 5 244; every selection of 3 nested shapes and 500 triples of '
                   'LineNumberTable / LocalVariableTable / LocalVariableTypeTable attributes with repeated names (7 052); Code before / after another method attribute, second method '
                   'with Code (336); code_length 1 / 255 / 256 / 65535 as files and 65536 / 70000 as values'),
        dict(name='stack_map_frames', props=['C20'], tier='quick', timeout=600,
             text='StackMapTable: every frame kind of JVMS 4.7.4 with every verification_type_info: ' + _ORACLE,
             bound='22 336 classes (method, Code, StackMapTable): menu of 77 frames: same_frame 0 / 1 / 63; same_locals_1_stack_item_frame 64 with each of 10 verification types (Top, Integer, '
                   'Float, Double, Long, Null, UninitializedThis, Object, Uninitialized 0 / 65535) and 127, 65; ..._extended with each type and offset_delta 0 / 300 / 65535; chop_frame '
                   'k = 1..3 x offset_delta 0 / 65535; same_frame_extended 0 / 64 / 65535; append_frame with 1 local (10), 2 locals (9), 3 locals (8); full_frame with 0..3 locals x '
                   '0..2 stack items and one with 10 + 10; tables of 0 and 1 frame (78), every pair (5 929), every triple of 25 representatives (15 625), every frame_type 0..=63 '
                   'and every frame_type 64..=127 with every verification type (704)'),
        dict(name='annotations_and_element_values', props=['C20'], tier='quick', timeout=600,
             text='Runtime(In)VisibleAnnotations, Runtime(In)VisibleParameterAnnotations, Runtime(In)VisibleTypeAnnotations, AnnotationDefault with every element_value tag: ' + _ORACLE,
             bound='11 968 classes: 46 element values (the 9 constant tags B C D F I J S Z s, enum, class, annotations with 0..2 pairs, arrays with 0..3 values, nesting up to depth 4); '
                   'visible and invisible each: one annotation with 1 pair (46) and with 2 pairs (16 x 12) and 0..3 annotations over 4 shapes (85), each on the class, a field, a method '
                   '(after Signature) and a record component (before Signature); parameter annotations with 0..3 parameters over 4 annotation lists (85); type annotations: every '
                   'target_type of JVMS table 4.7.20-A/B in the place table 4.7.20-C allows (class 0x00 0x10 0x11; method 0x01 0x12 0x14 0x15 0x16 0x17; field and record component '
                   '0x13; Code 0x40..0x4B, localvar tables of 0..3 rows) x 3 type paths (0 / 1 / 3 entries) x 3 pair lists, alone and in twos (54 / 72 / 9 / 153 annotations per place); '
                   'AnnotationDefault with each of the 46 values and with every array of two of them (2 162)'),
        dict(name='modules_and_records', props=['C20'], tier='quick', timeout=600,
             text='Module (with ModulePackages, ModuleMainClass, an unknown ModuleTarget next to it) and Record with component attributes: ' + _ORACLE,
             bound='2 386 classes: Module with requires 0..2 x exports {none, to nobody, to 1, to 2, two rows} x opens (same 5) x uses 0..2 x provides {none, with 1, with 2, two rows} x '
                   '(flags, version) {(0, 0), (0x9020, set)} = 1 800, the accompanying attribute list cycling through 5 lists before / after the Module; Record with 0..3 components, '
                   'each with one of 8 attribute lists (none, Signature, visible / invisible annotations, type annotation, unknown, three attributes, Deprecated + empty-named unknown), '
                   'with and without Signature and PermittedSubclasses next to it = 586'),
        dict(name='several_attributes_together', props=['C20'], tier='quick', timeout=600,
             text='attributes on all levels of one class at once, and equal attribute names given by different Utf8 entries: ' + _ORACLE,
             bound='4 489 classes: 6 class attribute lists (0 / 1 / 6 / 8 / 8 / 22 attributes) x 5 field lists x 4 method lists x 6 lists nested in Code (0..5 attributes, repeated '
                   'LineNumberTable / LocalVariableTable) x 6 class shapes (1..3 fields, 1..3 methods, interfaces, Record component carrying the field list, a second Code named by a '
                   'second Utf8 "Code") = 4 320; + 13 x 13 classes where two attributes out of 13 (annotations, Signature, Deprecated, Synthetic, type annotation, unknown) stand on '
                   'the class, on two fields and on two methods, each occurrence naming its own Utf8 entry of equal content'),
        dict(name='attributes_with_long_double_pool', props=['C20'], tier='quick', timeout=600,
             text='every attribute shape in a class whose pool contains a Long / Double (the attribute name and every index are found with the two-slot rule): ' + _ORACLE,
             bound='4 996 classes: 8 pool layouts (Long first; Double first; Long between base and names; Double after the first attribute name; Long last; Long first and Double '
                   'last; Double Long Integer between base and names; Utf8 Long Utf8 Double first) x (the 80 class shapes + 16 field shapes + 44 method shapes + 22 shapes nested in Code, '
                   'each alone, + 462 ordered pairs of the 22 class representatives next to a field with ConstantValue) + a field whose ConstantValue is the 8-byte constant itself'),
        dict(name='counts_at_their_bounds', props=['C20'], tier='quick', timeout=600,
             text='every count item at its largest value (u1: 255, u2: 65535) and u4 lengths above 65535: ' + _ORACLE,
             bound='34 classes: 65535 interfaces / fields / methods / class attributes / attributes of one field / InnerClasses rows / bootstrap methods / bootstrap arguments / NestMembers / '
                   'PermittedSubclasses / ModulePackages / Record components / attributes of one component / annotations / pairs / array values / type annotations (type_path of 255) / rows of '
                   'every Module table incl. exports_to, opens_to, provides_with / Exceptions / exception table rows / attributes in Code / LineNumberTable, LocalVariableTable, '
                   'LocalVariableTypeTable rows / stack map frames / locals and stack items of a full_frame / localvar_target rows; 255 MethodParameters; 255 parameters (one with 65535 '
                   'annotations), visible and invisible; SourceDebugExtension of 100 000 and an unknown attribute of 70 000 bytes; a Utf8 of 65535 bytes; constant_pool_count 65535'),
        dict(name='counts_at_their_bounds_with_long_double_pool', props=['C20'], tier='quick', timeout=600,
             text='constant_pool_count at and near its bound when 8-byte constants fill the pool: ' + _ORACLE,
             bound='3 classes: a Long as the last entry of the pool of a class without attributes (constant_pool_count 23); constant_pool_count 65535 with 32 756 Long entries between base '
                   'and names; the same with 32 756 Double entries at the end (the last one in slots 65533 and 65534)'),
        dict(name='raw_values_that_are_no_well_formed_files', props=['C20'], tier='quick', timeout=600,
             text='raw values no well-formed file contains but the public fields can say, value side only: (6) write(v) is the JVMS layout of the fields, (7) length() == bytes written, '
                  '(8) read(write(v)) == v, no panic',
             bound='6 935 values: every shape of the class / field / method / Code menus and every one of the 77 frames with every index item set to 0, to 65535 and to 1 (an Utf8 where '
                   'another kind is required), attribute names resolvable (3 x 239); pools with 1, 2 and 3 out of 21 entries JVMS forbids (Utf8 with byte 0 / 0xff 0xfe 0xf0 / truncated '
                   'sequences; MethodHandle kind 0 and 255; dangling, zero and wrong-kind references) between base and names and after the names (2 x 3 108); Code with an empty code '
                   'array; this_class 0, super_class 65535, members named by index 0'),
        dict(name='corpus_class_files', props=['C20'], tier='quick', timeout=600,
             text='the loose .class files of the repository: the own walker accepts the file; read is Ok, consumes the file and sees as many pool entries, fields, methods and class '
                  'attributes as the walker; write(read(bytes)) == bytes; to_bytes the same; length() == bytes written; read(write(v)) == v',
             bound='4 files: raw_class_file/tests/simple_expected.class, src/specialized_methods/test/{Node, MyNode, SpecializedMethods}.class'),
        dict(name='canary_must_fail', props=[], canary=True, text='must fail', bound=''),
    ])
