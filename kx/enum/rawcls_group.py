"""Enumeration group `rawcls` (draft)"""
_T = ['pools_without_long_double', 'pools_with_long_double', 'class_level_attributes', 'field_and_method_attributes', 'code_attributes', 'stack_map_frames',
      'annotations_and_element_values', 'modules_and_records', 'several_attributes_together', 'attributes_with_long_double_pool', 'counts_at_their_bounds',
      'counts_at_their_bounds_with_long_double_pool', 'raw_values_that_are_no_well_formed_files', 'corpus_class_files']
GROUP = dict(
    crate='raw_class_file', file='raw_class_file/src/lib.rs', harness_file='rawcls.rs',
    functions=[], trusted=[],
    tests=[dict(name=n, props=['C20'], tier='quick', timeout=600, text=n, bound='draft') for n in _T] + [dict(name='canary_must_fail', props=[], canary=True, text='must fail', bound='')])
