"""Enumeration group `indy` (C01, C02): everything around BootstrapMethods (harness kx/enum/indy.rs, appended to duke/src/lib.rs).

invokedynamic, ldc / ldc_w / ldc2_w of CONSTANT_Dynamic, method handles of all nine reference kinds as bootstrap methods and as bootstrap
arguments, bootstrap arguments of every loadable kind (a Dynamic constant that refers to another bootstrap method included), several bootstrap
methods in one class, pool indices on both sides of 255.  The group `cls` keeps all of this outside its model; this group is its complement.
See kx/enum/indy_REPORT.md for the universes, the oracle rules with their source sentences and the mutants killed.
"""

_HANDLES = ('11 method handles: reference kinds 1..9 (getField p/A.f:I, getStatic p/A.g:J, putField p/A.f:I, putStatic p/A.g:J, invokeVirtual p/B.m()V, invokeStatic p/B.bsm(Lookup,String,MethodType)CallSite, '
            'invokeSpecial p/B.m()V, newInvokeSpecial p/B.<init>()V, invokeInterface p/B.m()V), kinds 6 and 7 once on a Methodref and once on an InterfaceMethodref; '
            'several pairs differ in the reference kind only or in the tag of the reference only')
_ENC9 = ('9 encodings = 3 constant pool layouts (order of first use / reversed / scattered with an unused Long at indices 1-2, an unused Double and a duplicate Utf8 in the middle, an unused Integer at the end) '
         'x 3 layouts of the bootstrap_methods table (one entry per distinct bootstrap method, nested ones first / the same reversed, an empty attribute when there is none / an unused entry first, '
         'then every bootstrap method twice with the uses alternating between the copies); 0 or 260 unused Integers in front of the pool, ldc or ldc_w for small indices and BootstrapMethods as first or last class attribute rotate with them')
_S = ('universe S: every sequence of 0..3 call sites, each one of 4 forms (invokedynamic run:()V, invokedynamic get:()I, ldc of Dynamic k:I, ldc2_w of Dynamic w:J) x 6 bootstrap methods '
      '(B0 = invokeStatic handle without arguments, B1 = same handle [Int 7], B2 = newInvokeSpecial handle [Int 7], B3 = [Int 7, String s], B4 = [String s, Int 7], B5 = B1 with the handle on an InterfaceMethodref): '
      '1 + 24 + 576 + 13824 = 14425 classes (versions 55, 60, 65; every second class with each call site in a method of its own)')
_A = ('universe A: one bootstrap method (invokeStatic handle) with every argument list of length 0..3 over 12 loadables (Integer, Float, Long, Double, String, Class, MethodHandle getField, the bootstrap handle itself as argument, '
      'MethodType, Dynamic k:I, Dynamic n:Object whose bootstrap method takes [Int 7, the Dynamic before], Dynamic w:D whose bootstrap method takes [the Dynamic before, Double]) = 1885 lists x 4 uses '
      '(invokedynamic / ldc Dynamic k:I / ldc2_w Dynamic w:D / invokedynamic and ldc sharing the bootstrap method) = 7540 classes; plus 400 classes with two invokedynamic whose bootstrap methods take one argument each, '
      'all pairs of 20 values (Integer 0 / MIN / MAX, Float +0 / -0 / two NaNs / -inf, Long 0 / MIN, Double +0 / -0 / two NaNs, String empty / with NUL / non-ASCII and supplementary, Class [[Lp/A;, MethodType ()V, '
      'invokeVirtual handle on the array class [I), the first value also loaded by ldc / ldc2_w')
_H = ('universe H: ' + _HANDLES + '; every handle as bootstrap method x (no argument or every handle as MethodHandle argument) x the 7 non-empty subsets of {invokedynamic with that bootstrap method, '
      'ldc of the handle itself, ldc of a Dynamic whose bootstrap method takes the handle as argument} = 924 classes (versions 55 / 65), plus the 121 classes with two methods using bootstrap methods (h1, []) and (h2, [])')
_P = ('universe P: 11 constants (Integer, Float, String, Class, MethodHandle, MethodType, Dynamic k:I, Dynamic a:[D, Long, Double, Dynamic w:J)')
_MANY = ('classes with n bootstrap methods (one invokedynamic each) and classes with one bootstrap method of n + 1 arguments (used by an invokedynamic and a Dynamic), n in {1, 2, 3, 254, 255, 256, 257, 300}')

GROUP = dict(
    crate='duke', file='duke/src/lib.rs', harness_file='indy.rs',
    functions=['duke/src/lib.rs::read_class', 'duke/src/lib.rs::write_class',
               'duke/src/class_reader.rs::read (BootstrapMethods attribute, read before fields and methods)', 'class_reader::read_method', 'class_reader::read_code (ldc, ldc_w, ldc2_w, invokedynamic)',
               'duke/src/class_reader/pool.rs::PoolRead::read (tags 15-18)', 'PoolRead::get_loadable', 'PoolRead::get_method_handle', 'PoolRead::get_invoke_dynamic',
               'class_reader::pool::PoolEntry::as_method_handle / as_method_type / as_dynamic / as_invoke_dynamic / as_loadable', 'class_reader::pool::BootstrapMethodRead',
               'duke/src/simple_class_writer.rs::write (BootstrapMethods attribute, written after all members)', 'simple_class_writer::write_code (Ldc, InvokeDynamic)',
               'duke/src/simple_class_writer/pool.rs::PoolWrite::put_bootstrap_method', 'PoolWrite::put_loadable', 'PoolWrite::put_method_handle', 'PoolWrite::put_invoke_dynamic', 'PoolWrite::put', 'PoolWrite::write (tags 15-18)',
               'simple_class_writer::pool::PoolEntry::from_method_handle / from_method_type / from_dynamic / from_invoke_dynamic / from_loadable', 'simple_class_writer::pool::BootstrapMethodWrite',
               'duke/src/tree/method/code.rs::Handle / Loadable / ConstantDynamic / InvokeDynamic'],
    trusted=['indy harness (kx/enum/indy.rs): own BY-VALUE model of a class (version, flags, names, SourceFile, one unknown attribute, methods with max_stack / max_locals and the instructions nop, aconst_null, pop, pop2, return, '
             'ldc of any loadable constant, invokedynamic); a call site states its bootstrap method as (method handle, argument list), arguments may be Dynamic constants with bootstrap methods of their own; floats are compared by their bits. '
             'Own byte-level generator (JVMS 4.1, 4.4.1-4.4.10, 4.6, 4.7.3, 4.7.23, 6.5: two-slot Long/Double, modified UTF-8, own layout of the constant pool and of the bootstrap_methods table incl. duplicate and unused entries) and own strict '
             'parser (tag and range of every index of every constant used or not; reference_kind 1..9 against the tag of its reference and the class file version, <init> only for kind 8; descriptor shape of Fieldref / Methodref / MethodType / '
             'Dynamic / InvokeDynamic; bootstrap_method_ref is a MethodHandle, every bootstrap argument is loadable, every bootstrap_method_attr_index is below num_bootstrap_methods; at most one BootstrapMethods attribute, present when needed; '
             'every attribute_length exact; code_length 1..65535; ldc / ldc_w only for category 1 constants, ldc2_w only for Long, Double and Dynamic of type J or D; the two zero bytes of invokedynamic; no byte left over). '
             'Generator and parser are cross-checked on every generated file (parse(generate(m)) == m and the table is the one the layout asks for). The converters duke tree <-> model use the public fields and the public TryFrom<JavaString> '
             'of the name types; anything in a tree the model cannot express is reported; Handle::GetField .. Handle::InvokeInterface are read as JVMS REF_getField (1) .. REF_invokeInterface (9), the bool of InvokeStatic / InvokeSpecial as '
             '"the reference is an InterfaceMethodref". Trees "built directly" are assembled from ClassFile::new / Method::new / Code / InstructionListEntry without labels and without a reader.',
             'READINGS FIXED: (1) "exactly what the file states" is judged by value: two call sites that use different but equal entries of the bootstrap_methods table, or equal constants at different pool indices, state the same fact; '
             'labels and label ids are not facts of these files (no jump, no table refers to an instruction) and are ignored by the converter, duke\'s own PartialEq on trees is used in addition for read(write(tree)) == tree whenever no NaN is involved '
             '(f32 / f64 NaN != NaN in duke\'s derived PartialEq). (2) "de-duplicated (handle, argument indices) pairs": no two entries of the written table have an equal method handle (by value) and the same argument index list; the number of '
             'entries equals the number of distinct bootstrap methods of the tree by value (the Dynamic arguments\' own bootstrap methods included) and every entry denotes one of them; an unused or invented entry is a failure; no BootstrapMethods '
             'attribute or an empty one are both accepted for a class without bootstrap methods. (3) "written after all members so every loadable constant is in the pool" is judged on the result: every index stored in the attribute is in range '
             'and of a loadable kind; the position of the attribute among the class attributes is free. (4) ldc vs ldc_w for an index <= 255 is the writer\'s choice (both are valid); what is demanded is that the operand designates the constant; '
             'the test checks that the outputs really cross the boundary (both forms occur). (5) floats by bit pattern: +0 / -0 and different NaN payloads are different constants, equal patterns are one.',
             'OUTSIDE the universe: everything the group `cls` covers (all other instructions, attributes, fields, interfaces, exception tables, stack map frames); bootstrap methods reached from a ConstantValue (duke\'s ConstantValue has no Dynamic); '
             'Dynamic constants whose bootstrap arguments refer to themselves directly or indirectly (JVMS allows the file, resolution fails; duke\'s by-value tree cannot hold them); malformed files (bootstrap index out of range, non-loadable argument, '
             'reference_kind against the wrong tag, MethodHandle / Dynamic constants in too old class files: the reader\'s refusals are not tested); more than 301 bootstrap methods or arguments, 65536 overflow of the table or the pool; '
             'names <init> / <clinit> in invokedynamic; versions other than 55.0, 60.0, 61.0, 65.0; partial visitors (C17).'],
    tests=[
        dict(name='read_call_sites_and_bootstrap_methods', props=['C01'], tier='quick', timeout=600,
             text='read_class accepts the generated file and the tree states for every invokedynamic and every ldc / ldc2_w of a Dynamic constant exactly the name, descriptor, method handle (kind, owner, name, descriptor, '
                  'Methodref or InterfaceMethodref) and argument list of the bootstrap_methods entry its constant points at, in file order of the instructions, whatever the order of the table, with duplicate and unused table entries, '
                  'several call sites on one entry, entries with equal handle and different arguments, different handle and equal arguments, the same arguments in another order.',
             bound=_S + ' x ' + _ENC9 + '; 129825 class files'),
        dict(name='read_argument_lists', props=['C01'], tier='quick', timeout=600,
             text='the same for bootstrap arguments of every loadable kind: each argument of the tree is the constant the argument index designates (Integer, Float and Double by bit pattern, Long, String, Class, MethodHandle, MethodType, '
                  'Dynamic with its own bootstrap method resolved through the table, two levels deep), in order; Dynamic constants of type D / J loaded by ldc2_w.',
             bound=_A + ' = 7940 classes x 4 encodings (first use / first use; reversed / reversed table, ldc_w, attribute first; scattered / doubled table; scattered with 300 unused Integers in front) = 31760 class files'),
        dict(name='read_handle_kinds', props=['C01'], tier='quick', timeout=600,
             text='the same for method handles: reference kind, Methodref vs InterfaceMethodref, owner, name and descriptor of a handle are delivered as stored, as bootstrap method, as bootstrap argument and as ldc constant.',
             bound=_H + ' = 1045 classes x ' + _ENC9 + '; 9405 class files'),
        dict(name='read_pool_index_boundaries', props=['C01'], tier='quick', timeout=600,
             text='the same with constant pool indices and bootstrap indices on both sides of 255: ldc with a one-byte index, ldc_w / ldc2_w / invokedynamic with two-byte indices, bootstrap_method_attr_index and argument indices above 255.',
             bound=_P + ' loaded by one ldc x 43 paddings (0, 1, 100, 400, 1000 and every value 225..262 unused Integers in front) x {shortest form, ldc_w} x 3 pool layouts = 2838 class files; ' + _MANY + ' x ' + _ENC9 + ' = 144 class files'),
        dict(name='write_call_sites_and_bootstrap_methods', props=['C02'], tier='quick', timeout=600,
             text='write_class of the tree succeeds; the output is a structurally valid class file (independent strict parser: every index in range and of the right kind, every count and attribute_length exact, no byte left over, '
                  'every bootstrap_method_attr_index below num_bootstrap_methods); the parser reads exactly the model from it (every call site with an equal (handle, arguments) pair); the bootstrap_methods table has one entry per distinct '
                  'bootstrap method of the class and no two entries with equal handle and equal argument indices; read_class of the output states the model again and equals the written tree.',
             bound=_S + ' x 3 tree sources (built directly through the public tree types; read from the file with scattered pool and doubled table; read from the file with reversed table, 260 unused Integers, ldc_w) = 43275 trees'),
        dict(name='write_argument_lists', props=['C02'], tier='quick', timeout=600,
             text='the same for bootstrap arguments of every loadable kind incl. nested Dynamic constants: the nested bootstrap methods are in the table too, each once; +0 / -0 and different NaN payloads stay different entries, equal values share one.',
             bound=_A + ' = 7940 classes x 2 tree sources (built directly; read from the file with scattered pool and doubled table) = 15880 trees'),
        dict(name='write_handle_kinds', props=['C02'], tier='quick', timeout=600,
             text='the same for method handles of all nine kinds as bootstrap method, argument and ldc constant: reference_kind and the tag of the reference in the output are those of the tree; handles that differ in kind or tag only are different bootstrap methods.',
             bound=_H + ' = 1045 classes x 3 tree sources = 3135 trees'),
        dict(name='write_pool_index_boundaries', props=['C02'], tier='quick', timeout=600,
             text='the same when the index of the loaded constant passes 255: the output loads it with an instruction whose operand designates it (ldc only up to 255, ldc_w beyond, ldc2_w for Long / Double / Dynamic J), both forms occur; '
                  'tables with up to 300 bootstrap methods and bootstrap methods with up to 301 arguments are written exactly.',
             bound=_P + ' x (trees built directly with 0..300 filler `ldc Integer; pop` in front, every number = 301 trees, + trees read from files with 43 paddings x {ldc, ldc_w} = 86) = 4257 trees; ' + _MANY + ' x 3 tree sources = 48 trees'),
        dict(name='canary_must_fail', props=[], canary=True, text='must fail', bound=''),
    ])
