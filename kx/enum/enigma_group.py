"""Enumeration group `enigma`: bounded stand-in checks for the Enigma text format at the level of whole two-namespace mapping sets
(harness kx/enum/enigma.rs, property C12; the no-panic clause also C16).

GROUP has exactly the shape of an entry of kx.groups.ENUM_GROUPS (picked up by kx.groups._load_group_files as ENUM_GROUPS['enigma']).

Install: the harness uses `crate::tree::mappings::*`, `crate::tree::names::*`, `crate::enigma_file::*`, `crate::enigma_dir::*` and the
dependencies `duke`, `java_string`, `anyhow` of quill, so it is appended as `#[cfg(test)] mod verif_enum_enigma` to quill/src/lib.rs
(crate quill, cargo target --lib).

Universes (all counts are checked by the `cases=` numbers the tests print):

WIDE, 5184 sets = every set over the 7 class keys A, A$I, A$I$K, A$Z, p/B, p/B$M, d/e/f/G where each key is absent or has one of its
   variants (4*4*3*3*4*3*3): A {no target, X rich, q/X}; A$I {no target rich, J, J rich}; A$I$K {no target, L rich}; A$Z {no target, W};
   p/B {no target, q/r/Y rich, Y}; p/B$M {no target rich, N}; d/e/f/G {no target, G}.  Target names of nested classes follow the nesting
   (prefix = target name of the outer class, its source name where it has none; for an outer class that is absent from the set the
   target name it has elsewhere in the universe).  `rich` = multi-line comment with a leading space, a blank line, `#` characters and a
   trailing space; 4 fields (two of one name, one with non-ASCII names, one with a comment containing `#`), 4 methods (overloads,
   `<init>` named `<init>`, `<clinit>`), 3 parameters (one with a multi-line comment).
   2730 of these sets have no orphan (every nested class has its outer class in the set), 2454 have at least one orphan inner class.
DEEP, 672 sets = 7 comments {none, "", "c", the multi-line comment, "#", " ", line break} x 4 field lists (0, 1, 2 and 5 fields; same
   name / different descriptor, without target name, sort order by source name, target name, descriptor) x 6 method lists (none; one;
   `<init>` named `<init>` with a parameter; `<init>` without target with commented parameters; 4 methods with overloads and parameter
   indices 10, 2, 0; one method with object descriptors and comments on everything) on one class placed as: top-level A without target
   name, top-level A -> X, A$I without / with target name nested in a bare A -> X.
Every set is built twice through the tree API of quill (entries inserted in key order and in reverse order).
"""

_WIDE_OK = ('the 2730 sets of WIDE without orphan inner classes (WIDE = all 5184 sets over the class keys A, A$I, A$I$K, A$Z, p/B, p/B$M, d/e/f/G, each absent or in one of 2-3 variants: '
            'with / without target name, bare / rich content; rich = multi-line comment with leading space, blank line, # and trailing space, 4 fields, 4 methods incl. <init> / <clinit> / overloads, 3 parameters)')
_WIDE_ORPHAN = ('the 2454 sets of WIDE (see stream_write_then_read) in which at least one nested class (A$I, A$I$K, A$Z, p/B$M) has no outer class in the set')
_DEEP = ('the 672 sets of DEEP (7 comments {none, empty, c, multi-line, #, one space, line break} x 4 field lists x 6 method lists on one class that is top-level without target name / '
         'top-level with target name / nested without / nested with target name)')

GROUP = dict(
    crate='quill', file='quill/src/lib.rs', harness_file='enigma.rs',
    functions=['quill/src/enigma_file.rs::read_into', 'quill/src/enigma_file.rs::write_all', 'quill/src/enigma_file.rs::write_one', 'enigma_file::write_all_for_each',
               'enigma_file::figure_out_files', 'enigma_file::write_one_tree_starting_at', 'enigma_file::write_class', 'enigma_file::insert_comment', 'enigma_file::is_modifier',
               'enigma_file::enigma_line::EnigmaLine::new', 'quill/src/enigma_dir.rs::read', 'quill/src/enigma_dir.rs::read_', 'quill/src/enigma_dir.rs::write',
               'quill/src/lines.rs::WithMoreIdentIter::on_every_line / next_level / next'],
    trusted=['Enigma harness (kx/enum/enigma.rs): own model of a two-namespace mapping set as far as the format can express it (classes under their full source name, parameters without '
             'source name), own renderer of the format (canonical = the documented sorted output; noisy = other order, tabs as separators, ACC: modifiers, # remarks, blank lines), own strict '
             'parser; renderer and parser are cross-checked on every set (parse(render(M)) == M).  The quill tree is built through the tree API (add_class / add_field / add_method / add_parameter), '
             'never through a reader; the extractor quill tree -> model walks the pub fields and checks every map key against the entry stored under it.  Provisos of C12 built into the universe: '
             'target names of nested classes follow the nesting; `<init>` named `<init>` equals unnamed; every parameter has a target name and no source name.  Directory tests use '
             'std::env::temp_dir().'],
    tests=[
        dict(name='stream_write_then_read', props=['C12'], tier='quick', timeout=600,
             text='For every set, write_all of the tree built in key order and in reverse order gives the same text, read_into of that text yields exactly the set (same classes under the same source keys, '
                  'target names, fields, methods, parameters, comments line for line; <init> named <init> comes back unnamed), and write(read(write(M))) == write(M).',
             bound=_WIDE_OK + ' + ' + _DEEP + '; 3402 cases'),
        dict(name='stream_write_then_read__orphan_inner', props=['C12'], tier='quick', timeout=600,
             text='The same for sets that contain an inner class whose outer class is absent from the set: it is written and read back under its full source key.',
             bound=_WIDE_ORPHAN + '; 2454 cases'),
        dict(name='stream_written_text_is_sorted_and_nested', props=['C12'], tier='quick', timeout=600,
             text='The text write_all produces is well-formed Enigma for an independent strict parser, which reads it back to the set; it is byte for byte the canonical rendering (files ordered by file name, '
                  'comment, fields, methods ordered by source name, target name, descriptor, parameters by index, nested classes by source name, nesting in the text = source-name nesting); '
                  'write_one(file name) is exactly the part of the stream of that file and refuses names of classes that are nested in a class of the set.',
             bound=_WIDE_OK + ' + ' + _DEEP + '; 3402 cases'),
        dict(name='stream_written_text_is_sorted_and_nested__orphan_inner', props=['C12'], tier='quick', timeout=600,
             text='The same for sets with orphan inner classes: an orphan starts a file of its own and is written with its full source and target name.',
             bound=_WIDE_ORPHAN + '; 2454 cases'),
        dict(name='stream_reads_independent_rendering', props=['C12'], tier='quick', timeout=600,
             text='read_into reads the rendering of the harness into exactly the set, both the canonical text and the same content in another order and spelling (nested classes first, methods before fields, '
                  'reversed, comments after the members, tab separators, ACC: modifiers, trailing # remarks, blank and remark-only lines, <init> spelled out).',
             bound='all 5184 sets of WIDE (orphans included: their text carries the full names) + ' + _DEEP + ', each in 2 renderings; 5856 cases'),
        dict(name='dir_roundtrip', props=['C12'], tier='quick', timeout=900,
             text='enigma_dir::write creates exactly the predicted files (<target name, or source name>.mapping, packages as directories) with the canonical text, independent of the insertion order; every '
                  'class is in exactly one file, the file of its top-level class; enigma_dir::read of the directory yields the set; read of the same files created by the harness in sorted and in reverse '
                  'order (plus a foreign file) yields the set with the same class order.',
             bound=_WIDE_OK + '; 4 directories per case; 2730 cases'),
        dict(name='dir_roundtrip__orphan_inner', props=['C12'], tier='quick', timeout=900,
             text='The same for sets with orphan inner classes (the orphan gets its own file and keeps its full source key).',
             bound=_WIDE_ORPHAN + '; 2454 cases'),
        dict(name='comments_survive', props=['C12'], tier='quick', timeout=600,
             text='A comment put on every kind of entry (class, field, method, parameter, and the same four of a nested class: COMMENT lines at depth 1..5) survives write+read (stream and directory), '
                  'is written canonically and is read from both renderings.',
             bound='all 341 comments of length <= 4 over {a, space, #, line break} on the set {A -> X, A$I -> X$J}, each with one field, one method, one parameter; 4 checks per comment; 341 cases'),
        dict(name='comments_survive__tabs', props=['C12'], tier='quick', timeout=600,
             text='The same for comments that contain a tab character.',
             bound='all 25 comments of length <= 3 over {a, tab, line break} that contain a tab, on the same set; 25 cases'),
        dict(name='stream_write_then_read__shared_file_name', props=['C12'], tier='quick', timeout=600,
             text='Two top-level classes whose file names coincide (target name of one = target or source name of the other) are both written and read back.',
             bound='{A (no target), p/B -> A}, {A -> X, p/B -> X}, {A -> p/B, p/B (no target)}, {A -> q/X, A$I -> q/X$J, p/B -> q/X}, each with bare and with rich classes; 8 cases'),
        dict(name='dir_roundtrip__shared_file_name', props=['C12'], tier='quick', timeout=600,
             text='The same through enigma_dir::write / read: every class is found in exactly one file and the set is read back.',
             bound='the same 8 sets; 8 cases'),
        dict(name='no_panic_on_garbage_lines', props=['C16', 'C12'], tier='quick', timeout=900,
             text='read_into answers Ok or Err on malformed lines without panic and without hanging (20 s watchdog); whatever it accepts is a consistent tree (every map key agrees with its entry) '
                  'that write_all handles without panic.',
             bound='5 contexts (empty; CLASS; CLASS+FIELD; CLASS+METHOD; CLASS+METHOD+ARG) x 6 indentations (0..4 tabs, one space) x 8 first words {CLASS, FIELD, METHOD, ARG, COMMENT, COMMENTX, x, empty} '
                   'x all 2801 argument lists of length <= 4 over {A, a/, (I)V, I, 0, -1, ACC:P} = 672240 documents; plus 5 x 6 x 24 raw lines (invalid UTF-8, multi-byte characters after the indentation, '
                   'control characters, huge / signed / hex indices, # in odd places, `$` and `/` names, NUL) x 4 endings (LF, none, CR LF, LF + COMMENT line) = 2880; 675120 cases'),
        dict(name='canary_must_fail', props=[], canary=True, text='must fail', bound=''),
    ])
