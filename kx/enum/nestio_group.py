"""Enumeration group `nestio`: the nests file parser (dukenest/src/io.rs), bounded stand-in for the C16 clause about the nests parser."""
GROUP = dict(
    crate='dukenest', file='dukenest/src/lib.rs', harness_file='nestio.rs',
    functions=['dukenest/src/io.rs::Nests::read', 'Nests::read_from_reader', 'Nests::read_line', 'Nests::parse_u16_hex_binary_and_decimal'],
    trusted=['nestio harness (kx/enum/nestio.rs): field menus written by hand (empty, ASCII, multi-byte and non-ASCII-digit content in every column), own oracle for the access column (decimal / 0x / 0b u16 in std from_str_radix syntax)'],
    tests=[
        dict(name='nests_read_never_panics_and_reads_the_access_column', props=['C16', 'C14'], tier='quick', timeout=600,
             text='Nests::read returns Ok or Err on every line of the universe, never panics; it accepts a line only when the access column is a decimal, 0x hexadecimal or 0b binary number that fits u16 and then stores exactly that value for the listed class, with the kind (anonymous / local / inner) its inner name says',
             bound='all 7 x 7 x 6 x 10 x 40 = 117 600 lines over hand-written menus for the six tab-separated columns (class, enclosing class, method name / descriptor, inner name, access: empty, well-formed, over- and underflowing numbers, signs, upper-case prefixes, blanks, multi-byte characters at every byte offset up to 2, non-ASCII digits), each as a one-line file, between two well-formed lines and without a final line break; plus lines with 0, 1, 2, 5, 7, 8 fields, invalid UTF-8 and CR LF'),
        dict(name='canary_must_fail', props=[], canary=True, text='must fail', bound=''),
    ])
