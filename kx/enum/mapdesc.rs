	// bounded exhaustive enumeration for map_desc / ARemapper::map_class in quill/src/remapper.rs
	use java_string::{JavaStr, JavaString};
	use duke::tree::class::{ObjClassName, ObjClassNameSlice};
	fn js(b: &[u8]) -> &JavaStr { JavaStr::from_str(std::str::from_utf8(b).unwrap()) }

	/// a two-entry remapper: a -> xy, b -> a ; everything else unmapped (identity fallback)
	struct R;
	impl ARemapper for R {
		fn map_class_fail(&self, class: &ObjClassNameSlice) -> Result<Option<ObjClassName>> {
			Ok(match class.as_inner().as_bytes() {
				b"a" => Some(ObjClassName::try_from(JavaString::from("xy")).unwrap()),
				b"b" => Some(ObjClassName::try_from(JavaString::from("a")).unwrap()),
				_ => None,
			})
		}
	}
	fn o_map(name: &[u8]) -> Vec<u8> { match name { b"a" => b"xy".to_vec(), b"b" => b"a".to_vec(), n => n.to_vec() } }
	/// independent scanner: copy everything, replace the name inside each `L...;`; None = unterminated `L` or empty `L;`
	fn o_map_desc(s: &[u8]) -> Option<Vec<u8>> {
		let mut out = Vec::new();
		let mut i = 0;
		while i < s.len() {
			out.push(s[i]);
			if s[i] == b'L' {
				let j = i + 1 + s[i + 1..].iter().position(|&c| c == b';')?;
				if j == i + 1 { return None; }
				out.extend_from_slice(&o_map(&s[i + 1..j]));
				out.push(b';');
				i = j + 1;
			} else { i += 1; }
		}
		Some(out)
	}
	const ALPHA: &[u8] = b"L;[abI(";

	#[test]
	fn map_desc_rewrites_exactly_the_class_names() {
		let mut t = Tally::new("map_desc_rewrites_exactly_the_class_names");
		for_all_strings(ALPHA, 6, &mut |b| { t.at(b);
			let want = o_map_desc(b);
			t.case(want.as_ref().is_some_and(|w| w != b));
			let owned = b.to_vec();
			// SAFETY (of the harness): map_desc is `unsafe` only because it trusts its input to be a descriptor; feeding arbitrary strings is the point
			match guarded(move || unsafe { map_desc(&R, js(&owned)) }.ok().map(|x| x.as_bytes().to_vec())) {
				Err(()) => t.fail(show(b), "does not terminate"),
				Ok(None) => t.fail(show(b), "panicked"),
				Ok(Some(got)) => if got != want { t.fail(show(b), "output differs from `replace exactly the L...; names, keep everything else`") },
			}
		});
		t.finish();
	}
	/// the same over an alphabet with a two-byte and a three-byte character: byte offsets and character positions differ
	#[test]
	fn map_desc_with_multibyte_names() {
		let mut t = Tally::new("map_desc_with_multibyte_names");
		let syms: [&[u8]; 7] = [b"L", b";", b"[", b"a", "\u{e9}".as_bytes(), "\u{20ac}".as_bytes(), b"I"];
		let mut idx: Vec<usize> = Vec::new();
		fn rec(syms: &[&[u8]; 7], left: usize, idx: &mut Vec<usize>, f: &mut dyn FnMut(&[u8])) {
			let s: Vec<u8> = idx.iter().flat_map(|&i| syms[i].iter().copied()).collect();
			f(&s);
			if left == 0 { return; }
			for i in 0..syms.len() { idx.push(i); rec(syms, left - 1, idx, f); idx.pop(); }
		}
		rec(&syms, 6, &mut idx, &mut |b| { t.at(b);
			let want = o_map_desc(b);
			t.case(want.as_ref().is_some_and(|w| w != b) && !b.is_ascii());
			let owned = b.to_vec();
			match guarded(move || unsafe { map_desc(&R, js(&owned)) }.ok().map(|x| x.as_bytes().to_vec())) {
				Err(()) => t.fail(show(b), "does not terminate"),
				Ok(None) => t.fail(show(b), "panicked"),
				Ok(Some(got)) => if got != want { t.fail(show(b), "output differs from `replace exactly the L...; names, keep everything else`") },
			}
		});
		t.finish();
	}
	#[test]
	fn map_class_identity_fallback() {
		let mut t = Tally::new("map_class_identity_fallback");
		for_all_strings(b"ab/$x", 4, &mut |b| { t.at(b);
			let Ok(n) = ObjClassName::try_from(js(b).to_owned()) else { return; };
			t.case(b == b"a" || b == b"b");
			match R.map_class(&n) { Ok(m) => if m.as_inner().as_bytes() != &o_map(b)[..] { t.fail(show(b), "map_class: mapped name or identity fallback wrong") }, Err(_) => t.fail(show(b), "map_class failed") }
		});
		t.finish();
	}
	#[test]
	fn canary_must_fail() {
		let mut t = Tally::new("canary_must_fail");
		for_all_strings(ALPHA, 2, &mut |b| { t.at(b); t.case(true); let o = b.to_vec(); if guarded(move || unsafe { map_desc(&R, js(&o)) }.is_ok()) != Ok(Some(true)) { t.fail(show(b), "canary"); } });
		t.finish();
	}
