"""Enumeration group `nest`: bounded stand-in checks for dukenest (harness kx/enum/nest.rs, property C14).

GROUP has exactly the shape of an entry of kx.groups.ENUM_GROUPS (picked up by kx.groups._load_group_files as ENUM_GROUPS['nest']).

Install: the harness calls `nest_jar`, `apply_nests_to_mappings`, `undo_nests_to_mappings`, `remap_nests` and uses `Result`, `Jar`, `ParsedJar`,
`ClassRepr`, `Mappings`, `Nests` through `use super::*`, plus `crate::nest::{Nest, NestType}` and the dependencies duke, dukebox, quill, indexmap,
java_string of dukenest: it is appended as `#[cfg(test)] mod verif_enum_nest` to dukenest/src/lib.rs (crate dukenest, cargo target --lib).

Universes (all counts are checked by the `cases=` numbers the tests print):

Jars: classes p/U (never listed; its super class is p/C1), p/H (enclosing class), candidates p/C1..p/Ck; p/M is never in a jar.  Every class
   declares m()V, n(Lp/C1;)V, <init>()V and refers to every class of the pool {p/H, p/M, p/U, java/lang/Object, q/Other$In1, p/C1..p/Ck} as super class /
   interface, NestHost, field types Lx; and [[Lx;, in the descriptor, the Exceptions and the code of a method `refs` (new, checkcast of [Lx;, instanceof, anewarray,
   ldc class, getfield, putstatic, invokevirtual, invokestatic, invokeinterface with descriptors naming x); p/H and p/C2 carry an InnerClasses entry beforehand;
   a directory entry and a resource whose name and content look like class names must survive unchanged.
Tables over k candidates: candidate i is absent or nested in p/H, p/M or an earlier candidate in one of the given variants:
   0 inner, custom name | 1 inner, derived name Ci | 2 inner with an enclosing method that exists (rule: not applied) | 3 inner with a method that does not exist |
   4 local in m()V | 5 local in n(Lp/C1;)V, name 2Ci | 6 local in m(I)V (absent: not applied) | 7 local without method (not applied) | 8 anonymous i | 9 anonymous i in m()V |
   10 anonymous "0" (not applied) | 11 anonymous "xi" (not applied) | 12 anonymous "00i" with an absent method.  Access flags vary over 5 values.
Mapping sets (namespaces a, b): p/U -> t/TU, p/H -> t/TH or absent, candidate i absent / Plain t/Xi / Calamus t/u/C_i7 / PreNested t/TH__Ni; every class with 3 fields and
   3 methods whose descriptors name p/C1, p/C2, p/C3, p/U, p/H, comments and parameters.
All expected results are computed at model level (plain strings); the harness never calls a remapper.
"""

_V13 = 'all 13 variants (inner custom / derived / with existing / absent method; local with existing / class-naming / absent / no method; anonymous with and without method, "0", non-numeric, leading zeros)'

GROUP = dict(
    crate='dukenest', file='dukenest/src/lib.rs', harness_file='nest.rs',
    functions=['dukenest/src/lib.rs::nest_jar', 'dukenest/src/lib.rs::apply_nests_to_mappings', 'dukenest/src/lib.rs::undo_nests_to_mappings', 'dukenest/src/lib.rs::remap_nests',
               'dukenest/src/nester_jar.rs::nest_jar', 'nester_jar::nest_jar::remap', 'nester_jar::do_nested_class_attribute_class_visitor', 'nester_jar::strip_local_class_prefix',
               'dukenest/src/nester_run.rs::apply_nests_to_mappings', 'dukenest/src/nester_run.rs::undo_nests_to_mappings', 'nester_run::MyRemapper::new / build_translation',
               'nester_run::replace_double_underscore_with_dollar', 'dukenest/src/nests_mapper_run.rs::map_nests', 'nests_mapper_run::inner_name', 'nests_mapper_run::NestTypeA::new',
               'nests_mapper_run::rsplit_underscore', 'nests_mapper_run::construct_inner_name_from_anonymous_number', 'dukenest/src/nest.rs::Nests::add',
               'dukebox/src/remap.rs::remap_class (as called by nest_jar)', 'dukebox/src/remap.rs::remap_jar_entry_name / remap_jar_entry_name_java'],
    trusted=['nest harness (kx/enum/nest.rs): own models of a jar (class name, version, methods, references), of a nests table and of a two-namespace mapping set; own generator of duke class trees from '
             'the model with the renaming applied at model level; the jar oracle is written from the statement of C14 (applied iff present and the rule of the kind holds: anonymous = decimal number >= 1, '
             'inner = enclosing method not declared by the enclosing class, local = declared; name = Enclosing$Inner transitively over applied nests; InnerClasses entry per JVMS 4.7.6 with outer class only '
             'for members, inner name without the digit prefix for locals, none for anonymous; EnclosingMethod for anonymous and local; a missing enclosing class of an applied nest must be created, of a listed '
             'but not applied nest may be created, as an empty top-level class).  The translation oracle: names of the target namespace; a target name Outer__Inner is taken as already nested; a derived inner name '
             '(the simple name of the class, or the part after its last `$`) becomes the simple name of the mapped class, a Calamus name C_<n> gives the anonymous index n, a custom name stays.  '
             'Mapping sets reach the real code through quill::tiny_v2::read of text rendered by the harness.  Classes are identified across renaming by SourceFile / class comment marks.'],
    tests=[
        dict(name='jar_nesting_wide', props=['C14'], tier='thorough', timeout=1200,
             text='nest_jar(remap = true) renames exactly the listed classes that are present and satisfy the rule of their kind to Enclosing$Inner (transitively), stores them under the new entry name, rewrites '
                  'every reference (super class, interfaces, NestHost, field and method descriptors, Exceptions, all instruction operands, the old InnerClasses entry), adds the InnerClasses entry (and EnclosingMethod '
                  'for anonymous and local classes, its method descriptor rewritten), creates a missing enclosing class as an empty class entry, keeps every other entry byte for byte and adds nothing else.',
             bound='jar {p/U, p/H, p/C1, p/C2, p/C3}; all 57240 tables over 3 candidates x enclosing class p/H / p/M (missing) / an earlier candidate x ' + _V13 + '; 57240 cases'),
        dict(name='jar_nesting_deep', props=['C14'], tier='thorough', timeout=1200,
             text='The same for chains of depth up to 4, with the rows of the table in reverse order (inner classes listed before their enclosing classes).',
             bound='jar {p/U, p/H, p/C1..p/C4}; all 41769 tables over 4 candidates x enclosing class p/H / p/M / an earlier candidate x 4 variants (inner derived, inner with existing method = not applied, local in n(Lp/C1;)V, anonymous in m()V), rows reversed; 41769 cases'),
        dict(name='jar_nesting_absent_classes', props=['C14'], tier='quick', timeout=600,
             text='The same when listed classes are missing from the jar: their nests are not applied, references to them stay, nests of present classes are applied; rows in both orders.',
             bound='8 jars {p/U, p/H} + every subset of {p/C1, p/C2, p/C3} x all 315 tables over 3 candidates with variants {inner custom, anonymous in m()V}, each table also reversed; without the combinations '
                   'of jar_nesting_absent_classes__listed_class_missing_but_enclosing; 4168 cases'),
        dict(name='jar_nesting_absent_classes__listed_class_missing_but_enclosing', props=['C14'], tier='quick', timeout=600,
             text='The same for the combinations in which a listed class that is missing from the jar is (transitively) the enclosing class of a listed class that is present: the missing class is not renamed '
                  '(it is not present), it is created as an empty class, the present class is nested into it under its listed name; the result does not depend on the order of the rows.',
             bound='the 720 (jar, table, row order) combinations of that universe with a missing listed class enclosing a present listed class; 720 cases'),
        dict(name='jar_attributes_without_renaming', props=['C14'], tier='quick', timeout=600,
             text='nest_jar(remap = false) adds exactly the same InnerClasses / EnclosingMethod attributes and created classes and changes no name anywhere.',
             bound='the 4168 combinations of jar_nesting_absent_classes + jar {p/U, p/H, p/C1, p/C2} x all 1080 tables over 2 candidates x ' + _V13 + '; 5248 cases'),
        dict(name='jar_nesting_wide__generic_signatures', props=['C14'], tier='quick', timeout=600,
             text='References inside generic Signature attributes (class, field, method) are rewritten like every other reference.',
             bound='jar {p/U, p/H, p/C1, p/C2} with a class, a field and a method signature naming every class of the pool; all 117 tables over 2 candidates x variants {inner custom, local in n(Lp/C1;)V, anonymous in m()V, anonymous "0"}; 117 cases'),
        dict(name='jar_nesting_wide__anonymous_index_beyond_i32', props=['C14'], tier='quick', timeout=600,
             text='An anonymous nest whose inner name is a positive decimal number is applied also when the number does not fit 32 bits.',
             bound='inner names 2147483647, 2147483648, 4294967297, 99999999999999999999 x enclosing class p/H / p/M x with / without enclosing method; 16 cases'),
        dict(name='translate_nests', props=['C14'], tier='quick', timeout=600,
             text='remap_nests keeps every nest and expresses class, enclosing class, enclosing method (name through the mappings of the enclosing class, descriptor rewritten) and inner name in the target namespace: '
                  'unmapped names stay, Outer__Inner target names are split, derived inner names follow the mapped simple name (digit prefix kept), Calamus names C_<n> give anonymous index n, custom names stay; kind and access flags unchanged.',
             bound='24 mapping sets (p/H mapped or not x p/C1 absent / Plain / Calamus / PreNested x p/C2 absent / Plain / PreNested; p/C3 Plain) x (39 single nests: p/C1 in p/H / p/M / p/C2 x 13 variants '
                   '+ the 1952 tables with at least 2 rows over 3 candidates x variants {inner custom, inner derived, local 2Ci in n(Lp/C1;)V, anonymous in m()V}); 47784 cases'),
        dict(name='translate_nests_dollar_source_names', props=['C14'], tier='quick', timeout=600,
             text='For a source name that is itself a nested name (p/H$C1) the derived inner name is the part after the `$`; it is translated like a derived name, custom names stay.',
             bound='class p/H$C1 -> t/TH$X1 / t/X1 / t/u/C_17, p/H mapped or not, 5 nests (inner C1, inner Cu, local 3C1, local 3Cu, anonymous 5); 30 cases'),
        dict(name='translate_nests__custom_name_that_is_a_suffix', props=['C14'], tier='quick', timeout=600,
             text='A custom inner name that merely is a proper suffix of the class name (In for p/XIn, c for p/abc, 1Lo for p/XLo, 7bc for p/q/abc) is a custom name and stays.',
             bound='5 classes (p/XIn/In, p/C12/C2, p/abc/c, p/XLo/1Lo, p/q/abc/7bc) x target t/Y / t/u/C_99; 10 cases'),
        dict(name='mappings_apply_and_undo', props=['C14'], tier='thorough', timeout=1200,
             text='apply_nests_to_mappings renames every listed class in the source namespace to its nested name (all rows, no filter), carries out the translated table in the target namespace, rewrites field and method '
                  'descriptors (source namespace) and touches nothing else (member names, comments, parameters); undo_nests_to_mappings of the result restores source names and descriptors.',
             bound='all 1989 tables over 3 candidates x variants {inner custom, inner derived, local 2Ci in n(Lp/C1;)V, anonymous in m()V} x 62 mapping sets (p/H mapped or not x (27 shape triples over Plain / Calamus / PreNested '
                   '+ 3 sets with one candidate absent + 1 with all absent)); 123318 cases'),
        dict(name='jar_and_mappings_agree', props=['C14'], tier='quick', timeout=900,
             text='For tables whose entries all apply to the jar, the real nest_jar and the real apply_nests_to_mappings give every class (identified by SourceFile / comment marks, the created enclosing class included) the same name, '
                  'and every jar entry is stored under the name of the class it holds. The same rows in the opposite order (inner nests listed before their enclosing nests) give the mappings the same names.',
             bound='jar {p/U, p/H, p/C1..p/C4}, mappings for all of them and for p/M; the 9570 tables over 3 candidates x 7 variants {0, 1, 3, 5, 8, 9, 12} + the 3150 tables over 4 candidates x {inner derived, anonymous in m()V} that list p/C4; '
                   '1338 tables with an entry that does not apply are skipped; 11382 cases'),
        # outside the text of C14 (a cyclic table has no nested names at all): kept in the harness as a robustness probe, not an obligation of any property
        dict(name='cyclic_table_returns', props=[], tier='thorough', timeout=600,
             text='(robustness probe, not part of C14) On a cyclic table nest_jar, apply_nests_to_mappings, undo_nests_to_mappings and remap_nests return Ok or Err: no unbounded recursion (stack overflow kills the process), no hang; each call runs in a child process.',
             bound='4 functions x 4 cyclic tables (self loop; two classes; three classes of all kinds; a tail leading into a two-cycle); 16 cases'),
        dict(name='canary_must_fail', props=[], canary=True, text='must fail', bound=''),
    ])
