	// bounded exhaustive enumeration for duke/src/tree/descriptor.rs (appended to that file in the scratch copy)
	use crate::tree::field::FieldDescriptorSlice;
	use crate::tree::method::MethodDescriptorSlice;
	use java_string::JavaStr;

	// ---- independent recogniser of JVMS 4.3.2 / 4.3.3 (written from the grammar, shares nothing with duke) ----
	fn o_unqualified(s: &[u8]) -> bool { !s.is_empty() && !s.iter().any(|&c| c == b'.' || c == b';' || c == b'[' || c == b'/') }
	fn o_class_name(s: &[u8]) -> bool { s.split(|&c| c == b'/').all(o_unqualified) }
	/// FieldType starting at i: index after it, and its category-2 flag (long/double, not array)
	fn o_field_type(s: &[u8], mut i: usize) -> Option<(usize, bool)> {
		let mut dims = 0usize;
		while i < s.len() && s[i] == b'[' { dims += 1; i += 1; }
		if dims > 255 || i >= s.len() { return None; }
		match s[i] {
			b'D' | b'J' => Some((i + 1, dims == 0)),
			b'B' | b'C' | b'F' | b'I' | b'S' | b'Z' => Some((i + 1, false)),
			b'L' => {
				let j = i + 1 + s[i + 1..].iter().position(|&c| c == b';')?;
				if o_class_name(&s[i + 1..j]) { Some((j + 1, false)) } else { None }
			},
			_ => None,
		}
	}
	fn o_field_descriptor(s: &[u8]) -> bool { o_field_type(s, 0).map(|x| x.0) == Some(s.len()) }
	fn o_return_descriptor(s: &[u8]) -> bool { s == b"V" || o_field_descriptor(s) }
	/// Some(number of argument slots incl. `this`) for a well-formed method descriptor
	fn o_method_descriptor(s: &[u8]) -> Option<u32> {
		if s.first() != Some(&b'(') { return None; }
		let mut i = 1;
		let mut slots = 1u32;
		loop {
			if i >= s.len() { return None; }
			if s[i] == b')' { i += 1; break; }
			let (j, wide) = o_field_type(s, i)?;
			slots += if wide { 2 } else { 1 };
			i = j;
		}
		if o_return_descriptor(&s[i..]) { Some(slots) } else { None }
	}
	fn js(b: &[u8]) -> &JavaStr { JavaStr::from_str(std::str::from_utf8(b).unwrap()) }

	const ALPHA: &[u8] = b"IJL;[/aV.()";

	#[test]
	fn field_desc_grammar() {
		let mut t = Tally::new("field_desc_grammar");
		for_all_strings(ALPHA, 5, &mut |b| { t.at(b);
			let expect = o_field_descriptor(b);
			t.case(expect);
			let owned = b.to_vec();
			// SAFETY: check_valid of the descriptor newtypes accepts every string; `parse` is the function under test
			match guarded(move || { let d = unsafe { FieldDescriptorSlice::from_inner_unchecked(js(&owned)) }; d.parse().ok().map(|p| p.write().as_inner().as_bytes().to_vec()) }) {
				Err(()) => t.fail(show(b), "does not terminate"),
				Ok(None) => t.fail(show(b), "panicked (parse or write)"),
				Ok(Some(None)) => if expect { t.fail(show(b), "rejected a string of the grammar") },
				Ok(Some(Some(w))) => {
					if !expect { t.fail(show(b), "accepted a string outside the grammar"); }
					else if w != b { t.fail(show(b), "write(parse(s)) != s"); }
				},
			}
		});
		t.finish();
	}
	#[test]
	fn return_desc_grammar() {
		let mut t = Tally::new("return_desc_grammar");
		for_all_strings(ALPHA, 5, &mut |b| { t.at(b);
			let expect = o_return_descriptor(b);
			t.case(expect);
			let owned = b.to_vec();
			match guarded(move || { let d = unsafe { ReturnDescriptorSlice::from_inner_unchecked(js(&owned)) }; d.parse().ok().map(|p| p.write().as_inner().as_bytes().to_vec()) }) {
				Err(()) => t.fail(show(b), "does not terminate"),
				Ok(None) => t.fail(show(b), "panicked (parse or write)"),
				Ok(Some(None)) => if expect { t.fail(show(b), "rejected a string of the grammar") },
				Ok(Some(Some(w))) => {
					if !expect { t.fail(show(b), "accepted a string outside the grammar"); }
					else if w != b { t.fail(show(b), "write(parse(s)) != s"); }
				},
			}
		});
		t.finish();
	}
	const MALPHA: &[u8] = b"()IJL;[aV";
	#[test]
	fn method_desc_grammar() {
		let mut t = Tally::new("method_desc_grammar");
		for_all_strings(MALPHA, 6, &mut |b| { t.at(b);
			let expect = o_method_descriptor(b).is_some();
			t.case(expect);
			let owned = b.to_vec();
			match guarded(move || { let d = unsafe { MethodDescriptorSlice::from_inner_unchecked(js(&owned)) }; d.parse().ok().map(|p| p.write().as_inner().as_bytes().to_vec()) }) {
				Err(()) => t.fail(show(b), "does not terminate"),
				Ok(None) => t.fail(show(b), "panicked (parse or write)"),
				Ok(Some(None)) => if expect { t.fail(show(b), "rejected a string of the grammar") },
				Ok(Some(Some(w))) => {
					if !expect { t.fail(show(b), "accepted a string outside the grammar"); }
					else if w != b { t.fail(show(b), "write(parse(s)) != s"); }
				},
			}
		});
		t.finish();
	}
	/// get_arguments_size: never panics, never loops; on well-formed descriptors it is 1 + slots (2 for long/double)
	#[test]
	fn arguments_size() {
		let mut t = Tally::new("arguments_size");
		for_all_strings(MALPHA, 6, &mut |b| { t.at(b);
			let expect = o_method_descriptor(b);
			t.case(expect.is_some());
			let owned = b.to_vec();
			match guarded(move || { let d = unsafe { MethodDescriptorSlice::from_inner_unchecked(js(&owned)) }; d.get_arguments_size().ok() }) {
				Err(()) => t.fail(show(b), "does not terminate"),
				Ok(None) => t.fail(show(b), "panicked"),
				Ok(Some(r)) => if let Some(e) = expect { if r.map(|x| x as u32) != Some(e) { t.fail(show(b), "wrong argument size"); } },
			}
		});
		t.finish();
	}
	/// the 255-dimension cap: `[`^n X parses iff n <= 255, and prints back
	#[test]
	fn dimension_boundary() {
		let mut t = Tally::new("dimension_boundary");
		for n in [0usize, 1, 2, 127, 128, 253, 254, 255, 256, 257, 300, 511, 512, 600] {
			for base in [&b"I"[..], b"La;", b"J"] {
				let mut b = vec![b'['; n];
				b.extend_from_slice(base);
				let expect = n <= 255;
				t.case(expect);
				let owned = b.clone();
				match guarded(move || { let d = unsafe { FieldDescriptorSlice::from_inner_unchecked(js(&owned)) }; d.parse().ok().map(|p| p.write().as_inner().as_bytes().to_vec()) }) {
					Err(()) => t.fail(format!("'['x{n}+{}", show(base)), "does not terminate"),
					Ok(None) => t.fail(format!("'['x{n}+{}", show(base)), "panicked"),
					Ok(Some(None)) => if expect { t.fail(format!("'['x{n}+{}", show(base)), "rejected an array type with <= 255 dimensions") },
					Ok(Some(Some(w))) => {
						if !expect { t.fail(format!("'['x{n}+{}", show(base)), "accepted more than 255 dimensions"); }
						else if w != b { t.fail(format!("'['x{n}+{}", show(base)), "write(parse(s)) != s"); }
					},
				}
				// the same descriptor as method parameter and return type
				let mut m = b"(".to_vec(); m.extend_from_slice(&b); m.push(b')'); m.extend_from_slice(&b);
				let owned = m.clone();
				match guarded(move || { let d = unsafe { MethodDescriptorSlice::from_inner_unchecked(js(&owned)) }; d.parse().ok().map(|p| p.write().as_inner().as_bytes().to_vec()) }) {
					Ok(Some(r)) => if r.is_some() != expect || (expect && r.as_deref() != Some(&m[..])) { t.fail(format!("method '['x{n}+{}", show(base)), "method descriptor boundary/round trip wrong") },
					_ => t.fail(format!("method '['x{n}+{}", show(base)), "panicked or hung"),
				}
			}
		}
		t.finish();
	}
	/// parse(write(t)) == t for a family of type structures
	#[test]
	fn print_then_parse() {
		use crate::tree::class::{ClassName, ObjClassName};
		let mut t = Tally::new("print_then_parse");
		let mut types = vec![Type::B, Type::C, Type::D, Type::F, Type::I, Type::J, Type::S, Type::Z];
		for n in ["a", "a/b", "a$b", "L", "La"] {
			types.push(Type::Object(ObjClassName::try_from(JavaStr::from_str(n).to_owned()).unwrap()));
		}
		for d in [1u8, 2, 3, 254, 255] {
			for at in [ArrayType::B, ArrayType::C, ArrayType::D, ArrayType::F, ArrayType::I, ArrayType::J, ArrayType::S, ArrayType::Z,
				ArrayType::Object(ClassName::try_from(JavaStr::from_str("a/b").to_owned()).unwrap())] {
				types.push(Type::Array(d, at));
			}
		}
		for ty in types {
			t.case(true);
			let p = ParsedFieldDescriptor(ty.clone());
			let back = p.write().parse();
			if !matches!(&back, Ok(q) if *q == p) { t.fail(format!("{ty:?}"), "parse(write(t)) != t"); }
			let r = ParsedReturnDescriptor(Some(ty.clone()));
			if !matches!(r.write().parse(), Ok(q) if q == r) { t.fail(format!("{ty:?}"), "return: parse(write(t)) != t"); }
			let m = ParsedMethodDescriptor { parameter_descriptors: vec![ty.clone(), Type::I, ty.clone()], return_descriptor: Some(ty.clone()) };
			if !matches!(m.write().parse(), Ok(q) if q == m) { t.fail(format!("{ty:?}"), "method: parse(write(t)) != t"); }
		}
		let v = ParsedReturnDescriptor(None);
		t.case(true);
		if !matches!(v.write().parse(), Ok(q) if q == v) { t.fail("V".into(), "void return does not round trip"); }
		t.finish();
	}
	#[test]
	fn canary_must_fail() {
		let mut t = Tally::new("canary_must_fail");
		for_all_strings(ALPHA, 2, &mut |b| { t.at(b);
			t.case(true);
			let owned = b.to_vec();
			// deliberately wrong claim: every string parses
			if guarded(move || unsafe { FieldDescriptorSlice::from_inner_unchecked(js(&owned)) }.parse().is_ok()) != Ok(Some(true)) { t.fail(show(b), "canary"); }
		});
		t.finish();
	}
