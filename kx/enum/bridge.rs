	// =====================================================================================================================
	// bounded exhaustive enumeration for the bridge-method pass (src/specialized_methods/mod.rs): property C15
	//
	// Every case is a MODEL: a main jar (classes with super class / interfaces, methods with flags, descriptor and the list of
	// methods the body invokes), library jars, the official -> intermediary mapping set ("calamus") and the intermediary -> named
	// mapping set.  The harness generates the class files byte by byte (own generator, JVMS 4.1 - 4.7.3), renders both mapping
	// sets as Tiny v2 text, runs the REAL `add_specialized_methods_to_mappings` and compares the returned mappings, entry by
	// entry, with what the property statement demands (`expected`).  Nothing of the oracle calls into the code under test.
	// =====================================================================================================================
	use std::collections::{BTreeMap, BTreeSet};
	use dukebox::storage::{BasicFileAttributes, ClassRepr, JarEntryEnum, ParsedJar, ParsedJarEntry};

	// ---------------------------------------------------------------------------------------------------------------------
	// model of a jar
	// ---------------------------------------------------------------------------------------------------------------------
	#[derive(Clone, Debug, PartialEq, Eq, PartialOrd, Ord)]
	struct MRef { owner: String, name: String, desc: String }
	fn mref(owner: &str, name: &str, desc: &str) -> MRef { MRef { owner: owner.to_owned(), name: name.to_owned(), desc: desc.to_owned() } }
	#[derive(Clone, Copy, Debug, PartialEq, Eq)]
	enum Inv { Virtual, Special, Static, Interface }
	#[derive(Clone, Copy, Debug, PartialEq, Eq, Default)]
	struct Fl { synthetic: bool, bridge: bool, private: bool, stat: bool, fin: bool }
	/// body: None = no Code attribute (abstract method); Some(calls) = a Code attribute invoking exactly these methods in this order
	#[derive(Clone, Debug)]
	struct MMethod { name: String, desc: String, fl: Fl, body: Option<Vec<(Inv, MRef)>> }
	#[derive(Clone, Debug)]
	struct MClass { name: String, sup: Option<String>, itfs: Vec<String>, interface: bool, methods: Vec<MMethod> }
	#[derive(Clone, Debug, Default)]
	struct MJar { classes: Vec<MClass> }

	fn meth(name: &str, desc: &str, fl: Fl, body: Option<Vec<(Inv, MRef)>>) -> MMethod { MMethod { name: name.to_owned(), desc: desc.to_owned(), fl, body } }
	fn class(name: &str, sup: &str, itfs: &[&str], methods: Vec<MMethod>) -> MClass {
		MClass { name: name.to_owned(), sup: Some(sup.to_owned()), itfs: itfs.iter().map(|x| (*x).to_owned()).collect(), interface: false, methods }
	}
	fn interface(name: &str, itfs: &[&str], methods: Vec<MMethod>) -> MClass {
		MClass { name: name.to_owned(), sup: Some(OBJECT.to_owned()), itfs: itfs.iter().map(|x| (*x).to_owned()).collect(), interface: true, methods }
	}
	const OBJECT: &str = "java/lang/Object";
	const SYN: Fl = Fl { synthetic: true, bridge: false, private: false, stat: false, fin: false };
	const SYN_BRIDGE: Fl = Fl { synthetic: true, bridge: true, private: false, stat: false, fin: false };
	const PLAIN: Fl = Fl { synthetic: false, bridge: false, private: false, stat: false, fin: false };

	impl MJar {
		fn show(&self) -> String {
			let mut o = String::new();
			// classes with a synthetic method first (messages are cut after 600 characters)
			let mut order: Vec<&MClass> = self.classes.iter().filter(|c| c.methods.iter().any(|m| m.fl.synthetic)).collect();
			order.extend(self.classes.iter().filter(|c| !c.methods.iter().any(|m| m.fl.synthetic)));
			for c in order {
				o += &format!("{} {} extends {}", if c.interface { "interface" } else { "class" }, c.name, c.sup.as_deref().unwrap_or("-"));
				if !c.itfs.is_empty() { o += &format!(" implements {}", c.itfs.join(",")); }
				o += " {";
				for m in &c.methods {
					let f = m.fl;
					o += &format!(" {}{}{}{}{}{}{}", if f.synthetic { "synthetic " } else { "" }, if f.bridge { "bridge " } else { "" }, if f.private { "private " } else { "" },
						if f.stat { "static " } else { "" }, if f.fin { "final " } else { "" }, m.name, m.desc);
					match &m.body {
						None => o += " <no code>;",
						Some(calls) => { o += " calls ["; for (k, r) in calls { o += &format!("{k:?} {}.{}{} ", r.owner, r.name, r.desc); } o += "];"; },
					}
				}
				o += " } ";
			}
			o
		}
	}

	// ---------------------------------------------------------------------------------------------------------------------
	// class file generator (JVMS 4.1: ClassFile; 4.4: constant pool; 4.6: method_info; 4.7.3: Code)
	// ---------------------------------------------------------------------------------------------------------------------
	#[derive(Default)]
	struct Pool { items: Vec<Vec<u8>>, index: BTreeMap<Vec<u8>, u16> }
	impl Pool {
		fn add(&mut self, bytes: Vec<u8>) -> u16 {
			if let Some(i) = self.index.get(&bytes) { return *i; }
			self.items.push(bytes.clone());
			let i = self.items.len() as u16;
			self.index.insert(bytes, i);
			i
		}
		fn utf8(&mut self, s: &str) -> u16 { assert!(s.is_ascii()); let mut b = vec![1u8]; b.extend((s.len() as u16).to_be_bytes()); b.extend(s.as_bytes()); self.add(b) }
		fn class(&mut self, n: &str) -> u16 { let u = self.utf8(n); let mut b = vec![7u8]; b.extend(u.to_be_bytes()); self.add(b) }
		fn name_and_type(&mut self, n: &str, d: &str) -> u16 { let (n, d) = (self.utf8(n), self.utf8(d)); let mut b = vec![12u8]; b.extend(n.to_be_bytes()); b.extend(d.to_be_bytes()); self.add(b) }
		fn method(&mut self, interface: bool, r: &MRef) -> u16 {
			let (c, nt) = (self.class(&r.owner), self.name_and_type(&r.name, &r.desc));
			let mut b = vec![if interface { 11u8 } else { 10u8 }]; b.extend(c.to_be_bytes()); b.extend(nt.to_be_bytes()); self.add(b)
		}
	}
	fn class_bytes(c: &MClass) -> Vec<u8> {
		let mut p = Pool::default();
		let this = p.class(&c.name);
		let sup = c.sup.as_ref().map(|s| p.class(s)).unwrap_or(0);
		let itfs: Vec<u16> = c.itfs.iter().map(|i| p.class(i)).collect();
		let code_name = p.utf8("Code");
		let mut methods: Vec<u8> = Vec::new();
		for m in &c.methods {
			let mut acc: u16 = if m.fl.private { 0x0002 } else { 0x0001 };
			if m.fl.stat { acc |= 0x0008; }
			if m.fl.fin { acc |= 0x0010; }
			if m.fl.bridge { acc |= 0x0040; }
			if m.fl.synthetic { acc |= 0x1000; }
			if m.body.is_none() { acc |= 0x0400; }
			methods.extend(acc.to_be_bytes());
			methods.extend(p.utf8(&m.name).to_be_bytes());
			methods.extend(p.utf8(&m.desc).to_be_bytes());
			match &m.body {
				None => methods.extend(0u16.to_be_bytes()),
				Some(calls) => {
					let mut code: Vec<u8> = vec![0x2a]; // aload_0
					for (kind, r) in calls {
						let idx = p.method(*kind == Inv::Interface, r).to_be_bytes();
						match kind {
							Inv::Virtual => code.extend([0xb6, idx[0], idx[1]]),
							Inv::Special => code.extend([0xb7, idx[0], idx[1]]),
							Inv::Static => code.extend([0xb8, idx[0], idx[1]]),
							Inv::Interface => code.extend([0xb9, idx[0], idx[1], 1, 0]),
						}
					}
					code.push(0xb1); // return
					methods.extend(1u16.to_be_bytes());
					methods.extend(code_name.to_be_bytes());
					methods.extend(((2 + 2 + 4 + code.len() + 2 + 2) as u32).to_be_bytes());
					methods.extend(4u16.to_be_bytes()); // max_stack
					methods.extend(4u16.to_be_bytes()); // max_locals
					methods.extend((code.len() as u32).to_be_bytes());
					methods.extend(&code);
					methods.extend(0u16.to_be_bytes()); // exception_table_length
					methods.extend(0u16.to_be_bytes()); // attributes_count
				},
			}
		}
		let mut o: Vec<u8> = vec![0xca, 0xfe, 0xba, 0xbe, 0, 0, 0, 52];
		o.extend(((p.items.len() + 1) as u16).to_be_bytes());
		for i in &p.items { o.extend(i); }
		o.extend((if c.interface { 0x0601u16 } else { 0x0021u16 }).to_be_bytes());
		o.extend(this.to_be_bytes());
		o.extend(sup.to_be_bytes());
		o.extend((itfs.len() as u16).to_be_bytes());
		for i in &itfs { o.extend(i.to_be_bytes()); }
		o.extend(0u16.to_be_bytes()); // fields
		o.extend((c.methods.len() as u16).to_be_bytes());
		o.extend(&methods);
		o.extend(0u16.to_be_bytes()); // attributes
		o
	}
	fn build_jar(j: &MJar) -> ParsedJar<ClassRepr, Vec<u8>> {
		let mut entries = IndexMap::new();
		entries.insert("META-INF/MANIFEST.MF".to_owned(), ParsedJarEntry { attr: BasicFileAttributes::default(), content: JarEntryEnum::Other(b"Manifest-Version: 1.0\n".to_vec()) });
		for c in &j.classes {
			entries.insert(format!("{}.class", c.name), ParsedJarEntry { attr: BasicFileAttributes::default(), content: JarEntryEnum::Class(ClassRepr::Vec { data: class_bytes(c) }) });
		}
		ParsedJar { entries }
	}

	// ---------------------------------------------------------------------------------------------------------------------
	// model of a two-namespace mapping set; keys are (descriptor, name) in the first namespace
	// ---------------------------------------------------------------------------------------------------------------------
	type Key = (String, String);
	#[derive(Clone, Debug, PartialEq, Eq, Default)]
	struct Ent { name: Option<String>, comment: Option<String> }
	#[derive(Clone, Debug, PartialEq, Eq, Default)]
	struct PEnt { names: [Option<String>; 2], comment: Option<String> }
	#[derive(Clone, Debug, PartialEq, Eq, Default)]
	struct MapMethod { e: Ent, params: BTreeMap<usize, PEnt> }
	#[derive(Clone, Debug, PartialEq, Eq, Default)]
	struct MapClass { e: Ent, fields: BTreeMap<Key, Ent>, methods: BTreeMap<Key, MapMethod> }
	#[derive(Clone, Debug, PartialEq, Eq, Default)]
	struct MapSet { classes: BTreeMap<String, MapClass> }

	fn key(desc: &str, name: &str) -> Key { (desc.to_owned(), name.to_owned()) }
	fn named(n: &str) -> Ent { Ent { name: Some(n.to_owned()), comment: None } }
	impl MapSet {
		fn class(&mut self, k: &str, name: &str) -> &mut MapClass {
			self.classes.entry(k.to_owned()).or_insert_with(|| MapClass { e: named(name), ..Default::default() })
		}
		/// compact, complete: key=name /*comment*/ { f name:desc=name; name desc=name p<index>=<first>/<second>; }
		fn show(&self) -> String {
			let n = |x: &Option<String>| x.clone().unwrap_or("-".to_owned());
			let c = |x: &Option<String>| x.as_ref().map(|c| format!(" /*{c}*/")).unwrap_or_default();
			let mut o = String::new();
			for (k, cl) in &self.classes {
				o += &format!("{k}={}{} {{", n(&cl.e.name), c(&cl.e.comment));
				for ((d, f), e) in &cl.fields { o += &format!(" f {f}:{d}={}{};", n(&e.name), c(&e.comment)); }
				for ((d, m), e) in &cl.methods {
					o += &format!(" {m}{d}={}{}", n(&e.e.name), c(&e.e.comment));
					for (i, p) in &e.params { o += &format!(" p{i}={}/{}{}", n(&p.names[0]), n(&p.names[1]), c(&p.comment)); }
					o += ";";
				}
				o += " } ";
			}
			o
		}
		fn render(&self, ns: [&str; 2]) -> String {
			let col = |n: &Option<String>| n.clone().unwrap_or_default();
			let mut o = format!("tiny\t2\t0\t{}\t{}\n", ns[0], ns[1]);
			for (k, c) in &self.classes {
				o += &format!("c\t{k}\t{}\n", col(&c.e.name));
				if let Some(x) = &c.e.comment { o += &format!("\tc\t{x}\n"); }
				for ((d, n), f) in &c.fields {
					o += &format!("\tf\t{d}\t{n}\t{}\n", col(&f.name));
					if let Some(x) = &f.comment { o += &format!("\t\tc\t{x}\n"); }
				}
				for ((d, n), m) in &c.methods {
					o += &format!("\tm\t{d}\t{n}\t{}\n", col(&m.e.name));
					if let Some(x) = &m.e.comment { o += &format!("\t\tc\t{x}\n"); }
					for (i, p) in &m.params {
						o += &format!("\t\tp\t{i}\t{}\t{}\n", col(&p.names[0]), col(&p.names[1]));
						if let Some(x) = &p.comment { o += &format!("\t\t\tc\t{x}\n"); }
					}
				}
			}
			o
		}
	}
	/// reads the tree the real code returned (public fields of quill::tree::mappings) into the model; every map key must agree with the entry it holds
	fn walk<Ns>(m: &Mappings<2, Ns>) -> Result<MapSet, String> {
		fn s<T: ToString>(o: &Option<T>) -> Option<String> { o.as_ref().map(|x| x.to_string()) }
		let mut out = MapSet::default();
		if m.javadoc.is_some() { return Err("a comment appeared on the mapping set itself".to_owned()); }
		for (ck, c) in &m.classes {
			let n: &[Option<ObjClassName>; 2] = (&c.info.names).into();
			if s(&n[0]) != Some(ck.to_string()) { return Err(format!("class stored under key {ck} has first name {:?}", n[0])); }
			let mut mc = MapClass { e: Ent { name: s(&n[1]), comment: c.javadoc.as_ref().map(|j| j.0.clone()) }, ..Default::default() };
			for (fk, f) in &c.fields {
				let n: &[Option<FieldName>; 2] = (&f.info.names).into();
				if s(&n[0]) != Some(fk.name.to_string()) || fk.desc != f.info.desc { return Err(format!("field stored under key {fk:?} is {:?}", f.info)); }
				mc.fields.insert(key(&f.info.desc.to_string(), &fk.name.to_string()), Ent { name: s(&n[1]), comment: f.javadoc.as_ref().map(|j| j.0.clone()) });
			}
			for (mk, me) in &c.methods {
				let n: &[Option<MethodName>; 2] = (&me.info.names).into();
				if s(&n[0]) != Some(mk.name.to_string()) || mk.desc != me.info.desc { return Err(format!("method stored under key {mk:?} in class {ck} is {:?}", me.info)); }
				let mut mm = MapMethod { e: Ent { name: s(&n[1]), comment: me.javadoc.as_ref().map(|j| j.0.clone()) }, params: BTreeMap::new() };
				for (pk, p) in &me.parameters {
					if pk.index != p.info.index { return Err(format!("parameter stored under key {pk:?} is {:?}", p.info)); }
					let n: &[Option<duke::tree::method::ParameterName>; 2] = (&p.info.names).into();
					mm.params.insert(p.info.index, PEnt { names: [s(&n[0]), s(&n[1])], comment: p.javadoc.as_ref().map(|j| j.0.clone()) });
				}
				mc.methods.insert(key(&me.info.desc.to_string(), &mk.name.to_string()), mm);
			}
			out.classes.insert(ck.to_string(), mc);
		}
		Ok(out)
	}
	fn diff(want: &MapSet, got: &MapSet) -> String {
		let mut o = String::new();
		let keys: BTreeSet<&String> = want.classes.keys().chain(got.classes.keys()).collect();
		for k in keys {
			match (want.classes.get(k), got.classes.get(k)) {
				(Some(_), None) => o += &format!("class {k} is missing; "),
				(None, Some(_)) => o += &format!("class {k} was added; "),
				(Some(w), Some(g)) => {
					if w.e != g.e { o += &format!("class {k}: expected {:?}, found {:?}; ", w.e, g.e); }
					if w.fields != g.fields { o += &format!("fields of class {k} differ; "); }
					let mks: BTreeSet<&Key> = w.methods.keys().chain(g.methods.keys()).collect();
					for mk in mks {
						let (a, b) = (w.methods.get(mk), g.methods.get(mk));
						if a != b {
							let f = |x: Option<&MapMethod>| x.map(|m| format!("name {:?} comment {:?} params {:?}", m.e.name, m.e.comment, m.params.keys().collect::<Vec<_>>())).unwrap_or("no entry".to_owned());
							o += &format!("method {k}.{}{}: expected {}, found {}; ", mk.1, mk.0, f(a), f(b));
						}
					}
				},
				(None, None) => {},
			}
		}
		o
	}

	// ---------------------------------------------------------------------------------------------------------------------
	// running the real pass
	// ---------------------------------------------------------------------------------------------------------------------
	struct Case { jar: MJar, libs: Vec<MJar>, cal: MapSet, map: MapSet }
	impl Case {
		fn show(&self) -> String {
			format!("main jar: {}| libraries: {}| intermediary->named: {}| official->intermediary: {}", self.jar.show(),
				self.libs.iter().map(|l| l.show()).collect::<Vec<_>>().join(" / "), self.map.show(), self.cal.show())
		}
	}
	fn run_on<J: Jar>(main: &J, libs: &[J], case: &Case) -> Result<MapSet, String> {
		let cal: Mappings<2, (Official, Intermediary)> = quill::tiny_v2::read(case.cal.render(["official", "intermediary"]).as_bytes()).map_err(|e| format!("harness: calamus text refused: {e:#}"))?;
		let map: Mappings<2, (Intermediary, Named)> = quill::tiny_v2::read(case.map.render(["intermediary", "named"]).as_bytes()).map_err(|e| format!("harness: mapping text refused: {e:#}"))?;
		// a reader problem must not be blamed on the pass
		if walk(&map)? != case.map { return Err("harness: the Tiny v2 reader did not deliver the model of the mappings".to_owned()); }
		if walk(&cal)? != case.cal { return Err("harness: the Tiny v2 reader did not deliver the model of calamus".to_owned()); }
		match guarded(|| add_specialized_methods_to_mappings(main, &cal, libs, &map)) {
			Err(()) => Err("does not terminate".to_owned()),
			Ok(None) => Err("panicked".to_owned()),
			Ok(Some(Err(e))) => Err(format!("refused: {e:#}")),
			Ok(Some(Ok(out))) => {
				if walk(&map)? != case.map { return Err("the input mappings were modified".to_owned()); }
				walk(&out)
			},
		}
	}
	fn run(case: &Case, through_zip: bool) -> Result<MapSet, String> {
		let main = build_jar(&case.jar);
		let libs: Vec<_> = case.libs.iter().map(build_jar).collect();
		if through_zip {
			let main = main.to_mem().map_err(|e| format!("harness: zip: {e:#}"))?;
			let libs = libs.into_iter().map(|l| l.to_mem()).collect::<Result<Vec<_>>>().map_err(|e| format!("harness: zip: {e:#}"))?;
			run_on(&main, &libs, case)
		} else {
			run_on(&main, &libs, case)
		}
	}

	// ---------------------------------------------------------------------------------------------------------------------
	// ORACLE, written from the statement of C15
	// ---------------------------------------------------------------------------------------------------------------------
	/// JVMS 4.3: (parameter types, return type); "V" for void
	fn parse_desc(d: &str) -> (Vec<String>, String) {
		fn one(b: &[u8], i: &mut usize) -> String {
			let start = *i;
			while b[*i] == b'[' { *i += 1; }
			if b[*i] == b'L' { while b[*i] != b';' { *i += 1; } }
			*i += 1;
			String::from_utf8(b[start..*i].to_vec()).unwrap()
		}
		let b = d.as_bytes();
		assert_eq!(b[0], b'(');
		let (mut i, mut params) = (1, Vec::new());
		while b[i] != b')' { params.push(one(b, &mut i)); }
		i += 1;
		let ret = one(b, &mut i);
		assert_eq!(i, b.len());
		(params, ret)
	}
	fn map_desc_classes(d: &str, f: &dyn Fn(&str) -> String) -> String {
		let (mut o, mut rest) = (String::new(), d);
		while let Some(p) = rest.find('L') {
			let end = p + rest[p..].find(';').unwrap();
			o += &rest[..=p];
			o += &f(&rest[p + 1..end]);
			o.push(';');
			rest = &rest[end + 1..];
		}
		o + rest
	}
	/// direct super types of every class of the given jars (the first jar that has a class decides): super class, then the interfaces
	fn hierarchy(jars: &[&MJar]) -> BTreeMap<String, (Option<String>, Vec<String>)> {
		let mut h = BTreeMap::new();
		for j in jars { for c in &j.classes { h.entry(c.name.clone()).or_insert_with(|| (c.sup.clone(), c.itfs.clone())); } }
		h
	}
	/// `sub` is a proper sub type of `sup` according to the classes of the jar
	fn is_proper_subtype(jar: &MJar, sub: &str, sup: &str) -> bool {
		let h = hierarchy(&[jar]);
		let (mut todo, mut seen) = (vec![sub.to_owned()], BTreeSet::new());
		while let Some(c) = todo.pop() {
			if let Some((s, i)) = h.get(&c) {
				for p in s.iter().chain(i.iter()) {
					if p == sup { return true; }
					if seen.insert(p.clone()) { todo.push(p.clone()); }
				}
			}
		}
		false
	}
	/// "bridge-compatible": the same type, or both reference types and the bridge's type is Object or another super type of the delegate's type
	/// (a type variable erased to Object or to its bound, a covariant return type).  No universe contains an array type.
	fn bridge_compatible(jar: &MJar, bridge: &str, delegate: &str) -> bool {
		if bridge == delegate { return true; }
		let reference = |t: &str| t.starts_with('L') || t.starts_with('[');
		if !reference(bridge) || !reference(delegate) { return false; }
		if bridge == "Ljava/lang/Object;" { return true; }
		if bridge.starts_with('[') || delegate.starts_with('[') { return false; }
		is_proper_subtype(jar, &delegate[1..delegate.len() - 1], &bridge[1..bridge.len() - 1])
	}
	/// sentence 1 of the statement: which methods are bridges, and of which method
	fn model_bridges(jar: &MJar) -> Vec<(MRef, MRef)> {
		let mut r = Vec::new();
		for c in &jar.classes {
			for m in &c.methods {
				if !m.fl.synthetic { continue; }                                              // "every method ... that is synthetic"
				let distinct: BTreeSet<&MRef> = m.body.iter().flatten().map(|(_, r)| r).collect();
				if distinct.len() != 1 { continue; }                                           // "whose body invokes exactly one distinct method"
				let delegate = (*distinct.iter().next().unwrap()).clone();
				let by_flag = m.fl.bridge;                                                     // "either flagged as a bridge"
				let inheritable = !m.fl.private && !m.fl.stat && !m.fl.fin;                    // "or is inheritable (not private, static or final)"
				let ((bp, br), (dp, dr)) = (parse_desc(&m.desc), parse_desc(&delegate.desc));
				let by_shape = inheritable && bp.len() == dp.len()                             // "with the same arity"
					&& bp.iter().zip(&dp).all(|(b, d)| bridge_compatible(jar, b, d))           // "position-wise bridge-compatible parameter"
					&& ((br == "V" && dr == "V") || (br != "V" && dr != "V" && bridge_compatible(jar, &br, &dr))); // "and return types"
				if by_flag || by_shape { r.push((mref(&c.name, &m.name, &m.desc), delegate)); }
			}
		}
		r
	}
	/// the name a mapping set gives to a method, through inheritance: the entry of the class itself, else the nearest one on the super class chain,
	/// else the one of a super interface.  The universes never offer two differently named interface entries without a class entry (asserted).
	fn name_through_inheritance(ms: &MapSet, h: &BTreeMap<String, (Option<String>, Vec<String>)>, owner: &str, name: &str, desc: &str) -> Option<String> {
		let own = |c: &str| ms.classes.get(c).and_then(|c| c.methods.get(&key(desc, name))).and_then(|m| m.e.name.clone());
		let (mut chain, mut cur) = (vec![owner.to_owned()], owner.to_owned());
		while let Some((Some(s), _)) = h.get(&cur) { if chain.contains(s) { break; } chain.push(s.clone()); cur = s.clone(); }
		for c in &chain { if let Some(n) = own(c) { return Some(n); } }
		let (mut itfs, mut todo) = (BTreeSet::new(), chain.clone());
		while let Some(c) = todo.pop() {
			if let Some((_, is)) = h.get(&c) { for i in is { if itfs.insert(i.clone()) { todo.push(i.clone()); } } }
		}
		let names: BTreeSet<String> = itfs.iter().filter_map(|i| own(i)).collect();
		assert!(names.len() <= 1, "universe offers an ambiguous interface name: {names:?}");
		names.into_iter().next()
	}
	/// a reference of the jar (first namespace of `ms`) expressed in the second namespace of `ms`; unnamed things keep their name
	fn translate(ms: &MapSet, h: &BTreeMap<String, (Option<String>, Vec<String>)>, r: &MRef) -> MRef {
		let cls = |c: &str| ms.classes.get(c).and_then(|x| x.e.name.clone()).unwrap_or(c.to_owned());
		MRef { owner: cls(&r.owner), name: name_through_inheritance(ms, h, &r.owner, &r.name, &r.desc).unwrap_or(r.name.clone()), desc: map_desc_classes(&r.desc, &cls) }
	}
	fn expected(case: &Case) -> MapSet {
		for ms in [&case.cal, &case.map] { for (k, c) in &ms.classes { assert!(c.e.name.is_some(), "universe: class {k} without a name"); } }
		let mut jars: Vec<&MJar> = vec![&case.jar];
		jars.extend(case.libs.iter());
		let h_official = hierarchy(&jars);
		let cls = |c: &str| case.cal.classes.get(c).and_then(|x| x.e.name.clone()).unwrap_or(c.to_owned());
		let h_intermediary: BTreeMap<String, (Option<String>, Vec<String>)> = h_official.iter()
			.map(|(k, (s, i))| (cls(k), (s.as_ref().map(|s| cls(s)), i.iter().map(|i| cls(i)).collect()))).collect();
		// "every mapping entry not concerned is returned unchanged"
		let mut out = case.map.clone();
		for (bridge, delegate) in model_bridges(&case.jar) {                                       // "No other method causes a rename"
			let (b, d) = (translate(&case.cal, &h_official, &bridge), translate(&case.cal, &h_official, &delegate));
			// "the target name the mappings (through inheritance) give to the bridge"; a method the mappings do not name keeps its name
			let name = name_through_inheritance(&case.map, &h_intermediary, &b.owner, &b.name, &b.desc).unwrap_or(b.name.clone());
			// "the invoked method receives, in the produced mappings within the bridge's class, ..."; no entry for that class: no place to put it
			if let Some(c) = out.classes.get_mut(&b.owner) {
				c.methods.entry(key(&d.desc, &d.name)).or_default().e.name = Some(name);
			}
		}
		out
	}
	fn check(t: &mut Tally, id: &str, case: &Case, through_zip: bool) {
		t.at(id.as_bytes());
		let want = expected(case);
		t.case(want != case.map);
		match run(case, through_zip) {
			Err(why) => t.fail(format!("[{id}] {}", case.show()), &why),
			Ok(got) => if got != want { t.fail(format!("[{id}] {}", case.show()), &format!("produced mappings differ from what the property demands: {}", diff(&want, &got))); },
		}
	}

	// ---------------------------------------------------------------------------------------------------------------------
	// the universes
	// ---------------------------------------------------------------------------------------------------------------------
	const T_OBJECT: &str = "Ljava/lang/Object;";
	const TYPES: [&str; 4] = [T_OBJECT, "La/B;", "La/C;", "I"];
	const RETURNS: [&str; 5] = [T_OBJECT, "La/B;", "La/C;", "I", "V"];
	/// all method descriptors with at most two parameters over TYPES and a return type of RETURNS (105)
	fn all_descs() -> Vec<String> {
		let mut lists: Vec<String> = vec![String::new()];
		for a in TYPES { lists.push(a.to_owned()); }
		for a in TYPES { for b in TYPES { lists.push(format!("{a}{b}")); } }
		let mut r = Vec::new();
		for l in &lists { for ret in RETURNS { r.push(format!("({l}){ret}")); } }
		r
	}
	fn desc_of(arity: usize, ty: &str, ret: &str) -> String { format!("({}){ret}", ty.repeat(arity)) }
	fn all_flags() -> Vec<Fl> {
		let mut r = Vec::new();
		for i in 0..32u8 { r.push(Fl { synthetic: i & 16 != 0, bridge: i & 8 != 0, private: i & 4 != 0, stat: i & 2 != 0, fin: i & 1 != 0 }); }
		r
	}

	#[derive(Clone, Copy, Debug, PartialEq, Eq)]
	enum Cal { Identity, Rename, RenameDelegateAtSuper, RenameWithoutDelegate }
	/// the jar every universe starts from.  a/B <- a/C <- a/D, a/D implements a/Y: parameter types.  l/M <- l/L (both in the library jar) <- a/G <- a/P <- a/K,
	/// a/P implements a/J, a/K implements a/I; a/X unrelated.  G, P, I, J, l/M declare `m<bridge_desc>`: an ordinary method; the one of P invokes exactly one
	/// method of a compatible signature (a near miss: not synthetic).  `k_methods` are the methods of a/K.
	fn skeleton(bridge_desc: &str, k_methods: Vec<MMethod>) -> (MJar, MJar) {
		let ordinary = |body: Option<Vec<(Inv, MRef)>>| meth("m", bridge_desc, PLAIN, body);
		let main = MJar { classes: vec![
			class("a/B", OBJECT, &[], vec![]),
			class("a/C", "a/B", &[], vec![]),
			interface("a/Y", &[], vec![]),
			class("a/D", "a/C", &["a/Y"], vec![]),
			interface("a/I", &[], vec![ordinary(None)]),
			interface("a/J", &[], vec![ordinary(None)]),
			class("a/G", "l/L", &[], vec![ordinary(Some(vec![]))]),
			class("a/P", "a/G", &["a/J"], vec![ordinary(Some(vec![(Inv::Static, mref("a/X", "m", bridge_desc))])), meth("t", "(La/B;)V", PLAIN, Some(vec![]))]),
			class("a/K", "a/P", &["a/I"], k_methods),
			class("a/X", OBJECT, &[], vec![meth("m", bridge_desc, Fl { stat: true, ..PLAIN }, Some(vec![])), meth("t", "(La/B;)V", Fl { stat: true, ..PLAIN }, Some(vec![]))]),
		] };
		let lib = MJar { classes: vec![class("l/L", "l/M", &[], vec![]), class("l/M", OBJECT, &[], vec![ordinary(Some(vec![]))])] };
		(main, lib)
	}
	/// official -> intermediary: classes a/Z -> n/Z, every declared or invoked method of the main jar x -> x_1 (library classes are not renamed)
	fn calamus(kind: Cal, jar: &MJar) -> MapSet {
		let mut ms = MapSet::default();
		if kind == Cal::Identity { return ms; }
		let main: BTreeSet<&str> = jar.classes.iter().map(|c| c.name.as_str()).collect();
		for c in &jar.classes { ms.class(&c.name, &c.name.replace("a/", "n/")); }
		let mut delegates: BTreeSet<MRef> = BTreeSet::new();
		for c in &jar.classes { for m in &c.methods { for (_, r) in m.body.iter().flatten() { if main.contains(r.owner.as_str()) { delegates.insert(r.clone()); } } } }
		for c in &jar.classes { for m in &c.methods {
			if delegates.contains(&mref(&c.name, &m.name, &m.desc)) { continue; }
			ms.class(&c.name, "").methods.insert(key(&m.desc, &m.name), MapMethod { e: named(&format!("{}_1", m.name)), ..Default::default() });
		} }
		for r in &delegates {
			let at = match kind {
				Cal::RenameWithoutDelegate => continue,
				Cal::RenameDelegateAtSuper => jar.classes.iter().find(|c| c.name == r.owner).and_then(|c| c.sup.clone()).filter(|s| main.contains(s.as_str())).unwrap_or(r.owner.clone()),
				_ => r.owner.clone(),
			};
			ms.class(&at, "").methods.insert(key(&r.desc, &r.name), MapMethod { e: named(&format!("{}_1", r.name)), ..Default::default() });
		}
		ms
	}
	/// intermediary -> named: every class of both jars named (a/Z -> x/Z, l/Z -> l/Z) with entries that no bridge concerns: a commented class with a
	/// field, a method with comment and parameter, and in a/P and a/X an entry with exactly the key of the delegate (must stay as it is).
	/// `with_k`: whether the bridge's class a/K has an entry at all.
	fn base_mappings(case_jar: &MJar, lib: &MJar, cal: &MapSet, with_k: bool, delegate: &MRef) -> MapSet {
		let h = hierarchy(&[case_jar, lib]);
		let tr = |r: &MRef| translate(cal, &h, r);
		let mut ms = MapSet::default();
		for c in case_jar.classes.iter().chain(&lib.classes) {
			if c.name == "a/K" && !with_k { continue; }
			let i = tr(&mref(&c.name, "x", "()V")).owner;
			ms.class(&i, &c.name.replace("a/", "x/"));
		}
		let x = tr(&mref("a/X", "noise", "(La/C;I)La/B;"));
		let cx = ms.class(&x.owner, "");
		cx.e.comment = Some("about X".to_owned());
		cx.fields.insert(key("I", "f_1"), Ent { name: Some("count".to_owned()), comment: Some("a field".to_owned()) });
		cx.methods.insert(key(&x.desc, "noise"), MapMethod { e: Ent { name: Some("noiseNamed".to_owned()), comment: Some("a method".to_owned()) },
			params: BTreeMap::from([(1, PEnt { names: [None, Some("arg".to_owned())], comment: Some("a parameter".to_owned()) })]) });
		for other in ["a/P", "a/X"] {
			let d = tr(&mref(other, &delegate.name, &delegate.desc));
			let d_as_called = tr(delegate);
			ms.class(&d.owner, "").methods.insert(key(&d_as_called.desc, &d_as_called.name), MapMethod { e: named(&format!("elsewhere{}", &other[2..])), ..Default::default() });
		}
		if with_k {
			let k = tr(&mref("a/K", "u", "()V"));
			let ck = ms.class(&k.owner, "");
			ck.fields.insert(key("La/B;", "g_1"), named("held"));
			ck.methods.insert(key(&k.desc, &k.name), MapMethod { e: Ent { name: Some("other".to_owned()), comment: Some("about u".to_owned()) }, params: BTreeMap::new() });
			// the delegate's name with another descriptor
			let d = tr(delegate);
			ck.methods.insert(key("(JJ)V", &d.name), MapMethod { e: named("sameNameOtherDescriptor"), ..Default::default() });
		}
		ms
	}
	/// names the bridge in the entry of class `at` (official name)
	fn name_bridge_at(ms: &mut MapSet, h: &BTreeMap<String, (Option<String>, Vec<String>)>, cal: &MapSet, at: &str, bridge: &MRef) {
		let here = translate(cal, h, &mref(at, "x", "()V")).owner;
		let b = translate(cal, h, bridge);
		if let Some(c) = ms.classes.get_mut(&here) {
			c.methods.insert(key(&b.desc, &b.name), MapMethod { e: Ent { name: Some(format!("{}Named{}", bridge.name, &at[2..])), comment: Some(format!("declared in {at}")) }, ..Default::default() });
		}
	}
	/// gives the delegate an entry of its own in the bridge's class: old name, comment, parameter
	fn name_delegate_in(ms: &mut MapSet, h: &BTreeMap<String, (Option<String>, Vec<String>)>, cal: &MapSet, bridge_class: &str, delegate: &MRef) {
		let here = translate(cal, h, &mref(bridge_class, "x", "()V")).owner;
		let d = translate(cal, h, delegate);
		if let Some(c) = ms.classes.get_mut(&here) {
			c.methods.insert(key(&d.desc, &d.name), MapMethod { e: Ent { name: Some("oldName".to_owned()), comment: Some("about the delegate".to_owned()) },
				params: BTreeMap::from([(0, PEnt { names: [None, Some("value".to_owned())], comment: None })]) });
		}
	}

	/// Universe A: all flag combinations x arities x bodies x mapping situations
	#[test]
	fn flags_arities_bodies() {
		let mut t = Tally::new("flags_arities_bodies");
		for fl in all_flags() { for ab in 0..3usize { for ad in 0..3usize { for body in 0..6usize { for mapping in 0..8usize {
			let (bd, dd) = (desc_of(ab, T_OBJECT, "V"), desc_of(ad, "La/B;", "V"));
			let (d, u, d2) = (mref("a/K", "t", &dd), mref("a/K", "u", "()V"), mref("a/K", "t", "(JJ)V"));
			let v = Inv::Virtual;
			let calls = match body {
				0 => None,                                             // no Code
				1 => Some(vec![]),                                     // Code without an invocation
				2 => Some(vec![(v, d.clone())]),                       // one
				3 => Some(vec![(v, d.clone()), (v, d.clone())]),       // the same method twice
				4 => Some(vec![(v, d.clone()), (v, u.clone())]),       // two methods
				_ => Some(vec![(v, d.clone()), (v, d2.clone())]),      // two methods of the same name
			};
			let bridge = mref("a/K", "m", &bd);
			let (jar, lib) = skeleton(&bd, vec![meth("m", &bd, fl, calls), meth("t", &dd, PLAIN, Some(vec![])), meth("u", "()V", PLAIN, Some(vec![])), meth("t", "(JJ)V", PLAIN, Some(vec![]))]);
			let cal = calamus(Cal::Rename, &jar);
			let h = hierarchy(&[&jar, &lib]);
			// mapping situations: a/K present (bridge named in K / in P / nowhere) x (delegate unnamed / named); a/K absent (bridge named in P / nowhere)
			let (with_k, source, delegate_named) = match mapping { 0 => (true, "a/K", false), 1 => (true, "a/K", true), 2 => (true, "a/P", false), 3 => (true, "a/P", true),
				4 => (true, "", false), 5 => (true, "", true), 6 => (false, "a/P", false), _ => (false, "", false) };
			let mut map = base_mappings(&jar, &lib, &cal, with_k, &d);
			if !source.is_empty() { name_bridge_at(&mut map, &h, &cal, source, &bridge); }
			if delegate_named { name_delegate_in(&mut map, &h, &cal, "a/K", &d); }
			let case = Case { jar, libs: vec![lib], cal, map };
			check(&mut t, &format!("flags={fl:?} arity={ab}/{ad} body={body} mapping={mapping}"), &case, false);
		} } } } }
		t.finish();
	}

	fn signatures(name: &'static str, flags: &[Fl], max_arity: usize) {
		let mut t = Tally::new(name);
		let descs: Vec<String> = all_descs().into_iter().filter(|d| parse_desc(d).0.len() <= max_arity).collect();
		for &fl in flags { for bd in &descs { for dd in &descs {
			// javac gives bridge and delegate the same name; two methods of one class cannot share name and descriptor
			let dname = if bd == dd { "t" } else { "m" };
			let d = mref("a/K", dname, dd);
			let bridge = mref("a/K", "m", bd);
			let (jar, lib) = skeleton(bd, vec![meth("m", bd, fl, Some(vec![(Inv::Virtual, d.clone())])), meth(dname, dd, PLAIN, Some(vec![]))]);
			let cal = calamus(Cal::Rename, &jar);
			let h = hierarchy(&[&jar, &lib]);
			let mut map = base_mappings(&jar, &lib, &cal, true, &d);
			name_bridge_at(&mut map, &h, &cal, "a/K", &bridge);
			let case = Case { jar, libs: vec![lib], cal, map };
			check(&mut t, &format!("flags={fl:?} bridge={bd} delegate={dname}{dd}"), &case, false);
		} } }
		t.finish();
	}
	/// Universe B1: an unflagged, inheritable synthetic method is a bridge exactly for the compatible signature pairs
	#[test]
	fn unflagged_synthetic_signatures() { signatures("unflagged_synthetic_signatures", &[SYN], 2); }
	/// Universe B2: a synthetic method flagged as bridge is one whatever the signatures
	#[test]
	fn flagged_bridge_signatures() { signatures("flagged_bridge_signatures", &[SYN_BRIDGE], 2); }
	/// Universe B3: every flag combination with every signature pair of at most one parameter
	#[test]
	fn all_flags_short_signatures() { signatures("all_flags_short_signatures", &all_flags(), 1); }

	/// Universe F: sub typing over several levels and through an interface (a/D extends a/C extends a/B, a/D implements a/Y)
	#[test]
	fn deep_and_interface_bounds() {
		let mut t = Tally::new("deep_and_interface_bounds");
		let types = [T_OBJECT, "La/B;", "La/C;", "La/D;", "La/Y;", "I"];
		let mut descs = Vec::new();
		for p in types { for r in types.iter().chain(&["V"]) { descs.push(format!("({p}){r}")); } }
		for bd in &descs { for dd in &descs {
			let dname = if bd == dd { "t" } else { "m" };
			let d = mref("a/K", dname, dd);
			let (jar, lib) = skeleton(bd, vec![meth("m", bd, SYN, Some(vec![(Inv::Virtual, d.clone())])), meth(dname, dd, PLAIN, Some(vec![]))]);
			let cal = calamus(Cal::Rename, &jar);
			let h = hierarchy(&[&jar, &lib]);
			let mut map = base_mappings(&jar, &lib, &cal, true, &d);
			name_bridge_at(&mut map, &h, &cal, "a/K", &mref("a/K", "m", bd));
			let case = Case { jar, libs: vec![lib], cal, map };
			check(&mut t, &format!("bridge={bd} delegate={dname}{dd}"), &case, false);
		} }
		t.finish();
	}

	/// Universe C: where the name of the bridge comes from (own class, super classes of several levels, a library class, interfaces), what is invoked how,
	/// four shapes of the official -> intermediary set
	#[test]
	fn hierarchy_and_name_source() {
		let mut t = Tally::new("hierarchy_and_name_source");
		// l/M is reached through l/L only: the super classes of library classes come from the library jar
		let sources = ["a/K", "a/P", "a/G", "l/M", "a/J", "a/I"];
		for cal_kind in [Cal::Identity, Cal::Rename, Cal::RenameDelegateAtSuper, Cal::RenameWithoutDelegate] {
		for (inv, owner) in [(Inv::Virtual, "a/K"), (Inv::Special, "a/P"), (Inv::Static, "a/X"), (Inv::Interface, "a/I")] {
		for fl in [SYN_BRIDGE, SYN] { for same_name in [false, true] { for with_k in [true, false] { for delegate_named in [false, true] { for subset in 0..64u32 {
			if !with_k && (delegate_named || subset & 1 != 0) { continue; }
			// two interface declarations and no class declaration: which one counts is not defined
			if subset & 0b001111 == 0 && subset & 0b110000 == 0b110000 { continue; }
			let bd = "(Ljava/lang/Object;)V";
			let d = mref(owner, if same_name { "m" } else { "t" }, "(La/B;)V");
			let bridge = mref("a/K", "m", bd);
			let mut k_methods = vec![meth("m", bd, fl, Some(vec![(inv, d.clone())]))];
			if owner == "a/K" { k_methods.push(meth(&d.name, &d.desc, PLAIN, Some(vec![]))); }
			let (jar, lib) = skeleton(bd, k_methods);
			let cal = calamus(cal_kind, &jar);
			let h = hierarchy(&[&jar, &lib]);
			let mut map = base_mappings(&jar, &lib, &cal, with_k, &d);
			for (i, s) in sources.iter().enumerate() { if subset & (1 << i) != 0 { name_bridge_at(&mut map, &h, &cal, s, &bridge); } }
			if delegate_named { name_delegate_in(&mut map, &h, &cal, "a/K", &d); }
			let case = Case { jar, libs: vec![lib], cal, map };
			check(&mut t, &format!("calamus={cal_kind:?} call={inv:?} {owner} flags={fl:?} same_name={same_name} with_k={with_k} delegate_named={delegate_named} sources={subset:06b}"), &case, false);
		} } } } } } }
		t.finish();
	}

	/// Universe D: several bridges in one jar (two in one class with different delegates, the same delegate bridged in a sub class, a bridge in an interface,
	/// a flagged synthetic that invokes two methods next to them); the jars travel through a real zip archive
	#[test]
	fn several_bridges_through_a_zip() {
		let mut t = Tally::new("several_bridges_through_a_zip");
		let (bd, dd) = ("(Ljava/lang/Object;)V", "(La/B;)V");
		for cal_kind in [Cal::Identity, Cal::Rename] { for k_set in 0..8u32 { for k2 in 0..3u32 { for i2 in [false, true] { for mapping in 0..32u32 {
			let v = Inv::Virtual;
			let mut k_methods = vec![meth("m", dd, PLAIN, Some(vec![])), meth("g", "()La/C;", PLAIN, Some(vec![])), meth("u", "()V", PLAIN, Some(vec![]))];
			if k_set & 1 != 0 { k_methods.push(meth("m", bd, SYN_BRIDGE, Some(vec![(v, mref("a/K", "m", dd))]))); }                                 // generic parameter
			if k_set & 2 != 0 { k_methods.push(meth("g", "()Ljava/lang/Object;", SYN, Some(vec![(v, mref("a/K", "g", "()La/C;"))]))); }                // covariant return, unflagged
			if k_set & 4 != 0 { k_methods.push(meth("h", bd, SYN_BRIDGE, Some(vec![(v, mref("a/K", "m", dd)), (v, mref("a/K", "u", "()V"))]))); }       // near miss
			let (mut jar, lib) = skeleton(bd, k_methods);
			let k2_methods = match k2 {
				0 => vec![],
				1 => vec![meth("m", bd, SYN_BRIDGE, Some(vec![(v, mref("a/K2", "m", dd))]))],            // invokes through its own class
				_ => vec![meth("m", bd, SYN, Some(vec![(Inv::Special, mref("a/K", "m", dd))]))],         // the delegate of a/K's bridge, from another class
			};
			jar.classes.push(class("a/K2", "a/K", &[], k2_methods));
			jar.classes.push(interface("a/I2", &["a/I"], if i2 { vec![meth("m", dd, PLAIN, None), meth("m", bd, SYN_BRIDGE, Some(vec![(Inv::Interface, mref("a/I2", "m", dd))]))] } else { vec![meth("m", dd, PLAIN, None)] }));
			let cal = calamus(cal_kind, &jar);
			let h = hierarchy(&[&jar, &lib]);
			let d = mref("a/K", "m", dd);
			let mut map = base_mappings(&jar, &lib, &cal, true, &d);
			// mapping situations: m(Object)V named in K / P / I / nowhere; a/K2 with or without entry; g()Object named in K or not; the delegate m(a/B)V named in K or not
			let source = ["a/K", "a/P", "a/I", ""][(mapping & 3) as usize];
			if !source.is_empty() { name_bridge_at(&mut map, &h, &cal, source, &mref("a/K", "m", bd)); }
			if mapping & 4 != 0 { let k2i = translate(&cal, &h, &mref("a/K2", "x", "()V")).owner; map.classes.remove(&k2i); }
			if mapping & 8 != 0 { name_bridge_at(&mut map, &h, &cal, "a/K", &mref("a/K", "g", "()Ljava/lang/Object;")); }
			if mapping & 16 != 0 { name_delegate_in(&mut map, &h, &cal, "a/K", &d); }
			let case = Case { jar, libs: vec![lib], cal, map };
			check(&mut t, &format!("calamus={cal_kind:?} K={k_set:03b} K2={k2} I2={i2} mapping={mapping:05b}"), &case, true);
		} } } } }
		t.finish();
	}

	/// Universe E: an invocation whose receiver is an array class is an invocation too
	#[test]
	fn invocations_on_array_classes_count() {
		let mut t = Tally::new("invocations_on_array_classes_count");
		let (bd, dd) = ("(Ljava/lang/Object;)V", "(La/B;)V");
		for fl in [SYN_BRIDGE, SYN] { for array_first in [false, true] { for source in ["a/K", "a/P", ""] { for delegate_named in [false, true] {
			let (d, clone) = (mref("a/K", "t", dd), mref("[La/B;", "clone", "()Ljava/lang/Object;"));
			let calls = if array_first { vec![(Inv::Virtual, clone), (Inv::Virtual, d.clone())] } else { vec![(Inv::Virtual, d.clone()), (Inv::Virtual, clone)] };
			let (jar, lib) = skeleton(bd, vec![meth("m", bd, fl, Some(calls)), meth("t", dd, PLAIN, Some(vec![]))]);
			let cal = calamus(Cal::Rename, &jar);
			let h = hierarchy(&[&jar, &lib]);
			let mut map = base_mappings(&jar, &lib, &cal, true, &d);
			if !source.is_empty() { name_bridge_at(&mut map, &h, &cal, source, &mref("a/K", "m", bd)); }
			if delegate_named { name_delegate_in(&mut map, &h, &cal, "a/K", &d); }
			let case = Case { jar, libs: vec![lib], cal, map };
			// the model says: two distinct methods are invoked, nothing may change
			assert_eq!(expected(&case), case.map);
			t.at(b"array");
			t.case(true);
			match run(&case, false) {
				Err(why) => t.fail(case.show(), &why),
				Ok(got) => if got != case.map { t.fail(case.show(), &format!("a synthetic method that invokes two distinct methods (one on an array class) caused a rename: {}", diff(&case.map, &got))); },
			}
		} } } }
		t.finish();
	}

	#[test]
	fn canary_must_fail() {
		// claims that the delegate of a flagged bridge receives another name than the one of the bridge
		let mut t = Tally::new("canary_must_fail");
		let (bd, dd) = ("(Ljava/lang/Object;)V", "(La/B;)V");
		let d = mref("a/K", "m", dd);
		let (jar, lib) = skeleton(bd, vec![meth("m", bd, SYN_BRIDGE, Some(vec![(Inv::Virtual, d.clone())])), meth("m", dd, PLAIN, Some(vec![]))]);
		let cal = calamus(Cal::Rename, &jar);
		let h = hierarchy(&[&jar, &lib]);
		let mut map = base_mappings(&jar, &lib, &cal, true, &d);
		name_bridge_at(&mut map, &h, &cal, "a/K", &mref("a/K", "m", bd));
		let case = Case { jar, libs: vec![lib], cal, map };
		t.at(b"canary");
		t.case(true);
		let mut wrong = expected(&case);
		assert_ne!(wrong, case.map);
		for c in wrong.classes.values_mut() { for m in c.methods.values_mut() { if m.e.name.as_deref() == Some("mNamedK") && m.e.comment.is_none() { m.e.name = Some("somethingElse".to_owned()); } } }
		assert_ne!(wrong, expected(&case));
		match run(&case, false) { Ok(got) if got == wrong => {}, _ => t.fail(case.show(), "canary") }
		t.finish();
	}
