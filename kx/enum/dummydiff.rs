	// =====================================================================================================================
	// bounded exhaustive enumeration for the DIFF-side dummy filter of C10:
	//     MappingsDiff::insert_dummy_and_contract_inner_names   (quill/src/action/insert_dummy.rs)
	// Own model of a mapping diff, own oracle written from the statement of C10 (the doc comment of the function is a copy of
	// the one of Mappings::remove_dummy and describes the mapping side; the statement and the comments inside the function
	// are the documentation of the diff side).  The real MappingsDiff is built (a) through its public fields and (b) through
	// .tinydiff text written here and read by quill::tiny_v2_diff::read.
	// =====================================================================================================================
	use std::collections::BTreeMap;
	use indexmap::IndexMap;
	use java_string::JavaString;
	use duke::tree::class::ObjClassName;
	use duke::tree::field::{FieldDescriptor, FieldName, FieldNameAndDesc};
	use duke::tree::method::{MethodDescriptor, MethodName, MethodNameAndDesc, ParameterName};
	use crate::tree::mappings::{JavadocMapping, ParameterKey};
	use crate::tree::mappings_diff::{Action, ClassNowodeDiff, FieldNowodeDiff, MappingsDiff, MethodNowodeDiff, ParameterNowodeDiff};

	// ---------------------------------------------------------------------------------------------------------------------
	// the model (independent of quill's tree): everything is a String, every map is ordered by key
	// ---------------------------------------------------------------------------------------------------------------------
	/// what a diff says about one name or one comment: nothing / it appears (new) / it disappears (old) / old -> new
	#[derive(Clone, Debug, PartialEq, Eq)]
	enum Act { Keep, Add(String), Remove(String), Edit(String, String) }
	impl Act {
		/// "changes something": everything except "nothing" and an edit whose two sides are equal (MappingsDiff::diff emits such
		/// an edit for every entry both sides have)
		fn changes(&self) -> bool { match self { Act::Keep => false, Act::Add(_) | Act::Remove(_) => true, Act::Edit(a, b) => a != b } }
		fn cols(&self) -> String { match self { Act::Keep => "\t\t".into(), Act::Add(b) => format!("\t\t{b}"), Act::Remove(a) => format!("\t{a}\t"), Act::Edit(a, b) => format!("\t{a}\t{b}") } }
		/// what the .tinydiff text can say: `x -> x` is written like "nothing" and read back as "nothing"
		fn as_text_reads_it(&self) -> Act { match self { Act::Edit(a, b) if a == b => Act::Keep, x => x.clone() } }
	}
	/// (descriptor, source name)
	type MKey = (String, String);
	/// field or parameter
	#[derive(Clone, Debug, PartialEq, Eq)] struct DLeaf { info: Act, doc: Act }
	#[derive(Clone, Debug, PartialEq, Eq)] struct DMethod { info: Act, doc: Act, params: BTreeMap<usize, DLeaf> }
	#[derive(Clone, Debug, PartialEq, Eq)] struct DClass { info: Act, doc: Act, fields: BTreeMap<MKey, DLeaf>, methods: BTreeMap<MKey, DMethod> }
	#[derive(Clone, Debug, PartialEq, Eq)] struct DSet { classes: BTreeMap<String, DClass> }

	fn shown(d: &DSet) -> String {
		fn a(x: &Act) -> String { match x { Act::Keep => "none".into(), Act::Add(b) => format!("+{b}"), Act::Remove(a) => format!("-{a}"), Act::Edit(a, b) => format!("{a} -> {b}") } }
		let mut o = String::new();
		for (k, c) in &d.classes {
			o += &format!("class {k} [{} | doc {}] {{", a(&c.info), a(&c.doc));
			for ((desc, n), f) in &c.fields { o += &format!(" field {desc} {n} [{} | doc {}];", a(&f.info), a(&f.doc)); }
			for ((desc, n), m) in &c.methods {
				o += &format!(" method {desc} {n} [{} | doc {}] (", a(&m.info), a(&m.doc));
				for (i, p) in &m.params { o += &format!(" param {i} [{} | doc {}]", a(&p.info), a(&p.doc)); }
				o += " );";
			}
			o += " } ";
		}
		if d.classes.is_empty() { o += "(empty diff)"; }
		o
	}

	// ---------------------------------------------------------------------------------------------------------------------
	// model -> quill (public fields), model -> .tinydiff text, quill -> model
	// ---------------------------------------------------------------------------------------------------------------------
	fn cn(s: &str) -> ObjClassName { ObjClassName::try_from(JavaString::from(s)).expect("harness: class name") }
	fn fnm(s: &str) -> FieldName { FieldName::try_from(JavaString::from(s)).expect("harness: field name") }
	fn mnm(s: &str) -> MethodName { MethodName::try_from(JavaString::from(s)).expect("harness: method name") }
	fn pnm(s: &str) -> ParameterName { ParameterName::try_from(JavaString::from(s)).expect("harness: parameter name") }
	fn jd(s: &str) -> JavadocMapping { JavadocMapping(s.to_string()) }
	fn to_action<T>(a: &Act, f: &dyn Fn(&str) -> T) -> Action<T> {
		match a { Act::Keep => Action::None, Act::Add(b) => Action::Add(f(b)), Act::Remove(a) => Action::Remove(f(a)), Act::Edit(a, b) => Action::Edit(f(a), f(b)) }
	}
	fn build(d: &DSet) -> MappingsDiff {
		let mut out = MappingsDiff::default();
		for (k, c) in &d.classes {
			let mut dc = ClassNowodeDiff { info: to_action(&c.info, &cn), javadoc: to_action(&c.doc, &jd), fields: IndexMap::new(), methods: IndexMap::new() };
			for ((desc, n), f) in &c.fields {
				let key = FieldNameAndDesc { desc: FieldDescriptor::try_from(JavaString::from(desc.as_str())).expect("harness: field descriptor"), name: fnm(n) };
				dc.fields.insert(key, FieldNowodeDiff { info: to_action(&f.info, &fnm), javadoc: to_action(&f.doc, &jd) });
			}
			for ((desc, n), m) in &c.methods {
				let key = MethodNameAndDesc { desc: MethodDescriptor::try_from(JavaString::from(desc.as_str())).expect("harness: method descriptor"), name: mnm(n) };
				let mut dm = MethodNowodeDiff { info: to_action(&m.info, &mnm), javadoc: to_action(&m.doc, &jd), parameters: IndexMap::new() };
				for (i, p) in &m.params { dm.parameters.insert(ParameterKey { index: *i }, ParameterNowodeDiff { info: to_action(&p.info, &pnm), javadoc: to_action(&p.doc, &jd) }); }
				dc.methods.insert(key, dm);
			}
			out.classes.insert(cn(k), dc);
		}
		out
	}
	/// the .tinydiff text of a model diff (comments of the universe need no escaping)
	fn render(d: &DSet) -> String {
		fn doc(o: &mut String, depth: usize, a: &Act) { if a.as_text_reads_it() != Act::Keep { *o += &format!("{}c{}\n", "\t".repeat(depth), a.cols()); } }
		let mut o = String::from("tiny\t2\t0\n");
		for (k, c) in &d.classes {
			o += &format!("c\t{k}{}\n", c.info.cols()); doc(&mut o, 1, &c.doc);
			for ((desc, name), f) in &c.fields { o += &format!("\tf\t{desc}\t{name}{}\n", f.info.cols()); doc(&mut o, 2, &f.doc); }
			for ((desc, name), m) in &c.methods {
				o += &format!("\tm\t{desc}\t{name}{}\n", m.info.cols()); doc(&mut o, 2, &m.doc);
				for (idx, p) in &m.params { o += &format!("\t\tp\t{idx}\t{}\n", p.info.cols()); doc(&mut o, 3, &p.doc); }
			}
		}
		o
	}
	fn text_form(d: &DSet) -> DSet {
		let l = |x: &DLeaf| DLeaf { info: x.info.as_text_reads_it(), doc: x.doc.as_text_reads_it() };
		DSet { classes: d.classes.iter().map(|(k, c)| (k.clone(), DClass { info: c.info.as_text_reads_it(), doc: c.doc.as_text_reads_it(),
			fields: c.fields.iter().map(|(k, f)| (k.clone(), l(f))).collect(),
			methods: c.methods.iter().map(|(k, m)| (k.clone(), DMethod { info: m.info.as_text_reads_it(), doc: m.doc.as_text_reads_it(), params: m.params.iter().map(|(i, p)| (*i, l(p))).collect() })).collect() })).collect() }
	}
	fn from_action<T>(a: &Action<T>, f: &dyn Fn(&T) -> String) -> Act {
		match a { Action::None => Act::Keep, Action::Add(b) => Act::Add(f(b)), Action::Remove(a) => Act::Remove(f(a)), Action::Edit(a, b) => Act::Edit(f(a), f(b)) }
	}
	fn extract(d: &MappingsDiff) -> Result<DSet, String> {
		let j = |x: &JavadocMapping| x.0.clone();
		if d.info != Action::None || d.javadoc != Action::None { return Err("the result touches the namespaces or the comment of the whole set".into()); }
		let mut out = DSet { classes: BTreeMap::new() };
		for (k, c) in &d.classes {
			let mut dc = DClass { info: from_action(&c.info, &|x| x.to_string()), doc: from_action(&c.javadoc, &j), fields: BTreeMap::new(), methods: BTreeMap::new() };
			for (fk, f) in &c.fields {
				if dc.fields.insert((fk.desc.as_inner().to_string(), fk.name.to_string()), DLeaf { info: from_action(&f.info, &|x| x.to_string()), doc: from_action(&f.javadoc, &j) }).is_some() { return Err("two fields under one key".into()); }
			}
			for (mk, m) in &c.methods {
				let mut dm = DMethod { info: from_action(&m.info, &|x| x.to_string()), doc: from_action(&m.javadoc, &j), params: BTreeMap::new() };
				for (pk, p) in &m.parameters {
					if dm.params.insert(pk.index, DLeaf { info: from_action(&p.info, &|x| x.to_string()), doc: from_action(&p.javadoc, &j) }).is_some() { return Err("two parameters under one index".into()); }
				}
				if dc.methods.insert((mk.desc.as_inner().to_string(), mk.name.to_string()), dm).is_some() { return Err("two methods under one key".into()); }
			}
			if out.classes.insert(k.to_string(), dc).is_some() { return Err("two classes under one key".into()); }
		}
		Ok(out)
	}

	// ---------------------------------------------------------------------------------------------------------------------
	// the ORACLE: the diff-side half of the statement of C10, bottom-up
	//   R1 "turns every removal into an edit back to the placeholder (source name, p_<index>, simple inner name)"
	//   R2 "discards additions of fields and parameters and of methods and classes left without children"
	//   R3 "drops only nodes that change nothing and have no remaining children"   (every other node stays, as it is)
	//   R4 "is likewise idempotent"                                               (checked on the real function)
	// The rules are applied in the order of the statement: R1 first, so a removal of a name that already IS the placeholder
	// becomes `placeholder -> placeholder`, changes nothing and falls under R3 (R3 + R4 leave no other reading: a kept
	// `x -> x` without comment change and children would be dropped by a second application).
	// ---------------------------------------------------------------------------------------------------------------------
	/// "The inner class name is the part after the last `$`, in the last (`/`-separated) section" (duke, get_inner_class_name);
	/// a name that is not an inner class name is its own simple name.  (The universe has no key with an empty side of `$`.)
	fn o_simple(key: &str) -> &str {
		let seg = key.rfind('/').map_or(0, |i| i + 1);
		match key[seg..].rfind('$') { Some(i) if i > 0 && seg + i + 1 < key.len() => &key[seg + i + 1..], _ => key }
	}
	fn o_leaf(l: &DLeaf, placeholder: &str) -> Option<DLeaf> {
		let info = match &l.info {
			Act::Add(_) => return None,                                                // R2
			Act::Remove(a) => Act::Edit(a.clone(), placeholder.to_string()),          // R1
			x => x.clone(),
		};
		if info.changes() || l.doc.changes() { Some(DLeaf { info, doc: l.doc.clone() }) } else { None }   // R3
	}
	fn o_method(key: &MKey, m: &DMethod) -> Option<DMethod> {
		let params: BTreeMap<usize, DLeaf> = m.params.iter().filter_map(|(i, p)| o_leaf(p, &format!("p_{i}")).map(|p| (*i, p))).collect();
		let info = match &m.info { Act::Remove(a) => Act::Edit(a.clone(), key.1.clone()), x => x.clone() };   // R1
		let keep = match &m.info {
			Act::Add(_) => !params.is_empty(),                                                  // R2
			_ => info.changes() || m.doc.changes() || !params.is_empty(),                     // R3
		};
		if keep { Some(DMethod { info, doc: m.doc.clone(), params }) } else { None }
	}
	fn o_class(key: &str, c: &DClass) -> Option<DClass> {
		let fields: BTreeMap<MKey, DLeaf> = c.fields.iter().filter_map(|(k, f)| o_leaf(f, &k.1).map(|f| (k.clone(), f))).collect();
		let methods: BTreeMap<MKey, DMethod> = c.methods.iter().filter_map(|(k, m)| o_method(k, m).map(|m| (k.clone(), m))).collect();
		let info = match &c.info { Act::Remove(a) => Act::Edit(a.clone(), o_simple(key).to_string()), x => x.clone() };   // R1
		let children = !fields.is_empty() || !methods.is_empty();
		let keep = match &c.info {
			Act::Add(_) => children,                                             // R2
			_ => info.changes() || c.doc.changes() || children,                // R3
		};
		if keep { Some(DClass { info, doc: c.doc.clone(), fields, methods }) } else { None }
	}
	fn o_insert_dummy(d: &DSet) -> DSet { DSet { classes: d.classes.iter().filter_map(|(k, c)| o_class(k, c).map(|c| (k.clone(), c))).collect() } }

	// ---------------------------------------------------------------------------------------------------------------------
	// one case: both construction routes, result against the oracle, second application
	// ---------------------------------------------------------------------------------------------------------------------
	fn run(input: MappingsDiff) -> Result<(DSet, DSet), String> {
		let r = input.insert_dummy_and_contract_inner_names().map_err(|e| format!("refused, although the statement names no input that is refused: {e:#}"))?;
		let once = extract(&r)?;
		let twice = extract(&r.insert_dummy_and_contract_inner_names().map_err(|e| format!("second application refused: {e:#}"))?)?;
		Ok((once, twice))
	}
	fn check(t: &mut Tally, d: &DSet) {
		let input = shown(d);
		t.at(input.as_bytes());
		let want = o_insert_dummy(d);
		t.case(&want != d);
		// (a) through the public fields
		match guarded(|| run(build(d))) {
			Ok(Some(Ok((once, twice)))) => {
				if once != want { t.fail(input.clone(), &format!("expected {} got {}", shown(&want), shown(&once))); return; }
				if twice != once { t.fail(input.clone(), &format!("not idempotent: a second application turns {} into {}", shown(&once), shown(&twice))); return; }
			},
			Ok(Some(Err(e))) => { t.fail(input.clone(), &e); return; },
			_ => { t.fail(input.clone(), "panicked"); return; },
		}
		// (b) through .tinydiff text (which cannot say `x -> x`: such an action arrives as "nothing")
		let (td, text) = (text_form(d), render(d));
		let want = o_insert_dummy(&td);
		match guarded(|| { let m = crate::tiny_v2_diff::read(text.as_bytes()).map_err(|e| format!("harness: tiny_v2_diff::read refused {text:?}: {e:#}"))?;
				if extract(&m)? != td { return Err(format!("harness: tiny_v2_diff::read did not deliver the model written as {text:?}")); }
				run(m) }) {
			Ok(Some(Ok((once, twice)))) => {
				if once != want { t.fail(format!("(read from text) {}", shown(&td)), &format!("expected {} got {}", shown(&want), shown(&once))); }
				else if twice != once { t.fail(format!("(read from text) {}", shown(&td)), "not idempotent"); }
			},
			Ok(Some(Err(e))) => t.fail(format!("(read from text) {}", shown(&td)), &e),
			_ => t.fail(format!("(read from text) {}", shown(&td)), "panicked"),
		}
	}

	// ---------------------------------------------------------------------------------------------------------------------
	// menus
	// ---------------------------------------------------------------------------------------------------------------------
	fn s(x: &str) -> String { x.to_string() }
	fn uniq(v: Vec<Act>) -> Vec<Act> { let mut o: Vec<Act> = vec![]; for a in v { if !o.contains(&a) { o.push(a); } } o }
	/// every action on a name, over: the placeholder `k` of the entry, two real names, and further names `extra` (names
	/// that merely contain the placeholder prefix, other placeholders, inner class names)
	fn info_menu(k: &str, r: &str, r2: &str, extra: &[&str]) -> Vec<Act> {
		let mut v = vec![Act::Keep, Act::Add(s(r)), Act::Add(s(k)), Act::Remove(s(r)), Act::Remove(s(k)),
			Act::Edit(s(r), s(r)), Act::Edit(s(k), s(k)), Act::Edit(s(r), s(r2)), Act::Edit(s(k), s(r)), Act::Edit(s(r), s(k))];
		for x in extra { v.push(Act::Remove(s(x))); v.push(Act::Edit(s(x), s(r))); }
		uniq(v)
	}
	fn doc_menu() -> Vec<Act> { vec![Act::Keep, Act::Add(s("c")), Act::Remove(s("c")), Act::Edit(s("c"), s("c")), Act::Edit(s("c"), s("d"))] }
	fn leaf(info: Act, doc: Act) -> DLeaf { DLeaf { info, doc } }
	fn leaves(infos: &[Act]) -> Vec<DLeaf> { let mut v = vec![]; for i in infos { for d in doc_menu() { v.push(leaf(i.clone(), d)); } } v }
	fn method(info: Act, doc: Act, params: &[(usize, DLeaf)]) -> DMethod { DMethod { info, doc, params: params.iter().cloned().collect() } }
	fn one_class(key: &str, c: DClass) -> DSet { DSet { classes: [(s(key), c)].into_iter().collect() } }
	fn plain_class() -> DClass { DClass { info: Act::Keep, doc: Act::Keep, fields: BTreeMap::new(), methods: BTreeMap::new() } }

	/// representative fields (source name `k`): absent; dropped by R3 (2); discarded by R2 (2); removal of the placeholder
	/// itself (dropped; kept when the comment goes too); kept (3)
	fn field_rep(k: &str) -> Vec<Option<DLeaf>> {
		let (r, c) = ("real", "c");
		vec![None,
			Some(leaf(Act::Keep, Act::Keep)), Some(leaf(Act::Edit(s(r), s(r)), Act::Edit(s(c), s(c)))),
			Some(leaf(Act::Add(s(r)), Act::Keep)), Some(leaf(Act::Add(s(r)), Act::Add(s(c)))),
			Some(leaf(Act::Remove(s(k)), Act::Keep)), Some(leaf(Act::Remove(s(k)), Act::Remove(s(c)))),
			Some(leaf(Act::Remove(s(r)), Act::Keep)), Some(leaf(Act::Keep, Act::Remove(s(c)))), Some(leaf(Act::Edit(s(r), s("other")), Act::Keep))]
	}
	/// representative methods (source name `k`, parameter index `i`)
	fn method_rep(k: &str, i: usize) -> Vec<Option<DMethod>> {
		let (r, c, a) = ("go", "c", "arg");
		let ph = format!("p_{i}");
		let p = |info: Act| vec![(i, leaf(info, Act::Keep))];
		vec![None,
			// nothing changes: dropped unless a parameter stays
			Some(method(Act::Keep, Act::Keep, &[])), Some(method(Act::Keep, Act::Keep, &p(Act::Keep))), Some(method(Act::Keep, Act::Keep, &p(Act::Edit(s(a), s("b"))))),
			Some(method(Act::Keep, Act::Keep, &p(Act::Add(s(a))))),
			// additions: discarded unless a parameter stays
			Some(method(Act::Add(s(r)), Act::Keep, &[])), Some(method(Act::Add(s(r)), Act::Add(s(c)), &[])), Some(method(Act::Add(s(r)), Act::Keep, &p(Act::Edit(s(a), s("b"))))),
			Some(method(Act::Add(s(r)), Act::Keep, &p(Act::Add(s(a))))), Some(method(Act::Add(s(r)), Act::Keep, &p(Act::Remove(s(a))))),
			// removals
			Some(method(Act::Remove(s(r)), Act::Keep, &[])), Some(method(Act::Remove(s(k)), Act::Keep, &[])), Some(method(Act::Remove(s(k)), Act::Keep, &p(Act::Remove(ph.clone())))),
			Some(method(Act::Remove(s(k)), Act::Keep, &p(Act::Remove(s(a))))),
			// kept for its comment / its parameter's comment
			Some(method(Act::Keep, Act::Edit(s(c), s("d")), &[])), Some(method(Act::Edit(s(r), s(r)), Act::Keep, &[(i, leaf(Act::Keep, Act::Add(s(c))))]))]
	}

	// ---------------------------------------------------------------------------------------------------------------------
	// the tests
	// ---------------------------------------------------------------------------------------------------------------------
	/// Bound: one class A (no action of its own) with one method (I)V under the source name m_1 / <init> / run; the method
	/// carries each of 12 name actions x 5 comment actions; its first parameter (index 0 / 10 / 1) is absent or carries each
	/// of 14 x 5 actions; a second parameter (index 3) is absent or one of 5 representatives.
	#[test]
	fn parameters_and_methods() {
		let mut t = Tally::new("parameters_and_methods");
		for (mk, idx) in [("m_1", 0usize), ("<init>", 10), ("run", 1)] {
			let ph = format!("p_{idx}");
			let other_ph = format!("p_{}", idx + 1);
			let xph = format!("x{ph}");
			let first: Vec<Option<DLeaf>> = std::iter::once(None).chain(leaves(&info_menu(&ph, "arg", "arg2", &[&other_ph, &xph])).into_iter().map(Some)).collect();
			let second: Vec<Option<DLeaf>> = vec![None, Some(leaf(Act::Keep, Act::Keep)), Some(leaf(Act::Add(s("z")), Act::Keep)), Some(leaf(Act::Remove(s("p_3")), Act::Keep)),
				Some(leaf(Act::Remove(s("z")), Act::Keep)), Some(leaf(Act::Keep, Act::Add(s("c"))))];
			for mi in info_menu(mk, "go", "stop", &["xm_1"]) { for md in doc_menu() { for p0 in &first { for p1 in &second {
				let mut m = method(mi.clone(), md.clone(), &[]);
				if let Some(p) = p0 { m.params.insert(idx, p.clone()); }
				if let Some(p) = p1 { m.params.insert(3, p.clone()); }
				let mut c = plain_class();
				c.methods.insert((s("(I)V"), s(mk)), m);
				check(&mut t, &one_class("A", c));
			}}}}
		}
		t.finish();
	}

	/// Bound: (a) one class A$B (no action of its own) with a field I under the source name f_1 / fld carrying each of
	/// 12 x 5 actions next to a second field J g that is absent or one of 9 representatives;
	/// (b) one class under each of 6 keys (A, A$B, p/A$B$C, p$q/D, net/minecraft/unmapped/C_1, net/minecraft/unmapped/C_1$C_2)
	/// carrying each of <= 19 name actions (placeholder = simple inner name of the key; real names; the full key; inner
	/// class names O$I, O$J as added / removed / edited names) x 5 comment actions, with a field I f_1 (absent or 9
	/// representatives) and a method (I)V m_1 (absent or 15 representatives, with and without a parameter).
	#[test]
	fn fields_classes_and_inner_names() {
		let mut t = Tally::new("fields_classes_and_inner_names");
		for fk in ["f_1", "fld"] { for f in leaves(&info_menu(fk, "real", "other", &["xf_1"])) { for g in field_rep("g") {
			let mut c = plain_class();
			c.fields.insert((s("I"), s(fk)), f.clone());
			if let Some(g) = g { c.fields.insert((s("J"), s("g")), g); }
			check(&mut t, &one_class("A$B", c));
		}}}
		for key in ["A", "A$B", "p/A$B$C", "p$q/D", "net/minecraft/unmapped/C_1", "net/minecraft/unmapped/C_1$C_2"] {
			let simple = match key { "A" => "A", "A$B" => "B", "p/A$B$C" => "C", "p$q/D" => "p$q/D", "net/minecraft/unmapped/C_1" => "net/minecraft/unmapped/C_1", _ => "C_2" };
			assert_eq!(o_simple(key), simple, "harness: the oracle's simple inner name differs from the hand-written one");
			let mut infos = info_menu(simple, "Real", "p/Other", &[key, "O$I"]);
			infos.extend([Act::Add(s("O$I")), Act::Edit(s("O$I"), s("O$I")), Act::Edit(s("O$I"), s("O$J")), Act::Edit(s("Real"), s("O$I")), Act::Edit(s(key), s(key))]);
			for ci in uniq(infos) { for cd in doc_menu() { for f in field_rep("f_1") { for m in method_rep("m_1", 0) {
				let mut c = DClass { info: ci.clone(), doc: cd.clone(), fields: BTreeMap::new(), methods: BTreeMap::new() };
				if let Some(f) = &f { c.fields.insert((s("I"), s("f_1")), f.clone()); }
				if let Some(m) = &m { c.methods.insert((s("(I)V"), s("m_1")), m.clone()); }
				check(&mut t, &one_class(key, c));
			}}}}
		}
		t.finish();
	}

	/// Bound: (a) one class p/A (no action of its own) with two fields (I f_1, J g: absent or 9 representatives each) and two
	/// methods ((I)V m_1: absent or 15 representatives; ()V <init>: absent or 5 representatives);
	/// (b) the two classes A and A$B together, each absent or one of 6 name actions x 2 comment actions x 4 member shapes.
	#[test]
	fn several_members_and_classes() {
		let mut t = Tally::new("several_members_and_classes");
		let m2: Vec<Option<DMethod>> = { let v = method_rep("<init>", 1); [0usize, 1, 3, 5, 7, 13].iter().map(|&i| v[i].clone()).collect() };
		for f1 in field_rep("f_1") { for f2 in field_rep("g") { for m1 in method_rep("m_1", 0) { for m in &m2 {
			let mut c = plain_class();
			if let Some(f) = &f1 { c.fields.insert((s("I"), s("f_1")), f.clone()); }
			if let Some(f) = &f2 { c.fields.insert((s("J"), s("g")), f.clone()); }
			if let Some(m) = &m1 { c.methods.insert((s("(I)V"), s("m_1")), m.clone()); }
			if let Some(m) = m { c.methods.insert((s("()V"), s("<init>")), m.clone()); }
			check(&mut t, &one_class("p/A", c));
		}}}}
		let class_rep = |simple: &str| -> Vec<Option<DClass>> {
			let mut v = vec![None];
			for ci in [Act::Keep, Act::Add(s("Real")), Act::Remove(s("Real")), Act::Remove(s(simple)), Act::Edit(s("Real"), s("Other")), Act::Edit(s("Real"), s("Real"))] {
				for cd in [Act::Keep, Act::Add(s("c"))] { for shape in 0..4 {
					let mut c = DClass { info: ci.clone(), doc: cd.clone(), fields: BTreeMap::new(), methods: BTreeMap::new() };
					match shape {
						1 => { c.fields.insert((s("I"), s("f_1")), leaf(Act::Remove(s("real")), Act::Keep)); },
						2 => { c.fields.insert((s("I"), s("f_1")), leaf(Act::Add(s("real")), Act::Keep)); },
						3 => { c.methods.insert((s("(I)V"), s("m_1")), method(Act::Keep, Act::Keep, &[(0, leaf(Act::Remove(s("arg")), Act::Keep))])); },
						_ => {},
					}
					v.push(Some(c));
				}}
			}
			v
		};
		for a in class_rep("A") { for b in class_rep("B") {
			let mut d = DSet { classes: BTreeMap::new() };
			if let Some(a) = &a { d.classes.insert(s("A"), a.clone()); }
			if let Some(b) = &b { d.classes.insert(s("A$B"), b.clone()); }
			check(&mut t, &d);
		}}
		t.finish();
	}

	/// deliberately false: "the filter returns its input" (it must fail for every addition, removal and no-op node)
	#[test]
	fn canary_must_fail() {
		let mut t = Tally::new("canary_must_fail");
		for f in leaves(&info_menu("f_1", "real", "other", &[])) {
			let mut c = plain_class();
			c.fields.insert((s("I"), s("f_1")), f);
			let d = one_class("A", c);
			t.case(true);
			match build(&d).insert_dummy_and_contract_inner_names().map_err(|e| format!("{e:#}")).and_then(|r| extract(&r)) {
				Ok(g) if g == d => {},
				_ => t.fail(shown(&d), "canary"),
			}
		}
		t.finish();
	}
