	// =====================================================================================================================
	// bounded exhaustive enumeration for dukenest (C14): nest_jar, apply_nests_to_mappings, undo_nests_to_mappings, remap_nests
	//
	// Everything below works on an own model (plain strings): a jar is a list of class models, a nests table a list of
	// MNest, a mapping set a list of MMClass.  The duke trees / Tiny v2 text handed to the real code are generated from the
	// model; the expected results are generated from the model too, with the renaming applied AT MODEL LEVEL (the harness
	// never calls a remapper).
	// =====================================================================================================================
	use std::collections::{BTreeMap, BTreeSet};
	use java_string::JavaString;
	use duke::tree::class::{ClassAccess, ClassFile, ClassName, EnclosingMethod, InnerClass, InnerClassFlags, ObjClassName};
	use duke::tree::field::{Field, FieldAccess, FieldDescriptor, FieldName, FieldRef, FieldSignature};
	use duke::tree::method::{Method, MethodAccess, MethodDescriptor, MethodName, MethodNameAndDesc, MethodRef};
	use duke::tree::method::code::{Code, Instruction, InstructionListEntry, Loadable};
	use duke::tree::version::Version;
	use dukebox::storage::{BasicFileAttributes, JarEntryEnum, ParsedJarEntry};
	use crate::nest::{Nest, NestType};

	fn js(s: &str) -> JavaString { JavaString::from(s.to_owned()) }
	fn ocn(s: &str) -> ObjClassName { ObjClassName::try_from(js(s)).unwrap_or_else(|e| panic!("harness: bad class name {s:?}: {e:#}")) }
	fn cn(s: &str) -> ClassName { ClassName::try_from(js(s)).unwrap_or_else(|e| panic!("harness: bad class name {s:?}: {e:#}")) }
	fn fdesc(s: &str) -> FieldDescriptor { FieldDescriptor::try_from(js(s)).unwrap_or_else(|e| panic!("harness: bad field descriptor {s:?}: {e:#}")) }
	fn mdesc(s: &str) -> MethodDescriptor { MethodDescriptor::try_from(js(s)).unwrap_or_else(|e| panic!("harness: bad method descriptor {s:?}: {e:#}")) }
	fn mname(s: &str) -> MethodName { MethodName::try_from(js(s)).unwrap_or_else(|e| panic!("harness: bad method name {s:?}: {e:#}")) }
	fn fname(s: &str) -> FieldName { FieldName::try_from(js(s)).unwrap_or_else(|e| panic!("harness: bad field name {s:?}: {e:#}")) }
	fn jstr(s: &JavaString) -> String { s.clone().into_string().unwrap_or_else(|_| "<not utf-8>".into()) }

	enum Out<T> { Ok(T), Err(String), Panic }
	fn run<T>(f: impl FnOnce() -> Result<T>) -> Out<T> {
		match guarded(f) { Ok(Some(Ok(v))) => Out::Ok(v), Ok(Some(Err(e))) => Out::Err(format!("{e:#}")), _ => Out::Panic }
	}

	/// rewrites every class name inside `L...;` of a field / method descriptor (own scanner)
	fn ren_desc(d: &str, ren: &dyn Fn(&str) -> String) -> String {
		let b: Vec<char> = d.chars().collect();
		let (mut out, mut i) = (String::new(), 0);
		while i < b.len() {
			if b[i] == 'L' {
				let j = (i + 1..b.len()).find(|&j| b[j] == ';').unwrap_or_else(|| panic!("harness: bad descriptor {d:?}"));
				out.push('L'); out += &ren(&b[i + 1..j].iter().collect::<String>()); out.push(';');
				i = j + 1;
			} else { out.push(b[i]); i += 1; }
		}
		out
	}

	// ---------------------------------------------------------------------------------------------------------------------
	// model of a nests table
	// ---------------------------------------------------------------------------------------------------------------------
	#[derive(Clone, Copy, Debug, PartialEq, Eq)]
	enum Kind { Anon, Inner, Local }
	#[derive(Clone, Debug, PartialEq, Eq)]
	struct MNest { class: String, encl: String, method: Option<(String, String)>, inner: String, kind: Kind, access: u16 }

	fn table(ns: &[MNest]) -> Nests<()> {
		let mut t = Nests::<()>::default();
		for n in ns {
			t.all.insert(ocn(&n.class), Nest {
				nest_type: match n.kind { Kind::Anon => NestType::Anonymous, Kind::Inner => NestType::Inner, Kind::Local => NestType::Local },
				class_name: ocn(&n.class),
				encl_class_name: ocn(&n.encl),
				encl_method: n.method.as_ref().map(|(na, de)| MethodNameAndDesc { name: mname(na), desc: mdesc(de) }),
				inner_name: ocn(&n.inner),
				inner_access: InnerClassFlags::from(n.access),
			});
		}
		t
	}
	fn untable<X>(t: &Nests<X>) -> Vec<MNest> {
		t.all.iter().map(|(k, n)| {
			let class = jstr(&n.class_name.clone().into_inner());
			assert_eq!(jstr(&k.clone().into_inner()), class, "key of a nest differs from its class name");
			MNest {
				class,
				encl: jstr(&n.encl_class_name.clone().into_inner()),
				method: n.encl_method.as_ref().map(|m| (jstr(&m.name.clone().into_inner()), jstr(&m.desc.clone().into_inner()))),
				inner: jstr(&n.inner_name.clone().into_inner()),
				kind: match n.nest_type { NestType::Anonymous => Kind::Anon, NestType::Inner => Kind::Inner, NestType::Local => Kind::Local },
				access: u16::from(n.inner_access),
			}
		}).collect()
	}
	fn show_table(ns: &[MNest]) -> String {
		ns.iter().map(|n| format!("[{} in {} method {} inner {:?} {:?} 0x{:04x}]", n.class, n.encl,
			n.method.as_ref().map(|(a, b)| format!("{a}{b}")).unwrap_or("-".into()), n.inner, n.kind, n.access)).collect::<Vec<_>>().join(" ")
	}

	/// the name a class gets when exactly the nests in `applied` are carried out: Enclosing$Inner, transitively
	fn nested_name(ns: &[MNest], applied: &BTreeSet<String>, c: &str, depth: usize) -> String {
		assert!(depth < 32, "harness: cyclic table in an oracle that expects acyclic tables");
		match ns.iter().find(|n| n.class == c && applied.contains(c)) {
			Some(n) => format!("{}${}", nested_name(ns, applied, &n.encl, depth + 1), n.inner),
			None => c.to_owned(),
		}
	}
	fn strip_digits(s: &str) -> &str { s.trim_start_matches(|c: char| c.is_ascii_digit()) }
	/// "positive numeric": a decimal number >= 1
	fn positive_decimal(s: &str) -> bool { !s.is_empty() && s.chars().all(|c| c.is_ascii_digit()) && s.chars().any(|c| c != '0') }

	// ---------------------------------------------------------------------------------------------------------------------
	// model of a jar and the generator of duke trees
	// ---------------------------------------------------------------------------------------------------------------------
	#[derive(Clone, Debug)]
	struct MClass {
		name: String,
		version: Version,
		/// declared methods (name, descriptor); descriptors may mention classes
		methods: Vec<(String, String)>,
		/// every class name this class refers to (in every position the generator knows)
		refs: Vec<String>,
		/// an InnerClasses entry the class has before nesting
		pre_inner: Option<String>,
		/// generic Signature attributes (class, field, method) mentioning every reference
		signatures: bool,
	}
	const FLD: FieldAccess = FieldAccess { is_public: true, is_private: false, is_protected: false, is_static: false, is_final: false, is_volatile: false, is_transient: false, is_synthetic: false, is_enum: false };
	fn macc(bits: u16) -> MethodAccess { MethodAccess::from(bits) }
	fn insn(i: Instruction) -> InstructionListEntry { InstructionListEntry { label: None, frame: None, instruction: i } }

	/// the duke tree of a class model, every class name passed through `ren` (model-level renaming)
	fn build_class(c: &MClass, ren: &dyn Fn(&str) -> String) -> ClassFile {
		let r = |x: &str| ren(x);
		let mut cf = ClassFile::new(c.version, ClassAccess { is_public: true, is_super: true, ..ClassAccess::default() }, ocn(&r(&c.name)),
			Some(ocn(&r(c.refs.first().map(|x| x.as_str()).unwrap_or("java/lang/Object")))),
			c.refs.iter().skip(1).map(|x| ocn(&r(x))).collect());
		// identity mark that no renaming touches
		cf.source_file = Some(js(&format!("id:{}", c.name)));
		for (i, x) in c.refs.iter().enumerate() {
			let mut f = Field::new(FLD, fname(&format!("f{i}")), fdesc(&format!("L{};", r(x))));
			if c.signatures { f.signature = Some(FieldSignature::try_from(js(&format!("L{}<L{};>;", r(x), r(x)))).unwrap()); }
			cf.fields.push(f);
			cf.fields.push(Field::new(FLD, fname(&format!("g{i}")), fdesc(&format!("[[L{};", r(x)))));
		}
		for (na, de) in &c.methods {
			let mut m = Method::new(macc(0x0001), mname(na), mdesc(&ren_desc(de, ren)));
			m.code = Some(Code { max_stack: Some(0), max_locals: Some(4), instructions: vec![insn(Instruction::Return)], ..Code::default() });
			cf.methods.push(m);
		}
		let mut code = Vec::new();
		for x in &c.refs {
			let x = r(x);
			code.push(insn(Instruction::New(cn(&x))));
			code.push(insn(Instruction::CheckCast(cn(&format!("[L{x};")))));
			code.push(insn(Instruction::InstanceOf(cn(&x))));
			code.push(insn(Instruction::ANewArray(cn(&x))));
			code.push(insn(Instruction::Ldc(Loadable::Class(cn(&x)))));
			code.push(insn(Instruction::GetField(FieldRef { class: ocn(&x), name: fname("fx"), desc: fdesc(&format!("L{x};")) })));
			code.push(insn(Instruction::PutStatic(FieldRef { class: ocn(&x), name: fname("fy"), desc: fdesc(&format!("[L{x};")) })));
			code.push(insn(Instruction::InvokeVirtual(MethodRef { class: cn(&x), name: mname("call"), desc: mdesc(&format!("(L{x};I)L{x};")) })));
			code.push(insn(Instruction::InvokeStatic(MethodRef { class: cn(&x), name: mname("scall"), desc: mdesc(&format!("([L{x};)V")) }, false)));
			code.push(insn(Instruction::InvokeInterface(MethodRef { class: cn(&x), name: mname("icall"), desc: mdesc("()V") })));
		}
		code.push(insn(Instruction::Return));
		let all: String = c.refs.iter().map(|x| format!("L{};", r(x))).collect();
		let mut m = Method::new(macc(0x0009), mname("refs"), mdesc(&format!("({all})V")));
		m.code = Some(Code { max_stack: Some(4), max_locals: Some(16), instructions: code, ..Code::default() });
		m.exceptions = Some(c.refs.iter().map(|x| cn(&r(x))).collect());
		if c.signatures { m.signature = Some(duke::tree::method::MethodSignature::try_from(js(&format!("<T:{all}>({all})V"))).unwrap()); }
		cf.methods.push(m);
		if c.signatures { cf.signature = Some(duke::tree::class::ClassSignature::try_from(js(&format!("<T:Ljava/lang/Object;>Ljava/lang/Object;{all}"))).unwrap()); }
		if let Some(p) = &c.pre_inner {
			cf.inner_classes = Some(vec![InnerClass { inner_class: cn(&r(p)), outer_class: Some(cn(&r(&c.name))), inner_name: Some(js("Pre")), flags: InnerClassFlags::from(0x0008) }]);
		}
		cf.nest_host_class = c.refs.first().map(|x| cn(&r(x)));
		cf
	}

	const RES: &[u8] = b"resource bytes p/C1 p/H";
	fn build_jar(classes: &[MClass]) -> ParsedJar<ClassRepr, Vec<u8>> {
		let mut jar = ParsedJar { entries: indexmap::IndexMap::new() };
		jar.entries.insert("p/".to_owned(), ParsedJarEntry { attr: BasicFileAttributes::default(), content: JarEntryEnum::Dir });
		for c in classes {
			jar.entries.insert(format!("{}.class", c.name), ParsedJarEntry { attr: BasicFileAttributes::default(),
				content: JarEntryEnum::Class(ClassRepr::Parsed { class: build_class(c, &|x| x.to_owned()) }) });
		}
		jar.entries.insert("META-INF/p/C1.txt".to_owned(), ParsedJarEntry { attr: BasicFileAttributes::default(), content: JarEntryEnum::Other(RES.to_vec()) });
		jar
	}

	// ---------------------------------------------------------------------------------------------------------------------
	// the oracle for nest_jar, written from the property
	// ---------------------------------------------------------------------------------------------------------------------
	struct JarOracle { applied: BTreeSet<String>, created_required: BTreeSet<String>, created_allowed: BTreeSet<String> }
	fn jar_oracle(classes: &[MClass], ns: &[MNest]) -> JarOracle {
		let in_jar = |c: &str| classes.iter().any(|k| k.name == c);
		let declares = |c: &str, m: &(String, String)| classes.iter().any(|k| k.name == c && k.methods.contains(m));
		let mut o = JarOracle { applied: BTreeSet::new(), created_required: BTreeSet::new(), created_allowed: BTreeSet::new() };
		for n in ns {
			if !in_jar(&n.class) { continue; }                                  // only classes that are present
			let has_method = n.method.as_ref().is_some_and(|m| declares(&n.encl, m));
			let rule = match n.kind {
				Kind::Anon => positive_decimal(&n.inner),                        // anonymous: positive numeric inner name
				Kind::Inner => !has_method,                                      // inner: enclosing method absent
				Kind::Local => has_method,                                       // local: enclosing method present
			};
			if !in_jar(&n.encl) { o.created_allowed.insert(n.encl.clone()); }
			if rule {
				o.applied.insert(n.class.clone());
				if !in_jar(&n.encl) { o.created_required.insert(n.encl.clone()); }
			}
		}
		o
	}
	/// the class `c` as it must look after nesting (`rename == false`: attributes only, all names kept)
	fn expected_class(c: &MClass, ns: &[MNest], o: &JarOracle, rename: bool) -> ClassFile {
		let ren = |x: &str| if rename { nested_name(ns, &o.applied, x, 0) } else { x.to_owned() };
		let mut cf = build_class(c, &ren);
		if let Some(n) = ns.iter().find(|n| n.class == c.name && o.applied.contains(&c.name)) {
			if n.kind != Kind::Inner {
				cf.enclosing_method = Some(EnclosingMethod { class: cn(&ren(&n.encl)),
					method: n.method.as_ref().map(|(na, de)| MethodNameAndDesc { name: mname(na), desc: mdesc(&ren_desc(de, &ren)) }) });
			}
			cf.inner_classes.get_or_insert_with(Vec::new).push(InnerClass {
				inner_class: cn(&ren(&n.class)),
				outer_class: if n.kind == Kind::Inner { Some(cn(&ren(&n.encl))) } else { None },   // JVMS 4.7.6: only members have an outer class
				inner_name: match n.kind { Kind::Anon => None, Kind::Inner => Some(js(&n.inner)), Kind::Local => Some(js(strip_digits(&n.inner))) },
				flags: InnerClassFlags::from(n.access),
			});
		}
		cf
	}
	fn diff_class(got: &ClassFile, want: &ClassFile) -> String {
		if got == want { return String::new(); }
		let mut d = Vec::new();
		if got.name != want.name { d.push(format!("name {:?} instead of {:?}", got.name, want.name)); }
		if got.super_class != want.super_class { d.push(format!("super class {:?} instead of {:?}", got.super_class, want.super_class)); }
		if got.interfaces != want.interfaces { d.push(format!("interfaces {:?} instead of {:?}", got.interfaces, want.interfaces)); }
		if got.inner_classes != want.inner_classes { d.push(format!("InnerClasses {:?} instead of {:?}", got.inner_classes, want.inner_classes)); }
		if got.enclosing_method != want.enclosing_method { d.push(format!("EnclosingMethod {:?} instead of {:?}", got.enclosing_method, want.enclosing_method)); }
		if got.signature != want.signature { d.push(format!("class Signature {:?} instead of {:?}", got.signature, want.signature)); }
		if got.nest_host_class != want.nest_host_class { d.push(format!("NestHost {:?} instead of {:?}", got.nest_host_class, want.nest_host_class)); }
		if got.fields.len() != want.fields.len() { d.push(format!("{} fields instead of {}", got.fields.len(), want.fields.len())); }
		for (a, b) in got.fields.iter().zip(&want.fields) { if a != b {
			if a.descriptor != b.descriptor || a.name != b.name { d.push(format!("field {:?}:{:?} instead of {:?}:{:?}", a.name, a.descriptor, b.name, b.descriptor)); }
			else if a.signature != b.signature { d.push(format!("field {:?} Signature {:?} instead of {:?}", a.name, a.signature, b.signature)); }
			else { d.push(format!("field {:?} differs", a.name)); }
			break;
		} }
		if got.methods.len() != want.methods.len() { d.push(format!("{} methods instead of {}", got.methods.len(), want.methods.len())); }
		for (a, b) in got.methods.iter().zip(&want.methods) { if a != b {
			if a.descriptor != b.descriptor || a.name != b.name { d.push(format!("method {}{} instead of {}{}", a.name, a.descriptor, b.name, b.descriptor)); }
			else if a.signature != b.signature { d.push(format!("method {} Signature {:?} instead of {:?}", a.name, a.signature, b.signature)); }
			else if a.exceptions != b.exceptions { d.push(format!("method {} Exceptions {:?} instead of {:?}", a.name, a.exceptions, b.exceptions)); }
			else if let (Some(x), Some(y)) = (&a.code, &b.code) {
				match x.instructions.iter().zip(&y.instructions).find(|(p, q)| p != q) {
					Some((p, q)) => d.push(format!("method {} instruction {:?} instead of {:?}", a.name, p.instruction, q.instruction)),
					None => d.push(format!("method {} code differs", a.name)),
				}
			} else { d.push(format!("method {} differs", a.name)); }
			break;
		} }
		if d.is_empty() { d.push("class differs outside names / members / InnerClasses / EnclosingMethod".into()); }
		d.join("; ")
	}

	/// Ok(()) or the first deviation of the real result from the property
	fn check_jar(classes: &[MClass], jar: &ParsedJar<ClassRepr, Vec<u8>>, ns: &[MNest], rename: bool) -> Result<bool, String> {
		let o = jar_oracle(classes, ns);
		let out = match run(|| nest_jar(rename, jar, table(ns))) {
			Out::Ok(j) => j, Out::Err(e) => return Err(format!("nest_jar returned Err({e})")), Out::Panic => return Err("nest_jar panicked".into()),
		};
		let ren = |x: &str| if rename { nested_name(ns, &o.applied, x, 0) } else { x.to_owned() };
		let mut seen = BTreeSet::new();
		for c in classes {
			let key = format!("{}.class", ren(&c.name));
			let Some(e) = out.entries.get(&key) else {
				let have: Vec<&String> = out.entries.keys().collect();
				return Err(format!("class {} must be stored as {key}; entries are {have:?}", c.name));
			};
			let JarEntryEnum::Class(ClassRepr::Parsed { class }) = &e.content else { return Err(format!("entry {key} is not a parsed class")); };
			let d = diff_class(class, &expected_class(c, ns, &o, rename));
			if !d.is_empty() { return Err(format!("class {} (entry {key}): {d}", c.name)); }
			seen.insert(key);
		}
		for m in &o.created_required {
			let key = format!("{m}.class");
			if !out.entries.contains_key(&key) { return Err(format!("the missing enclosing class {m} was not created")); }
		}
		for (key, e) in &out.entries {
			if seen.contains(key) { continue; }
			match (key.as_str(), &e.content) {
				("p/", JarEntryEnum::Dir) => {},
				("META-INF/p/C1.txt", JarEntryEnum::Other(b)) if b.as_slice() == RES => {},
				(k, JarEntryEnum::Class(ClassRepr::Parsed { class })) if k.strip_suffix(".class").is_some_and(|m| o.created_allowed.contains(m)) => {
					let m = k.strip_suffix(".class").unwrap();
					if jstr(&class.name.clone().into_inner()) != m { return Err(format!("created class stored as {k} is called {:?}", class.name)); }
					if !class.fields.is_empty() || !class.methods.is_empty() || class.inner_classes.is_some() || class.enclosing_method.is_some() {
						return Err(format!("created enclosing class {m} is not an empty top-level class: {class:?}"));
					}
				},
				(k, c) => return Err(format!("unexpected entry {k} ({c:?})")),
			}
		}
		for k in ["p/", "META-INF/p/C1.txt"] { if !out.entries.contains_key(k) { return Err(format!("the entry {k} is gone")); } }
		Ok(!o.applied.is_empty())
	}

	// ---------------------------------------------------------------------------------------------------------------------
	// universes of jars x tables
	// ---------------------------------------------------------------------------------------------------------------------
	const H: &str = "p/H";
	const M: &str = "p/M";      // never in a jar
	const U: &str = "p/U";      // always in the jar, never listed
	fn cand(i: usize) -> String { format!("p/C{i}") }
	fn pool(k: usize) -> Vec<String> { let mut v = vec![H.to_owned(), M.to_owned(), U.to_owned(), "java/lang/Object".to_owned(), "q/Other$In1".to_owned()]; for i in 1..=k { v.push(cand(i)); } v }
	/// every class of the jars declares m()V and n(Lp/C1;)V
	fn std_methods() -> Vec<(String, String)> { vec![("m".into(), "()V".into()), ("n".into(), "(Lp/C1;)V".into()), ("<init>".into(), "()V".into())] }
	fn jar_class(name: &str, k: usize, signatures: bool) -> MClass {
		let mut refs = pool(k);
		// the super class of every class is java/lang/Object, of U it is C1 (a renamed class in super class position)
		let first = if name == U { cand(1) } else { "java/lang/Object".to_owned() };
		refs.retain(|x| *x != first); refs.insert(0, first);
		MClass { name: name.to_owned(), version: if name == U { Version::V1_8 } else if name == H { Version::V11 } else { Version::V1_6 },
			methods: std_methods(), refs, pre_inner: if name == H || name == "p/C2" { Some("q/Other$In1".to_owned()) } else { None }, signatures }
	}
	/// the variants of one nest entry: (kind, enclosing method, inner name)
	fn variant(v: usize, i: usize) -> (Kind, Option<(String, String)>, String) {
		let me = |a: &str, b: &str| Some((a.to_owned(), b.to_owned()));
		match v {
			0 => (Kind::Inner, None, format!("In{i}")),                         // custom inner name
			1 => (Kind::Inner, None, format!("C{i}")),                          // derived inner name
			2 => (Kind::Inner, me("m", "()V"), format!("In{i}")),               // method present in every jar class: no inner class
			3 => (Kind::Inner, me("x", "()V"), format!("In{i}")),               // method absent
			4 => (Kind::Local, me("m", "()V"), format!("1Lo{i}")),
			5 => (Kind::Local, me("n", "(Lp/C1;)V"), format!("2C{i}")),         // descriptor mentions a class that may be renamed
			6 => (Kind::Local, me("m", "(I)V"), format!("1Lo{i}")),             // same name, other descriptor: absent
			7 => (Kind::Local, None, format!("1Lo{i}")),
			8 => (Kind::Anon, None, format!("{i}")),
			9 => (Kind::Anon, me("m", "()V"), format!("{i}")),
			10 => (Kind::Anon, None, "0".to_owned()),                           // not positive
			11 => (Kind::Anon, None, format!("x{i}")),                          // not numeric
			12 => (Kind::Anon, me("x", "()V"), format!("00{i}")),               // leading zeros, method absent from the enclosing class
			_ => unreachable!(),
		}
	}
	fn mk_nest(i: usize, encl: &str, v: usize) -> MNest {
		let (kind, method, inner) = variant(v, i);
		MNest { class: cand(i), encl: encl.to_owned(), method, inner, kind, access: [0x0000u16, 0x0008, 0x0019, 0x1602, 0x4011][(i + v) % 5] }
	}
	/// all tables over candidates 1..=k: candidate i is absent or nested in H, M or an earlier candidate with one of `variants`
	fn all_tables(k: usize, variants: &[usize], f: &mut dyn FnMut(&[MNest])) {
		fn rec(i: usize, k: usize, variants: &[usize], cur: &mut Vec<MNest>, f: &mut dyn FnMut(&[MNest])) {
			if i > k { f(cur); return; }
			rec(i + 1, k, variants, cur, f);
			let mut encls = vec![H.to_owned(), M.to_owned()];
			for j in 1..i { encls.push(cand(j)); }
			for e in &encls { for &v in variants {
				cur.push(mk_nest(i, e, v)); rec(i + 1, k, variants, cur, f); cur.pop();
			} }
		}
		rec(1, k, variants, &mut Vec::new(), f);
	}
	fn full_jar(k: usize, signatures: bool) -> Vec<MClass> {
		let mut v = vec![jar_class(U, k, signatures), jar_class(H, k, signatures)];
		for i in 1..=k { v.push(jar_class(&cand(i), k, signatures)); }
		v
	}
	fn jar_case(t: &mut Tally, classes: &[MClass], jar: &ParsedJar<ClassRepr, Vec<u8>>, ns: &[MNest], rename: bool) {
		let input = format!("jar {{{}}} remap={rename} table {}", classes.iter().map(|c| c.name.as_str()).collect::<Vec<_>>().join(","), show_table(ns));
		t.at(input.as_bytes());
		match check_jar(classes, jar, ns, rename) {
			Ok(nt) => t.case(nt),
			Err(e) => { t.case(true); t.fail(input, &e); },
		}
	}

	/// 3 candidates, all 13 variants, every class present
	#[test]
	fn jar_nesting_wide() {
		let mut t = Tally::new("jar_nesting_wide");
		let classes = full_jar(3, false);
		let jar = build_jar(&classes);
		let variants: Vec<usize> = (0..13).collect();
		all_tables(3, &variants, &mut |ns| jar_case(&mut t, &classes, &jar, ns, true));
		t.finish();
	}
	/// 4 candidates (chains up to depth 4), 4 variants, table in reversed order
	#[test]
	fn jar_nesting_deep() {
		let mut t = Tally::new("jar_nesting_deep");
		let classes = full_jar(4, false);
		let jar = build_jar(&classes);
		all_tables(4, &[1, 2, 5, 9], &mut |ns| { let mut r = ns.to_vec(); r.reverse(); jar_case(&mut t, &classes, &jar, &r, true) });
		t.finish();
	}
	/// the tables over 3 candidates x every subset of the candidates present in the jar; `family`: only / without the cases where a
	/// listed class that is missing from the jar is the enclosing class of a listed class that is present
	fn absent_universe(t: &mut Tally, family: bool, renames: &[bool]) {
		let jars: Vec<(Vec<MClass>, ParsedJar<ClassRepr, Vec<u8>>)> = (0..8u32).map(|present| {
			let mut classes = vec![jar_class(U, 3, false), jar_class(H, 3, false)];
			for i in 1..=3 { if present & (1 << (i - 1)) != 0 { classes.push(jar_class(&cand(i), 3, false)); } }
			let jar = build_jar(&classes);
			(classes, jar)
		}).collect();
		all_tables(3, &[0, 9], &mut |ns| {
			for (classes, jar) in &jars {
				let in_jar = |c: &str| classes.iter().any(|k| k.name == c);
				// a listed class missing from the jar that (transitively) encloses a listed class that is present
				let mut fam = false;
				for n in ns { if in_jar(&n.class) {
					let mut e = n.encl.clone();
					for _ in 0..8 { match ns.iter().find(|x| x.class == e) { Some(x) => { if !in_jar(&e) { fam = true; } e = x.encl.clone(); }, None => break } }
				} }
				if fam != family { continue; }
				for &rename in renames {
					jar_case(t, classes, jar, ns, rename);
					let mut r = ns.to_vec(); r.reverse();
					if r.len() > 1 { jar_case(t, classes, jar, &r, rename); }
				}
			}
		});
	}
	#[test]
	fn jar_nesting_absent_classes() {
		let mut t = Tally::new("jar_nesting_absent_classes");
		absent_universe(&mut t, false, &[true]);
		t.finish();
	}
	#[test]
	fn jar_nesting_absent_classes__listed_class_missing_but_enclosing() {
		let mut t = Tally::new("jar_nesting_absent_classes__listed_class_missing_but_enclosing");
		absent_universe(&mut t, true, &[true]);
		t.finish();
	}
	/// remap == false: only the attributes are added, no name changes
	#[test]
	fn jar_attributes_without_renaming() {
		let mut t = Tally::new("jar_attributes_without_renaming");
		absent_universe(&mut t, false, &[false]);
		let classes = full_jar(2, false);
		let jar = build_jar(&classes);
		let variants: Vec<usize> = (0..13).collect();
		all_tables(2, &variants, &mut |ns| jar_case(&mut t, &classes, &jar, ns, false));
		t.finish();
	}
	/// references inside generic signatures
	#[test]
	fn jar_nesting_wide__generic_signatures() {
		let mut t = Tally::new("jar_nesting_wide__generic_signatures");
		let classes = full_jar(2, true);
		let jar = build_jar(&classes);
		all_tables(2, &[0, 5, 9, 10], &mut |ns| jar_case(&mut t, &classes, &jar, ns, true));
		t.finish();
	}
	/// anonymous class indices around the i32 limit
	#[test]
	fn jar_nesting_wide__anonymous_index_beyond_i32() {
		let mut t = Tally::new("jar_nesting_wide__anonymous_index_beyond_i32");
		let classes = full_jar(1, false);
		let jar = build_jar(&classes);
		for inner in ["2147483647", "2147483648", "4294967297", "99999999999999999999"] { for encl in [H, M] { for method in [None, Some(("m".to_owned(), "()V".to_owned()))] {
			let n = MNest { class: cand(1), encl: encl.to_owned(), method: method.clone(), inner: inner.to_owned(), kind: Kind::Anon, access: 0 };
			jar_case(&mut t, &classes, &jar, &[n], true);
		} } }
		t.finish();
	}

	// ---------------------------------------------------------------------------------------------------------------------
	// model of a two-namespace mapping set, its Tiny v2 text and the extraction of a model from quill's tree
	// ---------------------------------------------------------------------------------------------------------------------
	#[derive(Clone, Debug, PartialEq, Eq)]
	struct MMClass {
		src: String, dst: String, comment: Option<String>,
		/// (descriptor, source name) -> (target name, comment)
		fields: BTreeMap<(String, String), (String, Option<String>)>,
		/// (descriptor, source name) -> (target name, comment, parameters (index, source-side name, target name))
		methods: BTreeMap<(String, String), (String, Option<String>, Vec<(usize, String, String)>)>,
	}
	type MMap = BTreeMap<String, MMClass>;
	fn render(m: &MMap) -> String {
		let mut o = String::from("tiny\t2\t0\ta\tb\n");
		for c in m.values() {
			o += &format!("c\t{}\t{}\n", c.src, c.dst);
			if let Some(x) = &c.comment { o += &format!("\tc\t{x}\n"); }
			for ((d, s), (t, com)) in &c.fields { o += &format!("\tf\t{d}\t{s}\t{t}\n"); if let Some(x) = com { o += &format!("\t\tc\t{x}\n"); } }
			for ((d, s), (t, com, ps)) in &c.methods {
				o += &format!("\tm\t{d}\t{s}\t{t}\n");
				if let Some(x) = com { o += &format!("\t\tc\t{x}\n"); }
				for (i, a, b) in ps { o += &format!("\t\tp\t{i}\t{a}\t{b}\n"); }
			}
		}
		o
	}
	fn load(m: &MMap) -> Mappings<2, ((), ())> {
		quill::tiny_v2::read::<2, ((), ())>(render(m).as_bytes()).unwrap_or_else(|e| panic!("harness: tiny_v2::read refused a generated mapping set: {e:#}\n{}", render(m)))
	}
	fn two<T: Clone + AsRef<java_string::JavaStr>>(n: &quill::tree::names::Names<2, T>) -> Result<(String, String), String> {
		let a: &[Option<T>; 2] = n.into();
		let g = |x: &Option<T>| x.as_ref().map(|y| AsRef::<java_string::JavaStr>::as_ref(y).to_owned().into_string().unwrap_or_default());
		match (g(&a[0]), g(&a[1])) { (Some(x), Some(y)) => Ok((x, y)), other => Err(format!("a name is missing: {other:?}")) }
	}
	fn extract(m: &Mappings<2, ((), ())>) -> Result<MMap, String> {
		let mut out = MMap::new();
		for (k, c) in &m.classes {
			let (src, dst) = two(&c.info.names)?;
			if jstr(&k.clone().into_inner()) != src { return Err(format!("class stored under key {k:?} but its first name is {src:?}")); }
			let mut mc = MMClass { src: src.clone(), dst, comment: c.javadoc.as_ref().map(|j| j.0.clone()), fields: BTreeMap::new(), methods: BTreeMap::new() };
			for (fk, f) in &c.fields {
				let (s, t) = two(&f.info.names)?;
				let d = jstr(&f.info.desc.clone().into_inner());
				if jstr(&fk.name.clone().into_inner()) != s || jstr(&fk.desc.clone().into_inner()) != d { return Err(format!("field stored under key {fk:?} but is {s} {d}")); }
				if mc.fields.insert((d, s), (t, f.javadoc.as_ref().map(|j| j.0.clone()))).is_some() { return Err("duplicate field".into()); }
			}
			for (mk, me) in &c.methods {
				let (s, t) = two(&me.info.names)?;
				let d = jstr(&me.info.desc.clone().into_inner());
				if jstr(&mk.name.clone().into_inner()) != s || jstr(&mk.desc.clone().into_inner()) != d { return Err(format!("method stored under key {mk:?} but is {s} {d}")); }
				let mut ps = Vec::new();
				for (pk, p) in &me.parameters {
					let (a, b) = two(&p.info.names)?;
					if pk.index != p.info.index { return Err("parameter key".into()); }
					ps.push((p.info.index, a, b));
				}
				ps.sort();
				if mc.methods.insert((d, s), (t, me.javadoc.as_ref().map(|j| j.0.clone()), ps)).is_some() { return Err("duplicate method".into()); }
			}
			if out.insert(src, mc).is_some() { return Err("duplicate class".into()); }
		}
		Ok(out)
	}

	// --- the mapping sets of the universes -----------------------------------------------------------------------------
	#[derive(Clone, Copy, Debug, PartialEq, Eq)]
	enum Shape { Absent, Plain, Calamus, PreNested }
	fn target_of(c: &str, i: usize, s: Shape) -> Option<String> {
		match s { Shape::Absent => None, Shape::Plain => Some(format!("t/X{i}")), Shape::Calamus => Some(format!("t/u/C_{i}7")), Shape::PreNested => Some(format!("t/TH__N{i}")) }
			.map(|x| if c == H { "t/TH".to_owned() } else { x })
	}
	fn mm_class(src: &str, dst: &str) -> MMClass {
		let mut c = MMClass { src: src.to_owned(), dst: dst.to_owned(), comment: Some(format!("id:{src}")), fields: BTreeMap::new(), methods: BTreeMap::new() };
		c.fields.insert(("Lp/C1;".into(), "f".into()), ("tf".into(), None));
		c.fields.insert(("[[Lp/C3;".into(), "g".into()), ("tg".into(), Some("field comment".into())));
		c.fields.insert(("I".into(), "f".into()), ("ti".into(), None));
		c.methods.insert(("()V".into(), "m".into()), ("tm".into(), None, vec![]));
		c.methods.insert(("(Lp/C1;)V".into(), "n".into()), ("tn".into(), Some("method comment".into()), vec![(1, "a".into(), "b".into())]));
		c.methods.insert(("(Lp/C2;[Lp/C3;Lp/U;)Lp/H;".into(), "n".into()), ("tn2".into(), None, vec![(1, "a".into(), "b".into()), (3, "c".into(), "d".into())]));
		c
	}
	/// H and U with the given presence, candidate i with shapes[i-1]
	fn mapping_set(h: bool, shapes: &[Shape]) -> MMap {
		let mut m = MMap::new();
		m.insert(U.to_owned(), mm_class(U, "t/TU"));
		if h { m.insert(H.to_owned(), mm_class(H, "t/TH")); }
		for (k, s) in shapes.iter().enumerate() {
			if let Some(t) = target_of(&cand(k + 1), k + 1, *s) { m.insert(cand(k + 1), mm_class(&cand(k + 1), &t)); }
		}
		m
	}
	fn show_map(m: &MMap) -> String { m.values().map(|c| format!("{}->{}", c.src, c.dst)).collect::<Vec<_>>().join(",") }

	// --- the oracle for translating a table (remap_nests) ---------------------------------------------------------------
	fn simple(c: &str) -> &str { c.rsplit('/').next().unwrap_or(c) }
	fn t_class(m: &MMap, c: &str) -> String { m.get(c).map(|x| x.dst.clone()).unwrap_or_else(|| c.to_owned()) }
	/// a nest expressed in the target namespace
	fn translate(m: &MMap, n: &MNest) -> MNest {
		let tc = t_class(m, &n.class);
		let (encl, inner) = match tc.rsplit_once("__") {
			// the target name is already a nested name Outer__Inner
			Some((e, i)) => (e.to_owned(), i.to_owned()),
			None => {
				let digits = n.inner.len() - strip_digits(&n.inner).len();
				let (prefix, rest) = n.inner.split_at(digits);
				// derived inner name: the class's own simple name (after the last `/` and the last `$`); otherwise it is a custom name and stays
				let own = simple(&n.class);
				let derived = !rest.is_empty() && (rest == own || Some(rest) == own.rsplit('$').next());
				let inner = if rest.is_empty() {
					// anonymous: the number; for a Calamus name C_<number> that number
					match simple(&tc).strip_prefix("C_") { Some(num) => num.to_owned(), None => n.inner.clone() }
				} else if derived { format!("{prefix}{}", simple(&tc)) } else { n.inner.clone() };
				(t_class(m, &n.encl), inner)
			},
		};
		let method = n.method.as_ref().map(|(na, de)| {
			let tn = m.get(&n.encl).and_then(|c| c.methods.get(&(de.clone(), na.clone()))).map(|x| x.0.clone()).unwrap_or_else(|| na.clone());
			(tn, ren_desc(de, &|x| t_class(m, x)))
		});
		MNest { class: tc, encl, method, inner, kind: n.kind, access: n.access }
	}

	#[test]
	fn translate_nests() {
		let mut t = Tally::new("translate_nests");
		// single nests: class C1 in every shape x enclosing class H / M / C2 (mapped or not) x 13 variants + 2 variants with a `$` name
		let shapes = [Shape::Absent, Shape::Plain, Shape::Calamus, Shape::PreNested];
		let mut sets = Vec::new();
		for h in [false, true] { for s1 in shapes { for s2 in [Shape::Absent, Shape::Plain, Shape::PreNested] { sets.push(mapping_set(h, &[s1, s2, Shape::Plain])); } } }
		let mut tables: Vec<Vec<MNest>> = Vec::new();
		for e in [H.to_owned(), M.to_owned(), cand(2)] { for v in 0..13 { tables.push(vec![mk_nest(1, &e, v)]); } }
		// whole tables: all tables over 3 candidates with 4 variants
		all_tables(3, &[0, 1, 5, 9], &mut |ns| if ns.len() > 1 { tables.push(ns.to_vec()) });
		for m in &sets {
			let real_m = load(m);
			for ns in &tables {
				let input = format!("mappings {{{}}} table {}", show_map(m), show_table(ns));
				t.at(input.as_bytes());
				t.case(ns.iter().any(|n| m.contains_key(&n.class)));
				let want: Vec<MNest> = ns.iter().map(|n| translate(m, n)).collect();
				match run(|| remap_nests(&table(ns), &real_m)) {
					Out::Ok(r) => { let got = untable(&r); if got != want { t.fail(input, &format!("translated table is {} but must be {}", show_table(&got), show_table(&want))); } },
					Out::Err(e) => t.fail(input, &format!("remap_nests returned Err({e})")),
					Out::Panic => t.fail(input, "remap_nests panicked"),
				}
			}
		}
		t.finish();
	}
	/// source names that are nested names themselves (p/H$C1): the derived inner name is the part after the `$`
	#[test]
	fn translate_nests_dollar_source_names() {
		let mut t = Tally::new("translate_nests_dollar_source_names");
		for (tgt, tgt_simple) in [("t/TH$X1", "TH$X1"), ("t/X1", "X1"), ("t/u/C_17", "C_17")] { for h in [false, true] {
			let mut m = MMap::new();
			if h { m.insert(H.to_owned(), mm_class(H, "t/TH")); }
			m.insert("p/H$C1".to_owned(), mm_class("p/H$C1", tgt));
			let real_m = load(&m);
			for (kind, inner, want_inner) in [(Kind::Inner, "C1", tgt_simple.to_owned()), (Kind::Inner, "Cu", "Cu".to_owned()), (Kind::Local, "3C1", format!("3{tgt_simple}")),
					(Kind::Local, "3Cu", "3Cu".to_owned()), (Kind::Anon, "5", tgt_simple.strip_prefix("C_").unwrap_or("5").to_owned())] {
				let n = MNest { class: "p/H$C1".into(), encl: H.into(), method: Some(("m".into(), "()V".into())), inner: inner.into(), kind, access: 0x0008 };
				let input = format!("mappings {{{}}} table {}", show_map(&m), show_table(&[n.clone()]));
				t.at(input.as_bytes()); t.case(true);
				let want = MNest { class: tgt.into(), encl: t_class(&m, H), method: Some((if h { "tm" } else { "m" }.to_owned(), "()V".into())), inner: want_inner, kind, access: 0x0008 };
				if translate(&m, &n) != want { t.fail(input.clone(), &format!("harness: the two formulations of the oracle disagree: {:?}", translate(&m, &n))); }
				match run(|| remap_nests(&table(&[n.clone()]), &real_m)) {
					Out::Ok(r) => { let got = untable(&r); if got != vec![want.clone()] { t.fail(input, &format!("translated table is {} but must be {}", show_table(&got), show_table(&[want]))); } },
					Out::Err(e) => t.fail(input, &format!("remap_nests returned Err({e})")),
					Out::Panic => t.fail(input, "remap_nests panicked"),
				}
			}
		} }
		t.finish();
	}
	/// a custom inner name that happens to be a proper suffix of the class name is still a custom name
	#[test]
	fn translate_nests__custom_name_that_is_a_suffix() {
		let mut t = Tally::new("translate_nests__custom_name_that_is_a_suffix");
		for (class, kind, inner) in [("p/XIn", Kind::Inner, "In"), ("p/C12", Kind::Inner, "C2"), ("p/abc", Kind::Inner, "c"), ("p/XLo", Kind::Local, "1Lo"), ("p/q/abc", Kind::Local, "7bc")] {
			for tgt in ["t/Y", "t/u/C_99"] {
				let mut m = MMap::new();
				m.insert(H.to_owned(), mm_class(H, "t/TH"));
				m.insert(class.to_owned(), mm_class(class, tgt));
				let n = MNest { class: class.into(), encl: H.into(), method: None, inner: inner.into(), kind, access: 0 };
				let input = format!("mappings {{{}}} table {}", show_map(&m), show_table(&[n.clone()]));
				t.at(input.as_bytes()); t.case(true);
				let want = vec![translate(&m, &n)];
				assert_eq!(want[0].inner, inner);
				match run(|| remap_nests(&table(&[n.clone()]), &load(&m))) {
					Out::Ok(r) => { let got = untable(&r); if got != want { t.fail(input, &format!("translated table is {} but must be {} (the inner name {inner:?} is not the simple name of {class})", show_table(&got), show_table(&want))); } },
					Out::Err(e) => t.fail(input, &format!("remap_nests returned Err({e})")),
					Out::Panic => t.fail(input, "remap_nests panicked"),
				}
			}
		}
		t.finish();
	}

	// --- applying / undoing a table on mappings ---------------------------------------------------------------------------
	fn all_applied(ns: &[MNest]) -> BTreeSet<String> { ns.iter().map(|n| n.class.clone()).collect() }
	/// the mapping set after applying the table: every listed class renamed in the source namespace (all entries, no filter),
	/// the translated table carried out in the target namespace, descriptors (source namespace) rewritten, nothing else touched
	fn applied_model(m: &MMap, ns: &[MNest]) -> MMap {
		let tns: Vec<MNest> = ns.iter().map(|n| translate(m, n)).collect();
		let (sa, ta) = (all_applied(ns), all_applied(&tns));
		let rs = |x: &str| nested_name(ns, &sa, x, 0);
		m.values().map(|c| {
			let mut k = c.clone();
			k.src = rs(&c.src);
			k.dst = nested_name(&tns, &ta, &c.dst, 0);
			k.fields = c.fields.iter().map(|((d, s), v)| ((ren_desc(d, &rs), s.clone()), v.clone())).collect();
			k.methods = c.methods.iter().map(|((d, s), v)| ((ren_desc(d, &rs), s.clone()), v.clone())).collect();
			(k.src.clone(), k)
		}).collect()
	}
	fn diff_maps(got: &MMap, want: &MMap, targets: bool) -> String {
		let norm = |m: &MMap| -> MMap { if targets { m.clone() } else { m.iter().map(|(k, c)| { let mut c = c.clone(); c.dst = String::new(); (k.clone(), c) }).collect() } };
		let (g, w) = (norm(got), norm(want));
		if g == w { return String::new(); }
		let (gk, wk): (Vec<&String>, Vec<&String>) = (g.keys().collect(), w.keys().collect());
		if gk != wk { return format!("source class names are {gk:?} but must be {wk:?}"); }
		for (k, c) in &g {
			let x = &w[k];
			if c.dst != x.dst { return format!("class {k}: target name {:?} instead of {:?}", c.dst, x.dst); }
			if c.fields != x.fields { return format!("class {k}: fields {:?} instead of {:?}", c.fields, x.fields); }
			if c.methods != x.methods { return format!("class {k}: methods {:?} instead of {:?}", c.methods.keys().collect::<Vec<_>>(), x.methods.keys().collect::<Vec<_>>()); }
			if c != x { return format!("class {k}: {c:?} instead of {x:?}"); }
		}
		"differs".into()
	}
	fn mapping_sets_for_apply() -> Vec<MMap> {
		let three = [Shape::Plain, Shape::Calamus, Shape::PreNested];
		let mut v = Vec::new();
		for h in [true, false] {
			for a in three { for b in three { for c in three { v.push(mapping_set(h, &[a, b, c])); } } }
			for k in 0..3 { let mut s = [Shape::Plain; 3]; s[k] = Shape::Absent; v.push(mapping_set(h, &s)); }
			v.push(mapping_set(h, &[Shape::Absent; 3]));
		}
		v
	}
	/// for the pre-nested shape the target names t/TH__N1.. would collide when two candidates end up in the same enclosing class with the
	/// same inner name; the generated inner names all carry the candidate index, so no two classes get the same name
	fn no_collision(m: &MMap) -> bool { let s: BTreeSet<&String> = m.values().map(|c| &c.dst).collect(); s.len() == m.len() }

	#[test]
	fn mappings_apply_and_undo() {
		let mut t = Tally::new("mappings_apply_and_undo");
		let sets = mapping_sets_for_apply();
		let loaded: Vec<Mappings<2, ((), ())>> = sets.iter().map(load).collect();
		let mut tables: Vec<Vec<MNest>> = Vec::new();
		all_tables(3, &[0, 1, 5, 9], &mut |ns| tables.push(ns.to_vec()));
		for ns in &tables {
			let real_t = table(ns);
			for (m, real_m) in sets.iter().zip(&loaded) {
				let input = format!("mappings {{{}}} table {}", show_map(m), show_table(ns));
				t.at(input.as_bytes());
				let want = applied_model(m, ns);
				if !no_collision(&want) || want.len() != m.len() { panic!("harness: colliding names in {input}"); }
				t.case(ns.iter().any(|n| m.contains_key(&n.class)));
				let applied = match run(|| apply_nests_to_mappings(real_m.clone(), &real_t)) {
					Out::Ok(r) => r,
					Out::Err(e) => { t.fail(input, &format!("apply_nests_to_mappings returned Err({e})")); continue; },
					Out::Panic => { t.fail(input, "apply_nests_to_mappings panicked"); continue; },
				};
				match extract(&applied) {
					Err(e) => { t.fail(input, &format!("result of apply_nests_to_mappings is inconsistent: {e}")); continue; },
					Ok(got) => { let d = diff_maps(&got, &want, true); if !d.is_empty() { t.fail(input, &format!("after apply: {d}")); continue; } },
				}
				// undo restores source names and descriptors (the target column is not part of the claim)
				match run(|| undo_nests_to_mappings(applied, &real_t)) {
					Out::Ok(r) => match extract(&r) {
						Err(e) => t.fail(input, &format!("result of undo_nests_to_mappings is inconsistent: {e}")),
						Ok(got) => { let d = diff_maps(&got, m, false); if !d.is_empty() { t.fail(input, &format!("after apply + undo: {d}")); } },
					},
					Out::Err(e) => t.fail(input, &format!("undo_nests_to_mappings returned Err({e})")),
					Out::Panic => t.fail(input, "undo_nests_to_mappings panicked"),
				}
			}
		}
		t.finish();
	}

	/// tables whose entries all apply to the jar: the real nest_jar and the real apply_nests_to_mappings give every class the same name
	#[test]
	fn jar_and_mappings_agree() {
		let mut t = Tally::new("jar_and_mappings_agree");
		let classes = full_jar(4, false);
		let jar = build_jar(&classes);
		let mut m = mapping_set(true, &[Shape::Plain, Shape::Calamus, Shape::Plain, Shape::Plain]);
		// the enclosing class M is not in the jar (it gets created) but the mappings know it
		m.insert(M.to_owned(), mm_class(M, "t/TM"));
		let real_m = load(&m);
		let mut skipped = 0u64;
		let mut tables: Vec<Vec<MNest>> = Vec::new();
		all_tables(3, &[0, 1, 3, 5, 8, 9, 12], &mut |ns| tables.push(ns.to_vec()));
		all_tables(4, &[1, 9], &mut |ns| if ns.iter().any(|n| n.class == cand(4)) { tables.push(ns.to_vec()) });
		for ns in &tables {
			let ns = &ns[..];
			let o = jar_oracle(&classes, ns);
			// only tables whose entries all apply (by the rule of their kind; all classes are present)
			if o.applied.len() != ns.len() { skipped += 1; continue; }
			let input = format!("table {}", show_table(ns));
			t.at(input.as_bytes()); t.case(!ns.is_empty());
			let out = match run(|| nest_jar(true, &jar, table(ns))) { Out::Ok(j) => j, Out::Err(e) => { t.fail(input, &format!("nest_jar returned Err({e})")); continue; }, Out::Panic => { t.fail(input, "nest_jar panicked"); continue; } };
			let mapped = match run(|| apply_nests_to_mappings(real_m.clone(), &table(ns))) { Out::Ok(r) => r, Out::Err(e) => { t.fail(input, &format!("apply_nests_to_mappings returned Err({e})")); continue; }, Out::Panic => { t.fail(input, "apply_nests_to_mappings panicked"); continue; } };
			// identify classes by the marks that no renaming touches: SourceFile in the jar, the class comment in the mappings
			let mut jar_names = BTreeMap::new();
			for (k, e) in &out.entries { if let JarEntryEnum::Class(ClassRepr::Parsed { class }) = &e.content {
				let name = jstr(&class.name.clone().into_inner());
				if *k != format!("{name}.class") { t.fail(input.clone(), &format!("entry {k} holds class {name}")); }
				if let Some(id) = &class.source_file { jar_names.insert(jstr(id), name); } else { jar_names.insert(format!("id:{name}"), name); }
			} }
			let mut map_names = BTreeMap::new();
			for c in mapped.classes.values() { if let (Ok((s, _)), Some(j)) = (two(&c.info.names), &c.javadoc) { map_names.insert(j.0.clone(), s); } }
			// a table is a set of rows: the same rows in the opposite order (inner nests before their enclosing nests) must give the mappings the same names
			{
				let rev: Vec<MNest> = ns.iter().rev().cloned().collect();
				match run(|| apply_nests_to_mappings(real_m.clone(), &table(&rev))) {
					Out::Ok(r) => {
						let mut rev_names = BTreeMap::new();
						for c in r.classes.values() { if let (Ok((s, _)), Some(j)) = (two(&c.info.names), &c.javadoc) { rev_names.insert(j.0.clone(), s); } }
						if rev_names != map_names { t.fail(input.clone(), &format!("apply_nests_to_mappings depends on the order of the rows: {map_names:?} with the rows as listed, {rev_names:?} with the rows reversed")); }
					},
					Out::Err(e) => t.fail(input.clone(), &format!("apply_nests_to_mappings with the rows reversed returned Err({e})")),
					Out::Panic => t.fail(input.clone(), "apply_nests_to_mappings with the rows reversed panicked"),
				}
			}
			for c in classes.iter().map(|c| c.name.clone()).chain([M.to_owned()]) {
				let id = format!("id:{c}");
				let (a, b) = (jar_names.get(&id), map_names.get(&id));
				if c == M && a.is_none() && !ns.iter().any(|n| n.encl == M) { continue; }
				if a.is_none() || a != b { t.fail(input.clone(), &format!("class {c}: the jar calls it {a:?}, the mappings call it {b:?}")); }
			}
		}
		println!("NOTE jar_and_mappings_agree: {skipped} tables skipped because an entry does not apply to the jar");
		t.finish();
	}

	// ---------------------------------------------------------------------------------------------------------------------
	// cyclic tables.  Unbounded recursion ends in a stack overflow, which kills the whole test process and cannot be caught
	// in-process; every case therefore runs in a child process (this test binary, filtered to `cyclic_child`).
	// ---------------------------------------------------------------------------------------------------------------------
	fn cyclic_tables() -> Vec<(&'static str, Vec<MNest>)> {
		let n = |i: usize, e: &str, v: usize| mk_nest(i, e, v);
		vec![
			("self", vec![n(1, &cand(1), 0)]),
			("two", vec![n(1, &cand(2), 0), n(2, &cand(1), 0)]),
			("three", vec![n(1, &cand(2), 0), n(2, &cand(3), 9), n(3, &cand(1), 5)]),
			("tail_into_cycle", vec![n(1, &cand(2), 0), n(2, &cand(3), 0), n(3, &cand(2), 0)]),
		]
	}
	const FUNS: [&str; 4] = ["nest_jar", "apply_nests_to_mappings", "undo_nests_to_mappings", "remap_nests"];
	/// does nothing unless VERIF_NEST_CYCLIC=<function>:<table> is set
	#[test]
	fn cyclic_child() {
		let Ok(spec) = std::env::var("VERIF_NEST_CYCLIC") else { return; };
		let (fun, tab) = spec.split_once(':').expect("spec");
		let ns = cyclic_tables().into_iter().find(|(n, _)| *n == tab).expect("table").1;
		let m = mapping_set(true, &[Shape::Plain, Shape::Plain, Shape::Plain]);
		let r: std::result::Result<(), String> = match fun {
			"nest_jar" => nest_jar(true, &build_jar(&full_jar(3, false)), table(&ns)).map(|_| ()).map_err(|e| format!("{e:#}")),
			"apply_nests_to_mappings" => apply_nests_to_mappings(load(&m), &table(&ns)).map(|_| ()).map_err(|e| format!("{e:#}")),
			"undo_nests_to_mappings" => undo_nests_to_mappings(load(&m), &table(&ns)).map(|_| ()).map_err(|e| format!("{e:#}")),
			"remap_nests" => remap_nests(&table(&ns), &load(&m)).map(|_| ()).map_err(|e| format!("{e:#}")),
			_ => panic!("function"),
		};
		println!("CYCLIC-CHILD-RETURNED {}", if r.is_ok() { "Ok" } else { "Err" });
	}
	#[test]
	fn cyclic_table_returns() {
		use std::process::{Command, Stdio};
		let mut t = Tally::new("cyclic_table_returns");
		let exe = std::env::current_exe().expect("current_exe");
		for fun in FUNS { for (tab, ns) in cyclic_tables() {
			let input = format!("{fun} with table {}", show_table(&ns));
			t.at(input.as_bytes()); t.case(true);
			let mut child = Command::new(&exe).args(["cyclic_child", "--nocapture", "--test-threads", "1"]).env("VERIF_NEST_CYCLIC", format!("{fun}:{tab}"))
				.stdout(Stdio::piped()).stderr(Stdio::piped()).spawn().expect("spawn");
			let t0 = std::time::Instant::now();
			let mut hung = false;
			loop {
				match child.try_wait().expect("wait") { Some(_) => break, None => {} }
				if t0.elapsed() > Duration::from_secs(20) { hung = true; let _ = child.kill(); break; }
				std::thread::sleep(Duration::from_millis(20));
				t.beat.fetch_add(1, Ordering::SeqCst);
			}
			let out = child.wait_with_output().expect("output");
			let (so, se) = (String::from_utf8_lossy(&out.stdout).to_string(), String::from_utf8_lossy(&out.stderr).to_string());
			if hung { t.fail(input, "does not terminate (no result after 20 s)"); }
			else if so.contains("CYCLIC-CHILD-RETURNED") { /* Ok or Err: both are a clean answer */ }
			else if se.contains("overflowed its stack") || so.contains("overflowed its stack") { t.fail(input, &format!("unbounded recursion: the process died with a stack overflow ({})", out.status)); }
			else { t.fail(input, &format!("neither Ok nor Err: {} {}", out.status, se.lines().rev().take(3).collect::<Vec<_>>().join(" | "))); }
		} }
		t.finish();
	}

	/// deliberately false: "nesting never renames a class"
	#[test]
	fn canary_must_fail() {
		let mut t = Tally::new("canary_must_fail");
		let classes = full_jar(2, false);
		let jar = build_jar(&classes);
		all_tables(2, &[0, 9], &mut |ns| {
			t.case(true);
			if let Out::Ok(out) = run(|| nest_jar(true, &jar, table(ns))) {
				for c in &classes { if !out.entries.contains_key(&format!("{}.class", c.name)) { t.fail(show_table(ns), "canary"); } }
			}
		});
		t.finish();
	}
