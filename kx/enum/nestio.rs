	// bounded exhaustive enumeration for the nests file parser (dukenest/src/io.rs Nests::read): C16 "the ... nests parsers ... either return a
	// value or return an error: they do not panic", and the access flag column is read as decimal / 0x hex / 0b binary u16 (own oracle).
	use crate::nest::Nests;

	/// the access column: decimal, `0x` hexadecimal or `0b` binary number that fits u16 (std's from_str_radix syntax: optional leading `+`, no other sign, at least one digit)
	fn oracle_access(s: &str) -> Option<u16> {
		fn digits(s: &str, radix: u32) -> Option<u16> {
			let s = s.strip_prefix('+').unwrap_or(s);
			if s.is_empty() { return None; }
			let mut v: u32 = 0;
			for c in s.chars() { let d = c.to_digit(radix)?; v = v.checked_mul(radix)?.checked_add(d)?; if v > 65535 { return None; } }
			Some(v as u16)
		}
		if let Some(h) = s.strip_prefix("0x") { digits(h, 16) } else if let Some(b) = s.strip_prefix("0b") { digits(b, 2) } else { digits(s, 10) }
	}
	const ACCESS: [&str; 40] = ["", "0", "8", "0008", "65535", "65536", "99999999999999999999", "-1", "+1", "+", "0x", "0x0", "0xffff", "0xFFFF", "0x10000", "0xg", "0x+1", "0x-1",
		"0b", "0b0", "0b1111111111111111", "0b10000000000000000", "0b2", "0X10", "0B1", " 1", "1 ", "1\u{e9}", "\u{e9}", "\u{e9}1", "12\u{e9}", "\u{20ac}", "0\u{20ac}", "0\u{1f600}8", "0x\u{20ac}", "0b\u{e9}",
		"x", "1_0", "١", "0x١"];
	const NAMES: [&str; 7] = ["", "p/A", "p/A$1", "\u{e9}/\u{20ac}", "[I", "a//b", "p/A;"];
	const INNER: [&str; 10] = ["", "In", "1", "1In", "12", "256", "1000", "\u{e9}", "٣", "a/b"];
	const METHODS: [(&str, &str); 6] = [("", ""), ("m", "()V"), ("m", ""), ("", "()V"), ("<init>", "(Lp/A;)V"), ("m", "(")];

	/// every line built from the field menus, as a one-line file and embedded between two well-formed lines; also wrong numbers of fields
	#[test]
	fn nests_read_never_panics_and_reads_the_access_column() {
		let mut t = Tally::new("nests_read_never_panics_and_reads_the_access_column");
		let good = "p/G\tp/H\t\t\tIn\t8";
		for class in NAMES { for encl in NAMES { for (mn, md) in METHODS { for inner in INNER { for access in ACCESS {
			let line = format!("{class}\t{encl}\t{mn}\t{md}\t{inner}\t{access}");
			for doc in [format!("{line}\n"), format!("{good}\n{line}\n{good}\n"), line.clone()] {
				t.at(doc.as_bytes());
				let bytes = doc.clone().into_bytes();
				let well_formed_rest = !class.is_empty() && !encl.is_empty() && !inner.is_empty();
				t.case(well_formed_rest && oracle_access(access).is_some());
				match guarded(|| Nests::<()>::read(&bytes)) {
					Ok(Some(Ok(n))) => {
						// accepted: the access column must be a number of the documented syntax, and the class is listed with that value
						match oracle_access(access) {
							None => t.fail(format!("{doc:?}"), "accepted an access column that is not a decimal / 0x / 0b u16"),
							Some(v) => {
								if let Some(nest) = n.all.iter().find(|(k, _)| k.as_inner() == class).map(|(_, v)| v) {
									if u16::from(nest.inner_access) != u16::from(duke::tree::class::InnerClassFlags::from(v)) { t.fail(format!("{doc:?}"), "access flags differ from the number in the file"); }
									// kind of the nest, from the nests format: a number = anonymous, a number followed by a name = local, otherwise inner (added after seed C14-d)
									let digits = inner.chars().take_while(|c| c.is_ascii_digit()).count();
									let kind_ok = if digits == inner.chars().count() { matches!(nest.nest_type, crate::nest::NestType::Anonymous) } else if digits > 0 { matches!(nest.nest_type, crate::nest::NestType::Local) } else { matches!(nest.nest_type, crate::nest::NestType::Inner) };
									if !kind_ok { t.fail(format!("{doc:?}"), "kind of the nest (anonymous / local / inner) differs from what the inner name says"); }
								} else { t.fail(format!("{doc:?}"), "the listed class is missing from the table"); }
							},
						}
					},
					Ok(Some(Err(_))) => {},
					_ => t.fail(format!("{doc:?}"), "Nests::read panicked"),
				}
			}
		}}}}}
		for n in [0usize, 1, 2, 5, 7, 8] {
			let doc = vec!["p/A"; n].join("\t") + "\n";
			t.at(doc.as_bytes());
			t.case(false);
			match guarded(|| Nests::<()>::read(&doc.clone().into_bytes())) { Ok(Some(Err(_))) => {}, Ok(Some(Ok(n2))) => { if n != 0 || !n2.all.is_empty() { t.fail(format!("{doc:?}"), "accepted a line without 6 fields"); } }, _ => t.fail(format!("{doc:?}"), "Nests::read panicked") }
		}
		for bytes in [vec![0xffu8, b'\n'], vec![b'a', b'\t', 0xc3], b"p/A\tp/B\t\t\tIn\t8\r\n".to_vec()] {
			t.at(&bytes); t.case(false);
			if guarded(|| Nests::<()>::read(&bytes)).ok().flatten().is_none() { t.fail(format!("{bytes:?}"), "Nests::read panicked"); }
		}
		t.finish();
	}
	/// deliberately false: "every access column is accepted"
	#[test]
	fn canary_must_fail() {
		let mut t = Tally::new("canary_must_fail");
		for access in ACCESS { t.case(true); let doc = format!("p/G\tp/H\t\t\tIn\t{access}\n"); if Nests::<()>::read(&doc.clone().into_bytes()).is_err() { t.fail(format!("{doc:?}"), "canary"); } }
		t.finish();
	}
