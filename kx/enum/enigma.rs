	// =====================================================================================================================
	// C12: Enigma files and directories round-trip the mappings they can express
	// bounded exhaustive enumeration over whole two-namespace mapping sets (quill::enigma_file / quill::enigma_dir)
	// =====================================================================================================================
	use std::collections::{BTreeMap, BTreeSet};
	use std::path::{Path, PathBuf};
	use java_string::JavaString;
	use duke::tree::class::ObjClassName;
	use duke::tree::field::{FieldDescriptor, FieldName};
	use duke::tree::method::{MethodDescriptor, MethodName, ParameterName};
	use crate::tree::mappings::{ClassMapping, ClassNowodeMapping, FieldMapping, FieldNowodeMapping, JavadocMapping, Mappings, MethodMapping, MethodNowodeMapping, ParameterMapping, ParameterNowodeMapping};
	use crate::tree::names::{Names, Namespaces};
	use crate::tree::NodeInfo;

	// ---------------------------------------------------------------------------------------------------------------------
	// the model of a two-namespace mapping set as far as the Enigma format can express it (independent of quill's tree):
	// everything is a String, every map is ordered by key.  A class is stored under its full source name (`A$I$K`), `dst`
	// is its full target name.  Parameters have no source name (the format has no column for it) and always a target name.
	// ---------------------------------------------------------------------------------------------------------------------
	type Nm = Option<String>;
	/// (name in the first namespace, descriptor)
	type MKey = (String, String);
	#[derive(Clone, Debug, PartialEq, Eq)]
	struct MParam { dst: Nm, comment: Nm }
	#[derive(Clone, Debug, PartialEq, Eq)]
	struct MField { dst: Nm, comment: Nm }
	#[derive(Clone, Debug, PartialEq, Eq)]
	struct MMethod { dst: Nm, comment: Nm, params: BTreeMap<usize, MParam> }
	#[derive(Clone, Debug, PartialEq, Eq)]
	struct MClass { dst: Nm, comment: Nm, fields: BTreeMap<MKey, MField>, methods: BTreeMap<MKey, MMethod> }
	#[derive(Clone, Debug, PartialEq, Eq, Default)]
	struct MSet { classes: BTreeMap<String, MClass> }

	const INIT: &str = "<init>";

	/// `Outer$Inner` -> (Outer, Inner): cut at the last `$` of the part after the last `/`, both sides non-empty
	fn outer_of(key: &str) -> Option<(&str, &str)> {
		let seg = key.rfind('/').map(|i| i + 1).unwrap_or(0);
		let d = key[seg..].rfind('$')? + seg;
		if d == seg || d + 1 == key.len() { return None; }
		Some((&key[..d], &key[d + 1..]))
	}
	impl MSet {
		/// the class `key` is written inside this class (its outer class, if that is part of the set)
		fn parent_of<'a>(&self, key: &'a str) -> Option<&'a str> { outer_of(key).map(|x| x.0).filter(|o| self.classes.contains_key(*o)) }
		/// the classes that start a file: top-level classes and nested classes whose outer class is absent from the set
		fn roots(&self) -> Vec<&str> { self.classes.keys().map(|k| k.as_str()).filter(|k| self.parent_of(k).is_none()).collect() }
		fn children(&self, key: &str) -> Vec<&str> { self.classes.keys().map(|k| k.as_str()).filter(|k| self.parent_of(k) == Some(key)).collect() }
		/// some nested class has no outer class in the set
		fn has_orphan(&self) -> bool { self.classes.keys().any(|k| outer_of(k).is_some() && self.parent_of(k).is_none()) }
		/// the name of the file of a root class: its target name, the source name where it has none
		fn file_name(&self, root: &str) -> String { self.classes[root].dst.clone().unwrap_or_else(|| root.to_string()) }
		/// number of entries (classes + fields + methods + parameters)
		fn size(&self) -> usize { self.classes.values().map(|c| 1 + c.fields.len() + c.methods.values().map(|m| 1 + m.params.len()).sum::<usize>()).sum() }
		/// "constructors are treated as unnamed": the target name `<init>` of a method `<init>` is the same as no target name
		fn norm(&self) -> MSet {
			let mut m = self.clone();
			for c in m.classes.values_mut() { for ((name, _), me) in c.methods.iter_mut() { if name == INIT && me.dst.as_deref() == Some(INIT) { me.dst = None; } } }
			m
		}
		/// the proviso of the property: the target name of a class nested in a class of the set is
		/// (target name of the outer class, or its source name where it has none) + `$` + a simple name.  Returns that simple name.
		fn own_target(&self, key: &str) -> Option<String> {
			let dst = self.classes[key].dst.as_ref()?;
			match self.parent_of(key) {
				None => Some(dst.clone()),
				Some(p) => {
					let prefix = format!("{}$", self.classes[p].dst.clone().unwrap_or_else(|| p.to_string()));
					let own = dst.strip_prefix(&prefix).unwrap_or_else(|| panic!("harness: the target name {dst:?} of {key:?} does not follow the nesting ({prefix:?})"));
					assert!(!own.is_empty() && !own.contains('$') && !own.contains('/'), "harness: {dst:?} of {key:?} does not follow the nesting");
					Some(own.to_string())
				},
			}
		}
		/// short description for failure reports
		fn describe(&self) -> String {
			let mut s = String::from("{");
			for (k, c) in &self.classes {
				let np: usize = c.methods.values().map(|m| m.params.len()).sum();
				s += &format!(" {k} -> {} [{}comment, {} fields, {} methods, {} params];", c.dst.as_deref().unwrap_or("(none)"), if c.comment.is_some() { "" } else { "no " }, c.fields.len(), c.methods.len(), np);
			}
			s + " }"
		}
	}
	/// what differs between the expected and the obtained set (for failure reports)
	fn diff(exp: &MSet, got: &MSet) -> String {
		let mut s = String::new();
		for k in exp.classes.keys() { if !got.classes.contains_key(k) { s += &format!("class {k:?} is missing; "); } }
		for k in got.classes.keys() { if !exp.classes.contains_key(k) { s += &format!("unexpected class {k:?} (target {:?}); ", got.classes[k].dst); } }
		for (k, e) in &exp.classes {
			let Some(g) = got.classes.get(k) else { continue };
			if e == g { continue; }
			if e.dst != g.dst { s += &format!("class {k:?}: target {:?} instead of {:?}; ", g.dst, e.dst); }
			if e.comment != g.comment { s += &format!("class {k:?}: comment {:?} instead of {:?}; ", g.comment, e.comment); }
			if e.fields != g.fields {
				for (fk, f) in &e.fields { if g.fields.get(fk) != Some(f) { s += &format!("class {k:?} field {fk:?}: {:?} instead of {f:?}; ", g.fields.get(fk)); } }
				for fk in g.fields.keys() { if !e.fields.contains_key(fk) { s += &format!("class {k:?}: unexpected field {fk:?}; "); } }
			}
			if e.methods != g.methods {
				for (mk, me) in &e.methods { if g.methods.get(mk) != Some(me) { s += &format!("class {k:?} method {mk:?}: {:?} instead of {me:?}; ", g.methods.get(mk)); } }
				for mk in g.methods.keys() { if !e.methods.contains_key(mk) { s += &format!("class {k:?}: unexpected method {mk:?}; "); } }
			}
		}
		if s.len() > 900 { s.truncate(900); s += "..."; }
		s
	}

	// ---------------------------------------------------------------------------------------------------------------------
	// independent renderer: model -> Enigma text.
	// Format (quill/src/enigma_file.rs doc comments; cuchaz Enigma): one entry per line, nesting by leading tabs, tokens
	// separated by one white space character, `#` starts a remark except on COMMENT lines,
	//   CLASS <src> [<dst>] [ACC:<modifier>]      (names of nested classes relative to the enclosing CLASS line)
	//   FIELD <src> [<dst>] <desc> [ACC:..]       METHOD <src> [<dst>] <desc> [ACC:..]       ARG <index> <dst>
	//   COMMENT <one line of the comment, verbatim>   (several COMMENT lines of one entry = the lines of its comment)
	// `Canon`: the documented output of the writer: roots ordered by file name, comment, fields, methods (both ordered by
	//   source name, then target name with "none" first, then descriptor), parameters by index, then nested classes by
	//   source name; constructors without target name.
	// `Noisy`: the same content in another order and spelling: nested classes first, methods before fields, everything
	//   reversed, comments after the members (the first line of a multi-line class comment before them), parameters before
	//   the method comment, tabs as token separators, `ACC:` modifiers, trailing `#` remarks, blank and remark-only lines
	//   at arbitrary indentation, `<init>` target names spelled out.
	// ---------------------------------------------------------------------------------------------------------------------
	#[derive(Clone, Copy, PartialEq, Eq, Debug)]
	enum Style { Canon, Noisy }
	struct Rend { out: String, style: Style, n: usize }
	impl Rend {
		fn new(style: Style) -> Rend { Rend { out: String::new(), style, n: 0 } }
		fn entry(&mut self, depth: usize, toks: &[&str], may_have_modifier: bool) {
			self.n += 1;
			let n = self.n;
			if self.style == Style::Noisy {
				match n % 5 { 0 => self.out += "\n", 1 => self.out += "\t\t\t# remark CLASS Q R\n", 2 => self.out += "   \n", 3 => self.out += "#\n", _ => {} }
			}
			for _ in 0..depth { self.out.push('\t'); }
			let sep = if self.style == Style::Noisy && n % 2 == 0 { "\t" } else { " " };
			self.out += &toks.join(sep);
			if self.style == Style::Noisy {
				if may_have_modifier && n % 3 != 0 { self.out += sep; self.out += ["ACC:PUBLIC", "ACC:PRIVATE"][n % 2]; }
				match n % 4 { 0 => self.out += " # remark", 1 => self.out += "#remark # COMMENT x", 2 => self.out += " ", _ => {} }
			}
			self.out.push('\n');
		}
		fn comment_lines<'a>(&mut self, depth: usize, lines: impl Iterator<Item = &'a str>) {
			for l in lines { for _ in 0..depth { self.out.push('\t'); } self.out += "COMMENT "; self.out += l; self.out.push('\n'); }
		}
		fn comment(&mut self, depth: usize, c: &Nm) { if let Some(c) = c { self.comment_lines(depth, c.split('\n')); } }
		fn class(&mut self, m: &MSet, key: &str, depth: usize) {
			let c = &m.classes[key];
			let noisy = self.style == Style::Noisy;
			let src = match m.parent_of(key) { None => key.to_string(), Some(p) => key[p.len() + 1..].to_string() };
			let mut toks = vec!["CLASS".to_string(), src];
			if let Some(own) = m.own_target(key) { toks.push(own); }
			self.entry(depth, &toks.iter().map(|x| x.as_str()).collect::<Vec<_>>(), true);
			let mut fields: Vec<(&MKey, &MField)> = c.fields.iter().collect();
			fields.sort_by_key(|(k, f)| (k.0.clone(), f.dst.clone(), k.1.clone()));
			let mut methods: Vec<(&MKey, &MMethod)> = c.methods.iter().collect();
			let shown = |k: &MKey, me: &MMethod| -> Nm { if !noisy && k.0 == INIT && me.dst.as_deref() == Some(INIT) { None } else { me.dst.clone() } };
			methods.sort_by_key(|(k, me)| (k.0.clone(), me.dst.clone(), k.1.clone()));
			let mut children = m.children(key);
			children.sort();
			if !noisy {
				self.comment(depth + 1, &c.comment);
				for (k, f) in fields { self.field(depth + 1, k, f); }
				for (k, me) in methods { let d = shown(k, me); self.method(depth + 1, k, me, &d); }
				for ch in children { self.class(m, ch, depth + 1); }
			} else {
				let lines: Vec<&str> = c.comment.as_deref().map(|c| c.split('\n').collect()).unwrap_or_default();
				let first = if lines.len() >= 2 { 1 } else { 0 };
				self.comment_lines(depth + 1, lines[..first].iter().copied());
				for ch in children.into_iter().rev() { self.class(m, ch, depth + 1); }
				for (k, me) in methods.into_iter().rev() { let d = shown(k, me); self.method(depth + 1, k, me, &d); }
				for (k, f) in fields.into_iter().rev() { self.field(depth + 1, k, f); }
				self.comment_lines(depth + 1, lines[first..].iter().copied());
			}
		}
		fn field(&mut self, depth: usize, k: &MKey, f: &MField) {
			let mut toks = vec!["FIELD", k.0.as_str()];
			if let Some(d) = &f.dst { toks.push(d); }
			toks.push(&k.1);
			self.entry(depth, &toks, true);
			self.comment(depth + 1, &f.comment);
		}
		fn method(&mut self, depth: usize, k: &MKey, me: &MMethod, dst: &Nm) {
			let mut toks = vec!["METHOD", k.0.as_str()];
			if let Some(d) = dst { toks.push(d); }
			toks.push(&k.1);
			self.entry(depth, &toks, true);
			let mut ps: Vec<(&usize, &MParam)> = me.params.iter().collect();
			if self.style == Style::Noisy { ps.reverse(); } else { self.comment(depth + 1, &me.comment); }
			for (i, p) in ps {
				let i = i.to_string();
				self.entry(depth + 1, &["ARG", i.as_str(), p.dst.as_deref().expect("harness: parameter without target name")], false);
				self.comment(depth + 2, &p.comment);
			}
			if self.style == Style::Noisy { self.comment(depth + 1, &me.comment); }
		}
	}
	/// roots in the order of the single stream / of the file set: by file name
	fn roots_by_file(m: &MSet) -> Vec<(String, &str)> {
		let mut r: Vec<(String, &str)> = m.roots().into_iter().map(|k| (m.file_name(k), k)).collect();
		r.sort();
		r
	}
	/// the text of one file (one root class with everything nested in it)
	fn render_file(m: &MSet, root: &str, style: Style) -> String { let mut r = Rend::new(style); r.class(m, root, 0); r.out }
	/// the single stream: every file preceded by the two remark lines `#` and `# <file name>`; `Noisy`: files in reverse order
	fn render_stream(m: &MSet, style: Style) -> String {
		let mut roots = roots_by_file(m);
		if style == Style::Noisy { roots.reverse(); }
		let mut r = Rend::new(style);
		for (file, root) in roots {
			if style == Style::Canon { r.out += &format!("#\n# {file}\n"); }
			r.class(m, root, 0);
		}
		r.out
	}
	/// relative path -> content of the directory form: `<file name>.mapping`, packages are directories
	fn expected_files(m: &MSet, style: Style) -> BTreeMap<String, String> {
		roots_by_file(m).into_iter().map(|(file, root)| (format!("{file}.mapping"), render_file(m, root, style))).collect()
	}

	// ---------------------------------------------------------------------------------------------------------------------
	// independent strict parser: Enigma text -> model (does not use quill's reader)
	// ---------------------------------------------------------------------------------------------------------------------
	#[derive(Clone, Debug)]
	enum Ctx { Class(String), Field(String, MKey), Method(String, MKey), Param(String, MKey, usize) }
	fn parse_into(text: &str, set: &mut MSet) -> Result<(), String> {
		if text.is_empty() { return Ok(()); }
		let mut lines: Vec<&str> = text.split('\n').collect();
		if lines.pop() != Some("") { return Err("text does not end with a line break".into()); }
		let mut stack: Vec<Ctx> = Vec::new();
		fn push_comment(slot: &mut Nm, l: &str) { match slot { Some(c) => { c.push('\n'); c.push_str(l); }, None => *slot = Some(l.to_string()) } }
		for (i, raw) in lines.iter().enumerate() {
			let e = |s: &str| format!("line {}: {s}: {raw:?}", i + 1);
			let depth = raw.bytes().take_while(|b| *b == b'\t').count();
			let rest = &raw[depth..];
			if let Some(text) = rest.strip_prefix("COMMENT") {
				let text = if text.is_empty() { "" } else { text.strip_prefix(' ').ok_or_else(|| e("COMMENT not followed by a space"))? };
				if depth == 0 || depth > stack.len() { return Err(e("COMMENT line without an entry one level above")); }
				stack.truncate(depth);
				match stack.last().unwrap().clone() {
					Ctx::Class(k) => push_comment(&mut set.classes.get_mut(&k).unwrap().comment, text),
					Ctx::Field(k, f) => push_comment(&mut set.classes.get_mut(&k).unwrap().fields.get_mut(&f).unwrap().comment, text),
					Ctx::Method(k, me) => push_comment(&mut set.classes.get_mut(&k).unwrap().methods.get_mut(&me).unwrap().comment, text),
					Ctx::Param(k, me, p) => push_comment(&mut set.classes.get_mut(&k).unwrap().methods.get_mut(&me).unwrap().params.get_mut(&p).unwrap().comment, text),
				}
				continue;
			}
			let code = rest.split('#').next().unwrap().trim();
			if code.is_empty() { continue; }
			let mut toks: Vec<&str> = code.split([' ', '\t']).collect();
			if toks.iter().any(|t| t.is_empty()) { return Err(e("empty token")); }
			if toks.len() > 1 && toks.last().unwrap().starts_with("ACC:") && toks[0] != "ARG" { toks.pop(); }
			if depth > stack.len() { return Err(e("indentation deeper than the enclosing entry allows")); }
			stack.truncate(depth);
			match (stack.last().cloned(), toks[0]) {
				(None, "CLASS") | (Some(Ctx::Class(_)), "CLASS") => {
					let (src, dst) = match toks.len() { 2 => (toks[1], None), 3 => (toks[1], Some(toks[2])), _ => return Err(e("CLASS takes 1 or 2 names")) };
					let (src, dst) = match stack.last() {
						Some(Ctx::Class(p)) => {
							if src.contains('$') || src.contains('/') { return Err(e("nested class with a qualified source name")); }
							if dst.is_some_and(|d| d.contains('$') || d.contains('/')) { return Err(e("nested class with a qualified target name")); }
							let pd = set.classes[p].dst.clone().unwrap_or_else(|| p.clone());
							(format!("{p}${src}"), dst.map(|d| format!("{pd}${d}")))
						},
						_ => (src.to_string(), dst.map(String::from)),
					};
					if set.classes.insert(src.clone(), MClass { dst, comment: None, fields: BTreeMap::new(), methods: BTreeMap::new() }).is_some() { return Err(e("class appears twice")); }
					stack.push(Ctx::Class(src));
				},
				(Some(Ctx::Class(k)), kind @ ("FIELD" | "METHOD")) => {
					let (src, dst, desc) = match toks.len() { 3 => (toks[1], None, toks[2]), 4 => (toks[1], Some(toks[2]), toks[3]), _ => return Err(e("member takes name, optional name, descriptor")) };
					let key = (src.to_string(), desc.to_string());
					let c = set.classes.get_mut(&k).unwrap();
					if kind == "FIELD" {
						if desc.starts_with('(') { return Err(e("field with a method descriptor")); }
						if c.fields.insert(key.clone(), MField { dst: dst.map(String::from), comment: None }).is_some() { return Err(e("field appears twice")); }
						stack.push(Ctx::Field(k, key));
					} else {
						if !desc.starts_with('(') { return Err(e("method with a field descriptor")); }
						if c.methods.insert(key.clone(), MMethod { dst: dst.map(String::from), comment: None, params: BTreeMap::new() }).is_some() { return Err(e("method appears twice")); }
						stack.push(Ctx::Method(k, key));
					}
				},
				(Some(Ctx::Method(k, me)), "ARG") => {
					if toks.len() != 3 { return Err(e("ARG takes index and name")); }
					let idx: usize = toks[1].parse().map_err(|_| e("bad parameter index"))?;
					if set.classes.get_mut(&k).unwrap().methods.get_mut(&me).unwrap().params.insert(idx, MParam { dst: Some(toks[2].to_string()), comment: None }).is_some() { return Err(e("parameter appears twice")); }
					stack.push(Ctx::Param(k, me, idx));
				},
				_ => return Err(e("line kind not allowed here")),
			}
		}
		Ok(())
	}
	fn parse_model(text: &str) -> Result<MSet, String> { let mut s = MSet::default(); parse_into(text, &mut s)?; Ok(s) }

	// ---------------------------------------------------------------------------------------------------------------------
	// model <-> quill tree
	// ---------------------------------------------------------------------------------------------------------------------
	fn e2s<T>(r: anyhow::Result<T>) -> Result<T, String> { r.map_err(|e| format!("{e:#}").split_whitespace().collect::<Vec<_>>().join(" ")) }
	fn nm<T: TryFrom<JavaString, Error = anyhow::Error>>(s: &str) -> Result<T, String> { e2s(T::try_from(JavaString::from(s))) }
	fn onm<T: TryFrom<JavaString, Error = anyhow::Error>>(s: &Nm) -> Result<Option<T>, String> { s.as_deref().map(nm::<T>).transpose() }
	fn jdoc(c: &Nm) -> Option<JavadocMapping> { c.clone().map(JavadocMapping) }
	fn ord<'a, K, V>(map: &'a BTreeMap<K, V>, rev: bool) -> Vec<(&'a K, &'a V)> { let mut v: Vec<_> = map.iter().collect(); if rev { v.reverse(); } v }
	/// model -> quill tree through the tree API (not through any reader); `rev`: everything inserted in reverse order
	fn build(m: &MSet, rev: bool) -> Result<Mappings<2, ()>, String> {
		let mut out = e2s(Mappings::<2, ()>::from_namespaces(["s", "a"]))?;
		for (k, c) in ord(&m.classes, rev) {
			let mut qc = ClassNowodeMapping::new(ClassMapping { names: e2s(Names::try_from([Some(nm::<ObjClassName>(k)?), onm::<ObjClassName>(&c.dst)?]))? });
			qc.javadoc = jdoc(&c.comment);
			for ((name, desc), f) in ord(&c.fields, rev) {
				let mut qf = FieldNowodeMapping::new(FieldMapping { desc: nm::<FieldDescriptor>(desc)?, names: e2s(Names::try_from([Some(nm::<FieldName>(name)?), onm::<FieldName>(&f.dst)?]))? });
				qf.javadoc = jdoc(&f.comment);
				e2s(qc.add_field(qf).map(|_| ()))?;
			}
			for ((name, desc), me) in ord(&c.methods, rev) {
				let mut qm = MethodNowodeMapping::new(MethodMapping { desc: nm::<MethodDescriptor>(desc)?, names: e2s(Names::try_from([Some(nm::<MethodName>(name)?), onm::<MethodName>(&me.dst)?]))? });
				qm.javadoc = jdoc(&me.comment);
				for (idx, p) in ord(&me.params, rev) {
					let mut qp = ParameterNowodeMapping::new(ParameterMapping { index: *idx, names: e2s(Names::try_from([None, onm::<ParameterName>(&p.dst)?]))? });
					qp.javadoc = jdoc(&p.comment);
					e2s(qm.add_parameter(qp).map(|_| ()))?;
				}
				e2s(qc.add_method(qm).map(|_| ()))?;
			}
			e2s(out.add_class(qc).map(|_| ()))?;
		}
		Ok(out)
	}
	fn sv<T: std::fmt::Display>(xs: &[Option<T>]) -> Vec<Nm> { xs.iter().map(|x| x.as_ref().map(|x| x.to_string())).collect() }
	fn jd(j: &Option<JavadocMapping>) -> Nm { j.as_ref().map(|j| j.0.clone()) }
	/// quill tree -> model (walks the pub fields; checks that every map key agrees with the entry stored under it)
	fn extract(m: &Mappings<2, ()>) -> Result<MSet, String> {
		let mut out = MSet::default();
		if m.javadoc.is_some() { return Err("a comment on the mapping set itself appeared".into()); }
		for (k, c) in &m.classes {
			let names = sv(c.info.names.names());
			let k = k.to_string();
			if names[0].as_deref() != Some(k.as_str()) { return Err(format!("class stored under key {k:?} has names {names:?}")); }
			let mut mc = MClass { dst: names[1].clone(), comment: jd(&c.javadoc), fields: BTreeMap::new(), methods: BTreeMap::new() };
			for (fk, f) in &c.fields {
				let names = sv(f.info.names.names());
				let key = (fk.name.to_string(), fk.desc.as_inner().to_string());
				if f.info.desc.as_inner().to_string() != key.1 || names[0].as_deref() != Some(key.0.as_str()) { return Err(format!("field of {k:?} stored under key {key:?} has desc {:?} names {names:?}", f.info.desc.as_inner())); }
				if mc.fields.insert(key.clone(), MField { dst: names[1].clone(), comment: jd(&f.javadoc) }).is_some() { return Err(format!("two fields with key {key:?}")); }
			}
			for (mk, me) in &c.methods {
				let names = sv(me.info.names.names());
				let key = (mk.name.to_string(), mk.desc.as_inner().to_string());
				if me.info.desc.as_inner().to_string() != key.1 || names[0].as_deref() != Some(key.0.as_str()) { return Err(format!("method of {k:?} stored under key {key:?} has desc {:?} names {names:?}", me.info.desc.as_inner())); }
				let mut mm = MMethod { dst: names[1].clone(), comment: jd(&me.javadoc), params: BTreeMap::new() };
				for (pk, p) in &me.parameters {
					let names = sv(p.info.names.names());
					if pk.index != p.info.index { return Err(format!("parameter stored under index {} has index {}", pk.index, p.info.index)); }
					if names[0].is_some() { return Err(format!("parameter {} of {key:?} got a source name {:?}", pk.index, names[0])); }
					if mm.params.insert(pk.index, MParam { dst: names[1].clone(), comment: jd(&p.javadoc) }).is_some() { return Err("two parameters with one index".into()); }
				}
				if mc.methods.insert(key.clone(), mm).is_some() { return Err(format!("two methods with key {key:?}")); }
			}
			if out.classes.insert(k.clone(), mc).is_some() { return Err(format!("two classes with key {k:?}")); }
		}
		Ok(out)
	}
	fn empty() -> Mappings<2, ()> { Mappings::<2, ()>::from_namespaces(["s", "a"]).expect("harness: namespaces") }
	fn rd(text: &[u8]) -> Result<Mappings<2, ()>, String> { let mut m = empty(); e2s(crate::enigma_file::read_into(text, &mut m))?; Ok(m) }
	fn wr(m: &Mappings<2, ()>) -> Result<String, String> {
		let mut v = Vec::new();
		e2s(crate::enigma_file::write_all(m, &mut v))?;
		String::from_utf8(v).map_err(|_| "the written text is not UTF-8".to_string())
	}
	fn namespaces() -> Namespaces<2, ()> { Namespaces::try_from(["s".to_owned(), "a".to_owned()]).expect("harness: namespaces") }
	fn rd_dir(p: &Path) -> Result<Mappings<2, ()>, String> { e2s(crate::enigma_dir::read::<()>(p, namespaces())) }
	fn wr_dir(m: &Mappings<2, ()>, p: &Path) -> Result<(), String> { e2s(crate::enigma_dir::write(m, p)) }
	/// run the real code; a panic, a refusal and an inconsistent tree are failures of the case, not of the harness
	fn real<T>(t: &mut Tally, input: &dyn Fn() -> String, f: impl FnOnce() -> Result<T, String>) -> Option<T> {
		match guarded(f) {
			Ok(Some(Ok(x))) => Some(x),
			Ok(Some(Err(e))) => { t.fail(input(), &e); None },
			_ => { t.fail(input(), "panicked"); None },
		}
	}
	fn expect_eq(what: &str, exp: &MSet, got: &MSet) -> Result<(), String> { if exp == got { Ok(()) } else { Err(format!("{what}: {}", diff(exp, got))) } }

	// ---------------------------------------------------------------------------------------------------------------------
	// the universes
	// ---------------------------------------------------------------------------------------------------------------------
	fn s(x: &str) -> String { x.to_string() }
	fn so(x: Option<&str>) -> Nm { x.map(String::from) }
	fn bare() -> MClass { MClass { dst: None, comment: None, fields: BTreeMap::new(), methods: BTreeMap::new() } }
	fn fld(c: &mut MClass, name: &str, desc: &str, dst: Option<&str>, comment: Option<&str>) {
		assert!(c.fields.insert((s(name), s(desc)), MField { dst: so(dst), comment: so(comment) }).is_none(), "harness: duplicate field");
	}
	fn mth(c: &mut MClass, name: &str, desc: &str, dst: Option<&str>, comment: Option<&str>, ps: &[(usize, &str, Option<&str>)]) {
		let params = ps.iter().map(|(i, d, c)| (*i, MParam { dst: Some(s(d)), comment: so(*c) })).collect();
		assert!(c.methods.insert((s(name), s(desc)), MMethod { dst: so(dst), comment: so(comment), params }).is_none(), "harness: duplicate method");
	}
	/// a multi-line comment with a leading space, a blank line, `#` characters and a trailing space
	const C_MULTI: &str = " lead\n\n#hash # x\ntrail ";
	/// a class with everything: multi-line comment, 4 fields (two of one name, one with non-ASCII names), 5 methods (overloads, `<init>`, `<clinit>`, one with parameter indices at the u8 / u16 / u32 / usize boundaries), 9 parameters
	fn rich() -> MClass {
		let mut c = bare();
		c.comment = so(Some(C_MULTI));
		fld(&mut c, "f", "I", Some("g"), None);
		fld(&mut c, "f", "LA;", None, Some("one"));
		fld(&mut c, "h", "[Lp/B;", Some("h2"), Some("fa\n fb"));
		fld(&mut c, "\u{3b1}", "LA;", Some("\u{3b2}\u{20ac}"), Some("\u{3b3} # \u{3b4}"));
		mth(&mut c, "m", "()V", Some("n"), None, &[]);
		mth(&mut c, "m", "(I)V", None, None, &[(0, "x", None)]);
		mth(&mut c, INIT, "(LA;I)V", Some(INIT), Some("ctor"), &[(2, "b", None), (1, "a", Some(" p1\n\n#p3 "))]);
		mth(&mut c, "<clinit>", "()V", Some("<clinit>"), None, &[]);
		// parameter indices are `usize` in the mapping set and decimal text in the format: the byte / short / u32 boundaries and the largest
		// index must come back as they went out (added after seed C12-e: `ARG` index parsed as u8)
		mth(&mut c, "w", "(J)V", Some("w2"), None, &[(255, "p255", None), (256, "p256", Some("c256")), (65535, "p65535", None), (65536, "p65536", None), (4294967296, "p2e32", None), (usize::MAX, "pmax", Some("last"))]);
		c
	}
	/// the target-side prefix of the classes nested in `outer`: the target name of `outer`, its source name where it has
	/// none; for an outer class that is absent from the set the target name it has elsewhere in the universe
	fn target_prefix(m: &MSet, outer: &str) -> String {
		match m.classes.get(outer) {
			Some(c) => c.dst.clone().unwrap_or_else(|| s(outer)),
			None => s(match outer { "A" => "X", "A$I" => "X$J", "p/B" => "q/r/Y", o => panic!("harness: no orphan prefix for {o}") }),
		}
	}
	/// one variant of a key: own target name (simple name for nested classes, full name for top-level classes) and content
	type Variant = (Option<&'static str>, bool);
	fn product(keys: &[(&str, Vec<Variant>)]) -> Vec<MSet> {
		let mut out = vec![MSet::default()];
		for (key, variants) in keys {
			let mut next = Vec::with_capacity(out.len() * (variants.len() + 1));
			for m in &out {
				next.push(m.clone());
				for (target, is_rich) in variants {
					let mut c = if *is_rich { rich() } else { bare() };
					c.dst = match (outer_of(key), target) {
						(_, None) => None,
						(None, Some(t)) => Some(s(t)),
						(Some((o, _)), Some(t)) => Some(format!("{}${t}", target_prefix(m, o))),
					};
					let mut m2 = m.clone();
					m2.classes.insert(s(key), c);
					next.push(m2);
				}
			}
			out = next;
		}
		out
	}
	/// WIDE: every set over the 7 class keys A, A$I, A$I$K, A$Z, p/B, p/B$M, d/e/f/G where each key is absent or has one of
	/// its variants (4*4*3*3*4*3*3 = 5184 sets); outer keys come before inner keys so that target names follow the nesting
	fn wide() -> Vec<MSet> {
		product(&[
			("A", vec![(None, false), (Some("X"), true), (Some("q/X"), false)]),
			("A$I", vec![(None, true), (Some("J"), false), (Some("J"), true)]),
			("A$I$K", vec![(None, false), (Some("L"), true)]),
			("A$Z", vec![(None, false), (Some("W"), false)]),
			("p/B", vec![(None, false), (Some("q/r/Y"), true), (Some("Y"), false)]),
			("p/B$M", vec![(None, true), (Some("N"), false)]),
			("d/e/f/G", vec![(None, false), (Some("G"), false)]),
		])
	}
	const DEEP_COMMENTS: [Option<&str>; 7] = [None, Some(""), Some("c"), Some(C_MULTI), Some("#"), Some(" "), Some("\n")];
	fn deep_fields(c: &mut MClass, v: usize) {
		match v {
			0 => {},
			1 => fld(c, "f", "I", Some("g"), None),
			2 => { fld(c, "f", "I", None, Some("")); fld(c, "f", "J", Some("g"), Some("x\n\ny")); },
			// the written order is source name, then target name (none first), then descriptor
			_ => { fld(c, "b", "I", Some("x"), None); fld(c, "a", "J", Some("y"), None); fld(c, "a", "I", Some("z"), Some("# z")); fld(c, "a", "[[I", None, None); fld(c, "ab", "I", Some("a"), None); },
		}
	}
	fn deep_methods(c: &mut MClass, v: usize) {
		match v {
			0 => {},
			1 => mth(c, "m", "()V", Some("n"), None, &[]),
			2 => mth(c, INIT, "(I)V", Some(INIT), None, &[(1, "a", None)]),
			3 => mth(c, INIT, "(IJ)V", None, Some("ctor\n"), &[(1, "a", Some("pa")), (2, "b", Some(" pb\n\n# pb3"))]),
			4 => { mth(c, "m", "()V", Some("n"), None, &[]); mth(c, "m", "(I)V", None, None, &[(10, "j", None), (2, "c", None), (0, "this_", None)]); mth(c, "m", "(J)V", Some("b"), Some("mc"), &[]); mth(c, "k", "(J)V", Some("z"), None, &[]); },
			_ => mth(c, "m", "(Lp/B;[I)LA$I;", Some("n"), Some(C_MULTI), &[(0, "x", Some(C_MULTI)), (1, "y", Some(""))]),
		}
	}
	/// DEEP: the content variants on one class: 7 comments x 4 field lists x 6 method lists, on the top-level class A (with
	/// and without target name) and on the class A$I nested in a bare A -> X (with and without target name): 4*168 = 672 sets
	fn deep() -> Vec<MSet> {
		let mut out = Vec::new();
		for place in 0..4 { for co in DEEP_COMMENTS { for fv in 0..4 { for mv in 0..6 {
			let mut c = bare();
			c.comment = so(co);
			deep_fields(&mut c, fv);
			deep_methods(&mut c, mv);
			let mut m = MSet::default();
			match place {
				0 => { m.classes.insert(s("A"), c); },
				1 => { c.dst = so(Some("X")); m.classes.insert(s("A"), c); },
				_ => {
					let mut a = bare(); a.dst = so(Some("X")); m.classes.insert(s("A"), a);
					if place == 3 { c.dst = so(Some("X$J")); }
					m.classes.insert(s("A$I"), c);
				},
			}
			out.push(m);
		}}}}
		out
	}
	/// one comment on every kind of entry: class A -> X, its field, its method, the parameter of the method, and the
	/// same four entries of the nested class A$I -> X$J (COMMENT lines at every depth 1..5)
	fn commented(c: &str) -> MSet {
		let one = |dst: &str| { let mut k = bare(); k.dst = so(Some(dst)); k.comment = so(Some(c)); fld(&mut k, "f", "I", Some("g"), Some(c)); mth(&mut k, "m", "(I)V", Some("n"), Some(c), &[(0, "x", Some(c))]); k };
		let mut m = MSet::default();
		m.classes.insert(s("A"), one("X"));
		m.classes.insert(s("A$I"), one("X$J"));
		m
	}
	/// two root classes that share the file name (target name, or source name where there is none)
	fn shared_file_name_sets() -> Vec<MSet> {
		let mut out = Vec::new();
		for is_rich in [false, true] {
			let c = |dst: Option<&str>| { let mut c = if is_rich { rich() } else { bare() }; c.dst = so(dst); c };
			let two = |a: Option<&str>, b: Option<&str>| { let mut m = MSet::default(); m.classes.insert(s("A"), c(a)); m.classes.insert(s("p/B"), c(b)); m };
			out.push(two(None, Some("A")));
			out.push(two(Some("X"), Some("X")));
			out.push(two(Some("p/B"), None));
			let mut m = two(Some("q/X"), Some("q/X")); m.classes.insert(s("A$I"), c(Some("q/X$J"))); out.push(m);
		}
		out
	}

	// ---------------------------------------------------------------------------------------------------------------------
	// the checks
	// ---------------------------------------------------------------------------------------------------------------------
	/// write (single stream) then read: same classes, keys, target names, members, parameters, comments; deterministic;
	/// write(read(write(M))) == write(M)
	fn check_write_read(t: &mut Tally, m: &MSet) {
		let d = m.describe();
		t.at(d.as_bytes());
		t.case(m.size() >= 2);
		real(t, &|| d.clone(), || {
			let (q1, q2) = (build(m, false)?, build(m, true)?);
			let (w1, w2) = (wr(&q1).map_err(|e| format!("write refused: {e}"))?, wr(&q2).map_err(|e| format!("write refused: {e}"))?);
			if w1 != w2 { return Err(format!("the written text depends on the insertion order: {w1:?} vs {w2:?}")); }
			let back = rd(w1.as_bytes()).map_err(|e| format!("read refused what write wrote: {e}; text {w1:?}"))?;
			expect_eq("read(write(M)) != M", &m.norm(), &extract(&back)?)?;
			let w3 = wr(&back).map_err(|e| format!("second write refused: {e}"))?;
			if w3 != w1 { return Err(format!("write(read(write(M))) != write(M): {w3:?} vs {w1:?}")); }
			Ok(())
		});
	}
	/// the written text is the canonical rendering (sorted; nesting in the text mirrors source-name nesting) and an
	/// independent parser reads it back to the model
	fn check_canonical(t: &mut Tally, m: &MSet) {
		let d = m.describe();
		t.at(d.as_bytes());
		t.case(m.size() >= 2);
		real(t, &|| d.clone(), || {
			let w = wr(&build(m, true)?).map_err(|e| format!("write refused: {e}"))?;
			let p = parse_model(&w).map_err(|e| format!("the written text is not well-formed Enigma: {e}; text {w:?}"))?;
			expect_eq("independent parser on the written text", &m.norm(), &p)?;
			let canon = render_stream(m, Style::Canon);
			if w != canon { return Err(format!("the written text is not the sorted rendering of the content: got {w:?}, expected {canon:?}")); }
			// write_one(file name) is the part of the stream that belongs to that file; names that start no file are refused
			let q = build(m, false)?;
			let files = expected_files(m, Style::Canon);
			for (file, root) in roots_by_file(m) {
				let mut v = Vec::new();
				e2s(crate::enigma_file::write_one(&q, &file, &mut v)).map_err(|e| format!("write_one({file:?}) refused: {e}"))?;
				if v != files[&format!("{file}.mapping")].as_bytes() { return Err(format!("write_one({file:?}) for root {root:?} wrote {:?}", String::from_utf8_lossy(&v))); }
			}
			for (k, c) in &m.classes {
				let name = c.dst.clone().unwrap_or_else(|| k.clone());
				if files.contains_key(&format!("{name}.mapping")) { continue; }
				let mut v = Vec::new();
				if crate::enigma_file::write_one(&q, &name, &mut v).is_ok() { return Err(format!("write_one({name:?}) wrote {:?} although {k:?} is nested in a class of the set", String::from_utf8_lossy(&v))); }
			}
			Ok(())
		});
	}
	/// quill reads the independent rendering (canonical and noisy/reordered) into the model
	fn check_reads_rendering(t: &mut Tally, m: &MSet) {
		let d = m.describe();
		t.at(d.as_bytes());
		t.case(m.size() >= 2);
		let (t1, t2) = (render_stream(m, Style::Canon), render_stream(m, Style::Noisy));
		// the harness renderer and the harness parser agree with each other
		match parse_model(&t1) { Ok(p) if p == m.norm() => {}, o => panic!("harness: parser and renderer disagree on {t1:?}: {o:?}") }
		match parse_model(&t2) { Ok(p) if &p == m => {}, o => panic!("harness: parser and renderer disagree on {t2:?}: {o:?}") }
		real(t, &|| d.clone(), || {
			let r1 = rd(t1.as_bytes()).map_err(|e| format!("read refused the rendered text {t1:?}: {e}"))?;
			expect_eq(&format!("read of {t1:?}"), &m.norm(), &extract(&r1)?)?;
			let r2 = rd(t2.as_bytes()).map_err(|e| format!("read refused the same content in another order and spelling {t2:?}: {e}"))?;
			expect_eq(&format!("read of (other order and spelling) {t2:?}"), m, &extract(&r2)?)?;
			Ok(())
		});
	}

	struct TempDir(PathBuf);
	impl TempDir {
		fn new(test: &str) -> TempDir {
			let p = std::env::temp_dir().join(format!("verif_enum_enigma_{test}_{}", std::process::id()));
			let _ = std::fs::remove_dir_all(&p);
			std::fs::create_dir_all(&p).expect("harness: cannot create the temp dir");
			TempDir(p)
		}
		/// a fresh empty sub-directory
		fn sub(&self, name: &str) -> PathBuf {
			let p = self.0.join(name);
			let _ = std::fs::remove_dir_all(&p);
			std::fs::create_dir_all(&p).expect("harness: cannot create a sub-directory");
			p
		}
	}
	impl Drop for TempDir { fn drop(&mut self) { let _ = std::fs::remove_dir_all(&self.0); } }
	/// relative path (with `/`) -> content of every file below `root`; directories without files do not show
	fn list_files(root: &Path) -> Result<BTreeMap<String, String>, String> {
		fn rec(dir: &Path, rel: &str, out: &mut BTreeMap<String, String>) -> Result<(), String> {
			for e in std::fs::read_dir(dir).map_err(|e| e.to_string())? {
				let e = e.map_err(|e| e.to_string())?;
				let name = e.file_name().to_string_lossy().to_string();
				let rel2 = if rel.is_empty() { name.clone() } else { format!("{rel}/{name}") };
				if e.file_type().map_err(|e| e.to_string())?.is_dir() { rec(&e.path(), &rel2, out)?; }
				else { out.insert(rel2, String::from_utf8(std::fs::read(e.path()).map_err(|e| e.to_string())?).map_err(|_| "file is not UTF-8".to_string())?); }
			}
			Ok(())
		}
		let mut out = BTreeMap::new();
		rec(root, "", &mut out)?;
		Ok(out)
	}
	fn put_files(root: &Path, files: &[(&String, &String)]) {
		for (rel, content) in files {
			let p = root.join(rel);
			std::fs::create_dir_all(p.parent().unwrap()).expect("harness: mkdir");
			std::fs::write(&p, content).expect("harness: write file");
		}
	}
	/// directory form: file set and contents as predicted, every class in exactly one file, deterministic, read back;
	/// reading is independent of the order in which the files were created and ignores other files
	fn check_dir(t: &mut Tally, tmp: &TempDir, m: &MSet) {
		let d = m.describe();
		t.at(d.as_bytes());
		t.case(m.roots().len() >= 2 || m.classes.len() > m.roots().len());
		real(t, &|| d.clone(), || {
			let (d1, d2) = (tmp.sub("w1"), tmp.sub("w2"));
			wr_dir(&build(m, false)?, &d1).map_err(|e| format!("write refused: {e}"))?;
			wr_dir(&build(m, true)?, &d2).map_err(|e| format!("write refused: {e}"))?;
			let (f1, f2) = (list_files(&d1)?, list_files(&d2)?);
			if f1 != f2 { return Err(format!("the written files depend on the insertion order: {f1:?} vs {f2:?}")); }
			// every class lands in exactly one file, the file of its root
			let mut seen: BTreeMap<String, String> = BTreeMap::new();
			for (path, text) in &f1 {
				let p = parse_model(text).map_err(|e| format!("file {path:?} is not well-formed Enigma: {e}; text {text:?}"))?;
				for k in p.classes.keys() { if let Some(o) = seen.insert(k.clone(), path.clone()) { return Err(format!("class {k:?} is in two files: {o:?} and {path:?}")); } }
			}
			let mut expected_place: BTreeMap<String, String> = BTreeMap::new();
			for (file, root) in roots_by_file(m) {
				let mut todo = vec![root];
				while let Some(k) = todo.pop() { expected_place.insert(s(k), format!("{file}.mapping")); todo.extend(m.children(k)); }
			}
			if seen != expected_place { return Err(format!("classes per file: got {seen:?}, expected {expected_place:?} (files {:?})", f1.keys().collect::<Vec<_>>())); }
			let exp = expected_files(m, Style::Canon);
			if f1 != exp { return Err(format!("file set / contents are not the sorted rendering: got {f1:?}, expected {exp:?}")); }
			let back = rd_dir(&d1).map_err(|e| format!("read refused the written directory: {e}"))?;
			expect_eq("read(write(M)) != M (directory)", &m.norm(), &extract(&back)?)?;
			// files created by the harness, in sorted and in reverse order (a different listing order on most file systems)
			let (d3, d4) = (tmp.sub("h1"), tmp.sub("h2"));
			let fwd: Vec<(&String, &String)> = exp.iter().collect();
			let mut bwd = fwd.clone(); bwd.reverse();
			put_files(&d3, &fwd);
			put_files(&d4, &bwd);
			std::fs::write(d3.join("notes.txt"), "CLASS Q R\n\t\t\tBROKEN\n").expect("harness: write file");
			std::fs::write(d4.join("mapping"), "BROKEN\n").expect("harness: write file");
			let (r3, r4) = (rd_dir(&d3).map_err(|e| format!("read refused a directory of rendered files: {e}"))?, rd_dir(&d4).map_err(|e| format!("read refused a directory of rendered files: {e}"))?);
			expect_eq("read of a rendered directory", &m.norm(), &extract(&r3)?)?;
			expect_eq("read of a rendered directory (files created in reverse order)", &m.norm(), &extract(&r4)?)?;
			let (k3, k4): (Vec<String>, Vec<String>) = (r3.classes.keys().map(|k| k.to_string()).collect(), r4.classes.keys().map(|k| k.to_string()).collect());
			if k3 != k4 { return Err(format!("the order of the classes read depends on the order in which the files were created: {k3:?} vs {k4:?}")); }
			Ok(())
		});
	}
	fn with_orphans() -> Vec<MSet> { wide().into_iter().filter(|m| m.has_orphan()).collect() }
	fn without_orphans() -> Vec<MSet> { wide().into_iter().filter(|m| !m.has_orphan()).collect() }

	// ---------------------------------------------------------------------------------------------------------------------
	// the tests
	// ---------------------------------------------------------------------------------------------------------------------
	#[test]
	fn stream_write_then_read() {
		let mut t = Tally::new("stream_write_then_read");
		for m in without_orphans() { check_write_read(&mut t, &m); }
		for m in deep() { check_write_read(&mut t, &m); }
		t.finish();
	}
	#[test]
	#[allow(non_snake_case)]
	fn stream_write_then_read__orphan_inner() {
		let mut t = Tally::new("stream_write_then_read__orphan_inner");
		for m in with_orphans() { check_write_read(&mut t, &m); }
		t.finish();
	}
	#[test]
	fn stream_written_text_is_sorted_and_nested() {
		let mut t = Tally::new("stream_written_text_is_sorted_and_nested");
		for m in without_orphans() { check_canonical(&mut t, &m); }
		for m in deep() { check_canonical(&mut t, &m); }
		t.finish();
	}
	#[test]
	#[allow(non_snake_case)]
	fn stream_written_text_is_sorted_and_nested__orphan_inner() {
		let mut t = Tally::new("stream_written_text_is_sorted_and_nested__orphan_inner");
		for m in with_orphans() { check_canonical(&mut t, &m); }
		t.finish();
	}
	#[test]
	fn stream_reads_independent_rendering() {
		let mut t = Tally::new("stream_reads_independent_rendering");
		for m in wide() { check_reads_rendering(&mut t, &m); }
		for m in deep() { check_reads_rendering(&mut t, &m); }
		t.finish();
	}
	#[test]
	fn dir_roundtrip() {
		let mut t = Tally::new("dir_roundtrip");
		let tmp = TempDir::new("dir_roundtrip");
		for m in without_orphans() { check_dir(&mut t, &tmp, &m); }
		drop(tmp);
		t.finish();
	}
	#[test]
	#[allow(non_snake_case)]
	fn dir_roundtrip__orphan_inner() {
		let mut t = Tally::new("dir_roundtrip__orphan_inner");
		let tmp = TempDir::new("dir_roundtrip__orphan_inner");
		for m in with_orphans() { check_dir(&mut t, &tmp, &m); }
		drop(tmp);
		t.finish();
	}
	fn comment_cases(t: &mut Tally, tmp: &TempDir, alpha: &[u8], max_len: usize, keep: &dyn Fn(&str) -> bool) {
		let mut all = Vec::new();
		for_all_strings(alpha, max_len, &mut |c| all.push(String::from_utf8(c.to_vec()).unwrap()));
		for c in all {
			if !keep(&c) { continue; }
			let m = commented(&c);
			let before = t.failures.len();
			check_write_read(t, &m);
			check_canonical(t, &m);
			check_reads_rendering(t, &m);
			check_dir(t, tmp, &m);
			// 4 checks = one case
			t.cases -= 3;
			t.nontrivial -= 3;
			for f in t.failures.iter_mut().skip(before) { if !f.starts_with("comment ") { *f = format!("comment {c:?} on every entry of {f}"); } }
		}
	}
	#[test]
	fn comments_survive() {
		let mut t = Tally::new("comments_survive");
		let tmp = TempDir::new("comments_survive");
		comment_cases(&mut t, &tmp, b"a #\n", 4, &|_| true);
		drop(tmp);
		t.finish();
	}
	#[test]
	#[allow(non_snake_case)]
	fn comments_survive__tabs() {
		let mut t = Tally::new("comments_survive__tabs");
		let tmp = TempDir::new("comments_survive__tabs");
		comment_cases(&mut t, &tmp, b"a\t\n", 3, &|c| c.contains('\t'));
		drop(tmp);
		t.finish();
	}
	#[test]
	#[allow(non_snake_case)]
	fn stream_write_then_read__shared_file_name() {
		let mut t = Tally::new("stream_write_then_read__shared_file_name");
		for m in shared_file_name_sets() {
			let d = m.describe();
			t.at(d.as_bytes());
			t.case(true);
			real(&mut t, &|| d.clone(), || {
				let w = wr(&build(&m, false)?).map_err(|e| format!("write refused: {e}"))?;
				let back = rd(w.as_bytes()).map_err(|e| format!("read refused what write wrote: {e}; text {w:?}"))?;
				expect_eq(&format!("read(write(M)) != M, written text {w:?}"), &m.norm(), &extract(&back)?)
			});
		}
		t.finish();
	}
	#[test]
	#[allow(non_snake_case)]
	fn dir_roundtrip__shared_file_name() {
		let mut t = Tally::new("dir_roundtrip__shared_file_name");
		let tmp = TempDir::new("dir_roundtrip__shared_file_name");
		for m in shared_file_name_sets() {
			let d = m.describe();
			t.at(d.as_bytes());
			t.case(true);
			real(&mut t, &|| d.clone(), || {
				let d1 = tmp.sub("w1");
				wr_dir(&build(&m, false)?, &d1).map_err(|e| format!("write refused: {e}"))?;
				let files = list_files(&d1)?;
				let mut seen: BTreeSet<String> = BTreeSet::new();
				for (path, text) in &files {
					let p = parse_model(text).map_err(|e| format!("file {path:?} is not well-formed Enigma: {e}"))?;
					for k in p.classes.keys() { if !seen.insert(k.clone()) { return Err(format!("class {k:?} is in two files")); } }
				}
				let want: BTreeSet<String> = m.classes.keys().cloned().collect();
				if seen != want { return Err(format!("classes found in the files {:?}: {seen:?}, expected {want:?}", files.keys().collect::<Vec<_>>())); }
				let back = rd_dir(&d1).map_err(|e| format!("read refused the written directory: {e}"))?;
				expect_eq("read(write(M)) != M (directory)", &m.norm(), &extract(&back)?)
			});
		}
		drop(tmp);
		t.finish();
	}

	// ---------------------------------------------------------------------------------------------------------------------
	// C16 / C12: the reader answers Ok or Err on malformed lines, never panics or hangs
	// ---------------------------------------------------------------------------------------------------------------------
	const G_CONTEXTS: [&[&str]; 5] = [
		&[],
		&["CLASS A X"],
		&["CLASS A X", "\tFIELD f g I"],
		&["CLASS A X", "\tMETHOD m n (I)V"],
		&["CLASS A X", "\tMETHOD m n (I)V", "\t\tARG 0 x"],
	];
	const G_INDENTS: [&str; 6] = ["", "\t", "\t\t", "\t\t\t", "\t\t\t\t", " "];
	const G_KEYWORDS: [&str; 8] = ["CLASS", "FIELD", "METHOD", "ARG", "COMMENT", "COMMENTX", "x", ""];
	const G_TOKENS: [&str; 7] = ["A", "a/", "(I)V", "I", "0", "-1", "ACC:P"];
	fn garbage_doc(t: &mut Tally, doc: &[u8]) {
		t.at(doc);
		match guarded(|| rd(doc)) {
			Ok(Some(Ok(q))) => {
				t.case(true);
				// what was accepted is a consistent tree, and writing it does not panic either
				match guarded(|| (extract(&q), wr(&q))) {
					Ok(Some((Ok(_), _))) => {},
					Ok(Some((Err(e), _))) => t.fail(show(doc), &format!("accepted, but the tree is inconsistent: {e}")),
					_ => t.fail(show(doc), "accepted, and writing the result panicked"),
				}
			},
			Ok(Some(Err(_))) => t.case(false),
			_ => { t.case(false); t.fail(show(doc), "read_into panicked"); },
		}
	}
	#[test]
	fn no_panic_on_garbage_lines() {
		let mut t = Tally::new("no_panic_on_garbage_lines");
		let mut args: Vec<Vec<&str>> = vec![vec![]];
		let mut last: Vec<Vec<&str>> = vec![vec![]];
		for _ in 0..4 {
			let mut next = Vec::new();
			for a in &last { for tok in G_TOKENS { let mut b = a.clone(); b.push(tok); next.push(b); } }
			args.extend(next.iter().cloned());
			last = next;
		}
		assert_eq!(args.len(), 2801);
		for ctx in G_CONTEXTS { for ind in G_INDENTS { for kw in G_KEYWORDS { for a in &args {
			let mut doc = String::new();
			for l in ctx { doc += l; doc.push('\n'); }
			doc += ind; doc += kw;
			for tok in a { doc.push(' '); doc += tok; }
			doc.push('\n');
			garbage_doc(&mut t, doc.as_bytes());
		}}}}
		// raw lines: bytes that are not UTF-8, multi-byte characters after the indentation, control characters, other separators,
		// huge indices, `#` in odd places, missing final line break, CR LF
		let raw: [&[u8]; 24] = [
			b"CLASS \xff", b"\xff", b"\tCOMMENT \xff\xfe", b"CLASS \xc3\xa9 \xe2\x82\xac", b"\t\xc3\xa9", b"\t\t\xe2\x82\xac CLASS", b"CLASS\x0bA\x0cB", b"CLASS A\rB",
			b"CLASS A B\r", b"ARG 99999999999999999999999 x", b"\t\tARG 18446744073709551615 x", b"\t\tARG 18446744073709551616 x", b"\t\tARG +1 x", b"\t\tARG 0x1 x",
			b"#CLASS A", b"CLASS#A", b"CLASS A #", b"COMMENT", b"\tCOMMENT", b"\tCOMMENT#x", b"\tCOMMENTARY x", b"CLASS A$ $B", b"CLASS $ /", b"\0",
		];
		for ctx in G_CONTEXTS { for ind in G_INDENTS { for r in raw { for end in [&b"\n"[..], &b""[..], &b"\r\n"[..], &b"\n\tCOMMENT z\n"[..]] {
			let mut doc: Vec<u8> = Vec::new();
			for l in ctx { doc.extend_from_slice(l.as_bytes()); doc.push(b'\n'); }
			doc.extend_from_slice(ind.as_bytes()); doc.extend_from_slice(r); doc.extend_from_slice(end);
			garbage_doc(&mut t, &doc);
		}}}}
		t.finish();
	}

	/// deliberately false: "every class read back is a top-level class" (nested classes come back under `Outer$Inner` keys)
	#[test]
	fn canary_must_fail() {
		let mut t = Tally::new("canary_must_fail");
		for m in without_orphans().into_iter().take(200) {
			t.case(true);
			let back = build(&m, false).and_then(|q| wr(&q)).and_then(|w| rd(w.as_bytes())).and_then(|q| extract(&q));
			match back { Ok(b) if b.classes.keys().all(|k| !k.contains('$')) => {}, _ => t.fail(m.describe(), "canary") }
		}
		t.finish();
	}
