	// bounded exhaustive enumeration for merge_preserve_order in dukebox/src/merge.rs
	fn all_lists(max_len: usize, n_elems: u8, f: &mut dyn FnMut(&[u8])) {
		fn rec(cur: &mut Vec<u8>, max_len: usize, n: u8, f: &mut dyn FnMut(&[u8])) {
			f(cur);
			if cur.len() == max_len { return; }
			for e in 0..n { if !cur.contains(&e) { cur.push(e); rec(cur, max_len, n, f); cur.pop(); } }
		}
		rec(&mut Vec::new(), max_len, n_elems, f);
	}
	fn restrict(r: &[u8], to: &[u8]) -> Vec<u8> { r.iter().copied().filter(|x| to.contains(x)).collect() }
	fn compatible(a: &[u8], b: &[u8]) -> bool {
		// no pair of shared elements is ordered oppositely
		let sa = restrict(a, b);
		let sb = restrict(b, a);
		sa == sb
	}
	fn run(a: &[u8], b: &[u8]) -> Result<Option<Vec<u8>>, ()> {
		guarded(|| merge_preserve_order(a, b).copied().collect::<Vec<u8>>())
	}

	/// every element of either side exactly once, nothing else; the client order is kept
	#[test]
	fn union_exactly_once() {
		let mut t = Tally::new("union_exactly_once");
		let mut lists = Vec::new();
		all_lists(4, 5, &mut |l| lists.push(l.to_vec()));
		for a in &lists { for b in &lists {
			t.at(format!("client={a:?} server={b:?}").as_bytes());
			t.case(a.iter().any(|x| b.contains(x)) && a != b);
			match run(a, b) {
				Err(()) => t.fail(format!("client={a:?} server={b:?}"), "does not terminate"),
				Ok(None) => t.fail(format!("client={a:?} server={b:?}"), "panicked"),
				Ok(Some(r)) => {
					let mut want: Vec<u8> = a.clone(); for x in b { if !want.contains(x) { want.push(*x); } }
					let mut rs = r.clone(); rs.sort(); want.sort();
					if rs != want { t.fail(format!("client={a:?} server={b:?} -> {r:?}"), "not every element of either side exactly once"); }
					else if restrict(&r, a) != *a { t.fail(format!("client={a:?} server={b:?} -> {r:?}"), "client order not preserved"); }
				},
			}
		}}
		t.finish();
	}
	/// when the two orders are compatible, the server order is kept too
	#[test]
	fn both_orders_preserved_when_compatible() {
		let mut t = Tally::new("both_orders_preserved_when_compatible");
		let mut lists = Vec::new();
		all_lists(4, 5, &mut |l| lists.push(l.to_vec()));
		for a in &lists { for b in &lists {
			if !compatible(a, b) { continue; }
			t.at(format!("client={a:?} server={b:?}").as_bytes());
			t.case(a.iter().any(|x| b.contains(x)) && a != b);
			if let Ok(Some(r)) = run(a, b) {
				if restrict(&r, b) != *b { t.fail(format!("client={a:?} server={b:?} -> {r:?}"), "server order not preserved although the orders are compatible"); }
			}
		}}
		t.finish();
	}
	#[test]
	fn canary_must_fail() {
		let mut t = Tally::new("canary_must_fail");
		let mut lists = Vec::new();
		all_lists(2, 3, &mut |l| lists.push(l.to_vec()));
		for a in &lists { for b in &lists { t.case(true); if run(a, b) != Ok(Some(a.clone())) { t.fail(format!("{a:?} {b:?}"), "canary"); } } }
		t.finish();
	}
