GROUP = dict(crate='feather-build-rs', file='src/version_graph.rs', harness_file='vgraph.rs', cargo_target=['--bin', 'feather-build-rs'], functions=[], trusted=[], tests=[
    dict(name='version_is_root_plus_path_diffs', props=['C05'], text='draft', bound='draft', timeout=900, tier='quick'),
    dict(name='every_path_of_a_consistent_graph_gives_the_version', props=['C05'], text='draft', bound='draft', timeout=900, tier='quick'),
    dict(name='names_and_creation_order_do_not_matter', props=['C05'], text='draft', bound='draft', timeout=900, tier='quick'),
    dict(name='ambiguous_paths_resolve_to_one_of_the_paths', props=['C05'], text='draft', bound='draft', timeout=900, tier='quick'),
    dict(name='malformed_directories_are_refused', props=['C05'], text='draft', bound='draft', timeout=900, tier='quick'),
    dict(name='canary_must_fail', props=[], canary=True, text='must fail', bound=''),
])
