"""Enumeration group `vgraph`: bounded stand-in checks for the version graph (harness kx/enum/vgraph.rs, property C05).

GROUP has exactly the shape of an entry of kx.groups.ENUM_GROUPS (picked up by kx.groups._load_group_files as ENUM_GROUPS['vgraph']).

Install: `VersionGraph`, `Split` and `VersionEntry` are pub(crate) items of the module `version_graph` of the root package feather-build-rs, which is a binary
crate without a library (/repo/Cargo.toml: [package] name = "feather-build-rs", sources src/main.rs + src/*.rs).  The harness reaches them, `Path` and `Mappings`
through `use super::*`, so it is appended as `#[cfg(test)] mod verif_enum_vgraph` to src/version_graph.rs and selected with `-p feather-build-rs --bin feather-build-rs`
(test path version_graph::verif_enum_vgraph::<test>; the filter `verif_enum_vgraph::` of kx.enumrun matches it).

Universes (all counts are checked by the `cases=` numbers the tests print):

States: 8 mapping states over the classes a, b, a$n, a$n$k (namespaces official, named).  Between them: class added / removed (b, a$n, a$n$k), class renamed (a, a$n),
   field added / removed / renamed, method renamed, parameter added / removed, comment added / removed / edited on a class, a field, a method, a parameter.
Directories: file `<root>.tiny` with the state of the root, one `<parent>#<child>.tinydiff` per edge holding the model-level diff from the state of the parent to the
   state of the child, written by the harness as text in two spellings (PLAIN: nested classes with full names in the root file, diffs list only what changed;
   OTHER: own names in the root file, diffs also list unchanged entries, members of removed classes and explicit empty columns).
Graphs: the 8 rooted trees with <= 4 nodes; the 16 DAGs on 3 or 4 nodes with edges i -> j for i < j that are not trees (every node reachable, some on several paths).
Expected mappings of a version: root model, model-level diffs along a path applied in order (every path is followed; they must agree), names of nested classes extended.
Every case creates a fresh directory under std::env::temp_dir(), runs the real VersionGraph::resolve, versions, children, get and apply_diffs and removes the directory.
"""

GROUP = dict(
    crate='feather-build-rs', file='src/version_graph.rs', harness_file='vgraph.rs', cargo_target=['--bin', 'feather-build-rs'],
    functions=['src/version_graph.rs::VersionGraph::resolve', 'VersionGraph::resolve::add_node', 'VersionGraph::versions', 'VersionGraph::children', 'VersionGraph::get',
               'VersionGraph::apply_diffs', 'VersionEntry::as_str',
               'quill::tiny_v2::read_file', 'quill::tiny_v2_diff::read_file', 'MappingsDiff::apply_to', 'Mappings::contract_inner_class_names', 'Mappings::extend_inner_class_names (as called by the version graph)'],
    trusted=['version graph harness (kx/enum/vgraph.rs): own model of a mapping set (a nested class carries its own simple name; the shown name is shown(outer) + $ + own), own model-level diff '
             '(complete description of the change between two states) and model-level application (additions appear, removals disappear with everything below, edits replace, a mismatch is an error), '
             'own writers of Tiny v2 and tinydiff text; the extractor reported mappings -> model walks the pub fields and checks every map key against its entry.  The harness asserts that the '
             'model-level diffs along every path lead to the state of the version.  The order in which the file system lists a directory cannot be set directly: files are created in every order and the '
             'listing orders that actually occurred are counted (INFO lines; on this file system all 2 / 6 / 24 orders of 2 / 3 / 4 files occurred).  Directories live under std::env::temp_dir().'],
    tests=[
        dict(name='version_is_root_plus_path_diffs', props=['C05'], tier='quick', timeout=900,
             text='For every tree-shaped directory, versions() and children() report exactly the versions and edges of the directory, every version is found by get under its name, the mappings apply_diffs reports for it '
                  'are exactly the root mappings with the diffs along the path root -> version applied in order and the names of nested classes extended, and an unknown version name is refused.',
             bound='the 8 rooted trees with <= 4 nodes x every assignment of the 8 states to the nodes (8 + 64 + 2*512 + 4*4096 = 17480) x 2 spellings of the files; plain version names 1.0 .. 1.3; 34960 cases'),
        dict(name='every_path_of_a_consistent_graph_gives_the_version', props=['C05'], tier='quick', timeout=900,
             text='The same for graphs in which versions are reachable on several paths and every diff is the change between the states of its two ends: whichever path is taken, the reported mappings are the state of the version.',
             bound='the 16 non-tree DAGs on 3 or 4 nodes (triangle; diamond, chains with shortcuts, ... up to the complete one) x every assignment of 6 states {0, 2, 4, 5, 6, 7} to the nodes (216 + 15*1296); 19656 cases'),
        dict(name='names_and_creation_order_do_not_matter', props=['C05'], tier='thorough', timeout=1200,
             text='The answers do not depend on the order in which the files were created / are listed nor on the version names: with any node named plainly or as client~server, every plain version is reachable under its '
                  'name with Split::None, every client~server version under either half with Split::First / Split::Second, and versions, edges and mappings are as for version_is_root_plus_path_diffs.',
             bound='the 8 trees with states {6, 1, 7, 4} x every subset of nodes given a client~server name (2^n) x every assignment of the version numbers to the nodes (n!) x every creation order of the files (n!) = 37458 directories; '
                   'the 16 DAGs x 4 split masks x n! numberings x 2 creation orders (as listed, reversed), other spelling = 2928; 40386 cases'),
        dict(name='ambiguous_paths_resolve_to_one_of_the_paths', props=['C05'], tier='quick', timeout=900,
             text='When the last version has several parents and the diffs into it do NOT agree (there is no single "the path"), the directory is refused or the reported mappings are root + the diffs along ONE path root -> version: '
                  'never a mixture, never a diff from elsewhere, no panic.',
             bound='the non-tree DAGs on 3 or 4 nodes whose only version with several parents is the last one x every assignment of 4 states {0, 3, 5, 7} to the other versions x every assignment of these 4 states to the '
                   'edges into the last version, each under 3 numberings of the versions; 43776 cases (37440 with paths that really differ)'),
        dict(name='every_small_graph_with_a_cycle_is_refused_or_answers_only_outside_the_cycle', props=['C05'], tier='quick', timeout=900,
             text='A cycle is reported as an error however it is reached: for every directed graph over the root and three more versions with at most five edges that holds a cycle '
                  '(entered by one edge, by several, over two branches, through the root, apart from it, several cycles) either resolve refuses, or get / apply_diffs refuse every version on a cycle '
                  'while every other version is refused or reported exactly; never a panic.',
             bound='all subsets of at most 5 of the 12 edges between 4 versions that contain a cycle x 2 naming schemes (plain; client~server halves) x every creation order for up to 4 files, '
                   '2n rotations / reversed rotations of the n files otherwise'),
        dict(name='malformed_directories_are_refused', props=['C05'], tier='quick', timeout=600,
             text='Malformed directories are reported as errors: no root and several roots are refused by resolve; for a cycle, an unreachable version or an unknown name either resolve refuses or get / apply_diffs refuses '
                  'exactly the affected versions while every other version is refused or reported exactly; never a panic, in every creation order of the files.',
             bound='24 directory shapes (4 without root, 5 with two or three roots, 8 cycles incl. self loops, through the root and apart from it, 6 with unreachable versions / a parent of the root, 1 well-formed chain asked for 9 '
                   'unknown names such as "", "1", "1.0.tiny", "1.0#1.1", "~", "#") x 3 naming schemes (plain; client~server names; mixed, reversed numbers) x every creation order of the files; 1296 cases'),
        dict(name='canary_must_fail', props=[], canary=True, text='must fail', bound=''),
    ])
