	// bounded exhaustive enumeration for the Tiny v2 and tiny-diff readers on malformed text (quill/src/tiny_v2.rs read, quill/src/tiny_v2_diff.rs read,
	// quill/src/lines.rs): C16 "the ... Tiny v2, tiny-diff ... parsers either return a value or return an error: they do not panic, ... loop forever".
	// Documents are built from line menus (headers, class / field / method / parameter / comment lines at every indentation 0..3, with missing,
	// surplus, empty and multi-byte fields, unknown line kinds, blank lines); every document of up to 3 menu lines after a header is fed to both readers
	// with 2 and 3 namespaces.  Oracle: the call returns (Ok or Err); a document the model knows to be well formed must be accepted.
	const HEADERS: [&str; 9] = ["tiny\t2\t0\ta\tb", "tiny\t2\t0\ta\tb\tc", "tiny\t2\t0\ta", "tiny\t2\t0", "tiny\t2\t1\ta\tb", "tiny\t1\t0\ta\tb", "v1\ta\tb", "", "tiny\t2\t0\t\u{e9}\t\u{20ac}"];
	const BODIES: [&str; 30] = [
		"c\tA\tB", "c\tA", "c", "c\tA\tB\tC", "c\t\tB", "c\tA\t", "c\t\u{e9}\t\u{20ac}x",
		"f\tI\tf\tg", "f\tI\tf", "f\tI", "f", "f\tLA\tf\tg", "f\t\tf\tg", "f\tI\t\tg",
		"m\t()V\tm\tn", "m\t()V\tm", "m\t(\tm\tn", "m\t\t<init>\t<init>", "m",
		"p\t0\tx\ty", "p\t0\t\ty", "p\t-1\tx\ty", "p\t99999999999999999999\tx\ty", "p\tz\tx\ty", "p",
		"c\ta comment", "c\t", "x\tA\tB", "", "\t",
	];
	fn indent(n: usize, s: &str) -> String { format!("{}{}", "\t".repeat(n), s) }
	fn try_all(t: &mut Tally, doc: &str) {
		t.at(doc.as_bytes());
		let b = doc.as_bytes().to_vec();
		let mut ok_any = false;
		match guarded(|| crate::tiny_v2::read::<2, ()>(b.as_slice()).is_ok()) { Ok(Some(ok)) => ok_any |= ok, _ => t.fail(format!("{doc:?}"), "tiny_v2::read::<2> panicked") }
		match guarded(|| crate::tiny_v2::read::<3, ()>(b.as_slice()).is_ok()) { Ok(Some(ok)) => ok_any |= ok, _ => t.fail(format!("{doc:?}"), "tiny_v2::read::<3> panicked") }
		match guarded(|| crate::tiny_v2_diff::read(b.as_slice()).is_ok()) { Ok(Some(ok)) => ok_any |= ok, _ => t.fail(format!("{doc:?}"), "tiny_v2_diff::read panicked") }
		t.case(ok_any);
	}
	#[test]
	fn tiny_readers_never_panic_on_malformed_text() {
		let mut t = Tally::new("tiny_readers_never_panic_on_malformed_text");
		let mut lines: Vec<String> = Vec::new();
		for b in BODIES { for n in 0..4 { lines.push(indent(n, b)); } }
		for h in HEADERS {
			try_all(&mut t, h);
			try_all(&mut t, &format!("{h}\n"));
			for a in &lines {
				try_all(&mut t, &format!("{h}\n{a}\n"));
				try_all(&mut t, &format!("{h}\n{a}"));
				for b in &lines { try_all(&mut t, &format!("{h}\n{a}\n{b}\n")); }
			}
		}
		// three-line bodies under the two ordinary headers, restricted to the lines that can continue a class
		let core: Vec<&String> = lines.iter().filter(|l| l.trim_start_matches('\t').starts_with(['c', 'f', 'm', 'p'])).collect();
		for h in &HEADERS[..2] { for a in core.iter().take(28) { for b in &core { for c in core.iter().step_by(3) { try_all(&mut t, &format!("{h}\n{a}\n{b}\n{c}\n")); } } } }
		// a well-formed document must be accepted (sanity of the menus)
		let good = "tiny\t2\t0\ta\tb\nc\tA\tB\n\tc\ta comment\n\tf\tI\tf\tg\n\tm\t()V\tm\tn\n\t\tp\t0\tx\ty\n\t\t\tc\tcomment\n";
		if crate::tiny_v2::read::<2, ()>(good.as_bytes()).is_err() { t.fail(format!("{good:?}"), "a well-formed Tiny v2 document is refused"); }
		for bytes in [vec![0xffu8, b'\n'], b"tiny\t2\t0\ta\tb\r\nc\tA\tB\r\n".to_vec(), vec![b't', 0xc3]] {
			t.at(&bytes); t.case(false);
			if guarded(|| crate::tiny_v2::read::<2, ()>(bytes.as_slice()).is_ok()).ok().flatten().is_none() { t.fail(format!("{bytes:?}"), "tiny_v2::read panicked"); }
			if guarded(|| crate::tiny_v2_diff::read(bytes.as_slice()).is_ok()).ok().flatten().is_none() { t.fail(format!("{bytes:?}"), "tiny_v2_diff::read panicked"); }
		}
		t.finish();
	}
	/// deliberately false: "every document is accepted by some reader"
	#[test]
	fn canary_must_fail() {
		let mut t = Tally::new("canary_must_fail");
		for h in HEADERS { t.case(true); if crate::tiny_v2::read::<2, ()>(h.as_bytes()).is_err() && crate::tiny_v2_diff::read(h.as_bytes()).is_err() { t.fail(format!("{h:?}"), "canary"); } }
		t.finish();
	}
